import FparserModel.Reader

/-!
# ReaderJoin — free-form continuation lines (C04), clean case

A continuation line (after cooking) has the shape `pre ++ [&]? ++ body ++ [&]?` with `pre` blanks
and `body` free of `&`, `!` and quotes. `freeStep` contributes `body` (with `pre` when there is no
leading `&`) and asks for more exactly when the line ends with `&`.
-/
namespace Fp.Reader
open Fp

def NoC (c : Char) (s : Str) : Prop := ∀ x ∈ s, x ≠ c
def Blanks (s : Str) : Prop := ∀ x ∈ s, x = ' '
def CleanBody (s : Str) : Prop := NoC '&' s ∧ NoC '!' s ∧ NoC '\'' s ∧ NoC '"' s

theorem find_none {c : Char} {s : Str} (h : NoC c s) : find s c = none := by
  unfold find
  rw [List.findIdx?_eq_none_iff]
  intro x hx
  have := h x hx
  simpa using this

theorem find_hit {c : Char} {a b : Str} (h : NoC c a) : find (a ++ c :: b) c = some a.length := by
  unfold find
  rw [List.findIdx?_append]
  have : List.findIdx? (fun x => x == c) a = none := find_none h
  rw [this]
  simp [List.findIdx?_cons]

theorem rfind_none {c : Char} {s : Str} (h : NoC c s) : rfind s c = none := by
  unfold rfind
  have : List.findIdx? (fun x => x == c) s.reverse = none := by
    rw [List.findIdx?_eq_none_iff]
    intro x hx
    have := h x (List.mem_reverse.mp hx)
    simpa using this
  rw [this]

theorem rfind_hit {c : Char} {a b : Str} (h : NoC c b) : rfind (a ++ c :: b) c = some a.length := by
  unfold rfind
  have hr : (a ++ c :: b).reverse = b.reverse ++ c :: a.reverse := by simp
  rw [hr, List.findIdx?_append]
  have : List.findIdx? (fun x => x == c) b.reverse = none := by
    rw [List.findIdx?_eq_none_iff]
    intro x hx
    have := h x (List.mem_reverse.mp hx)
    simpa using this
  rw [this]
  simp [List.findIdx?_cons]

theorem lstrip_blanks {s : Str} (h : Blanks s) : lstrip s = [] := by
  unfold lstrip
  induction s with
  | nil => rfl
  | cons x xs ih =>
    have hx : x = ' ' := h x List.mem_cons_self
    subst hx
    simp only [List.dropWhile_cons]
    have : isSpace ' ' = true := by decide
    simp only [this, if_true]
    exact ih (fun y hy => h y (List.mem_cons_of_mem _ hy))

theorem contains_false {c : Char} {s : Str} (h : NoC c s) : s.contains c = false := by
  cases hc : s.contains c with
  | false => rfl
  | true => exact absurd rfl (h c (List.contains_iff_mem.mp hc))

theorem NoC.append {c : Char} {a b : Str} (ha : NoC c a) (hb : NoC c b) : NoC c (a ++ b) :=
  fun x hx => (List.mem_append.mp hx).elim (ha x) (hb x)

theorem Blanks.noC {c : Char} {s : Str} (h : Blanks s) (hc : c ≠ ' ') : NoC c s :=
  fun x hx => by rw [h x hx]; exact fun e => hc e.symm

theorem NoC.single {c d : Char} (h : d ≠ c) : NoC c [d] := fun x hx => by
  simp only [List.mem_singleton] at hx; rw [hx]; exact h

theorem NoC.nil {c : Char} : NoC c [] := fun _ hx => by cases hx

/-- the cooked shape of a continuation line -/
def contLine (pre body : Str) (amp more : Bool) : Str :=
  pre ++ ((if amp then ['&'] else []) ++ (body ++ (if more then ['&'] else [])))

theorem contLine_noC {c : Char} (pre body : Str) (amp more : Bool) (hp : Blanks pre)
    (h1 : c ≠ ' ') (h2 : c ≠ '&') (hb : NoC c body) : NoC c (contLine pre body amp more) := by
  unfold contLine
  refine (hp.noC h1).append (NoC.append ?_ (hb.append ?_))
  · cases amp
    · exact NoC.nil
    · exact NoC.single (fun e => h2 e.symm)
  · cases more
    · exact NoC.nil
    · exact NoC.single (fun e => h2 e.symm)

theorem hic_clean (line : Str) (n : Nat) (h1 : NoC '!' line) (h2 : NoC '"' line) (h3 : NoC '\'' line) :
    handleInlineComment line n none = ⟨line, none, false, []⟩ := by
  unfold handleInlineComment
  rw [if_pos]
  rw [contains_false h1, contains_false h2, contains_false h3]
  rfl

/-- what `freeStep` does on a clean continuation line -/
theorem freeStep_cont (pre body : Str) (amp more : Bool) (n : Nat) (label : Option Nat)
    (name : Option Str) (hp : Blanks pre) (hb : CleanBody body)
    (hfin : more = false → amp = true → rstrip body ≠ []) :
    freeStep true (contLine pre body amp more) n none label name =
      ⟨label, name, ⟨contLine pre body amp more, none, false, []⟩,
       if amp then body else pre ++ body, more⟩ := by
  obtain ⟨hb1, hb2, hb3, hb4⟩ := hb
  have hh := hic_clean (contLine pre body amp more) n
    (contLine_noC pre body amp more hp (by decide) (by decide) hb2)
    (contLine_noC pre body amp more hp (by decide) (by decide) hb4)
    (contLine_noC pre body amp more hp (by decide) (by decide) hb3)
  unfold freeStep
  simp only [if_true, hh, Bool.not_true, Bool.false_eq_true, if_false]
  have hpa : NoC '&' pre := hp.noC (by decide)
  cases more with
  | true =>
    -- the line ends with `&`
    have hl : contLine pre body amp true = (pre ++ ((if amp then ['&'] else []) ++ body)) ++ '&' :: [] := by
      unfold contLine; simp
    have hr : rfind (contLine pre body amp true) '&' = some (pre ++ ((if amp = true then ['&'] else []) ++ body)).length := by
      rw [hl]; exact rfind_hit NoC.nil
    rw [hr]
    have hd : List.drop ((pre ++ ((if amp = true then ['&'] else []) ++ body)).length + 1) (contLine pre body amp true) = [] := by
      rw [hl]; exact List.drop_eq_nil_of_le (by simp; omega)
    have hrs : rstrip ([] : Str) = [] := rfl
    simp only [hd, hrs, Option.getD_some, bne_self_eq_false, Bool.false_eq_true, if_false, Bool.not_false]
    have ht : List.take (pre ++ ((if amp = true then ['&'] else []) ++ body)).length (contLine pre body amp true)
        = pre ++ ((if amp = true then ['&'] else []) ++ body) := by
      rw [hl]; exact List.take_left' rfl
    rw [ht]
    cases amp with
    | true =>
      have hf : find (pre ++ (['&'] ++ body)) '&' = some pre.length := by
        simpa using find_hit (c := '&') (a := pre) (b := body) hpa
      simp only [if_true, hf]
      have h4 : List.take pre.length (contLine pre body true true) = pre := by
        unfold contLine; exact List.take_left' rfl
      simp [h4, lstrip_blanks hp]
    | false =>
      have hf : find (pre ++ body) '&' = none := find_none (hpa.append hb1)
      simp [hf]
  | false =>
    cases amp with
    | true =>
      have hl : contLine pre body true false = pre ++ '&' :: body := by unfold contLine; simp
      have hr : rfind (contLine pre body true false) '&' = some pre.length := by
        rw [hl]; exact rfind_hit hb1
      rw [hr]
      have hd : List.drop (pre.length + 1) (contLine pre body true false) = body := by
        rw [hl]; simp
      have hne := hfin rfl rfl
      simp only [hd, Option.getD_some]
      have hf : find (contLine pre body true false) '&' = some pre.length := by
        rw [hl]; exact find_hit hpa
      have h4 : List.take pre.length (contLine pre body true false) = pre := by
        rw [hl]; exact List.take_left' rfl
      simp [hne, hf, h4, lstrip_blanks hp, hd]
    | false =>
      have hl : contLine pre body false false = pre ++ body := by unfold contLine; simp
      have hr : rfind (pre ++ body) '&' = none := rfind_none (hpa.append hb1)
      have hf : find (pre ++ body) '&' = none := find_none (hpa.append hb1)
      rw [hl]
      have ht : List.take (List.length pre + List.length body) (pre ++ body) = pre ++ body :=
        List.take_of_length_le (by simp)
      simp [hr, ht, hf]

/-! ### the loop over a whole continued statement -/

inductive CLine where
  | cont (pre body : Str) (amp more : Bool)
  | comment (text : Str)
  | blank

def CLine.text : CLine → Str
  | .cont pre body amp more => contLine pre body amp more
  | .comment t => t
  | .blank => []

def CLine.ok : CLine → Prop
  | .cont pre body amp more => Blanks pre ∧ CleanBody body ∧
      (more = false → amp = true → rstrip body ≠ []) ∧ lstrip (contLine pre body amp more) ≠ []
  | .comment t => startsWith (lstrip t) ['!'] = true
  | .blank => True

def CLine.isLast : CLine → Bool
  | .cont _ _ _ false => true
  | _ => false

/-- comment / blank / `&`-terminated lines, closed by exactly one line without trailing `&` -/
def WFc : List CLine → Prop
  | [] => False
  | [c] => c.ok ∧ c.isLast = true
  | c :: c' :: cs => c.ok ∧ c.isLast = false ∧ WFc (c' :: cs)

def joinPieces : List CLine → Str
  | [] => []
  | .cont pre body amp _ :: cs => (if amp then body else pre ++ body) ++ joinPieces cs
  | _ :: cs => joinPieces cs

/-- the comment items of the layout, numbered from physical line `n` -/
def joinComments (n : Nat) : List CLine → List Item
  | [] => []
  | .comment t :: cs => .comment (lstrip t) n n false :: joinComments (n + 1) cs
  | _ :: cs => joinComments (n + 1) cs

theorem getSingleLine_free (r : Rd) (l : Str) (rest : List Str) (h1 : r.filo = []) (h2 : r.closed = false)
    (h3 : r.isFree = true) (h4 : r.src = l :: rest) :
    getSingleLine r = (some (cook l), { r with src := rest, linecount := r.linecount + 1,
                                               linesRev := cook l :: r.linesRev }) := by
  unfold getSingleLine
  simp [h1, h2, h3, h4, pull]

theorem startsWith_lstrip_noC {c : Char} {s : Str} (h : NoC c s) : startsWith (lstrip s) [c] = false := by
  unfold startsWith lstrip
  cases hd : List.dropWhile isSpace s with
  | nil => simp
  | cons y ys =>
    have hy : y ∈ s := (List.dropWhile_sublist isSpace).subset (by rw [hd]; exact List.mem_cons_self)
    have := h y hy
    simp [this]

/-- the physical lines `ls` cook to the shapes `cs` -/
inductive Cooked : List Str → List CLine → Prop where
  | nil : Cooked [] []
  | cons {l : Str} {c : CLine} {ls : List Str} {cs : List CLine} :
      cook l = c.text → Cooked ls cs → Cooked (l :: ls) (c :: cs)

theorem cont_conds (pre body : Str) (amp more : Bool) (hp : Blanks pre) (hb : CleanBody body)
    (hne : lstrip (contLine pre body amp more) ≠ []) :
    (true && startsWith (lstrip (contLine pre body amp more)) ['!']) = false ∧
    (true && (lstrip (contLine pre body amp more) == [])) = false := by
  constructor
  · simp only [Bool.true_and]
    exact startsWith_lstrip_noC (contLine_noC pre body amp more hp (by decide) (by decide) hb.2.1)
  · simp only [Bool.true_and]
    cases h : lstrip (contLine pre body amp more) with
    | nil => exact absurd h hne
    | cons _ _ => rfl

/-- the free-form loop on a clean continued statement: pieces are concatenated, comment lines go
    to the FIFO in order with their own line numbers, blank lines vanish, the statement ends at
    the first line without trailing `&`; exactly the lines of the statement are consumed. -/
theorem freeLoop_join : ∀ (cs : List CLine) (c : CLine) (ls rest : List Str) (r : Rd) (acc : Str)
    (label : Option Nat) (name : Option Str) (endl fuel : Nat),
    WFc (c :: cs) → Cooked ls cs →
    r.src = ls ++ rest → r.filo = [] → r.closed = false → r.isFree = true → cs.length + 1 ≤ fuel →
    freeLoop false fuel (some c.text) true acc none label name endl r =
      ⟨acc ++ joinPieces (c :: cs), label, name, r.linecount + cs.length,
       { r with src := rest, linecount := r.linecount + cs.length,
                linesRev := (ls.map cook).reverse ++ r.linesRev,
                fifo := r.fifo ++ joinComments r.linecount (c :: cs) }⟩
  | [], c, ls, rest, r, acc, label, name, endl, fuel, hw, hl, hs, h1, h2, h3, hf => by
    cases hl
    obtain ⟨hok, hlast⟩ := hw
    cases c with
    | comment t => cases hlast
    | blank => cases hlast
    | cont pre body amp more =>
      cases more with
      | true => cases hlast
      | false =>
        obtain ⟨hp, hb, hfin, hne⟩ := hok
        obtain ⟨k1, k2⟩ := cont_conds pre body amp false hp hb hne
        cases fuel with
        | zero => omega
        | succ fuel =>
          unfold freeLoop
          simp only [CLine.text, Bool.false_eq_true, if_false, k1, k2,
            freeStep_cont pre body amp false r.linecount label name hp hb hfin]
          obtain ⟨src, closed, filo, fifo, lc, linesRev, isFree, ic, omp, dirs⟩ := r
          simp only [List.nil_append] at hs
          subst hs
          simp [joinPieces, joinComments]
  | c' :: cs, c, ls, rest, r, acc, label, name, endl, fuel, hw, hl, hs, h1, h2, h3, hf => by
    cases hl with
    | cons hcook hl' =>
      rename_i l ls'
      obtain ⟨hok, hlast, hw'⟩ := hw
      cases fuel with
      | zero => omega
      | succ fuel =>
        have hfuel : cs.length + 1 ≤ fuel := by simp only [List.length_cons] at hf; omega
        cases c with
        | comment t =>
          have hst : (true && startsWith (lstrip t) ['!']) = true := by
            simp only [Bool.true_and]; exact hok
          unfold freeLoop
          simp only [CLine.text, Bool.false_eq_true, if_false, hst, if_true]
          rw [getSingleLine_free { r with fifo := r.fifo ++ [Item.comment (lstrip t) r.linecount r.linecount false] }
            l (ls' ++ rest) h1 h2 h3 (by simpa using hs)]
          simp only []
          rw [hcook]
          refine (freeLoop_join cs c' ls' rest _ acc label name endl fuel hw' hl' ?_ ?_ ?_ ?_ hfuel).trans ?_
          · rfl
          · exact h1
          · exact h2
          · exact h3
          obtain ⟨src, closed, filo, fifo, lc, linesRev, isFree, ic, omp, dirs⟩ := r
          simp only [] at hs
          subst hs
          simp [joinPieces, joinComments, hcook]
          omega
        | blank =>
          unfold freeLoop
          have hb1 : (true && startsWith (lstrip ([] : Str)) ['!']) = false := by decide
          have hb2 : (true && (lstrip ([] : Str) == [])) = true := by decide
          simp only [CLine.text, Bool.false_eq_true, if_false, hb1, hb2, if_true]
          rw [getSingleLine_free r l (ls' ++ rest) h1 h2 h3 (by simpa using hs)]
          simp only []
          rw [hcook]
          refine (freeLoop_join cs c' ls' rest _ acc label name endl fuel hw' hl' ?_ ?_ ?_ ?_ hfuel).trans ?_
          · rfl
          · exact h1
          · exact h2
          · exact h3
          obtain ⟨src, closed, filo, fifo, lc, linesRev, isFree, ic, omp, dirs⟩ := r
          simp only [] at hs
          subst hs
          simp [joinPieces, joinComments, hcook]
          omega
        | cont pre body amp more =>
          cases more with
          | false => cases hlast
          | true =>
            obtain ⟨hp, hb, hfin, hne⟩ := hok
            obtain ⟨k1, k2⟩ := cont_conds pre body amp true hp hb hne
            unfold freeLoop
            simp only [CLine.text, Bool.false_eq_true, if_false, k1, k2,
              freeStep_cont pre body amp true r.linecount label name hp hb hfin, if_true]
            rw [getSingleLine_free { r with fifo := r.fifo ++ [] } l (ls' ++ rest) h1 h2 h3 (by simpa using hs)]
            simp only []
            rw [hcook]
            refine (freeLoop_join cs c' ls' rest _ _ label name _ fuel hw' hl' ?_ ?_ ?_ ?_ hfuel).trans ?_
            · rfl
            · exact h1
            · exact h2
            · exact h3
            obtain ⟨src, closed, filo, fifo, lc, linesRev, isFree, ic, omp, dirs⟩ := r
            simp only [] at hs
            subst hs
            simp [joinPieces, joinComments, hcook]
            omega

theorem Cooked.length {ls : List Str} {cs : List CLine} (h : Cooked ls cs) : ls.length = cs.length := by
  induction h with
  | nil => rfl
  | cons _ _ ih => simp [ih]

/-- `freeStep` on the first line `label name: b1 &` of a continued statement -/
theorem freeStep_first (line t1 b1 : Str) (lab : Option Nat) (nam : Option Str) (n : Nat)
    (hlab : extractLabel line = (lab, t1)) (hnam : extractName t1 = (nam, b1 ++ ['&']))
    (hb : CleanBody b1) :
    freeStep false line n none none none =
      ⟨lab, nam, ⟨b1 ++ ['&'], none, false, []⟩, b1, true⟩ := by
  obtain ⟨hb1, hb2, hb3, hb4⟩ := hb
  have hh := hic_clean (b1 ++ ['&']) n (hb2.append (NoC.single (by decide)))
    (hb4.append (NoC.single (by decide))) (hb3.append (NoC.single (by decide)))
  have hr : rfind (b1 ++ ['&']) '&' = some b1.length := rfind_hit NoC.nil
  have hd : List.drop (b1.length + 1) (b1 ++ ['&']) = [] := List.drop_eq_nil_of_le (by simp)
  have hrs : rstrip ([] : Str) = [] := rfl
  unfold freeStep
  simp only [Bool.false_eq_true, if_false, hlab, hnam, hh, hr, hd, hrs, Option.getD_some,
    bne_self_eq_false, Bool.not_false, Bool.not_true, if_true]
  simp

/-- C04 `join_continuation`: a clean continued free-form statement
    `[label] [name:] b1 &` / (comment | blank | `[&] body &`)* / `[&] body` is read as exactly ONE
    `Line` item whose text is the stripped concatenation of the pieces, with the label and name of
    the first line, span = (first physical line, last physical line); exactly its lines are
    consumed and the comment lines inside it are queued, in order, with their own line numbers. -/
theorem getSourceItem_join (r0 : Rd) (l1 l2 : Str) (ls rest : List Str) (t1 b1 : Str)
    (lab : Option Nat) (nam : Option Str) (c : CLine) (cs : List CLine)
    (hfifo : r0.fifo = []) (h1 : r0.filo = []) (h2 : r0.closed = false) (h3 : r0.isFree = true)
    (h4 : r0.omp = false) (hsrc : r0.src = l1 :: l2 :: (ls ++ rest))
    (hcpp : startsWith (lstrip (cook l1)) ['#'] = false)
    (hlab : extractLabel (cook l1) = (lab, t1)) (hnam : extractName t1 = (nam, b1 ++ ['&']))
    (hb1 : CleanBody b1) (hc2 : cook l2 = c.text) (hck : Cooked ls cs) (hw : WFc (c :: cs))
    (hne : strip (b1 ++ joinPieces (c :: cs)) ≠ []) :
    getSourceItem r0 =
      (.ok (.line (strip (b1 ++ joinPieces (c :: cs))) lab nam (r0.linecount + 1)
              (r0.linecount + 2 + cs.length)),
       { r0 with src := rest, linecount := r0.linecount + 2 + cs.length,
                 linesRev := ((l1 :: l2 :: ls).map cook).reverse ++ r0.linesRev,
                 fifo := joinComments (r0.linecount + 2) (c :: cs) }) := by
  obtain ⟨src, closed, filo, fifo, lc, linesRev, isFree, ic, omp, dirs⟩ := r0
  simp only [] at hfifo h1 h2 h3 h4 hsrc
  subst hfifo h1 h2 h3 h4 hsrc
  unfold getSourceItem
  rw [getSingleLine_free _ l1 (l2 :: (ls ++ rest)) rfl rfl rfl rfl]
  simp only [hcpp, Bool.and_false, Bool.false_eq_true, if_false, Bool.not_true]
  unfold freeItem
  simp only [List.length_cons, List.length_append, List.length_nil]
  have hfu : ls.length + rest.length + 1 + 0 + 2 = (ls.length + rest.length + 2) + 1 := by omega
  rw [hfu]
  unfold freeLoop
  simp only [Bool.false_eq_true, if_false, Bool.false_and,
    freeStep_first (cook l1) t1 b1 lab nam (lc + 1) hlab hnam hb1, if_true]
  rw [getSingleLine_free _ l2 (ls ++ rest) rfl rfl rfl rfl]
  simp only [hc2, List.nil_append]
  rw [freeLoop_join cs c ls rest _ b1 lab nam (lc + 1) (ls.length + rest.length + 2) hw hck rfl rfl rfl rfl
    (by rw [← hck.length]; omega)]
  simp only [hne, bne_iff_ne, ne_eq, not_false_eq_true, if_true]
  simp [hc2]

end Fp.Reader
