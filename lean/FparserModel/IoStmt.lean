import FparserModel.Py
import FparserModel.Splitline
import FparserModel.Combi
/-!
# IoStmt — executable mirror of the HAND-WRITTEN leaf classes of the execution part
# (`fparser/two/Fortran2003.py` and their overrides in `fparser/two/Fortran2008/`)

`match` (ad-hoc string slicing) and the separately written `tostr`, branch for branch, for

    Write_Stmt  Read_Stmt  Print_Stmt  Io_Control_Spec_List  Io_Control_Spec
    Open_Stmt (2003 = CALLBase, 2008 = + constraints)  Close_Stmt  Inquire_Stmt
    Connect_Spec (2003 / 2008 keyword list)  Close_Spec  Inquire_Spec
    Format_Stmt  Format_Specification  Format_Item (2003 / 2008 `*(…)`)  Format_Item_List
    Control_Edit_Desc
    Loop_Control (2003 / 2008 CONCURRENT)  Label_Do_Stmt  Nonlabel_Do_Stmt
    If_Stmt  If_Then_Stmt  Else_If_Stmt  Select_Case_Stmt  Case_Stmt  Case_Selector
    Case_Value_Range  Where_Stmt  Forall_Header  Forall_Triplet_Spec  Forall_Stmt
    Allocate_Stmt  Alloc_Opt (2003 / 2008 MOLD)  Allocation  Deallocate_Stmt  Dealloc_Opt
    Nullify_Stmt  Stop_Stmt  Error_Stop_Stmt  Goto_Stmt  Computed_Goto_Stmt
    Arithmetic_If_Stmt  Call_Stmt  Actual_Arg_Spec(_List) and the generated `*_List` classes

Expressions, names, designators — every class the `match` of one of the above calls — are OPAQUE:
an `Oracle` answers `cls(text)` with a node, `NoMatchError`, or an escaping exception, and prints
nodes.  The model parses the statement SHAPE and hands the pieces to the oracle, in the order in
which the Python makes the calls.

Outcome of a `match`: `Res.ok items` (the tuple), `Res.noMatch` (`return None` or a
`NoMatchError` raised by a child — both end in "no match" in `Base.__new__`), `Res.raises e`
(any other exception: it ESCAPES from the parser; property C06).

Two-stage organisation (as in `Combi.lean`) wherever the control flow does not depend on a
child's value: `planX : Str → Res (List Slot)` (pure string processing, slots in EVALUATION order,
a trailing `Slot.fail` / `Slot.raise` = `return None` / an exception AFTER the preceding calls) and
`runSlots`.  Where the tuple order differs from the evaluation order an `arrange` permutation
follows.  The classes whose control flow depends on the children (`Io_Control_Spec_List`, the
keyword tables with `try/except`, `Forall_Header`, F2008 `Format_Item`, `Loop_Control`, `Open_Stmt`)
are written directly against the oracle.

The classes that are instances of the generic combinators (`Close_Stmt`, `Nullify_Stmt`, …) are
`Combi.Spec` values run through the `Combi` splitters.
ASCII domain as in `Py.lean`.
-/
namespace Fp.IoStmt
open Fp Fp.Splitline

abbrev ClassId := Nat

/-! ## outcomes -/

inductive Exc where
  | indexError | valueError | assertionError | typeError | keyError | internalError
  | child (info : Str)      -- an exception (not `NoMatchError`) raised inside a child call; opaque
deriving Repr, DecidableEq

inductive Res (α : Type) where
  | ok (a : α)
  | noMatch
  | raises (e : Exc)
deriving Repr, DecidableEq

def Res.bind {α β : Type} : Res α → (α → Res β) → Res β
  | .ok a, f => f a
  | .noMatch, _ => .noMatch
  | .raises e, _ => .raises e

def Res.map {α β : Type} (f : α → β) : Res α → Res β
  | .ok a => .ok (f a)
  | .noMatch => .noMatch
  | .raises e => .raises e

inductive Std where
  | f2003 | f2008
deriving Repr, DecidableEq

/-! ## slots, items, oracle -/

/-- one child call (or constant) a `match` is about to make, in evaluation order -/
inductive Slot where
  | none
  | str (s : Str)
  | child (c : ClassId) (s : Str)     -- `cls(s)`
  | fail                              -- `return None` reached after the preceding calls
  | raise (e : Exc)                   -- an exception raised after the preceding calls
deriving Repr, DecidableEq

/-- one entry of `self.items` -/
inductive Item (Node : Type) where
  | none
  | str (s : Str)
  | node (n : Node)
  | bare (n : Node)            -- a KeywordValue node whose `items[0]` was overwritten with `None`
  | nodes (ns : List Node)     -- a Python list of nodes (`Loop_Control.items[1][1]`)
deriving Repr, DecidableEq

structure Oracle (Node : Type) where
  /-- `cls(text)` -/
  call : ClassId → Str → Res Node
  /-- `str(node)` -/
  str : Node → Str
  /-- `node.children[0]` when it is a `str` (the keyword of a KeywordValue node) -/
  head : Node → Option Str
  /-- `str(node.items[1])` (the value of a KeywordValue node) -/
  rhsStr : Node → Str
  /-- `[c.children[0] for c in node.children]` (the keywords of a `*_Spec_List` node) -/
  heads : Node → List (Option Str)
  /-- `isinstance(node, (Data_Edit_Desc, Data_Edit_Desc_C1002))` -/
  isDataEdit : Node → Bool

variable {Node : Type}

def runSlot (o : Oracle Node) : Slot → Res (Item Node)
  | .none => .ok .none
  | .str s => .ok (.str s)
  | .child c s => (o.call c s).map .node
  | .fail => .noMatch
  | .raise e => .raises e

/-- the child calls in evaluation order, fail-fast -/
def runSlots (o : Oracle Node) : List Slot → Res (List (Item Node))
  | [] => .ok []
  | s :: ss =>
    match runSlot o s with
    | .ok i =>
      (match runSlots o ss with
        | .ok is => .ok (i :: is)
        | .noMatch => .noMatch
        | .raises e => .raises e)
    | .noMatch => .noMatch
    | .raises e => .raises e

/-- `"%s" % item` -/
def Item.text (o : Oracle Node) : Item Node → Str
  | .none => "None".toList
  | .str s => s
  | .node n => o.str n
  | .bare n => o.rhsStr n
  | .nodes ns => Combi.joinStr ", ".toList (ns.map o.str)

/-! ## class ids (index into `clsNames`; the translator checks every name against the live modules) -/

def clsNames : List String := [
  "Io_Control_Spec_List", "Output_Item_List", "Input_Item_List", "Format", "Io_Control_Spec",
  "Io_Unit", "Namelist_Group_Name", "Scalar_Default_Char_Expr", "Scalar_Char_Initialization_Expr",
  "Label", "Scalar_Int_Variable", "Iomsg_Variable", "Scalar_Int_Expr", "Connect_Spec_List",
  "Close_Spec_List", "Inquire_Spec_List", "File_Unit_Number", "File_Name_Expr",
  "Scalar_Default_Char_Variable", "Scalar_Default_Logical_Variable", "Connect_Spec", "Close_Spec",
  "Inquire_Spec", "Format_Specification", "Format_Item_List", "Format_Item", "R", "K",
  "Data_Edit_Desc", "Control_Edit_Desc", "Hollerith_Item", "Do_Variable", "Scalar_Logical_Expr",
  "Forall_Header", "Loop_Control", "Action_Stmt_C802", "Action_Stmt_C828", "If_Construct_Name",
  "Case_Expr", "Case_Construct_Name", "Case_Selector", "Case_Value_Range_List", "Case_Value_Range",
  "Case_Value", "Mask_Expr", "Where_Assignment_Stmt", "Forall_Triplet_Spec_List",
  "Forall_Triplet_Spec", "Scalar_Mask_Expr", "Index_Name", "Subscript", "Stride",
  "Forall_Assignment_Stmt", "Type_Spec", "Alloc_Opt_List", "Alloc_Opt", "Allocation_List",
  "Allocation", "Allocate_Object", "Allocate_Shape_Spec_List", "Stat_Variable", "Errmsg_Variable",
  "Source_Expr", "Allocate_Object_List", "Dealloc_Opt_List", "Dealloc_Opt", "Pointer_Object_List",
  "Stop_Code", "Label_List", "Scalar_Numeric_Expr", "Procedure_Designator", "Actual_Arg_Spec_List",
  "Actual_Arg_Spec", "Keyword", "Actual_Arg",
  -- modelled classes that are nobody's child here
  "Write_Stmt", "Read_Stmt", "Print_Stmt", "Open_Stmt", "Close_Stmt", "Inquire_Stmt", "Format_Stmt",
  "Label_Do_Stmt", "Nonlabel_Do_Stmt", "If_Stmt", "If_Then_Stmt", "Else_If_Stmt",
  "Select_Case_Stmt", "Case_Stmt", "Where_Stmt", "Forall_Stmt", "Allocate_Stmt", "Deallocate_Stmt",
  "Nullify_Stmt", "Stop_Stmt", "Error_Stop_Stmt", "Goto_Stmt", "Computed_Goto_Stmt",
  "Arithmetic_If_Stmt", "Call_Stmt", "Forall_Construct_Stmt"]

namespace C
def Io_Control_Spec_List : ClassId := 0
def Output_Item_List : ClassId := 1
def Input_Item_List : ClassId := 2
def Format : ClassId := 3
def Io_Control_Spec : ClassId := 4
def Io_Unit : ClassId := 5
def Namelist_Group_Name : ClassId := 6
def Scalar_Default_Char_Expr : ClassId := 7
def Scalar_Char_Initialization_Expr : ClassId := 8
def Label : ClassId := 9
def Scalar_Int_Variable : ClassId := 10
def Iomsg_Variable : ClassId := 11
def Scalar_Int_Expr : ClassId := 12
def Connect_Spec_List : ClassId := 13
def Close_Spec_List : ClassId := 14
def Inquire_Spec_List : ClassId := 15
def File_Unit_Number : ClassId := 16
def File_Name_Expr : ClassId := 17
def Scalar_Default_Char_Variable : ClassId := 18
def Scalar_Default_Logical_Variable : ClassId := 19
def Connect_Spec : ClassId := 20
def Close_Spec : ClassId := 21
def Inquire_Spec : ClassId := 22
def Format_Specification : ClassId := 23
def Format_Item_List : ClassId := 24
def Format_Item : ClassId := 25
def R : ClassId := 26
def K : ClassId := 27
def Data_Edit_Desc : ClassId := 28
def Control_Edit_Desc : ClassId := 29
def Hollerith_Item : ClassId := 30
def Do_Variable : ClassId := 31
def Scalar_Logical_Expr : ClassId := 32
def Forall_Header : ClassId := 33
def Loop_Control : ClassId := 34
def Action_Stmt_C802 : ClassId := 35
def Action_Stmt_C828 : ClassId := 36
def If_Construct_Name : ClassId := 37
def Case_Expr : ClassId := 38
def Case_Construct_Name : ClassId := 39
def Case_Selector : ClassId := 40
def Case_Value_Range_List : ClassId := 41
def Case_Value_Range : ClassId := 42
def Case_Value : ClassId := 43
def Mask_Expr : ClassId := 44
def Where_Assignment_Stmt : ClassId := 45
def Forall_Triplet_Spec_List : ClassId := 46
def Forall_Triplet_Spec : ClassId := 47
def Scalar_Mask_Expr : ClassId := 48
def Index_Name : ClassId := 49
def Subscript : ClassId := 50
def Stride : ClassId := 51
def Forall_Assignment_Stmt : ClassId := 52
def Type_Spec : ClassId := 53
def Alloc_Opt_List : ClassId := 54
def Alloc_Opt : ClassId := 55
def Allocation_List : ClassId := 56
def Allocation : ClassId := 57
def Allocate_Object : ClassId := 58
def Allocate_Shape_Spec_List : ClassId := 59
def Stat_Variable : ClassId := 60
def Errmsg_Variable : ClassId := 61
def Source_Expr : ClassId := 62
def Allocate_Object_List : ClassId := 63
def Dealloc_Opt_List : ClassId := 64
def Dealloc_Opt : ClassId := 65
def Pointer_Object_List : ClassId := 66
def Stop_Code : ClassId := 67
def Label_List : ClassId := 68
def Scalar_Numeric_Expr : ClassId := 69
def Procedure_Designator : ClassId := 70
def Actual_Arg_Spec_List : ClassId := 71
def Actual_Arg_Spec : ClassId := 72
def Keyword : ClassId := 73
def Actual_Arg : ClassId := 74
def Write_Stmt : ClassId := 75
def Read_Stmt : ClassId := 76
def Print_Stmt : ClassId := 77
def Open_Stmt : ClassId := 78
def Close_Stmt : ClassId := 79
def Inquire_Stmt : ClassId := 80
def Format_Stmt : ClassId := 81
def Label_Do_Stmt : ClassId := 82
def Nonlabel_Do_Stmt : ClassId := 83
def If_Stmt : ClassId := 84
def If_Then_Stmt : ClassId := 85
def Else_If_Stmt : ClassId := 86
def Select_Case_Stmt : ClassId := 87
def Case_Stmt : ClassId := 88
def Where_Stmt : ClassId := 89
def Forall_Stmt : ClassId := 90
def Allocate_Stmt : ClassId := 91
def Deallocate_Stmt : ClassId := 92
def Nullify_Stmt : ClassId := 93
def Stop_Stmt : ClassId := 94
def Error_Stop_Stmt : ClassId := 95
def Goto_Stmt : ClassId := 96
def Computed_Goto_Stmt : ClassId := 97
def Arithmetic_If_Stmt : ClassId := 98
def Call_Stmt : ClassId := 99
def Forall_Construct_Stmt : ClassId := 100
end C

/-! ## Python `str` helpers -/

/-- `string[:n].upper() == KW` (`KW` upper case, `n = len(KW)`) -/
def kwIs (kw s : Str) : Bool := upper (s.take kw.length) == kw

/-- `s.startswith(c)` for one character -/
def startsC (c : Char) (s : Str) : Bool := s.head? == some c
/-- `s.endswith(c)` for one character -/
def endsC (c : Char) (s : Str) : Bool := s.getLast? == some c

/-- `s[1:-1]` -/
def inner (s : Str) : Str := (s.drop 1).dropLast

/-- `string.lstrip().rstrip()` -/
def lrstrip (s : Str) : Str := rstrip (lstrip s)

/-- `line, repmap = string_replace_map(line)`; the `KeyError` of the un-nesting loop (cannot
    occur at /repo HEAD) is kept as an outcome -/
def tok (s : Str) : Res SrmResult :=
  match Combi.tokenise s with
  | some r => .ok r
  | none => .raises .keyError

/-- `s.find(a+b)` for a two-character needle: the text before and after the first occurrence -/
def cutSub2 (a b : Char) : Str → Option (Str × Str)
  | [] => none
  | [_] => none
  | x :: y :: rest =>
    if x == a && y == b then some ([], rest)
    else match cutSub2 a b (y :: rest) with
      | some p => some (x :: p.1, p.2)
      | none => none

/-- `s.split(c)` for one character -/
def splitC (c : Char) (s : Str) : List Str := Combi.splitGo [c] 0 s

/-- `s.count(c)` -/
def countC (c : Char) (s : Str) : Nat := (s.filter (· == c)).length

/-- `skip_digits(string)` of Fortran2003.py: `(found, index)` — `index` is the LAST index visited
    (`0` for the empty string), `found` = the loop broke at an index `> 0` -/
def skipDigitsAux : Nat → Str → Bool × Nat
  | i, [] => (false, i - 1)
  | i, c :: cs =>
    if !(isDigit c || c == ' ') then (decide (i > 0), i)
    else skipDigitsAux (i + 1) cs

def skipDigits (s : Str) : Bool × Nat := skipDigitsAux 0 s

/-- `"A" <= c <= "Z" or c == "_"` for `c = ch.upper()` -/
def isNameStartU (c : Char) : Bool :=
  let u := upperC c
  ('A' ≤ u && u ≤ 'Z') || u == '_'

/-! ## the generic-combinator instances -/

def ofCombiSlot : Combi.Slot → Slot
  | .none => .none
  | .str s => .str s
  | .child c s => .child c s
  | .crash => .raise .typeError
  | .fail => .fail

def ofCombi : Option (List Combi.Slot) → Res (List Slot)
  | none => .noMatch
  | some slots => .ok (slots.map ofCombiSlot)

/-- the plan of a class whose `match` is `return <Base>.match(<constants>, string)` -/
def combiPlan (sp : Combi.Spec) (s : Str) : Res (List Slot) := ofCombi (sp.split s)

/-- items → the `Combi` items over printed texts (for the inherited `tostr`s) -/
def toCombiItem (o : Oracle Node) : Item Node → Combi.Item Str
  | .none => .none
  | .str s => .str s
  | i => .node (i.text o)

def textOracle : Combi.Oracle Str := { childMatch := fun _ s => some s, childStr := id }

/-- the inherited `tostr` of a generic-combinator class -/
def combiStr (o : Oracle Node) (sp : Combi.Spec) (items : List (Item Node)) : Res Str :=
  match sp.str textOracle (items.map (toCombiItem o)) with
  | some t => .ok t
  | none => .raises .internalError

def specOpen : Combi.Spec := .call (.kw "OPEN".toList) (.cls C.Connect_Spec_List) true true
def specClose : Combi.Spec := .call (.kw "CLOSE".toList) (.cls C.Close_Spec_List) true true
def specNullify : Combi.Spec := .call (.kw "NULLIFY".toList) (.cls C.Pointer_Object_List) true true
def specAllocation : Combi.Spec := .call (.cls C.Allocate_Object) (.cls C.Allocate_Shape_Spec_List) false true
def specFormatStmt : Combi.Spec := .word ["FORMAT".toList] false (some C.Format_Specification) false true false
def specFormatSpecification : Combi.Spec := .bracket "()".toList (some C.Format_Item_List) false
def specNonlabelDo : Combi.Spec := .word ["DO".toList] false (some C.Loop_Control) false false false
def specStop : Combi.Spec := .word ["STOP".toList] false (some C.Stop_Code) false false false
def specErrorStop : Combi.Spec := .word ["ERROR STOP".toList] false (some C.Stop_Code) false false false
def specForallConstruct : Combi.Spec := .word ["FORALL".toList] false (some C.Forall_Header) false true false
def specCaseValueRange : Combi.Spec := .sep (some C.Case_Value) (some C.Case_Value) false false
def specActualArgSpec : Combi.Spec := .kv (.cls C.Keyword) C.Actual_Arg true false
def specList (elem : ClassId) : Combi.Spec := .seq ",".toList elem

/-! ## the keyword tables (`KeywordValueBase.match(k, v, string, upper_lhs=True)` in a loop) -/

/-- one `(keyword, class)` attempt: `none` = `return None` -/
def kvOne (k : Str) (c : ClassId) (s : Str) : Option (List Slot) :=
  (Combi.kvSplit (.kw k) c true true s).map (·.map ofCombiSlot)

/-- `for k, v in table: obj = KeywordValueBase.match(k, v, string, upper_lhs=True) …`.
    `catch` = the call is wrapped in `try … except NoMatchError: obj = None`.
    A nested keyword list (`(["END","EOR","ERR"], Label)`) behaves as its flattening.
    Result `.noMatch` here = the loop ended (the caller decides what follows): `none`. -/
def kvTable (o : Oracle Node) (catchNM : Bool) : List (Str × ClassId) → Str → Option (Res (List (Item Node)))
  | [], _ => none
  | (k, c) :: rest, s =>
    match kvOne k c s with
    | none => kvTable o catchNM rest s
    | some slots =>
      match runSlots o slots with
      | .ok items => some (.ok items)
      | .noMatch => if catchNM then kvTable o catchNM rest s else some .noMatch
      | .raises e => some (.raises e)

def flat (ks : List String) (c : ClassId) : List (String × ClassId) := ks.map fun k => (k, c)

/-- the keyword tables are kept as `String`s (cheap to compare with the live tables in the kernel)
    and used as `Str` -/
def strTable (t : List (String × ClassId)) : List (Str × ClassId) := t.map fun p => (p.1.toList, p.2)

def ioControlTableS : List (String × ClassId) :=
  flat ["UNIT"] C.Io_Unit ++ flat ["FMT"] C.Format ++ flat ["NML"] C.Namelist_Group_Name ++
  flat ["ADVANCE", "BLANK", "DECIMAL", "DELIM", "PAD", "ROUND", "SIGN"] C.Scalar_Default_Char_Expr ++
  flat ["ASYNCHRONOUS"] C.Scalar_Char_Initialization_Expr ++
  flat ["END", "EOR", "ERR"] C.Label ++
  flat ["ID", "IOSTAT", "SIZE"] C.Scalar_Int_Variable ++
  flat ["IOMSG"] C.Iomsg_Variable ++ flat ["POS", "REC"] C.Scalar_Int_Expr

def ioControlTable : List (Str × ClassId) := strTable (ioControlTableS)

/-- `"open-convert" in EXTENSIONS()` (checked by the translator) -/
def openConvertExt : Bool := true
/-- `"dollar-descriptor" in EXTENSIONS()` (checked by the translator) -/
def dollarExt : Bool := true

def connectTableS (std : Std) : List (String × ClassId) :=
  flat ["ACCESS", "ACTION", "ASYNCHRONOUS", "BLANK", "DECIMAL", "DELIM", "ENCODING", "FORM", "PAD",
        "POSITION", "ROUND", "SIGN", "STATUS"] C.Scalar_Default_Char_Expr ++
  flat ["ERR"] C.Label ++ flat ["FILE"] C.File_Name_Expr ++ flat ["IOSTAT"] C.Scalar_Int_Variable ++
  flat ["IOMSG"] C.Iomsg_Variable ++ flat ["RECL"] C.Scalar_Int_Expr ++
  flat ["UNIT"] C.File_Unit_Number ++
  (if openConvertExt then flat ["CONVERT"] C.Scalar_Default_Char_Expr else []) ++
  (match std with
    | .f2003 => []
    | .f2008 => flat ["NEWUNIT"] C.File_Unit_Number)

def connectTable (std : Std) : List (Str × ClassId) := strTable (connectTableS std)

def closeTableS : List (String × ClassId) :=
  flat ["ERR"] C.Label ++ flat ["IOSTAT"] C.Scalar_Int_Variable ++ flat ["IOMSG"] C.Iomsg_Variable ++
  flat ["STATUS"] C.Scalar_Default_Char_Expr ++ flat ["UNIT"] C.File_Unit_Number

def closeTable : List (Str × ClassId) := strTable (closeTableS)

def inquireTableS : List (String × ClassId) :=
  flat ["ACCESS", "ACTION", "ASYNCHRONOUS", "BLANK", "DECIMAL", "DELIM", "DIRECT", "ENCODING", "FORM",
        "NAME", "PAD", "POSITION", "READ", "READWRITE", "ROUND", "SEQUENTIAL", "SIGN", "STREAM",
        "UNFORMATTED", "WRITE"] C.Scalar_Default_Char_Variable ++
  flat ["ERR"] C.Label ++
  flat ["EXIST", "NAMED", "PENDING", "OPENED"] C.Scalar_Default_Logical_Variable ++
  flat ["ID"] C.Scalar_Int_Expr ++
  flat ["IOSTAT", "NEXTREC", "NUMBER", "POS", "RECL", "SIZE"] C.Scalar_Int_Variable ++
  flat ["IOMSG"] C.Iomsg_Variable ++ flat ["FILE"] C.File_Name_Expr ++ flat ["UNIT"] C.File_Unit_Number

def inquireTable : List (Str × ClassId) := strTable (inquireTableS)

def allocOptTableS (std : Std) : List (String × ClassId) :=
  flat ["STAT"] C.Stat_Variable ++ flat ["ERRMSG"] C.Errmsg_Variable ++ flat ["SOURCE"] C.Source_Expr ++
  (match std with
    | .f2003 => []
    | .f2008 => flat ["MOLD"] C.Source_Expr)

def allocOptTable (std : Std) : List (Str × ClassId) := strTable (allocOptTableS std)

def deallocOptTableS : List (String × ClassId) :=
  flat ["STAT"] C.Stat_Variable ++ flat ["ERRMSG"] C.Errmsg_Variable

def deallocOptTable : List (Str × ClassId) := strTable (deallocOptTableS)

/-- the table ran out: `return None` -/
def tableOr (r : Option (Res (List (Item Node)))) (dflt : Res (List (Item Node))) :
    Res (List (Item Node)) :=
  match r with
  | some x => x
  | none => dflt

/-- `return "UNIT", File_Unit_Number(string)` -/
def unitDefault (o : Oracle Node) (s : Str) : Res (List (Item Node)) :=
  runSlots o [.str "UNIT".toList, .child C.File_Unit_Number s]

/-- `Io_Control_Spec.match` -/
def matchIoControlSpec (o : Oracle Node) (s : Str) : Res (List (Item Node)) :=
  tableOr (kvTable o false ioControlTable s) .noMatch

/-- `Connect_Spec.match` (the keyword list is a class method: F2008 adds `NEWUNIT`) -/
def matchConnectSpec (std : Std) (o : Oracle Node) (s : Str) : Res (List (Item Node)) :=
  if !s.contains '=' then unitDefault o s
  else tableOr (kvTable o true (connectTable std) s) .noMatch

/-- `Close_Spec.match` -/
def matchCloseSpec (o : Oracle Node) (s : Str) : Res (List (Item Node)) :=
  tableOr (kvTable o true closeTable s) (unitDefault o s)

/-- `Inquire_Spec.match` -/
def matchInquireSpec (o : Oracle Node) (s : Str) : Res (List (Item Node)) :=
  if !s.contains '=' then unitDefault o s
  else tableOr (kvTable o true inquireTable s) .noMatch

/-- `Alloc_Opt.match` (no `try`: a child's `NoMatchError` ends the loop) -/
def matchAllocOpt (std : Std) (o : Oracle Node) (s : Str) : Res (List (Item Node)) :=
  tableOr (kvTable o false (allocOptTable std) s) .noMatch

/-- `Dealloc_Opt.match` -/
def matchDeallocOpt (o : Oracle Node) (s : Str) : Res (List (Item Node)) :=
  tableOr (kvTable o true deallocOptTable s) .noMatch

/-- `KeywordValueBase.tostr` over items -/
def kvStr (o : Oracle Node) : List (Item Node) → Res Str
  | [.none, r] => .ok (r.text o)
  | [l, r] => .ok (l.text o ++ " = ".toList ++ r.text o)
  | _ => .raises .indexError

/-! ## Write_Stmt / Read_Stmt / Print_Stmt -/

def planWrite (s : Str) : Res (List Slot) :=
  if !kwIs "WRITE".toList s then .noMatch else
  let line := lstrip (s.drop 5)
  if !startsC '(' line then .noMatch else
  (tok line).bind fun r =>
  match Combi.cutFirst ')' r.text with
  | none => .noMatch
  | some (pre, post) =>
    let tmp := strip (pre.drop 1)
    if tmp.isEmpty then .noMatch else
    if post.isEmpty then .ok [.child C.Io_Control_Spec_List (applyMap r.map tmp), .none]
    else .ok [.child C.Io_Control_Spec_List (applyMap r.map tmp),
              .child C.Output_Item_List (applyMap r.map (lstrip post))]

def tostrWrite (o : Oracle Node) : List (Item Node) → Res Str
  | [a, .none] => .ok ("WRITE(".toList ++ a.text o ++ ")".toList)
  | [a, b] => .ok ("WRITE(".toList ++ a.text o ++ ") ".toList ++ b.text o)
  | _ => .raises .indexError

def planRead (s : Str) : Res (List Slot) :=
  if !kwIs "READ".toList s then .noMatch else
  let line := lstrip (s.drop 4)
  if startsC '(' line then
    (tok line).bind fun r =>
    match Combi.cutFirst ')' r.text with
    | none => .noMatch
    | some (pre, post) =>
      let trimline := strip (pre.drop 1)
      if trimline.isEmpty then .noMatch else
      if post.isEmpty then
        .ok [.child C.Io_Control_Spec_List (applyMap r.map trimline), .none, .none]
      else
        .ok [.child C.Io_Control_Spec_List (applyMap r.map trimline), .none,
             .child C.Input_Item_List (applyMap r.map (lstrip post))]
  else
    match line with
    | [] => .noMatch
    | c :: _ =>
      if isNameStartU c then .noMatch else
      (tok (lstrip line)).bind fun r =>
      match Combi.cutFirst ',' r.text with
      | none => .noMatch
      | some (pre, post) =>
        let trimline := applyMap r.map (lstrip post)
        if trimline.isEmpty then .noMatch else
        .ok [.none, .child C.Format (applyMap r.map (rstrip pre)), .child C.Output_Item_List trimline]

/-- `Read_Stmt.tostr` with its two `assert`s -/
def tostrRead (o : Oracle Node) : List (Item Node) → Res Str
  | [.none, .none, _] => .raises .assertionError
  | [.none, b, .none] => .ok ("READ ".toList ++ b.text o)
  | [.none, b, c] => .ok ("READ ".toList ++ b.text o ++ ", ".toList ++ c.text o)
  | [a, .none, .none] => .ok ("READ(".toList ++ a.text o ++ ")".toList)
  | [a, .none, c] => .ok ("READ(".toList ++ a.text o ++ ") ".toList ++ c.text o)
  | [_, _, _] => .raises .assertionError
  | _ => .raises .indexError

def planPrint (s : Str) : Res (List Slot) :=
  if !kwIs "PRINT".toList s then .noMatch else
  match s.drop 5 with
  | [] => .noMatch
  | c :: rest =>
    if isNameStartU c || isDigit c then .noMatch else
    (tok (lstrip (c :: rest))).bind fun r =>
    match Combi.cutFirst ',' r.text with
    | none => .ok [.child C.Format (applyMap r.map r.text), .none]
    | some (pre, post) =>
      let tmp := applyMap r.map (lstrip post)
      if tmp.isEmpty then .noMatch else
      .ok [.child C.Format (applyMap r.map (rstrip pre)), .child C.Output_Item_List tmp]

def tostrPrint (o : Oracle Node) : List (Item Node) → Res Str
  | [a, .none] => .ok ("PRINT ".toList ++ a.text o)
  | [a, b] => .ok ("PRINT ".toList ++ a.text o ++ ", ".toList ++ b.text o)
  | _ => .raises .indexError

/-! ## Io_Control_Spec_List -/

/-- `Io_Control_Spec(text)`, then `io_spec.items = (None, io_spec.items[1])` -/
def bareSpec (o : Oracle Node) (text : Str) : Res (Item Node) :=
  (o.call C.Io_Control_Spec text).map .bare

def namedSpec (o : Oracle Node) (text : Str) : Res (Item Node) :=
  (o.call C.Io_Control_Spec text).map .node

/-- `for spec in splitted: lst.append(Io_Control_Spec(repmap(spec.strip())))` -/
def namedSpecs (o : Oracle Node) (m : Map) : List Str → Res (List (Item Node))
  | [] => .ok []
  | p :: ps =>
    (namedSpec o (applyMap m (strip p))).bind fun i =>
    (namedSpecs o m ps).bind fun is => .ok (i :: is)

/-- the `for cls, name in [(Namelist_Group_Name, "nml"), (Format, "fmt")]` loop: `none` = the
    `else:` clause (`raise NoMatchError`); an exception that is not `NoMatchError` escapes -/
def unnamedSecond (o : Oracle Node) (spec : Str) : List (ClassId × String) → Res (Option (Item Node))
  | [] => .ok none
  | (c, name) :: rest =>
    match o.call c spec with
    | .raises e => .raises e
    | .noMatch => unnamedSecond o spec rest
    | .ok _ =>
      match bareSpec o (name.toList ++ '=' :: spec) with
      | .raises e => .raises e
      | .noMatch => unnamedSecond o spec rest
      | .ok i => .ok (some i)

/-- `spec.children[0]` of a list entry -/
def Item.head (o : Oracle Node) : Item Node → Option Str
  | .node n => o.head n
  | _ => Option.none

/-- the constraint checks at the end (C910, C916) -/
def ioControlChecks (o : Oracle Node) (haveUnit0 haveUnnamed : Bool) (lst : List (Item Node)) :
    Res (List (Item Node)) :=
  let haveUnit := haveUnit0 || lst.any fun i => i.head o == some "UNIT".toList
  let haveNml := lst.any fun i => i.head o == some "NML".toList
  let haveFmt := lst.any fun i => i.head o == some "FMT".toList
  if !haveUnit then .noMatch
  else if haveNml && haveFmt then .noMatch
  else if haveUnnamed && (haveNml || haveFmt) then .noMatch
  else .ok lst

/-- `Io_Control_Spec_List.match`; the result is `self.items` (the separator `","` is fixed) -/
def matchIoControlSpecList (o : Oracle Node) (s : Str) : Res (List (Item Node)) :=
  (tok s).bind fun r =>
  match splitC ',' r.text with
  | [] => .raises .indexError          -- `str.split` never returns an empty list
  | p0 :: rest =>
    let spec0 := applyMap r.map (strip p0)
    -- the inner `try`: `first` = (lst so far, remaining pieces, have_unit, have_unnamed), or the
    -- `except NoMatchError` clause with the current `spec` and the list built so far
    let named (lst : List (Item Node)) (spec : Str) (rest : List Str) (hu hn : Bool) :
        Res (List (Item Node)) :=
      (namedSpec o spec).bind fun i =>
      (namedSpecs o r.map rest).bind fun is => ioControlChecks o hu hn (lst ++ i :: is)
    match o.call C.Io_Unit spec0 with
    | .raises e => .raises e
    | .noMatch => named [] spec0 rest false false
    | .ok _ =>
      match bareSpec o ("unit=".toList ++ spec0) with
      | .raises e => .raises e
      | .noMatch => named [] spec0 rest false false
      | .ok u =>
        match rest with
        | [] => .ok [u]                  -- returned WITHOUT the constraint checks
        | p1 :: rest' =>
          let spec1 := applyMap r.map (strip p1)
          match unnamedSecond o spec1 [(C.Namelist_Group_Name, "nml"), (C.Format, "fmt")] with
          | .raises e => .raises e
          | .noMatch => .noMatch
          | .ok (some i) =>
            (namedSpecs o r.map rest').bind fun is => ioControlChecks o true true (u :: i :: is)
          | .ok none => named [u] spec1 rest' true false

/-- `SequenceBase.tostr` with separator `","` -/
def tostrList (o : Oracle Node) (items : List (Item Node)) : Res Str :=
  .ok (Combi.joinStr ", ".toList (items.map (Item.text o)))

/-! ## Open_Stmt (F2008: constraints C903, C904, C906 over the keywords of the list) -/

def openChecks : List (Option Str) → List (Option Str) → Bool → Bool → Bool
  | [], _, hu, hn => hu || hn
  | h :: hs, seen, hu, hn =>
    if seen.contains h then false else
    let hu' := hu || h == some "UNIT".toList
    let hn' := hn || h == some "NEWUNIT".toList
    if hu' && hn' then false else openChecks hs (seen ++ [h]) hu' hn'

def matchOpen (std : Std) (o : Oracle Node) (s : Str) : Res (List (Item Node)) :=
  match std with
  | .f2003 => (combiPlan specOpen s).bind (runSlots o)
  | .f2008 =>
    ((combiPlan specOpen s).bind (runSlots o)).bind fun items =>
    match items with
    | [_, .node n] => if openChecks (o.heads n) [] false false then .ok items else .noMatch
    | _ => .raises .indexError

/-! ## Inquire_Stmt -/

def planInquire (s : Str) : Res (List Slot) :=
  if !kwIs "INQUIRE".toList s then .noMatch else
  let line := lstrip (s.drop 7)
  if !startsC '(' line then .noMatch else
  if endsC ')' line then .ok [.child C.Inquire_Spec_List (strip (inner line)), .none, .none] else
  (tok line).bind fun r =>
  match Combi.cutFirst ')' r.text with
  | none => .noMatch
  | some (pre, post) =>
    let tmp := applyMap r.map (pre.drop 1)
    if !kwIs "IOLENGTH".toList tmp then .noMatch else
    let tmp := lstrip (tmp.drop 8)
    if !startsC '=' tmp then .noMatch else
    let tmp := lstrip (tmp.drop 1)
    .ok [.none, .child C.Scalar_Int_Variable tmp,
         .child C.Output_Item_List (applyMap r.map (lstrip post))]

def tostrInquire (o : Oracle Node) : List (Item Node) → Res Str
  | [.none, .none, _] => .raises .assertionError
  | [.none, _, .none] => .raises .assertionError
  | [.none, b, c] => .ok ("INQUIRE(IOLENGTH=".toList ++ b.text o ++ ") ".toList ++ c.text o)
  | [a, _, _] => .ok ("INQUIRE(".toList ++ a.text o ++ ")".toList)
  | _ => .raises .indexError

/-! ## Format_Item / Format_Item_List / Control_Edit_Desc -/

/-- `Format_Item.match` of Fortran2003.py -/
def planFormatItem (s : Str) : Res (List Slot) :=
  if s.isEmpty then .noMatch else
  let ss := strip s
  if ss.isEmpty then .noMatch else
  let fi := skipDigits ss
  let rslot : Slot := if fi.1 then .child C.R (ss.take fi.2) else .none
  let my := if fi.1 then lstrip (ss.drop fi.2) else ss
  match my.head?, my.getLast? with
  | some h, some l =>
    if h == '(' && l == ')' then .ok [rslot, .child C.Format_Item_List (lstrip (inner my))]
    else .ok [rslot, .child C.Data_Edit_Desc my]
  | _, _ => .ok [rslot, .raise .indexError]        -- `my_string[0]` on an empty string

/-- the F2008 tail of `Format_Item.match`: `*( format-item-list )` -/
def planFormatItemStar (s : Str) : Res (List Slot) :=
  let ss := strip s
  if ss.isEmpty then .noMatch else
  if startsC '*' ss && decide (ss.length > 1) then
    let my := lstrip (ss.drop 1)
    match my.head?, my.getLast? with
    | some h, some l =>
      if h == '(' && l == ')' then .ok [.str "*".toList, .child C.Format_Item_List (lstrip (inner my))]
      else .noMatch
    | _, _ => .raises .indexError
  else .noMatch

/-- `Format_Item.match` (F2008: the F2003 match first, inside `try … except NoMatchError`) -/
def matchFormatItem (std : Std) (o : Oracle Node) (s : Str) : Res (List (Item Node)) :=
  match std with
  | .f2003 => (planFormatItem s).bind (runSlots o)
  | .f2008 =>
    if s.isEmpty then .noMatch else
    match (planFormatItem s).bind (runSlots o) with
    | .ok items => .ok items
    | .raises e => .raises e
    | .noMatch => (planFormatItemStar s).bind (runSlots o)

/-- `Format_Item.tostr` (inherited by the F2008 class) -/
def tostrFormatItem (o : Oracle Node) : List (Item Node) → Res Str
  | [r, .node n] =>
    let rs : Str := match r with
      | .none => []
      | r => r.text o
    if o.isDataEdit n then .ok (rs ++ o.str n) else .ok (rs ++ "(".toList ++ o.str n ++ ")".toList)
  | [_, _] => .raises .internalError
  | _ => .raises .internalError

/-- the Hollerith prefix `^[1-9][0-9 ]*[hH]`: the matched text -/
def hollerithPrefix (s : Str) : Option Str :=
  match s with
  | [] => none
  | c :: cs =>
    if '1' ≤ c && c ≤ '9' then
      let run := cs.takeWhile fun d => isDigit d || d == ' '
      match cs.drop run.length with
      | h :: _ => if h == 'h' || h == 'H' then some (c :: run ++ [h]) else none
      | [] => none
    else none

/-- `int(text)` for a text of digits and blanks that starts with a digit: surrounding blanks are
    accepted, an inner blank is a `ValueError` -/
def pyInt (s : Str) : Option Nat :=
  let t := rstrip s
  if t.all isDigit && !t.isEmpty then some (digitsToNat t) else none

/-- after an item: `if current_string and current_string[0] == ",": current_string = current_string[1:].lstrip()` -/
def skipComma (s : Str) : Str :=
  match s with
  | ',' :: rest => lstrip rest
  | s => s

/-- `re.search("[,/:]", line)`: the text before the first of the three, the character, the rest -/
def cutSep : Str → Option (Str × Char × Str)
  | [] => none
  | c :: cs =>
    if c == ',' || c == '/' || c == ':' then some ([], c, cs)
    else match cutSep cs with
      | some (a, d, b) => some (c :: a, d, b)
      | none => none

/-- the `while current_string:` loop of `Format_Item_List.match` (children in call order) -/
def formatItemListLoop : Nat → Str → List Slot
  | 0, _ => [.fail]
  | fuel+1, cur =>
    if cur.isEmpty then [] else
    let fi := skipDigits cur
    if fi.1 && (cur.drop fi.2).head? == some '/' then
      .child C.Control_Edit_Desc (cur.take (fi.2 + 1)) ::
        formatItemListLoop fuel (skipComma (lstrip (cur.drop (fi.2 + 1))))
    else match cur with
    | [] => []
    | c0 :: _ =>
      if c0 == ':' || c0 == '/' then
        .child C.Control_Edit_Desc [c0] ::
          formatItemListLoop fuel (skipComma (lstrip (cur.drop (fi.2 + 1))))
      else match hollerithPrefix cur with
      | some m =>
        -- `hol_length_str = match_str[:-1].replace(" ", "")` (fa6d1cf; before: `match_str[:-1]`,
        -- and `int("1 2")` raised); the `ValueError` branch of `int` is kept and PROVED unreachable
        (match pyInt (Combi.noSpaces m.dropLast) with
          | none => [.raise .valueError]
          | some n =>
            let numChars := m.length + n
            if cur.length < numChars then [.fail] else
            let rest := lstrip (cur.drop numChars)
            .child C.Hollerith_Item (cur.take numChars) ::
              (match rest with
                | [] => []
                | d :: _ =>
                  if d == ',' then formatItemListLoop fuel (lstrip (rest.drop 1))
                  else if d == '/' || d == ':' then formatItemListLoop fuel rest
                  else [.fail]))
      | none =>
        match Combi.tokenise cur with
        | none => [.raise .keyError]
        | some r =>
          match cutSep r.text with
          | some (a, d, b) =>
            let next := applyMap r.map (d :: b)
            .child C.Format_Item (applyMap r.map a) ::
              formatItemListLoop fuel (if d == ',' then lstrip (next.drop 1) else next)
          | none => [.child C.Format_Item (applyMap r.map r.text)]

def planFormatItemList (s : Str) : Res (List Slot) :=
  if s.isEmpty then .noMatch else
  let cur := lstrip s
  if cur.isEmpty then .noMatch else
  .ok (formatItemListLoop (2 * cur.length + 2) cur)

def planControlEditDesc (s : Str) : Res (List Slot) :=
  if s.isEmpty then .noMatch else
  let ss := strip s
  match ss.getLast? with
  | none => .noMatch
  | some l =>
    if ss.length == 1 && (l == '/' || l == ':' || l == '$') then
      if l == '$' && !dollarExt then .noMatch else .ok [.none, .str ss]
    else if l == '/' then .ok [.child C.R (rstrip ss.dropLast), .str "/".toList]
    else if upperC l == 'P' then .ok [.child C.K (rstrip ss.dropLast), .str "P".toList]
    else .noMatch

def tostrControlEditDesc (o : Oracle Node) : List (Item Node) → Res Str
  | [.none, d] => if (d.text o).isEmpty then .raises .internalError else .ok (d.text o)
  | [r, d] => if (d.text o).isEmpty then .raises .internalError else .ok (r.text o ++ d.text o)
  | _ => .raises .internalError

/-! ## Loop_Control / Label_Do_Stmt -/

def delimSlot (d : Bool) : Slot := if d then .str ",".toList else .none

/-- `Loop_Control.match` of Fortran2003.py, slots in call order: `[cond, None, delim]` or
    `[None, var, e1, e2 (, e3), delim]` (grouped into `(var, [exprs])` by `groupLoop`) -/
def planLoopControl03 (s : Str) : Res (List Slot) :=
  let line0 := lrstrip s
  let d := startsC ',' line0
  let line := if d then lstrip (line0.drop 1) else line0
  (tok line).bind fun r =>
  let brackets := lstrip (r.text.drop 5)
  let whileForm : Option Str :=
    if kwIs "WHILE".toList r.text && startsC '(' brackets then
      match Combi.cutFirst ')' brackets with
      | some (pre, []) => some (applyMap r.map (strip (pre.drop 1)))
      | _ => none
    else none
  match whileForm with
  | some cond => .ok [.child C.Scalar_Logical_Expr cond, .none, delimSlot d]
  | none =>
    if countC '=' r.text != 1 then .noMatch else
    match Combi.cutFirst '=' r.text with
    | none => .noMatch
    | some (var, rhs) =>
      let es := (splitC ',' (lstrip rhs)).map strip
      if !(2 ≤ es.length && es.length ≤ 3) then .noMatch else
      .ok (.none :: .child C.Do_Variable (applyMap r.map (rstrip var)) ::
            (es.map fun e => Slot.child C.Scalar_Int_Expr (applyMap r.map e)) ++ [delimSlot d])

/-- the CONCURRENT form of Fortran2008/loop_control_r818.py -/
def planConcurrent (s : Str) : Res (List Slot) :=
  let line0 := lstrip s
  let d := startsC ',' line0
  let line := if d then lstrip (line0.drop 1) else line0
  if !kwIs "CONCURRENT".toList line then .noMatch else
  .ok [.none, .none, delimSlot d, .child C.Forall_Header (rstrip (lstrip (line.drop 10)))]

/-- `Loop_Control.match`; F2008: the 2003 forms FIRST (`result + (None,)`), the CONCURRENT form
    only when the 2003 matcher RETURNED `None` (a child's `NoMatchError` is not caught) -/
def planLoopControl (std : Std) (s : Str) : Res (List Slot) :=
  match std with
  | .f2003 => planLoopControl03 s
  | .f2008 =>
    match planLoopControl03 s with
    | .ok slots => .ok (slots ++ [.none])
    | .raises e => .raises e
    | .noMatch => planConcurrent s

def nodesOf : List (Item Node) → List Node
  | .node n :: r => n :: nodesOf r
  | _ => []

/-- flat call-order items → `self.items`: `[None, var, e…, delim (, None)]` becomes
    `[None, var, [e…], delim (, None)]`; `tail` = number of entries after the expressions -/
def groupLoop (tail : Nat) : List (Item Node) → List (Item Node)
  | .none :: .node v :: rest =>
    let k := rest.length - tail
    [.none, .node v, .nodes (nodesOf (rest.take k))] ++ rest.drop k
  | l => l

def loopTail : Std → Nat
  | .f2003 => 1
  | .f2008 => 2

/-- `Loop_Control.tostr` of Fortran2003.py -/
def tostrLoopControl03 (o : Oracle Node) (items : List (Item Node)) : Res Str :=
  let withDelim (d : Item Node) (t : Str) : Str :=
    match d with
    | .str ds => if ds.isEmpty then t else ds ++ ' ' :: t
    | _ => t
  match items with
  | .node c :: .none :: d :: _ => .ok (withDelim d ("WHILE (".toList ++ o.str c ++ ")".toList))
  | .none :: .node v :: .nodes ns :: d :: _ =>
    .ok (withDelim d (o.str v ++ " = ".toList ++ Combi.joinStr ", ".toList (ns.map o.str)))
  | _ => .raises .typeError

def tostrLoopControl (std : Std) (o : Oracle Node) (items : List (Item Node)) : Res Str :=
  match std with
  | .f2003 => tostrLoopControl03 o items
  | .f2008 =>
    match items with
    | [.none, .none, d, h] =>
      let t := "CONCURRENT ".toList ++ h.text o
      (match d with
        | .str ds => if ds.isEmpty then .ok t else .ok (ds ++ ' ' :: t)
        | _ => .ok t)
    | items => tostrLoopControl03 o items

/-- `pattern.label.match(line)`: `\d{1,5}` at the head of the line -/
def labelPrefix (s : Str) : Str := (s.takeWhile isDigit).take 5

def planLabelDo (s : Str) : Res (List Slot) :=
  if !kwIs "DO".toList s then .noMatch else
  let line := lstrip (s.drop 2)
  let label := labelPrefix line
  if label.isEmpty then .noMatch else
  let rest := lstrip (line.drop label.length)
  if !rest.isEmpty then .ok [.none, .child C.Label label, .child C.Loop_Control rest]
  else .ok [.none, .child C.Label label, .none]

/-- `Label_Do_Stmt.tostr`; `"%s: DO %s" % label` with a name present is a `TypeError`
    (`match` never sets the name) -/
def tostrLabelDo (o : Oracle Node) : List (Item Node) → Res Str
  | [.none, l, .none] => .ok ("DO ".toList ++ l.text o)
  | [.none, l, lc] => .ok ("DO ".toList ++ l.text o ++ ' ' :: lc.text o)
  | [_, _, _] => .raises .typeError
  | _ => .raises .valueError

/-! ## If_Stmt / If_Then_Stmt / Else_If_Stmt / Select_Case_Stmt / Case_Stmt / Case_Selector -/

def actionStmtCls : Std → ClassId
  | .f2003 => C.Action_Stmt_C802
  | .f2008 => C.Action_Stmt_C828

def planIf (std : Std) (s : Str) : Res (List Slot) :=
  if !kwIs "IF".toList s then .noMatch else
  (tok s).bind fun r =>
  let line := lstrip (r.text.drop 2)
  if !startsC '(' line then .noMatch else
  match Combi.cutFirst ')' line with
  | none => .noMatch
  | some (pre, post) =>
    .ok [.child C.Scalar_Logical_Expr (applyMap r.map (strip (pre.drop 1))),
         .child (actionStmtCls std) (applyMap r.map (lstrip post))]

def tostrIf (o : Oracle Node) : List (Item Node) → Res Str
  | [a, b] => .ok ("IF (".toList ++ a.text o ++ ") ".toList ++ b.text o)
  | _ => .raises .typeError

def planIfThen (s : Str) : Res (List Slot) :=
  if !kwIs "IF".toList s then .noMatch else
  if upper (s.drop (s.length - 4)) != "THEN".toList then .noMatch else
  let line := strip ((s.take (s.length - 4)).drop 2)
  match line.head?, line.getLast? with
  | some h, some l =>
    if !(h == '(' && l == ')') then .noMatch
    else .ok [.child C.Scalar_Logical_Expr (strip (inner line))]
  | _, _ => .noMatch

def tostrIfThen (o : Oracle Node) : List (Item Node) → Res Str
  | [a] => .ok ("IF (".toList ++ a.text o ++ ") THEN".toList)
  | _ => .raises .typeError

def planElseIf (s : Str) : Res (List Slot) :=
  if !kwIs "ELSE".toList s then .noMatch else
  let line := lstrip (s.drop 4)
  if !kwIs "IF".toList line then .noMatch else
  let line := lstrip (line.drop 2)
  if !startsC '(' line then .noMatch else
  match Combi.cutLast ')' line with
  | none => .noMatch
  | some (pre, post) =>
    let expr := strip (pre.drop 1)
    let line := lstrip post
    if !kwIs "THEN".toList line then .noMatch else
    let line := lstrip (line.drop 4)
    if !line.isEmpty then .ok [.child C.Scalar_Logical_Expr expr, .child C.If_Construct_Name line]
    else .ok [.child C.Scalar_Logical_Expr expr, .none]

def tostrElseIf (o : Oracle Node) : List (Item Node) → Res Str
  | [a, .none] => .ok ("ELSE IF (".toList ++ a.text o ++ ") THEN".toList)
  | [a, b] => .ok ("ELSE IF (".toList ++ a.text o ++ ") THEN ".toList ++ b.text o)
  | _ => .raises .typeError

def planSelectCase (s : Str) : Res (List Slot) :=
  if !kwIs "SELECT".toList s then .noMatch else
  let line := lstrip (s.drop 6)
  if !kwIs "CASE".toList line then .noMatch else
  let line := lstrip (line.drop 4)
  match line.head?, line.getLast? with
  | some h, some l =>
    if !(h == '(' && l == ')') then .noMatch
    else .ok [.child C.Case_Expr (strip (inner line))]
  | _, _ => .noMatch

def tostrSelectCase (o : Oracle Node) : List (Item Node) → Res Str
  | a :: _ => .ok ("SELECT CASE (".toList ++ a.text o ++ ")".toList)
  | [] => .raises .indexError

/-- `Case_Stmt.match`: the construct name is matched BEFORE the selector; slots in call order -/
def planCase (s : Str) : Res (List Slot) :=
  if !kwIs "CASE".toList s then .noMatch else
  (tok (lstrip (s.drop 4))).bind fun r =>
  if startsC '(' r.text then
    match Combi.cutFirst ')' r.text with
    | none => .noMatch
    | some (pre, post) =>
      let n := lstrip post
      .ok [if n.isEmpty then .none else .child C.Case_Construct_Name (applyMap r.map n),
           .child C.Case_Selector (applyMap r.map (rstrip (pre ++ [')'])))]
  else if kwIs "DEFAULT".toList r.text then
    let n := applyMap r.map (lstrip (r.text.drop 7))
    .ok [if n.isEmpty then .none else .child C.Case_Construct_Name (applyMap r.map n),
         .child C.Case_Selector (r.text.take 7)]
  else .noMatch

/-- call order `[name, selector]` → tuple order `(selector, name)` -/
def swap2 {α : Type} : List α → List α
  | [a, b] => [b, a]
  | l => l

def tostrCase (o : Oracle Node) : List (Item Node) → Res Str
  | [a, .none] => .ok ("CASE ".toList ++ a.text o)
  | [a, b] => .ok ("CASE ".toList ++ a.text o ++ ' ' :: b.text o)
  | _ => .raises .typeError

def planCaseSelector (s : Str) : Res (List Slot) :=
  if s.length == 7 && upper s == "DEFAULT".toList then .ok [.none] else
  if !(startsC '(' s && endsC ')' s) then .noMatch else
  .ok [.child C.Case_Value_Range_List (strip (inner s))]

def tostrCaseSelector (o : Oracle Node) : List (Item Node) → Res Str
  | .none :: _ => .ok "DEFAULT".toList
  | a :: _ => .ok ("(".toList ++ a.text o ++ ")".toList)
  | [] => .raises .indexError

/-! ## Where_Stmt / Forall_Header / Forall_Triplet_Spec / Forall_Stmt -/

def planWhere (s : Str) : Res (List Slot) :=
  if !kwIs "WHERE".toList s then .noMatch else
  (tok (lstrip (s.drop 5))).bind fun r =>
  if !startsC '(' r.text then .noMatch else
  match Combi.cutFirst ')' r.text with
  | none => .noMatch
  | some (pre, post) =>
    let stmt := applyMap r.map (lstrip post)
    if stmt.isEmpty then .noMatch else
    let expr := applyMap r.map (strip (pre.drop 1))
    if expr.isEmpty then .noMatch else
    .ok [.child C.Mask_Expr expr, .child C.Where_Assignment_Stmt stmt]

def tostrWhere (o : Oracle Node) : List (Item Node) → Res Str
  | [a, b] => .ok ("WHERE (".toList ++ a.text o ++ ") ".toList ++ b.text o)
  | _ => .raises .typeError

/-- the `except NoMatchError:` branch of `Forall_Header.match` -/
def planForallHeaderMask (nobr : Str) : Res (List Slot) :=
  (tok nobr).bind fun r =>
  match Combi.cutLast ',' r.text with
  | none => .noMatch
  | some (l, rr) =>
    .ok [.child C.Forall_Triplet_Spec_List (applyMap r.map (rstrip l)),
         .child C.Scalar_Mask_Expr (applyMap r.map (lstrip rr))]

def matchForallHeader (o : Oracle Node) (s : Str) : Res (List (Item Node)) :=
  let ss := strip s
  match ss.head?, ss.getLast? with
  | some h, some l =>
    if !(h == '(' && l == ')') then .noMatch else
    let nobr := strip (inner ss)
    match o.call C.Forall_Triplet_Spec_List nobr with
    | .ok n => .ok [.node n, .none]
    | .raises e => .raises e
    | .noMatch => (planForallHeaderMask nobr).bind (runSlots o)
  | _, _ => .noMatch

def tostrForallHeader (o : Oracle Node) : List (Item Node) → Res Str
  | [.none, _] => .raises .internalError
  | [a, .none] => .ok ("(".toList ++ a.text o ++ ")".toList)
  | [a, b] => .ok ("(".toList ++ a.text o ++ ", ".toList ++ b.text o ++ ")".toList)
  | _ => .raises .internalError

def planForallTriplet (s : Str) : Res (List Slot) :=
  (tok s).bind fun r =>
  match Combi.cutFirst '=' r.text with
  | none => .noMatch
  | some (pre, post) =>
    let n := Slot.child C.Index_Name (applyMap r.map (rstrip pre))
    match (splitC ':' (lstrip post)).map fun p => applyMap r.map (strip p) with
    | [a, b] => .ok [n, .child C.Subscript a, .child C.Subscript b, .none]
    | [a, b, c] => .ok [n, .child C.Subscript a, .child C.Subscript b, .child C.Stride c]
    | _ => .ok [n, .fail]

def tostrForallTriplet (o : Oracle Node) : List (Item Node) → Res Str
  | [n, a, b, .none] => .ok (n.text o ++ " = ".toList ++ a.text o ++ " : ".toList ++ b.text o)
  | [n, a, b, c] =>
    .ok (n.text o ++ " = ".toList ++ a.text o ++ " : ".toList ++ b.text o ++ " : ".toList ++ c.text o)
  | _ => .raises .typeError

def planForall (s : Str) : Res (List Slot) :=
  let ss := strip s
  if !kwIs "FORALL".toList ss then .noMatch else
  (tok (lstrip (ss.drop 6))).bind fun r =>
  if !startsC '(' r.text then .noMatch else
  match Combi.cutFirst ')' r.text with
  | none => .noMatch
  | some (pre, post) =>
    let header := applyMap r.map (pre ++ [')'])
    let line := applyMap r.map (lstrip post)
    if line.isEmpty then .noMatch else
    .ok [.child C.Forall_Header header, .child C.Forall_Assignment_Stmt line]

def tostrForall (o : Oracle Node) : List (Item Node) → Res Str
  | [a, b] => .ok ("FORALL ".toList ++ a.text o ++ ' ' :: b.text o)
  | _ => .raises .internalError

/-! ## Allocate_Stmt / Deallocate_Stmt -/

/-- the option tail `[, opts]`: `idx = line.find("=")`, `jdx = line[:idx].rfind(",")`.
    `none` = no `=`; `some none` = `=` without a preceding comma (`return None`);
    `some (some (objects, opts))` -/
def cutOpts (line : Str) : Option (Option (Str × Str)) :=
  match Combi.cutFirst '=' line with
  | none => none
  | some (pre, post) =>
    match Combi.cutLast ',' pre with
    | none => some none
    | some (a, b) => some (some (rstrip a, lstrip (b ++ '=' :: post)))

def allocOptListCls : ClassId := C.Alloc_Opt_List

/-- `Allocate_Stmt.match`: call order `[type-spec, opts, allocation-list]` -/
def planAllocate (s : Str) : Res (List Slot) :=
  if !kwIs "ALLOCATE".toList s then .noMatch else
  let line := lstrip (s.drop 8)
  if !(startsC '(' line && endsC ')' line) then .noMatch else
  (tok (strip (inner line))).bind fun r =>
  let sp : Slot × Str :=
    match cutSub2 ':' ':' r.text with
    | some (a, b) => (.child C.Type_Spec (applyMap r.map (rstrip a)), lstrip b)
    | none => (.none, r.text)
  match cutOpts sp.2 with
  | none => .ok [sp.1, .none, .child C.Allocation_List (applyMap r.map sp.2)]
  | some none => .ok [sp.1, .fail]
  | some (some (objs, opts)) =>
    .ok [sp.1, .child allocOptListCls (applyMap r.map opts), .child C.Allocation_List (applyMap r.map objs)]

/-- call order `[spec, opts, list]` → tuple order `(spec, list, opts)` -/
def arrangeAllocate {α : Type} : List α → List α
  | [a, b, c] => [a, c, b]
  | l => l

def tostrAllocate (o : Oracle Node) : List (Item Node) → Res Str
  | [.none, l, .none] => .ok ("ALLOCATE(".toList ++ l.text o ++ ")".toList)
  | [.none, l, op] => .ok ("ALLOCATE(".toList ++ l.text o ++ ", ".toList ++ op.text o ++ ")".toList)
  | [sp, l, .none] => .ok ("ALLOCATE(".toList ++ sp.text o ++ "::".toList ++ l.text o ++ ")".toList)
  | [sp, l, op] =>
    .ok ("ALLOCATE(".toList ++ sp.text o ++ "::".toList ++ l.text o ++ ", ".toList ++ op.text o ++ ")".toList)
  | _ => .raises .valueError

/-- `Deallocate_Stmt.match`: call order `[opts, object-list]` -/
def planDeallocate (s : Str) : Res (List Slot) :=
  if !kwIs "DEALLOCATE".toList s then .noMatch else
  let line := lstrip (s.drop 10)
  if !(startsC '(' line && endsC ')' line) then .noMatch else
  (tok (strip (inner line))).bind fun r =>
  match cutOpts r.text with
  | none => .ok [.none, .child C.Allocate_Object_List (applyMap r.map r.text)]
  | some none => .noMatch
  | some (some (objs, opts)) =>
    .ok [.child C.Dealloc_Opt_List (applyMap r.map opts), .child C.Allocate_Object_List (applyMap r.map objs)]

def tostrDeallocate (o : Oracle Node) : List (Item Node) → Res Str
  | [a, .none] => .ok ("DEALLOCATE(".toList ++ a.text o ++ ")".toList)
  | [a, b] => .ok ("DEALLOCATE(".toList ++ a.text o ++ ", ".toList ++ b.text o ++ ")".toList)
  | _ => .raises .typeError

/-! ## Goto_Stmt / Computed_Goto_Stmt / Arithmetic_If_Stmt / Call_Stmt -/

def planGoto (s : Str) : Res (List Slot) :=
  if !kwIs "GO".toList s then .noMatch else
  let line := lstrip (s.drop 2)
  if !kwIs "TO".toList line then .noMatch else
  .ok [.child C.Label (lstrip (line.drop 2))]

def tostrGoto (o : Oracle Node) : List (Item Node) → Res Str
  | a :: _ => .ok ("GO TO ".toList ++ a.text o)
  | [] => .raises .indexError

def planComputedGoto (s : Str) : Res (List Slot) :=
  if !kwIs "GO".toList s then .noMatch else
  let line := lstrip (s.drop 2)
  if !kwIs "TO".toList line then .noMatch else
  let line := lstrip (line.drop 2)
  if !startsC '(' line then .noMatch else
  match Combi.cutFirst ')' line with
  | none => .noMatch
  | some (pre, post) =>
    let lst := strip (pre.drop 1)
    if lst.isEmpty then .noMatch else
    let line := lstrip post
    let line := if startsC ',' line then lstrip (line.drop 1) else line
    if line.isEmpty then .noMatch else
    .ok [.child C.Label_List lst, .child C.Scalar_Int_Expr line]

def tostrComputedGoto (o : Oracle Node) : List (Item Node) → Res Str
  | [a, b] => .ok ("GO TO (".toList ++ a.text o ++ "), ".toList ++ b.text o)
  | _ => .raises .typeError

/-- `Arithmetic_If_Stmt.match`: the three labels are matched BEFORE the expression -/
def planArithmeticIf (s : Str) : Res (List Slot) :=
  if !kwIs "IF".toList s then .noMatch else
  let line := lstrip (s.drop 2)
  if !startsC '(' line then .noMatch else
  match Combi.cutLast ')' line with
  | none => .noMatch
  | some (pre, post) =>
    match splitC ',' (lstrip post) with
    | [a, b, c] =>
      .ok [.child C.Label (strip a), .child C.Label (strip b), .child C.Label (strip c),
           .child C.Scalar_Numeric_Expr (strip (pre.drop 1))]
    | _ => .noMatch

/-- call order `[l1, l2, l3, expr]` → tuple order `(expr, l1, l2, l3)` -/
def arrangeArithmeticIf {α : Type} : List α → List α
  | [a, b, c, e] => [e, a, b, c]
  | l => l

def tostrArithmeticIf (o : Oracle Node) : List (Item Node) → Res Str
  | [e, a, b, c] =>
    .ok ("IF (".toList ++ e.text o ++ ") ".toList ++ a.text o ++ ", ".toList ++ b.text o ++
          ", ".toList ++ c.text o)
  | _ => .raises .typeError

def planCall (s : Str) : Res (List Slot) :=
  if !kwIs "CALL".toList s then .noMatch else
  (tok (lstrip (s.drop 4))).bind fun r =>
  if endsC ')' r.text then
    match Combi.cutLast '(' r.text with
    | none => .noMatch
    | some (pre, post) =>
      let args := applyMap r.map (strip post.dropLast)
      let pd := Slot.child C.Procedure_Designator (applyMap r.map (rstrip pre))
      if !args.isEmpty then .ok [pd, .child C.Actual_Arg_Spec_List args] else .ok [pd, .none]
  else .ok [.child C.Procedure_Designator (lstrip (s.drop 4)), .none]

def tostrCall (o : Oracle Node) : List (Item Node) → Res Str
  | [a, .none] => .ok ("CALL ".toList ++ a.text o)
  | [a, b] => .ok ("CALL ".toList ++ a.text o ++ "(".toList ++ b.text o ++ ")".toList)
  | _ => .raises .typeError

/-! ## dispatch -/

/-- the plan of the classes whose control flow does not depend on the children (slots in call
    order), `none` for the others -/
def planOf (std : Std) (c : ClassId) : Option (Str → Res (List Slot)) :=
  if c == C.Write_Stmt then some planWrite
  else if c == C.Read_Stmt then some planRead
  else if c == C.Print_Stmt then some planPrint
  else if c == C.Close_Stmt then some (combiPlan specClose)
  else if c == C.Inquire_Stmt then some planInquire
  else if c == C.Format_Stmt then some (combiPlan specFormatStmt)
  else if c == C.Format_Specification then some (combiPlan specFormatSpecification)
  else if c == C.Format_Item_List then some planFormatItemList
  else if c == C.Control_Edit_Desc then some planControlEditDesc
  else if c == C.Loop_Control then some (planLoopControl std)
  else if c == C.Label_Do_Stmt then some planLabelDo
  else if c == C.Nonlabel_Do_Stmt then some (combiPlan specNonlabelDo)
  else if c == C.If_Stmt then some (planIf std)
  else if c == C.If_Then_Stmt then some planIfThen
  else if c == C.Else_If_Stmt then some planElseIf
  else if c == C.Select_Case_Stmt then some planSelectCase
  else if c == C.Case_Stmt then some planCase
  else if c == C.Case_Selector then some planCaseSelector
  else if c == C.Case_Value_Range then some (combiPlan specCaseValueRange)
  else if c == C.Where_Stmt then some planWhere
  else if c == C.Forall_Triplet_Spec then some planForallTriplet
  else if c == C.Forall_Stmt then some planForall
  else if c == C.Forall_Construct_Stmt then some (combiPlan specForallConstruct)
  else if c == C.Allocate_Stmt then some planAllocate
  else if c == C.Allocation then some (combiPlan specAllocation)
  else if c == C.Deallocate_Stmt then some planDeallocate
  else if c == C.Nullify_Stmt then some (combiPlan specNullify)
  else if c == C.Stop_Stmt then some (combiPlan specStop)
  else if c == C.Error_Stop_Stmt then some (combiPlan specErrorStop)
  else if c == C.Goto_Stmt then some planGoto
  else if c == C.Computed_Goto_Stmt then some planComputedGoto
  else if c == C.Arithmetic_If_Stmt then some planArithmeticIf
  else if c == C.Call_Stmt then some planCall
  else if c == C.Actual_Arg_Spec then some (combiPlan specActualArgSpec)
  else if c == C.Actual_Arg_Spec_List then some (combiPlan (specList C.Actual_Arg_Spec))
  else if c == C.Connect_Spec_List then some (combiPlan (specList C.Connect_Spec))
  else if c == C.Close_Spec_List then some (combiPlan (specList C.Close_Spec))
  else if c == C.Inquire_Spec_List then some (combiPlan (specList C.Inquire_Spec))
  else if c == C.Alloc_Opt_List then some (combiPlan (specList C.Alloc_Opt))
  else if c == C.Dealloc_Opt_List then some (combiPlan (specList C.Dealloc_Opt))
  else if c == C.Allocation_List then some (combiPlan (specList C.Allocation))
  else if c == C.Case_Value_Range_List then some (combiPlan (specList C.Case_Value_Range))
  else if c == C.Forall_Triplet_Spec_List then some (combiPlan (specList C.Forall_Triplet_Spec))
  else none

/-- call order → tuple order -/
def arrangeOf (std : Std) (c : ClassId) : List (Item Node) → List (Item Node) :=
  if c == C.Loop_Control then groupLoop (loopTail std)
  else if c == C.Case_Stmt then swap2
  else if c == C.Deallocate_Stmt then swap2
  else if c == C.Allocate_Stmt then arrangeAllocate
  else if c == C.Arithmetic_If_Stmt then arrangeArithmeticIf
  else id

/-- `cls.match(string)` for a modelled class: `self.items` in tuple order; `none` = not modelled -/
def matchOf (std : Std) (o : Oracle Node) (c : ClassId) (s : Str) : Option (Res (List (Item Node))) :=
  match planOf std c with
  | some plan => some (((plan s).bind (runSlots o)).map (arrangeOf std c))
  | none =>
    if c == C.Io_Control_Spec_List then some (matchIoControlSpecList o s)
    else if c == C.Io_Control_Spec then some (matchIoControlSpec o s)
    else if c == C.Open_Stmt then some (matchOpen std o s)
    else if c == C.Connect_Spec then some (matchConnectSpec std o s)
    else if c == C.Close_Spec then some (matchCloseSpec o s)
    else if c == C.Inquire_Spec then some (matchInquireSpec o s)
    else if c == C.Alloc_Opt then some (matchAllocOpt std o s)
    else if c == C.Dealloc_Opt then some (matchDeallocOpt o s)
    else if c == C.Format_Item then some (matchFormatItem std o s)
    else if c == C.Forall_Header then some (matchForallHeader o s)
    else none

/-- the Combi spec of a generic-combinator class (for the inherited `tostr`) -/
def specOf (c : ClassId) : Option Combi.Spec :=
  if c == C.Open_Stmt then some specOpen
  else if c == C.Close_Stmt then some specClose
  else if c == C.Format_Stmt then some specFormatStmt
  else if c == C.Format_Specification then some specFormatSpecification
  else if c == C.Nonlabel_Do_Stmt then some specNonlabelDo
  else if c == C.Case_Value_Range then some specCaseValueRange
  else if c == C.Forall_Construct_Stmt then some specForallConstruct
  else if c == C.Allocation then some specAllocation
  else if c == C.Nullify_Stmt then some specNullify
  else if c == C.Stop_Stmt then some specStop
  else if c == C.Error_Stop_Stmt then some specErrorStop
  else if c == C.Actual_Arg_Spec then some specActualArgSpec
  else none

def isListCls (c : ClassId) : Bool :=
  [C.Io_Control_Spec_List, C.Format_Item_List, C.Actual_Arg_Spec_List, C.Connect_Spec_List,
   C.Close_Spec_List, C.Inquire_Spec_List, C.Alloc_Opt_List, C.Dealloc_Opt_List, C.Allocation_List,
   C.Case_Value_Range_List, C.Forall_Triplet_Spec_List].contains c

def isKvCls (c : ClassId) : Bool :=
  [C.Io_Control_Spec, C.Connect_Spec, C.Close_Spec, C.Inquire_Spec, C.Alloc_Opt, C.Dealloc_Opt].contains c

/-- `str(obj)` = `obj.tostr()` for a modelled class over its items; `none` = not modelled -/
def tostrOf (std : Std) (o : Oracle Node) (c : ClassId) (items : List (Item Node)) : Option (Res Str) :=
  if isListCls c then some (tostrList o items)
  else if isKvCls c then some (kvStr o items)
  else match specOf c with
  | some sp => some (combiStr o sp items)
  | none =>
    if c == C.Write_Stmt then some (tostrWrite o items)
    else if c == C.Read_Stmt then some (tostrRead o items)
    else if c == C.Print_Stmt then some (tostrPrint o items)
    else if c == C.Inquire_Stmt then some (tostrInquire o items)
    else if c == C.Format_Item then some (tostrFormatItem o items)
    else if c == C.Control_Edit_Desc then some (tostrControlEditDesc o items)
    else if c == C.Loop_Control then some (tostrLoopControl std o items)
    else if c == C.Label_Do_Stmt then some (tostrLabelDo o items)
    else if c == C.If_Stmt then some (tostrIf o items)
    else if c == C.If_Then_Stmt then some (tostrIfThen o items)
    else if c == C.Else_If_Stmt then some (tostrElseIf o items)
    else if c == C.Select_Case_Stmt then some (tostrSelectCase o items)
    else if c == C.Case_Stmt then some (tostrCase o items)
    else if c == C.Case_Selector then some (tostrCaseSelector o items)
    else if c == C.Where_Stmt then some (tostrWhere o items)
    else if c == C.Forall_Header then some (tostrForallHeader o items)
    else if c == C.Forall_Triplet_Spec then some (tostrForallTriplet o items)
    else if c == C.Forall_Stmt then some (tostrForall o items)
    else if c == C.Allocate_Stmt then some (tostrAllocate o items)
    else if c == C.Deallocate_Stmt then some (tostrDeallocate o items)
    else if c == C.Goto_Stmt then some (tostrGoto o items)
    else if c == C.Computed_Goto_Stmt then some (tostrComputedGoto o items)
    else if c == C.Arithmetic_If_Stmt then some (tostrArithmeticIf o items)
    else if c == C.Call_Stmt then some (tostrCall o items)
    else none

end Fp.IoStmt
