import FparserModel.Primary
import FparserModel.Proofs.IoStmtBasic
import FparserModel.Proofs.IoStmtSeg
import FparserModel.Proofs.IoStmtLayoutCombi
import FparserModel.Proofs.IoStmtLayoutCtl
import FparserModel.Proofs.IoStmtLayoutMisc
/-!
Token preservation (`*_tostr_match_tokens`) for the HAND-WRITTEN matchers of the operand layer
that cut a tokenised line: `Subscript_Triplet`, `Alt_Return_Spec`, `Complex_Literal_Constant`,
`Ac_Spec`, `Ac_Implied_Do`, `Ac_Implied_Do_Control`, the `BinaryOpBase` classes
(`Assignment_Stmt`, `Proc_Component_Ref`, `Data_Pointer_Object`, `Type_Param_Inquiry`,
`Procedure_Designator`) and `Pointer_Assignment_Stmt`.
Technique of `Proofs/IoStmtLayoutCtl.lean`: `tok` → `seg_of_tokenise` under `SrmOK`, cut at a
non-word character (`Seg.sep`, `Seg.splitC`), `applyMap` distributes, `toks` ignores blanks.
-/
namespace Fp.Primary
open Fp Fp.Splitline
open Fp.IoStmt
open Fp.Combi (noBlank)

variable {Node : Type}

/-! ## helpers -/

theorem toks_sp_cons (X : Str) : toks (' ' :: X) = toks X := by
  rw [toks_cons]; rfl

theorem net_sp_cons (X : Str) : net (' ' :: X) = net X := by
  simp [net]

/-- an optional node as an item -/
def ON : Option Node → Item Node
  | none => .none
  | some n => .node n

/-- the text an optional node contributes -/
def otext (o : Oracle Node) : Option Node → Str
  | none => []
  | some n => o.str n

theorem net_otext (o : Oracle Node) (on : Option Node) (h : net ((ON on).text o) = 0) :
    net (otext o on) = 0 := by
  cases on with
  | none => rfl
  | some n => exact h

/-- `X_obj = Cls(repmap(x)) if x else None` -/
theorem run_optSlot {o : Oracle Node} (ho : OracleTok o) {c : Nat} {m : Map} {t : Str} {i : Item Node}
    (h : runSlot o (if t.isEmpty then Slot.none else Slot.child c (applyMap m t)) = .ok i) :
    ∃ on, i = ON on ∧ toks (otext o on) = toks (applyMap m t) ∧ (t.isEmpty = false → on.isSome) := by
  split at h
  · rename_i he
    have := runSlot_none_ok h; subst this
    have : t = [] := by simpa using he
    subst this
    exact ⟨none, rfl, by rw [applyMap_empty]; rfl, fun h' => by simp at h'⟩
  · have h' := toks_item_of_child ho h
    obtain ⟨n, rfl, _⟩ := runSlot_child_ok h
    exact ⟨some n, rfl, h', fun _ => rfl⟩

/-- cut at one non-word character; both sides stripped towards the cut -/
theorem cut_toks {m : Map} {A B : Str} {c : Char} (hc : isWord c = false) (h : Seg m (A ++ c :: B)) :
    Seg m A ∧ Seg m B ∧
    toks (applyMap m (A ++ c :: B)) =
      toks (applyMap m (rstrip A)) ++ (toks [c] ++ toks (applyMap m (lstrip B))) := by
  obtain ⟨sA, sB, e⟩ := Seg.sep hc h
  refine ⟨sA, sB, ?_⟩
  rw [e, cons_eq_append c]
  simp only [toks_append, toks_of_noBlank (Seg.rstrip sA).2, toks_of_noBlank (Seg.lstrip sB).2]

/-- cut at a two-character operator made of non-word characters (`::`, `=>`) -/
theorem cut2_toks {m : Map} {A B : Str} {a b : Char} (ha : isWord a = false) (hb : isWord b = false)
    (h : Seg m (A ++ a :: b :: B)) :
    Seg m A ∧ Seg m B ∧
    toks (applyMap m (A ++ a :: b :: B)) =
      toks (applyMap m (rstrip A)) ++ (toks [a, b] ++ toks (applyMap m (lstrip B))) := by
  obtain ⟨sA, sbB, e⟩ := Seg.sep ha h
  obtain ⟨sB, e2⟩ := Seg.drop1 hb sbB
  refine ⟨sA, sB, ?_⟩
  rw [e, e2]
  have e3 : a :: b :: applyMap m B = [a, b] ++ applyMap m B := rfl
  rw [e3]
  simp only [toks_append, toks_of_noBlank (Seg.rstrip sA).2, toks_of_noBlank (Seg.lstrip sB).2]

theorem isWord_percent : isWord '%' = false := by decide
theorem isWord_gt : isWord '>' = false := by decide

/-! ## Subscript_Triplet -/

def tripletStrideOKb (s : Str) : Bool :=
  match Combi.tokenise s with
  | some r =>
    (match splitC ':' r.text with
      | [_, _, c] => !(lstrip c).isEmpty
      | _ => true)
  | none => true

/-- when the tokenised line has two `:`, something follows the second one -/
def TripletStrideOK (s : Str) : Prop := tripletStrideOKb s = true

instance (s : Str) : Decidable (TripletStrideOK s) := by unfold TripletStrideOK; exact inferInstance

def stToks (o : Oracle Node) : Option Node → Str
  | none => []
  | some n => toks ":".toList ++ toks (o.str n)

theorem tostrTriplet_on (o : Oracle Node) (l r st : Option Node) :
    ∃ t, tostrSubscriptTriplet o [ON l, ON r, ON st] = .ok t ∧
      toks t = toks (otext o l) ++ (toks ":".toList ++ (toks (otext o r) ++ stToks o st)) ∧
      net t = net (otext o l) + net (otext o r) + net (otext o st) := by
  have k1 : toks " :".toList = toks ":".toList := by decide
  have k2 : toks " : ".toList = toks ":".toList := by decide
  have n1 : net " :".toList = 0 := by decide
  have n2 : net " : ".toList = 0 := by decide
  have n3 : net ":".toList = 0 := by decide
  have n4 : net ([] : Str) = 0 := rfl
  cases l <;> cases r <;> cases st <;>
    refine ⟨_, rfl,
      by simp only [ON, Item.text, otext, stToks, toks_append, toks_sp_cons, toks_nil, k1, k2,
          List.append_nil, List.nil_append, List.append_assoc],
      by simp only [ON, Item.text, otext, net_append, net_sp_cons, n1, n2, n3, n4] <;> omega⟩

/- FULL STATEMENT (false): `Subscript_Triplet("1:2:")` is accepted and prints `1 : 2` — the empty
   stride after the second `:` is not an error and the `:` is lost
   (witness `subscriptTriplet_drops_colon`).
   theorem Subscript_Triplet_tostr_match_tokens … (hs : SrmOK s) : … toks t = toks s -/

/-- **Subscript_Triplet**: `[lhs] : [rhs] [: stride]` -/
theorem Subscript_Triplet_tostr_match_tokens_partial (o : Oracle Node) (ho : OracleTok o) (s : Str)
    (items : List (Item Node)) (hm : (planSubscriptTriplet s).bind (runSlots o) = .ok items)
    (hs : SrmOK s) (hc : TripletStrideOK s) :
    ∃ t, tostrSubscriptTriplet o (arrangeTriplet items) = .ok t ∧ toks t = toks s ∧
      ((∀ i ∈ items, net (i.text o) = 0) → net t = 0) := by
  obtain ⟨slots, hp, hr⟩ := Res.bind_eq_ok hm
  unfold planSubscriptTriplet at hp
  obtain ⟨r, htok, hp⟩ := Res.bind_eq_ok hp
  have htk := tok_ok htok
  obtain ⟨hseg, hexp⟩ := seg_of_tokenise hs htk
  have hS : toks s = toks (applyMap r.map r.text) := (toks_of_noBlank hexp).symm
  obtain ⟨hpieces, hjoin⟩ := Seg.splitC isWord_colon hseg
  have k3 : toks [':'] = toks ":".toList := rfl
  dsimp only at hp
  split at hp
  · rename_i a b heq
    rw [heq] at hpieces hjoin
    cases hp
    obtain ⟨i, j, k, rfl, hi, hj, hk⟩ := run3 hr
    have := runSlot_none_ok hi; subst this
    obtain ⟨l, rfl, hl, _⟩ := run_optSlot ho hj
    obtain ⟨rr, rfl, hr', _⟩ := run_optSlot ho hk
    obtain ⟨t, ht, htoks, hnet⟩ := tostrTriplet_on o l rr none
    refine ⟨t, ht, ?_, ?_⟩
    · rw [htoks, hS, hjoin, hl, hr']
      simp only [List.map_cons, List.map_nil, Combi.joinStr, toks_append, k3, stToks,
        List.append_nil, List.append_assoc,
        toks_of_noBlank (Seg.rstrip (hpieces a (by simp))).2,
        toks_of_noBlank (Seg.lstrip (hpieces b (by simp))).2]
    · intro hb
      rw [hnet, net_otext o l (hb _ (by simp)), net_otext o rr (hb _ (by simp))]; rfl
  · rename_i a b c heq
    rw [heq] at hpieces hjoin
    have hc' : (lstrip c).isEmpty = false := by
      unfold TripletStrideOK tripletStrideOKb at hc
      rw [htk] at hc
      dsimp only at hc
      rw [heq] at hc
      simpa using hc
    cases hp
    obtain ⟨i, j, k, rfl, hi, hj, hk⟩ := run3 hr
    obtain ⟨st, rfl, hst, hsome⟩ := run_optSlot ho hi
    obtain ⟨l, rfl, hl, _⟩ := run_optSlot ho hj
    obtain ⟨rr, rfl, hr', _⟩ := run_optSlot ho hk
    obtain ⟨n, rfl⟩ := Option.isSome_iff_exists.mp (hsome hc')
    obtain ⟨t, ht, htoks, hnet⟩ := tostrTriplet_on o l rr (some n)
    refine ⟨t, ht, ?_, ?_⟩
    · have hst' : toks (o.str n) = toks (applyMap r.map (lstrip c)) := hst
      rw [htoks, hS, hjoin, hl, hr']
      simp only [List.map_cons, List.map_nil, Combi.joinStr, toks_append, k3, stToks, hst',
        List.append_nil, List.append_assoc,
        toks_of_noBlank (Seg.rstrip (hpieces a (by simp))).2,
        toks_of_noBlank (Seg.strip (hpieces b (by simp))).2,
        toks_of_noBlank (Seg.lstrip (hpieces c (by simp))).2]
    · intro hb
      rw [hnet, net_otext o l (hb _ (by simp)), net_otext o rr (hb _ (by simp)),
        net_otext o (some n) (hb _ (by simp))]; rfl
  · cases hp

example : SrmOK "1:n:2".toList ∧ TripletStrideOK "1:n:2".toList ∧
    (planSubscriptTriplet "1:n:2".toList).bind (runSlots echoO)
      = .ok [.node "2".toList, .node "1".toList, .node "n".toList] ∧
    tostrSubscriptTriplet echoO
      (arrangeTriplet [.node "2".toList, .node "1".toList, .node "n".toList])
      = .ok "1 : n : 2".toList := by decide +kernel

example : SrmOK ":".toList ∧ TripletStrideOK ":".toList ∧
    (planSubscriptTriplet ":".toList).bind (runSlots echoO) = .ok [.none, .none, .none] := by
  decide +kernel

/-- `Subscript_Triplet("1:2:")` prints `1 : 2`: the trailing `:` is LOST -/
theorem subscriptTriplet_drops_colon :
    SrmOK "1:2:".toList ∧ ¬ TripletStrideOK "1:2:".toList ∧
    (planSubscriptTriplet "1:2:".toList).bind (runSlots echoO)
      = .ok [.none, .node "1".toList, .node "2".toList] ∧
    tostrSubscriptTriplet echoO (arrangeTriplet [.none, .node "1".toList, .node "2".toList])
      = .ok "1 : 2".toList ∧
    toks "1 : 2".toList ≠ toks "1:2:".toList := by
  decide +kernel

/-! ## Alt_Return_Spec -/

/-- **Alt_Return_Spec**: `* label` (no tokeniser) -/
theorem Alt_Return_Spec_tostr_match_tokens (o : Oracle Node) (ho : OracleTok o) (s : Str)
    (items : List (Item Node)) (hm : (planAltReturnSpec s).bind (runSlots o) = .ok items) :
    ∃ t, tostrAltReturnSpec o items = .ok t ∧ toks t = toks s ∧
      ((∀ i ∈ items, net (i.text o) = 0) → net t = 0) := by
  obtain ⟨slots, hp, hr⟩ := Res.bind_eq_ok hm
  unfold planAltReturnSpec at hp
  split at hp
  · cases hp
  rename_i h1
  dsimp only at hp
  split at hp
  · cases hp
  cases hp
  obtain ⟨i, rfl, hi⟩ := run1 hr
  have hi' := toks_item_of_child ho hi
  obtain ⟨n, rfl, _⟩ := runSlot_child_ok hi
  have hs : s = '*' :: s.drop 1 := by
    cases s with
    | nil => simp [startsC] at h1
    | cons c cs =>
      have : c = '*' := by simpa [startsC] using h1
      subst this; rfl
  refine ⟨_, rfl, ?_, ?_⟩
  · conv => rhs; rw [hs]
    show toks ('*' :: o.str n) = _
    rw [toks_cons '*' (o.str n), toks_cons '*' (s.drop 1)]
    congr 1
    exact hi'.trans (toks_lstrip _)
  · intro hb
    have := hb (.node n) (by simp)
    have e : net ('*' :: o.str n) = net (o.str n) := by simp [net]
    show net ('*' :: o.str n) = 0
    rw [e]; exact this

example : (planAltReturnSpec "* 10".toList).bind (runSlots echoO) = .ok [.node "10".toList] ∧
    tostrAltReturnSpec echoO [.node "10".toList] = .ok "*10".toList := by decide +kernel

/-! ## Complex_Literal_Constant -/

/-- **Complex_Literal_Constant**: `(real_part, imag_part)` (no tokeniser: the regex admits one
    comma only) -/
theorem Complex_Literal_Constant_tostr_match_tokens (o : Oracle Node) (ho : OracleTok o) (s : Str)
    (items : List (Item Node)) (hm : (planComplex s).bind (runSlots o) = .ok items) :
    ∃ t, tostrPair o items = .ok t ∧ toks t = toks s ∧
      ((∀ i ∈ items, net (i.text o) = 0) → net t = 0) := by
  obtain ⟨slots, hp, hr⟩ := Res.bind_eq_ok hm
  unfold planComplex at hp
  split at hp
  · cases hp
  split at hp
  · cases hp
  rename_i hcond
  have hc : s.head? = some '(' ∧ s.getLast? = some ')' := by simpa [startsC, endsC] using hcond
  split at hp
  · cases hp
  split at hp
  · rename_i re im heq
    cases hp
    obtain ⟨i, j, rfl, hi, hj⟩ := run2 hr
    have hi' := toks_item_of_child ho hi
    have hj' := toks_item_of_child ho hj
    obtain ⟨n1, rfl, _⟩ := runSlot_child_ok hi
    obtain ⟨n2, rfl, _⟩ := runSlot_child_ok hj
    have hjoin := Combi.joinStr_splitGo [','] (by simp) (inner s) 0
    have heq' : Combi.splitGo [','] 0 (inner s) = [re, im] := heq
    rw [heq'] at hjoin
    have hin : inner s = re ++ [','] ++ im := by
      have : Combi.joinStr [','] [re, im] = re ++ [','] ++ im := rfl
      rw [← this, hjoin]; rfl
    have hS := toks_paren_shape hc.1 hc.2
    rw [toks_strip, hin] at hS
    have hi'' : toks (o.str n1) = toks re := hi'.trans (toks_strip _)
    have hj'' : toks (o.str n2) = toks im := hj'.trans (toks_strip _)
    have k : toks ", ".toList = toks [','] := by decide
    refine ⟨_, rfl, ?_, ?_⟩
    · rw [hS]
      simp only [Item.text, toks_append, hi'', hj'', k, List.append_assoc]
    · intro hb
      have h1 : net (o.str n1) = 0 := hb (.node n1) (by simp)
      have h2 : net (o.str n2) = 0 := hb (.node n2) (by simp)
      have kn : net ", ".toList = 0 := by decide
      simp only [Item.text, net_append, h1, h2, kn, net_lit_lparen, net_lit_rparen]; rfl
  · cases hp

example : (planComplex "(1.0, -2e3_wp)".toList).bind (runSlots echoO)
      = .ok [.node "1.0".toList, .node "-2e3_wp".toList] ∧
    tostrPair echoO [.node "1.0".toList, .node "-2e3_wp".toList] = .ok "(1.0, -2e3_wp)".toList := by
  decide +kernel

/-! ## Ac_Spec -/

theorem isWord_colon' : isWord ':' = false := by decide

/-- **Ac_Spec**: `type-spec ::` or `type-spec :: ac-value-list` -/
theorem Ac_Spec_tostr_match_tokens (o : Oracle Node) (ho : OracleTok o) (s : Str)
    (items : List (Item Node)) (hm : (planAcSpec s).bind (runSlots o) = .ok items)
    (hs : SrmOK s) :
    ∃ t, tostrAcSpec o items = .ok t ∧ toks t = toks s ∧
      ((∀ i ∈ items, net (i.text o) = 0) → net t = 0) := by
  obtain ⟨slots, hp, hr⟩ := Res.bind_eq_ok hm
  unfold planAcSpec at hp
  split at hp
  · rename_i hend
    cases hp
    obtain ⟨i, j, rfl, hi, hj⟩ := run2 hr
    have hi' := toks_item_of_child ho hi
    obtain ⟨n, rfl, _⟩ := runSlot_child_ok hi
    have := runSlot_none_ok hj; subst this
    have hd : s.drop (s.length - 2) = "::".toList := by
      have := hend
      simp only [endsWith, Bool.and_eq_true, beq_iff_eq] at this
      exact this.2
    have hS : toks s = toks (s.take (s.length - 2)) ++ toks "::".toList := by
      conv => lhs; rw [← List.take_append_drop (s.length - 2) s, hd]
      rw [toks_append]
    have k : toks " ::".toList = toks "::".toList := by decide
    refine ⟨_, rfl, ?_, ?_⟩
    · have hi'' : toks (o.str n) = toks (s.take (s.length - 2)) := hi'.trans (toks_rstrip _)
      rw [hS]
      simp only [Item.text, toks_append, hi'', k]
    · intro hb
      have h1 : net (o.str n) = 0 := hb (.node n) (by simp)
      have kn : net " ::".toList = 0 := by decide
      simp only [Item.text, net_append, h1, kn]; rfl
  · obtain ⟨r, htok, hp⟩ := Res.bind_eq_ok hp
    have htk := tok_ok htok
    obtain ⟨hseg, hexp⟩ := seg_of_tokenise hs htk
    have hS : toks s = toks (applyMap r.map r.text) := (toks_of_noBlank hexp).symm
    split at hp
    · cases hp
    rename_i pre post hcut
    have htext := cutSub2_spec _ _ _ hcut
    rw [htext] at hseg hS
    obtain ⟨_, _, hcutT⟩ := cut2_toks isWord_colon isWord_colon hseg
    cases hp
    obtain ⟨i, j, rfl, hi, hj⟩ := run2 hr
    have hi' := toks_item_of_child ho hi
    have hj' := toks_item_of_child ho hj
    obtain ⟨n1, rfl, _⟩ := runSlot_child_ok hi
    obtain ⟨n2, rfl, _⟩ := runSlot_child_ok hj
    have hi'' : toks (o.str n1) = toks (applyMap r.map (rstrip pre)) := hi'
    have hj'' : toks (o.str n2) = toks (applyMap r.map (lstrip post)) := hj'
    have k : toks " :: ".toList = toks [':', ':'] := by decide
    refine ⟨_, rfl, ?_, ?_⟩
    · rw [hS, hcutT]
      simp only [Item.text, toks_append, hi'', hj'', k, List.append_assoc]
    · intro hb
      have h1 : net (o.str n1) = 0 := hb (.node n1) (by simp)
      have h2 : net (o.str n2) = 0 := hb (.node n2) (by simp)
      have kn : net " :: ".toList = 0 := by decide
      simp only [Item.text, net_append, h1, h2, kn]; rfl

example : SrmOK "integer :: 1, 2".toList ∧
    (planAcSpec "integer :: 1, 2".toList).bind (runSlots echoO)
      = .ok [.node "integer".toList, .node "1, 2".toList] ∧
    tostrAcSpec echoO [.node "integer".toList, .node "1, 2".toList]
      = .ok "integer :: 1, 2".toList := by decide +kernel

example : SrmOK "real(8) ::".toList ∧
    (planAcSpec "real(8) ::".toList).bind (runSlots echoO) = .ok [.node "real(8)".toList, .none] ∧
    tostrAcSpec echoO [.node "real(8)".toList, .none] = .ok "real(8) ::".toList := by
  decide +kernel

/-! ## Ac_Implied_Do -/

/-- **Ac_Implied_Do**: `(ac-value-list, ac-implied-do-control)`: cut at the last `=` of the
    tokenised bracket content, then at the last `,` before it -/
theorem Ac_Implied_Do_tostr_match_tokens (o : Oracle Node) (ho : OracleTok o) (s : Str)
    (items : List (Item Node)) (hm : (planAcImpliedDo s).bind (runSlots o) = .ok items)
    (hs : SrmOK (strip (inner s))) :
    ∃ t, tostrPair o items = .ok t ∧ toks t = toks s ∧
      ((∀ i ∈ items, net (i.text o) = 0) → net t = 0) := by
  obtain ⟨slots, hp, hr⟩ := Res.bind_eq_ok hm
  unfold planAcImpliedDo at hp
  split at hp
  · cases hp
  split at hp
  · cases hp
  rename_i hcond
  have hc : s.head? = some '(' ∧ s.getLast? = some ')' := by simpa [startsC, endsC] using hcond
  obtain ⟨r, htok, hp⟩ := Res.bind_eq_ok hp
  have htk := tok_ok htok
  obtain ⟨hseg, hexp⟩ := seg_of_tokenise hs htk
  have hS : toks (strip (inner s)) = toks (applyMap r.map r.text) := (toks_of_noBlank hexp).symm
  split at hp
  · cases hp
  rename_i pre post hcut
  obtain ⟨htext, _⟩ := Combi.cutLast_spec _ _ _ hcut
  split at hp
  · cases hp
  split at hp
  · cases hp
  rename_i vals var hcut2
  obtain ⟨hpre, _⟩ := Combi.cutLast_spec _ _ _ hcut2
  have htext' : r.text = vals ++ ',' :: (var ++ '=' :: post) := by
    rw [htext, hpre]; simp
  rw [htext'] at hseg hS
  obtain ⟨_, _, hcutT⟩ := cut_toks isWord_comma hseg
  cases hp
  obtain ⟨i, j, rfl, hi, hj⟩ := run2 hr
  have hi' := toks_item_of_child ho hi
  have hj' := toks_item_of_child ho hj
  obtain ⟨n1, rfl, _⟩ := runSlot_child_ok hi
  obtain ⟨n2, rfl, _⟩ := runSlot_child_ok hj
  have hi'' : toks (o.str n1) = toks (applyMap r.map (rstrip vals)) := hi'
  have hj'' : toks (o.str n2) = toks (applyMap r.map (lstrip (var ++ '=' :: post))) := hj'
  have k : toks ", ".toList = toks [','] := by decide
  have hP := toks_paren_shape hc.1 hc.2
  refine ⟨_, rfl, ?_, ?_⟩
  · rw [hP, hS, hcutT]
    simp only [Item.text, toks_append, hi'', hj'', k, List.append_assoc]
  · intro hb
    have h1 : net (o.str n1) = 0 := hb (.node n1) (by simp)
    have h2 : net (o.str n2) = 0 := hb (.node n2) (by simp)
    have kn : net ", ".toList = 0 := by decide
    simp only [Item.text, net_append, h1, h2, kn, net_lit_lparen, net_lit_rparen]; rfl

example : SrmOK (strip (inner "(i, i = 1, 3)".toList)) ∧
    (planAcImpliedDo "(i, i = 1, 3)".toList).bind (runSlots echoO)
      = .ok [.node "i".toList, .node "i = 1, 3".toList] ∧
    tostrPair echoO [.node "i".toList, .node "i = 1, 3".toList] = .ok "(i, i = 1, 3)".toList := by
  decide +kernel

/-! ## BinaryOpBase -/

theorem joinStr_dropLast (op : Str) : ∀ (parts : List Str), 2 ≤ parts.length →
    Combi.joinStr op parts = Combi.joinStr op parts.dropLast ++ op ++ parts.getLast?.getD []
  | [], h => by simp at h
  | [_], h => by simp at h
  | [a, b], _ => by simp [Combi.joinStr]
  | a :: b :: c :: rest, _ => by
    have ih := joinStr_dropLast op (b :: c :: rest) (by simp)
    have e1 : Combi.joinStr op (a :: b :: c :: rest)
        = a ++ op ++ Combi.joinStr op (b :: c :: rest) := rfl
    have e2 : (a :: b :: c :: rest).dropLast = a :: b :: (c :: rest).dropLast := by simp
    have e3 : (a :: b :: c :: rest).getLast?.getD [] = (b :: c :: rest).getLast?.getD [] := by
      simp [List.getLast?_cons_cons]
    have e4 : (b :: c :: rest).dropLast = b :: (c :: rest).dropLast := by simp
    have e5 : Combi.joinStr op (a :: b :: (c :: rest).dropLast)
        = a ++ op ++ Combi.joinStr op (b :: (c :: rest).dropLast) := rfl
    rw [e1, ih, e2, e3, e4, e5]
    simp only [List.append_assoc]

theorem joinStr_head (op : Str) : ∀ (parts : List Str), 2 ≤ parts.length →
    Combi.joinStr op parts = parts.headD [] ++ op ++ Combi.joinStr op (parts.drop 1)
  | [], h => by simp at h
  | [_], h => by simp at h
  | a :: b :: rest, _ => rfl

/-- the common end of the `BinaryOpBase` proofs -/
theorem bin_finish (o : Oracle Node) (ho : OracleTok o) (right : Bool) {ca cb : Nat} {L R s : Str}
    {c : Char} {items : List (Item Node)}
    (hr : runSlots o (if right then [.child cb R, .child ca L, .str [c]]
                      else [.child ca L, .child cb R, .str [c]]) = .ok items)
    (hS : toks s = toks L ++ (toks [c] ++ toks R)) :
    ∃ t, tostrBin o (arrangeBin right items) = .ok t ∧ toks t = toks s ∧
      ((∀ i ∈ items, net (i.text o) = 0) → net t = 0) := by
  cases right with
  | false =>
    simp only [Bool.false_eq_true, ↓reduceIte] at hr
    obtain ⟨i, j, k, rfl, hi, hj, hk⟩ := run3 hr
    have hi' := toks_item_of_child ho hi
    have hj' := toks_item_of_child ho hj
    obtain ⟨n1, rfl, _⟩ := runSlot_child_ok hi
    obtain ⟨n2, rfl, _⟩ := runSlot_child_ok hj
    have := runSlot_str_ok hk; subst this
    have hi'' : toks (o.str n1) = toks L := hi'
    have hj'' : toks (o.str n2) = toks R := hj'
    refine ⟨_, rfl, ?_, ?_⟩
    · rw [hS]
      simp only [Item.text, toks_append, toks_sp_cons, hi'', hj'', List.append_assoc]
    · intro hb
      have h1 : net (o.str n1) = 0 := hb (.node n1) (by simp)
      have h2 : net (o.str n2) = 0 := hb (.node n2) (by simp)
      have h3 : net [c] = 0 := hb (.str [c]) (by simp)
      simp only [Item.text, net_append, net_sp_cons, h1, h2, h3]; rfl
  | true =>
    simp only [↓reduceIte] at hr
    obtain ⟨i, j, k, rfl, hi, hj, hk⟩ := run3 hr
    have hi' := toks_item_of_child ho hi
    have hj' := toks_item_of_child ho hj
    obtain ⟨n1, rfl, _⟩ := runSlot_child_ok hi
    obtain ⟨n2, rfl, _⟩ := runSlot_child_ok hj
    have := runSlot_str_ok hk; subst this
    have hi'' : toks (o.str n1) = toks R := hi'
    have hj'' : toks (o.str n2) = toks L := hj'
    refine ⟨_, rfl, ?_, ?_⟩
    · rw [hS]
      simp only [Item.text, toks_append, toks_sp_cons, hi'', hj'', List.append_assoc]
    · intro hb
      have h1 : net (o.str n1) = 0 := hb (.node n1) (by simp)
      have h2 : net (o.str n2) = 0 := hb (.node n2) (by simp)
      have h3 : net [c] = 0 := hb (.str [c]) (by simp)
      simp only [Item.text, net_append, net_sp_cons, h1, h2, h3]; rfl

/-- **BinaryOpBase with a one-character string operator** (`=`, `%`): the line is cut at the first
    (`right = false`) or last (`right = true`) operator of the tokenised line -/
theorem binStr_tostr_match_tokens (o : Oracle Node) (ho : OracleTok o) (lhsC rhsC : ClassId)
    (c : Char) (hc : isWord c = false) (right : Bool) (s : Str) (items : List (Item Node))
    (hm : (planBinStr lhsC [c] rhsC right s).bind (runSlots o) = .ok items) (hs : SrmOK s) :
    ∃ t, tostrBin o (arrangeBin right items) = .ok t ∧ toks t = toks s ∧
      ((∀ i ∈ items, net (i.text o) = 0) → net t = 0) := by
  obtain ⟨slots, hp, hr⟩ := Res.bind_eq_ok hm
  unfold planBinStr at hp
  obtain ⟨r, htok, hp⟩ := Res.bind_eq_ok hp
  have htk := tok_ok htok
  obtain ⟨hseg, hexp⟩ := seg_of_tokenise hs htk
  have hS : toks s = toks (applyMap r.map r.text) := (toks_of_noBlank hexp).symm
  dsimp only at hp
  split at hp
  · cases hp
  rename_i hlen
  have hlen' : 2 ≤ (Combi.splitGo [c] 0 r.text).length := by omega
  have hjoin : Combi.joinStr [c] (Combi.splitGo [c] 0 r.text) = r.text := by
    have := Combi.joinStr_splitGo [c] (by simp) r.text 0
    simpa using this
  cases right with
  | false =>
    simp only [Bool.false_eq_true, ↓reduceIte] at hp
    split at hp
    · cases hp
    cases hp
    have htext : r.text = (Combi.splitGo [c] 0 r.text).headD [] ++ c ::
        Combi.joinStr [c] ((Combi.splitGo [c] 0 r.text).drop 1) := by
      conv => lhs; rw [← hjoin, joinStr_head [c] _ hlen']
      simp
    rw [htext] at hseg hS
    obtain ⟨_, _, hcutT⟩ := cut_toks hc hseg
    exact bin_finish o ho false (by simpa using hr) (hS.trans hcutT)
  | true =>
    simp only [↓reduceIte] at hp
    split at hp
    · cases hp
    cases hp
    have htext : r.text = Combi.joinStr [c] (Combi.splitGo [c] 0 r.text).dropLast ++ c ::
        (Combi.splitGo [c] 0 r.text).getLast?.getD [] := by
      conv => lhs; rw [← hjoin, joinStr_dropLast [c] _ hlen']
      simp
    rw [htext] at hseg hS
    obtain ⟨_, _, hcutT⟩ := cut_toks hc hseg
    exact bin_finish o ho true (by simpa using hr) (hS.trans hcutT)

/-- **Assignment_Stmt**: `variable = expr` (first `=` of the tokenised line) -/
theorem Assignment_Stmt_tostr_match_tokens (o : Oracle Node) (ho : OracleTok o) (s : Str)
    (items : List (Item Node)) (hm : (planAssignment s).bind (runSlots o) = .ok items)
    (hs : SrmOK s) :
    ∃ t, tostrBin o (arrangeBin false items) = .ok t ∧ toks t = toks s ∧
      ((∀ i ∈ items, net (i.text o) = 0) → net t = 0) :=
  binStr_tostr_match_tokens o ho _ _ '=' isWord_eq false s items hm hs

/-- **Proc_Component_Ref**: `variable % procedure-component-name` (last `%`) -/
theorem Proc_Component_Ref_tostr_match_tokens (o : Oracle Node) (ho : OracleTok o) (s : Str)
    (items : List (Item Node)) (hm : (planProcComponentRef s).bind (runSlots o) = .ok items)
    (hs : SrmOK s) :
    ∃ t, tostrBin o (arrangeBin true items) = .ok t ∧ toks t = toks s ∧
      ((∀ i ∈ items, net (i.text o) = 0) → net t = 0) :=
  binStr_tostr_match_tokens o ho _ _ '%' isWord_percent true s items hm hs

/-- **Data_Pointer_Object**: `variable % data-pointer-component-name` (last `%`) -/
theorem Data_Pointer_Object_tostr_match_tokens (o : Oracle Node) (ho : OracleTok o) (s : Str)
    (items : List (Item Node)) (hm : (planDataPointerObject s).bind (runSlots o) = .ok items)
    (hs : SrmOK s) :
    ∃ t, tostrBin o (arrangeBin true items) = .ok t ∧ toks t = toks s ∧
      ((∀ i ∈ items, net (i.text o) = 0) → net t = 0) :=
  binStr_tostr_match_tokens o ho _ _ '%' isWord_percent true s items hm hs

example : SrmOK "x = (/ (a <= b) /)".toList ∧
    (planAssignment "x = (/ (a <= b) /)".toList).bind (runSlots echoO)
      = .ok [.node "x".toList, .node "(/ (a <= b) /)".toList, .str "=".toList] ∧
    tostrBin echoO (arrangeBin false
      [.node "x".toList, .node "(/ (a <= b) /)".toList, .str "=".toList])
      = .ok "x = (/ (a <= b) /)".toList := by decide +kernel

example : SrmOK "a%b % c".toList ∧
    (planProcComponentRef "a%b % c".toList).bind (runSlots echoO)
      = .ok [.node "c".toList, .node "a%b".toList, .str "%".toList] ∧
    tostrBin echoO (arrangeBin true [.node "c".toList, .node "a%b".toList, .str "%".toList])
      = .ok "a%b % c".toList := by decide +kernel

/-- **BinaryOpBase with the pattern operator `%`** (`Pattern.rsplit`): cut at the LAST `%` -/
theorem binPercent_tostr_match_tokens (o : Oracle Node) (ho : OracleTok o) (lhsC rhsC : ClassId)
    (s : Str) (items : List (Item Node))
    (hm : (planBinPercent lhsC rhsC s).bind (runSlots o) = .ok items) (hs : SrmOK s) :
    ∃ t, tostrBin o (arrangeBin true items) = .ok t ∧ toks t = toks s ∧
      ((∀ i ∈ items, net (i.text o) = 0) → net t = 0) := by
  obtain ⟨slots, hp, hr⟩ := Res.bind_eq_ok hm
  unfold planBinPercent at hp
  obtain ⟨r, htok, hp⟩ := Res.bind_eq_ok hp
  have htk := tok_ok htok
  obtain ⟨hseg, hexp⟩ := seg_of_tokenise hs htk
  have hS : toks s = toks (applyMap r.map r.text) := (toks_of_noBlank hexp).symm
  dsimp only at hp
  split at hp
  · cases hp
  rename_i hlen
  have hlen' : 2 ≤ (splitC '%' r.text).length := by omega
  have hjoin : Combi.joinStr ['%'] (splitC '%' r.text) = r.text := by
    have := Combi.joinStr_splitGo ['%'] (by simp) r.text 0
    simpa [splitC] using this
  split at hp
  · cases hp
  split at hp
  · cases hp
  cases hp
  have htext : r.text = Combi.joinStr ['%'] (splitC '%' r.text).dropLast ++ '%' ::
      (splitC '%' r.text).getLast?.getD [] := by
    conv => lhs; rw [← hjoin, joinStr_dropLast ['%'] _ hlen']
    simp
  rw [htext] at hseg hS
  obtain ⟨sL, sR, e⟩ := Seg.sep isWord_percent hseg
  have hL : toks (applyMap r.map (rstrip (strip
      (Combi.joinStr "%".toList (splitC '%' r.text).dropLast)))) =
      toks (applyMap r.map (Combi.joinStr ['%'] (splitC '%' r.text).dropLast)) :=
    (toks_of_noBlank (Seg.rstrip (Seg.strip sL).1).2).trans (toks_of_noBlank (Seg.strip sL).2)
  have hR : toks (applyMap r.map (lstrip (strip ((splitC '%' r.text).getLast?.getD [])))) =
      toks (applyMap r.map ((splitC '%' r.text).getLast?.getD [])) :=
    (toks_of_noBlank (Seg.lstrip (Seg.strip sR).1).2).trans (toks_of_noBlank (Seg.strip sR).2)
  have hS' : toks s = toks (applyMap r.map (rstrip (strip
        (Combi.joinStr "%".toList (splitC '%' r.text).dropLast)))) ++ (toks ['%'] ++
      toks (applyMap r.map (lstrip (strip ((splitC '%' r.text).getLast?.getD []))))) := by
    rw [hL, hR, hS, e, toks_append, toks_cons '%' (applyMap r.map _)]
  exact bin_finish o ho true (c := '%') hr hS'

/-- **Type_Param_Inquiry**: `designator % type-param-name` -/
theorem Type_Param_Inquiry_tostr_match_tokens (o : Oracle Node) (ho : OracleTok o) (s : Str)
    (items : List (Item Node)) (hm : (planTypeParamInquiry s).bind (runSlots o) = .ok items)
    (hs : SrmOK s) :
    ∃ t, tostrBin o (arrangeBin true items) = .ok t ∧ toks t = toks s ∧
      ((∀ i ∈ items, net (i.text o) = 0) → net t = 0) :=
  binPercent_tostr_match_tokens o ho _ _ s items hm hs

/-- **Procedure_Designator**: `data-ref % binding-name` -/
theorem Procedure_Designator_tostr_match_tokens (o : Oracle Node) (ho : OracleTok o) (s : Str)
    (items : List (Item Node)) (hm : (planProcedureDesignator s).bind (runSlots o) = .ok items)
    (hs : SrmOK s) :
    ∃ t, tostrBin o (arrangeBin true items) = .ok t ∧ toks t = toks s ∧
      ((∀ i ∈ items, net (i.text o) = 0) → net t = 0) :=
  binPercent_tostr_match_tokens o ho _ _ s items hm hs

example : SrmOK "a(1)%b % kind".toList ∧
    (planTypeParamInquiry "a(1)%b % kind".toList).bind (runSlots echoO)
      = .ok [.node "kind".toList, .node "a(1)%b".toList, .str "%".toList] ∧
    tostrBin echoO (arrangeBin true [.node "kind".toList, .node "a(1)%b".toList, .str "%".toList])
      = .ok "a(1)%b % kind".toList := by decide +kernel

/-! ## Pointer_Assignment_Stmt -/

/-- a plan that matched did so with its first attempt, or — the first one having ended in
    "no match" — with its second -/
theorem Plan.run_ok {o : Oracle Node} {p : Plan} {items : List (Item Node)}
    (h : p.run o = .ok items) :
    p.first.bind (runSlots o) = .ok items ∨
      ∃ q, p.second = some q ∧ q.bind (runSlots o) = .ok items := by
  unfold Plan.run at h
  split at h
  · split at h
    · rename_i q hq
      exact .inr ⟨q, hq, h⟩
    · cases h
  · exact .inl h

theorem pa_plain (o : Oracle Node) (ho : OracleTok o) {c1 c3 : Nat} {X Z s : Str}
    {items : List (Item Node)}
    (hr : runSlots o [.child c1 X, .none, .child c3 Z] = .ok items)
    (hS : toks s = toks X ++ (toks ['=', '>'] ++ toks Z)) :
    ∃ t, tostrPointerAssignment o items = .ok t ∧ toks t = toks s ∧
      ((∀ i ∈ items, net (i.text o) = 0) → net t = 0) := by
  obtain ⟨i, j, k, rfl, hi, hj, hk⟩ := run3 hr
  have hi' := toks_item_of_child ho hi
  have hk' := toks_item_of_child ho hk
  obtain ⟨n1, rfl, _⟩ := runSlot_child_ok hi
  obtain ⟨n3, rfl, _⟩ := runSlot_child_ok hk
  have := runSlot_none_ok hj; subst this
  have hi'' : toks (o.str n1) = toks X := hi'
  have hk'' : toks (o.str n3) = toks Z := hk'
  have k1 : toks " => ".toList = toks ['=', '>'] := by decide
  refine ⟨_, rfl, ?_, ?_⟩
  · rw [hS]
    simp only [Item.text, toks_append, hi'', hk'', k1, List.append_assoc]
  · intro hb
    have h1 : net (o.str n1) = 0 := hb (.node n1) (by simp)
    have h3 : net (o.str n3) = 0 := hb (.node n3) (by simp)
    have kn : net " => ".toList = 0 := by decide
    simp only [Item.text, net_append, h1, h3, kn]; rfl

theorem pa_bounds (o : Oracle Node) (ho : OracleTok o) {c1 c2 c3 : Nat} {X Y Z s : Str}
    {items : List (Item Node)}
    (hr : runSlots o [.child c1 X, .child c2 Y, .child c3 Z] = .ok items)
    (hS : toks s = toks X ++ (toks ['('] ++ (toks Y ++ (toks [')'] ++ (toks ['=', '>'] ++ toks Z))))) :
    ∃ t, tostrPointerAssignment o items = .ok t ∧ toks t = toks s ∧
      ((∀ i ∈ items, net (i.text o) = 0) → net t = 0) := by
  obtain ⟨i, j, k, rfl, hi, hj, hk⟩ := run3 hr
  have hi' := toks_item_of_child ho hi
  have hj' := toks_item_of_child ho hj
  have hk' := toks_item_of_child ho hk
  obtain ⟨n1, rfl, _⟩ := runSlot_child_ok hi
  obtain ⟨n2, rfl, _⟩ := runSlot_child_ok hj
  obtain ⟨n3, rfl, _⟩ := runSlot_child_ok hk
  have hi'' : toks (o.str n1) = toks X := hi'
  have hj'' : toks (o.str n2) = toks Y := hj'
  have hk'' : toks (o.str n3) = toks Z := hk'
  have k1 : toks ") => ".toList = toks [')'] ++ toks ['=', '>'] := by decide
  have k2 : toks "(".toList = toks ['('] := rfl
  refine ⟨_, rfl, ?_, ?_⟩
  · rw [hS]
    simp only [Item.text, toks_append, hi'', hj'', hk'', k1, k2, List.append_assoc]
  · intro hb
    have h1 : net (o.str n1) = 0 := hb (.node n1) (by simp)
    have h2 : net (o.str n2) = 0 := hb (.node n2) (by simp)
    have h3 : net (o.str n3) = 0 := hb (.node n3) (by simp)
    have kn : net ") => ".toList = -1 := by decide
    simp only [Item.text, net_append, h1, h2, h3, kn, net_lit_lparen]; rfl

theorem rest_shape {obj rest : Str} (h : (obj ++ '(' :: rest).getLast? = some ')') :
    rest = rest.dropLast ++ [')'] := by
  rcases List.eq_nil_or_concat rest with rfl | ⟨ys, y, rfl⟩
  · simp at h
  · simp only [List.concat_eq_append] at h ⊢
    have e : obj ++ '(' :: (ys ++ [y]) = (obj ++ '(' :: ys) ++ [y] := by simp
    rw [e, List.getLast?_concat] at h
    have : y = ')' := Option.some.inj h
    subst this; simp

/-- **Pointer_Assignment_Stmt**: `object => target` / `object(bounds) => target`; both attempts
    (`Data_Pointer_Object … Data_Target` first, then `Bounds_Remapping_List` resp.
    `Proc_Pointer_Object … Proc_Target`) cut the line at the same places -/
theorem Pointer_Assignment_Stmt_tostr_match_tokens (o : Oracle Node) (ho : OracleTok o) (s : Str)
    (items : List (Item Node)) (hm : (planPointerAssignment s).run o = .ok items)
    (hs : SrmOK s) :
    ∃ t, tostrPointerAssignment o items = .ok t ∧ toks t = toks s ∧
      ((∀ i ∈ items, net (i.text o) = 0) → net t = 0) := by
  unfold planPointerAssignment at hm
  split at hm
  · simp [Plan.run, Plan.one] at hm
  · simp [Plan.run, Plan.one] at hm
  rename_i r htok
  have htk := tok_ok htok
  obtain ⟨hseg, hexp⟩ := seg_of_tokenise hs htk
  have hS : toks s = toks (applyMap r.map r.text) := (toks_of_noBlank hexp).symm
  split at hm
  · simp [Plan.run, Plan.one] at hm
  rename_i pre post hcut
  have htext := cutSub2_spec _ _ _ hcut
  rw [htext] at hseg hS
  obtain ⟨sPre, _, hcutT⟩ := cut2_toks isWord_eq isWord_gt hseg
  have hS2 := hS.trans hcutT
  dsimp only at hm
  split at hm
  · rename_i hends
    have hends' : (rstrip pre).getLast? = some ')' := by simpa [endsC] using hends
    split at hm
    · simp [Plan.run, Plan.one] at hm
    rename_i obj rest hcl
    obtain ⟨hlhs, _⟩ := Combi.cutLast_spec _ _ _ hcl
    obtain ⟨tmp, htmp⟩ : ∃ tmp, rest = tmp ++ [')'] := by
      rw [hlhs] at hends'; exact ⟨_, rest_shape hends'⟩
    subst htmp
    simp only [List.dropLast_concat] at hm
    have sL := (Seg.rstrip sPre).1
    rw [hlhs] at sL
    obtain ⟨sObj, sRest, e1⟩ := Seg.sep isWord_lparen sL
    obtain ⟨sTmp, e2⟩ := Seg.dropLast1 isWord_rparen sRest
    have hlhsT : toks (applyMap r.map (rstrip pre)) =
        toks (applyMap r.map (rstrip obj)) ++ (toks ['('] ++
          (toks (applyMap r.map (strip tmp)) ++ toks [')'])) := by
      rw [hlhs, e1, e2, toks_append, toks_cons '(' _, toks_append,
        toks_of_noBlank (Seg.rstrip sObj).2, toks_of_noBlank (Seg.strip sTmp).2]
    rw [hlhsT] at hS2
    simp only [List.append_assoc] at hS2
    rcases Plan.run_ok hm with h1 | ⟨q, hq, h2⟩
    · exact pa_bounds o ho h1 hS2
    · cases hq
      exact pa_bounds o ho h2 hS2
  · rcases Plan.run_ok hm with h1 | ⟨q, hq, h2⟩
    · exact pa_plain o ho h1 hS2
    · cases hq
      exact pa_plain o ho h2 hS2

example : SrmOK "p(1:) => t".toList ∧
    (planPointerAssignment "p(1:) => t".toList).run echoO
      = .ok [.node "p".toList, .node "1:".toList, .node "t".toList] ∧
    tostrPointerAssignment echoO [.node "p".toList, .node "1:".toList, .node "t".toList]
      = .ok "p(1:) => t".toList := by decide +kernel

example : SrmOK "a%p=>f(x)".toList ∧
    (planPointerAssignment "a%p=>f(x)".toList).run echoO
      = .ok [.node "a%p".toList, .none, .node "f(x)".toList] ∧
    tostrPointerAssignment echoO [.node "a%p".toList, .none, .node "f(x)".toList]
      = .ok "a%p => f(x)".toList := by decide +kernel

end Fp.Primary

#print axioms Fp.Primary.Subscript_Triplet_tostr_match_tokens_partial
#print axioms Fp.Primary.subscriptTriplet_drops_colon
#print axioms Fp.Primary.Alt_Return_Spec_tostr_match_tokens
#print axioms Fp.Primary.Complex_Literal_Constant_tostr_match_tokens
#print axioms Fp.Primary.Ac_Spec_tostr_match_tokens
#print axioms Fp.Primary.Ac_Implied_Do_tostr_match_tokens
#print axioms Fp.Primary.binStr_tostr_match_tokens
#print axioms Fp.Primary.Assignment_Stmt_tostr_match_tokens
#print axioms Fp.Primary.Proc_Component_Ref_tostr_match_tokens
#print axioms Fp.Primary.Data_Pointer_Object_tostr_match_tokens
#print axioms Fp.Primary.binPercent_tostr_match_tokens
#print axioms Fp.Primary.Type_Param_Inquiry_tostr_match_tokens
#print axioms Fp.Primary.Procedure_Designator_tostr_match_tokens
#print axioms Fp.Primary.Pointer_Assignment_Stmt_tostr_match_tokens
