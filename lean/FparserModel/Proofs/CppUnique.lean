import FparserModel.Proofs.CppCls2

/-! # Cpp slice: at most one class accepts a line; `classify` is independent of the class order -/
namespace Fp.Cpp
open Fp

/-- the only class that can accept a line, read off the word after `#` -/
def expected (s : Str) : Option Cls :=
  match shape s with
  | none => none
  | some (w, _) =>
    match kwClass w with
    | some c => some c
    | none =>
      if w = [] then some .nullStmt
      else if (w.head?.map isDigit) = some true then some .linemarkerStmt else none

theorem kwClass_of_kwsOf' (c : Cls) : ∀ w ∈ kwsOf c, kwClass w = some c := by
  cases c <;> decide

theorem kwClass_of_kwsOf {c : Cls} {w : Str} (h : w ∈ kwsOf c) : kwClass w = some c :=
  kwClass_of_kwsOf' c w h

theorem lookup_mem {w : Str} {c : Cls} : ∀ {l : List (Str × Cls)}, l.lookup w = some c → (w, c) ∈ l
  | [], h => by cases h
  | (k, v) :: l, h => by
    simp only [List.lookup] at h
    split at h
    · rename_i heq
      have : w = k := by simpa using heq
      cases h; subst this; simp
    · exact List.mem_cons_of_mem _ (lookup_mem h)

theorem kwTable_heads : ∀ p ∈ kwTable, p.1.head?.map isDigit ≠ some true := by decide

theorem kwClass_digit {d : Char} {r : Str} (hd : isDigit d = true) : kwClass (d :: r) = none := by
  cases h : kwClass (d :: r) with
  | none => rfl
  | some c =>
    have := kwTable_heads _ (lookup_mem h)
    simp [hd] at this

theorem matchCls_nil (c : Cls) : matchCls c [] = none := by
  cases c <;> rfl

theorem matchCls_ne_nil {c : Cls} {s : Str} {n : Node} (h : matchCls c s = some n) : s ≠ [] := by
  intro h0; subst h0; rw [matchCls_nil] at h; cases h

theorem expected_of_shape {s w line : Str} {c : Cls} (hs : shape s = some (w, line))
    (hk : kwClass w = some c) : expected s = some c := by
  simp [expected, hs, hk]

theorem accept_expected {c : Cls} {s : Str} {n : Node} (h : matchCls c s = some n) :
    expected s = some c := by
  have hne := matchCls_ne_nil h
  by_cases hw : kwsOf c ≠ []
  · obtain ⟨w, line, hw, hs⟩ := matchCls_word_shape hw h
    exact expected_of_shape hs (kwClass_of_kwsOf hw)
  · cases c <;> simp only [kwsOf, ne_eq, not_true_eq_false, not_false_eq_true, reduceCtorEq] at hw
    case elseStmt =>
      obtain ⟨_, line, hs⟩ := matchElse_elim h
      exact expected_of_shape hs (by decide)
    case endifStmt =>
      obtain ⟨_, line, hs⟩ := matchEndif_elim h
      exact expected_of_shape hs (by decide)
    case includeStmt =>
      rw [matchInclude_eq s hne] at h
      split at h
      · cases h
      · rename_i rest hr
        obtain ⟨b, _, hs⟩ := hashKw_strip_shape KW_include hr
        exact expected_of_shape hs (by decide)
    case macroStmt =>
      rw [matchMacro_eq s hne] at h
      split at h
      · cases h
      · rename_i rest hr
        obtain ⟨b, _, hs⟩ := hashKw_strip_shape KW_define hr
        exact expected_of_shape hs (by decide)
    case linemarkerStmt =>
      obtain ⟨_, a, g, ds, g2, r3, hl⟩ := matchLinemarker_elim h
      obtain ⟨d, ds', hdc⟩ := List.exists_cons_of_ne_nil hl.hdsne
      have hd : isDigit d = true := hl.hds d (by simp [hdc])
      simp [expected, hl.shape, hdc, kwClass_digit hd, hd]
    case nullStmt =>
      obtain ⟨hs, _⟩ := matchNull_iff.mp h
      have hk : kwClass [] = none := by decide
      simp [expected, null_shape hs, hk]

/-- (d) at most one class accepts a line -/
theorem accept_unique {c c' : Cls} {s : Str} {n n' : Node} (h : matchCls c s = some n)
    (h' : matchCls c' s = some n') : c = c' := by
  have := accept_expected h
  rw [accept_expected h'] at this
  exact (Option.some.inj this).symm

theorem MacroForm.cls {rhs : Str} {n : Node} (h : MacroForm rhs n) : n.cls = .macroStmt := by
  induction h <;> rfl

theorem matchCls_cls {c : Cls} {s : Str} {n : Node} (h : matchCls c s = some n) : n.cls = c := by
  cases c
  case elseStmt => rw [(matchElse_elim h).1]; rfl
  case endifStmt => rw [(matchEndif_elim h).1]; rfl
  case includeStmt =>
    rw [matchInclude_eq s (matchCls_ne_nil h)] at h
    split at h
    · cases h
    · cases hx : includeArg _ with
      | none => rw [hx] at h; cases h
      | some f => rw [hx] at h; cases h; rfl
  case macroStmt =>
    rw [matchMacro_eq s (matchCls_ne_nil h)] at h
    split at h
    · cases h
    · exact MacroForm.cls (macroArg_elim h)
  case linemarkerStmt => rw [(matchLinemarker_elim h).1]; rfl
  case nullStmt => rw [(matchNull_iff.mp h).2]; rfl
  all_goals
    obtain ⟨w, line, hw, hs⟩ := matchCls_word_shape (by simp [kwsOf]) h
    rw [matchCls_word_eval hs hw] at h
    obtain ⟨v, a, _, hn⟩ := mkWord_some h
    rw [hn]; rfl

theorem findSome?_of_unique {order : List Cls} {s : Str} {c : Cls} {n : Node} (hc : c ∈ order)
    (h : matchCls c s = some n) : classifyIn order s = some n := by
  unfold classifyIn
  induction order with
  | nil => cases hc
  | cons d order ih =>
    simp only [List.findSome?]
    cases hd : matchCls d s with
    | some m =>
      have := accept_unique hd h
      subst this
      rw [hd] at h; simp [h]
    | none =>
      simp only
      rcases List.mem_cons.mp hc with rfl | hc'
      · rw [h] at hd; cases hd
      · exact ih hc'

theorem mem_realOrder (c : Cls) : c ∈ realOrder := by cases c <;> decide

/-- any accepting class IS the result of `match_cpp_directive` -/
theorem classify_of_match {c : Cls} {s : Str} {n : Node} (h : matchCls c s = some n) :
    classify s = some n :=
  findSome?_of_unique (mem_realOrder c) h

theorem classifyIn_some {order : List Cls} {s : Str} {n : Node} (h : classifyIn order s = some n) :
    ∃ c ∈ order, matchCls c s = some n := by
  unfold classifyIn at h
  obtain ⟨c, hc, hm⟩ := List.exists_of_findSome?_eq_some h
  exact ⟨c, hc, hm⟩

theorem classify_some {s : Str} {n : Node} (h : classify s = some n) :
    ∃ c, matchCls c s = some n := by
  obtain ⟨c, _, hm⟩ := classifyIn_some h
  exact ⟨c, hm⟩

theorem classify_none_of_expected {s : Str} {c : Cls} (he : expected s = some c)
    (h : matchCls c s = none) : classify s = none := by
  cases hc : classify s with
  | none => rfl
  | some n =>
    obtain ⟨c', hm⟩ := classify_some hc
    have := accept_expected hm
    rw [he] at this
    cases this
    rw [h] at hm; cases hm

end Fp.Cpp
