import FparserModel.Wire
import FparserModel.One3
import FparserModel.Generated.One3Tables

/-! driver commands of the One3 model (fparser1 statement classes over the generated regex table)

* `one3.process cls label depth parentName parentIsFunction parentTypedecl line`
    → `status` (`nomatch` | `invalid` | `ok` | `raised`), final class name, canonical field dump,
      printed text (`tofortran`, `!EXC:<name>` when the printer raises), exception name,
      `put_item` text (`-` = none), `clone` text (`-` = none), `ignore` (`1|0`), mapped line
  `label` = decimal or `-`; `parentIsFunction`, `parentTypedecl` = `1|0`.
* `one3.match cls text` → `1|0`, `m.end()` (decimal, `-` when no match) of the TRANSLATED regex
* `one3.classes` → the class names of the table, `,`-separated
-/
namespace FpDriver.One3
open Fp Fp.Wire Fp.One3

def T : Tables := Fp.One3.Gen.tables

def ok (fs : List String) : String := "OK\t" ++ "\t".intercalate (fs.map enc)

def esc (s : Str) : String :=
  String.join (s.map fun c =>
    if c == '"' then "\\\"" else if c == '\\' then "\\\\" else c.toString)

def qs (s : Str) : String := "\"" ++ esc s ++ "\""
def ql (l : List Str) : String := "[" ++ ",".intercalate (l.map qs) ++ "]"
def qll (l : List (List Str)) : String := "[" ++ ",".intercalate (l.map ql) ++ "]"
def qo : Option Str → String
  | some s => qs s
  | none => "None"
def qb (b : Bool) : String := if b then "True" else "False"

def flds (cls : String) (fs : List (String × String)) : String :=
  cls ++ "{" ++ ";".intercalate (fs.map fun (k, v) => k ++ "=" ++ v) ++ "}"

def oneField : ClassId → String
  | .Goto => "label" | .Return => "expr" | .Stop => "code" | .Pause => "value" | _ => "name"

def declDump (d : TypeDecl) : String :=
  flds d.cls.name [("attrspec", ql d.attrspec), ("entity_decls", ql d.entityDecls), ("name", qs d.name),
                   ("selector", ql [d.selector.1, d.selector.2])]

def dump : Node → String
  | .items c items => flds c.name [("items", ql items)]
  | .specs c specs => flds c.name [("specs", ql specs)]
  | .specsItems c specs items => flds c.name [("items", ql items), ("specs", ql specs)]
  | .fmtItems c f items => flds c.name [("format", qs f), ("items", ql items)]
  | .one c s => flds c.name [(oneField c, qs s)]
  | .bare c => flds c.name []
  | .assign c v sign e => flds c.name [("expr", qs e), ("sign", qs sign), ("variable", qs v)]
  | .assignTo a b => flds "Assign" [("items", ql [a, b])]
  | .call d items => flds "Call" [("designator", qs d), ("items", ql items)]
  | .cgoto items e => flds "ComputedGoto" [("expr", qs e), ("items", ql items)]
  | .agoto v items => flds "AssignedGoto" [("items", ql items), ("varname", qs v)]
  | .aif e labels => flds "ArithmeticIf" [("expr", qs e), ("labels", ql labels)]
  | .allocate spec items =>
    flds "Allocate" [("items", ql items), ("spec", match spec with
      | .none => "None" | .name s => qs s | .decl d => declDump d)]
  | .data stmts =>
    flds "Data" [("stmts", "[" ++ ",".intercalate (stmts.map fun (a, b) => "[" ++ ql a ++ "," ++ ql b ++ "]") ++ "]")]
  | .use nature name isonly items =>
    flds "Use" [("isonly", qb isonly), ("items", ql items), ("name", qs name), ("nature", qs nature)]
  | .namelist items => flds "Namelist" [("items", qll (items.map fun (a, b) => [a, b]))]
  | .common items =>
    flds "Common" [("items", "[" ++ ",".intercalate (items.map fun (a, b) => "[" ++ qs a ++ "," ++ ql b ++ "]") ++ "]")]
  | .entry name items result bind =>
    flds "Entry" [("bind", match bind with | some b => ql b | none => "None"), ("items", ql items),
                  ("name", qs name), ("result", qo result)]
  | .forall_ specs mask content =>
    flds "Forall" [("content", "[" ++ dump content ++ "]"), ("mask", qs mask),
                   ("specs", qll (specs.map fun (a, b, c, d) => [a, b, c, d]))]
  | .specific iname attrs name bname =>
    flds "SpecificBinding" [("attrs", ql attrs), ("bname", qs bname), ("iname", qs iname), ("name", qs name)]
  | .generic aspec spec items =>
    flds "GenericBinding" [("aspec", qs aspec), ("items", ql items), ("spec", qs spec)]
  | .elseif e name => flds "ElseIf" [("expr", qs e), ("name", qs name)]
  | .caseLike c items name => flds c.name [("items", qll items), ("name", qs name)]
  | .where_ e content => flds "Where" [("content", "[" ++ dump content ++ "]"), ("expr", qs e)]
  | .elsewhere e name => flds "ElseWhere" [("expr", qo e), ("name", qs name)]
  | .typedecl d => declDump d
  | .implicit items =>
    flds "Implicit" [("items", "[" ++ ",".intercalate (items.map fun (d, specs) =>
      "[" ++ (match d with | .valid d => declDump d | _ => "?") ++ "," ++ qll (specs.map fun (a, b) => [a, b]) ++ "]") ++ "]")]

def nodeClass : Node → String
  | .items c _ | .specs c _ | .specsItems c _ _ | .fmtItems c _ _ | .one c _ | .bare c
  | .assign c _ _ _ | .caseLike c _ _ => c.name
  | .assignTo _ _ => "Assign" | .call _ _ => "Call" | .cgoto _ _ => "ComputedGoto"
  | .agoto _ _ => "AssignedGoto" | .aif _ _ => "ArithmeticIf" | .allocate _ _ => "Allocate"
  | .data _ => "Data" | .use _ _ _ _ => "Use" | .namelist _ => "Namelist" | .common _ => "Common"
  | .entry _ _ _ _ => "Entry" | .forall_ _ _ _ => "Forall" | .specific _ _ _ _ => "SpecificBinding"
  | .generic _ _ _ => "GenericBinding" | .elseif _ _ => "ElseIf" | .where_ _ _ => "Where"
  | .elsewhere _ _ => "ElseWhere" | .typedecl d => d.cls.name | .implicit _ => "Implicit"

def optS : Option Str → String
  | some s => "=" ++ String.ofList s
  | none => "-"

def mappedOf (s : Str) : String :=
  match Fp.Splitline.stringReplaceMap (strip s) true with
  | some r => String.ofList r.text
  | none => ""

def handle (cmd : String) (args : List String) : Option String :=
  match cmd, args with
  | "one3.process", [cls, label, depth, pname, pfn, ptd, line] =>
    match ClassId.ofName? (dec cls) with
    | none => some ("ERR\t" ++ enc ("one3.process: unknown class " ++ dec cls))
    | some c =>
      let ctx : Ctx := { label := (dec label).toNat?, depth := (dec depth).toNat!,
                         parentName := decL pname, parentIsFunction := dec pfn == "1",
                         parentTypedecl := dec ptd == "1" }
      let s := decL line
      match process T ctx c s with
      | .nomatch => some (ok ["nomatch", "", "", "", "", "-", "-", "0", mappedOf s])
      | .raised e => some (ok ["raised", "", "", "", e.name, "-", "-", "0", mappedOf s])
      | .invalid r =>
        some (ok ["invalid", "", "", "", "", optS r.put, optS r.clone, if r.ignore then "1" else "0", mappedOf s])
      | .ok n r =>
        let text := match tofortran ctx n with
          | .ok t => String.ofList t
          | .error e => "!EXC:" ++ e.name
        some (ok ["ok", nodeClass n, dump n, text, "", optS r.put, optS r.clone,
                  if r.ignore then "1" else "0", mappedOf s])
  | "one3.match", [cls, text] =>
    let s := decL text
    match T.run (dec cls) s with
    | some rest => some (ok ["1", toString (s.length - rest.length)])
    | none => some (ok ["0", "-"])
  | "one3.classes", [] => some (ok [",".intercalate (T.rows.map (·.cls))])
  | _, _ => none

end FpDriver.One3
