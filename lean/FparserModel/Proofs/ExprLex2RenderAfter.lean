import FparserModel.Proofs.ExprLex2RenderWord

/-!
`lex_render`: the text after an operator word never continues the word's last `.` into an
intrinsic dotted word (`dotAfterOK`).
-/
namespace Fp.ExprLex
open Fp Fp.Expr

theorem dotWord_some {r w : Str} {n : Nat} (h : dotWord ('.' :: r) = some (w, n)) :
    w = upper ((dropSp r).takeWhile isAlpha) ∧ (dropSp r).takeWhile isAlpha ≠ [] ∧
      headIs (dropSp ((dropSp r).dropWhile isAlpha)) '.' = true := by
  simp only [dotWord] at h
  split at h
  · rename_i tl heq
    split at h
    · cases h
    · rename_i hne
      simp only [Option.some.injEq, Prod.mk.injEq] at h
      refine ⟨h.1.symm, hne, ?_⟩
      rw [heq]; simp [headIs]
  · cases h

/-- letters of a plain name followed by a non-letter: all of the name, or a stop inside it -/
theorem tw_plain : ∀ (name X : Str), name.all plainChar = true → headNA X = true →
    ((name ++ X).takeWhile isAlpha = name) ∨
      (∃ c Y, (name ++ X).dropWhile isAlpha = c :: Y ∧ plainChar c = true)
  | [], X, _, hX => by
    left
    cases X with
    | nil => rfl
    | cons c r =>
      simp only [headNA, Bool.not_eq_true'] at hX
      simp [hX]
  | c :: t, X, h, hX => by
    simp only [List.all_cons, Bool.and_eq_true] at h
    cases ha : isAlpha c
    · right
      exact ⟨c, t ++ X, by simp [ha], h.1⟩
    · rcases tw_plain t X h.2 hX with h1 | ⟨d, Y, h2, hd⟩
      · left; simp [ha, h1]
      · right; exact ⟨d, Y, by simp [ha, h2], hd⟩

theorem dotAfter_plain (t : T) (name X : Str) (hne : name ≠ []) (hpl : name.all plainChar = true)
    (hX : headNA X = true) (hcls : dotClass (upper name) = .other) :
    dotAfterOK (sep t ++ name ++ X) := by
  intro w n h
  obtain ⟨hw, _, hh⟩ := dotWord_some h
  have hds : dropSp (sep t ++ name ++ X) = name ++ X := by
    cases hn : name with
    | nil => exact absurd hn hne
    | cons c tl =>
      rw [hn] at hpl
      simp only [List.all_cons, Bool.and_eq_true] at hpl
      rw [List.append_assoc, List.cons_append, dropSp_sep t c _ (plain_not_space hpl.1)]
  rw [hds] at hw hh
  rcases tw_plain name X hpl hX with h1 | ⟨c, Y, h2, hc⟩
  · rw [h1] at hw
    rw [hw]; exact hcls
  · rw [h2] at hh
    have : dropSp (c :: Y) = c :: Y := by simp [dropSp, plain_not_space hc]
    rw [this] at hh
    simp only [headIs, beq_iff_eq] at hh
    subst hh
    exact absurd hc (by decide)

theorem dotAfter_word (t : T) (h : Char) (Z : Str) (hop : opChar h = true) :
    dotAfterOK (sep t ++ h :: Z) := by
  intro w n hw
  obtain ⟨_, hne, _⟩ := dotWord_some hw
  rw [dropSp_sep t h Z (opChar_not_space hop)] at hne
  simp [opChar_not_alpha hop] at hne

theorem dotAfter_nil : dotAfterOK [] := by
  intro w n h
  simp [dotWord, dropSp] at h

theorem dotAfter_tail (N : Names) (t : T) (rest : List T) (hg : gluePairs (t :: rest) = true)
    (hall : rest.all (tokOK N) = true) : dotAfterOK (renderTail N rest) := by
  cases rest with
  | nil => exact dotAfter_nil
  | cons t2 r2 =>
    rw [renderTail_cons]
    simp only [List.all_cons, Bool.and_eq_true] at hall
    have hg2 := (pair_of_glue hg).2.2
    cases hp2 : t2.isPlain
    · obtain ⟨h, tl, hsp, hop⟩ := word_head N t2 hall.1 hp2
      rw [hsp, List.append_assoc, List.cons_append]
      exact dotAfter_word t2 h _ hop
    · obtain ⟨i, g, rfl⟩ := plain_view hp2
      obtain ⟨hne, hpl, _, hcls⟩ := tokOK_plain hall.1
      exact dotAfter_plain _ (N.atom i) _ hne hpl (headNA_tail N _ r2 hg2 hp2 hall.2) hcls

end Fp.ExprLex
