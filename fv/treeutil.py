"""Structural views of real fparser2 parse trees (used by the direct oracles)."""
import re
from fv import real

U = real.U
F03 = real.F03

_BLOCKNAME = re.compile(r"block:\d+")
_EXACT_CLASSES = ("Char_Literal_Constant", "Comment", "Directive", "Include_Filename",
                  "Cpp_Macro_Stmt", "Cpp_Error_Stmt", "Cpp_Warning_Stmt", "Cpp_Line_Stmt",
                  "Cpp_Include_Stmt", "Cpp_If_Stmt", "Cpp_Elif_Stmt", "Cpp_Pp_Tokens", "Cpp_Macro_Identifier",
                  "Cpp_Macro_Identifier_List", "Cpp_Undef_Stmt", "Hollerith_Item", "Char_Literal_Constant_Proxy")


def sig(node, fold=False, renumber=None):
    """nested-tuple structure: (class name, children…); strings folded to lower case when
    `fold` unless they sit directly under a node whose text must be exact (character
    literals, comments, preprocessor payloads)."""
    if renumber is None:
        renumber = {}

    def rec(x, exact):
        if x is None:
            return None
        if isinstance(x, str):
            s = x
            if "block:" in s:
                def sub(m):
                    k = m.group(0)
                    if k not in renumber:
                        renumber[k] = "block:#%d" % len(renumber)
                    return renumber[k]
                s = _BLOCKNAME.sub(sub, s)
            if fold and not exact:
                # collapse blank runs too: 'IN  OUT' vs 'IN OUT' is a known cosmetic
                s = s.lower()
            return s
        if isinstance(x, (tuple, list)):
            return tuple(rec(y, exact) for y in x)
        if isinstance(x, U.Base):
            name = type(x).__name__
            ex = name in _EXACT_CLASSES or name.startswith("Cpp_")
            kids = getattr(x, "content", None)
            if kids is None:
                kids = getattr(x, "items", None)
            if kids is None:
                kids = (getattr(x, "string", None),)
            return (name,) + tuple(rec(y, ex) for y in kids)
        return repr(x)

    return rec(node, False)


def first_diff(a, b, path=()):
    """first differing position of two sigs -> (path, a_part, b_part) or None"""
    if a == b:
        return None
    if isinstance(a, tuple) and isinstance(b, tuple):
        if len(a) != len(b):
            # find first differing index
            for i in range(min(len(a), len(b))):
                d = first_diff(a[i], b[i], path + (i,))
                if d:
                    return d
            return (path, "len %d: %s" % (len(a), _short(a)), "len %d: %s" % (len(b), _short(b)))
        for i, (x, y) in enumerate(zip(a, b)):
            d = first_diff(x, y, path + (i,))
            if d:
                return d
    return (path, _short(a), _short(b))


def _short(x, n=160):
    s = repr(x)
    return s if len(s) <= n else s[:n] + "…"


def all_nodes(tree):
    """every Base node reachable through children (pre-order), following nested
    tuples/lists — independent of fparser's own walk()"""
    out = []

    def rec(x):
        if isinstance(x, U.Base):
            out.append(x)
            kids = getattr(x, "content", None)
            if kids is None:
                kids = getattr(x, "items", ())
            for k in kids:
                rec(k)
        elif isinstance(x, (tuple, list)):
            for k in x:
                rec(k)

    rec(tree)
    return out


def container_map(tree):
    """id(node) -> containing node, computed top-down"""
    cm = {}

    def rec(x, parent):
        if isinstance(x, U.Base):
            cm.setdefault(id(x), []).append(parent)
            kids = getattr(x, "content", None)
            if kids is None:
                kids = getattr(x, "items", ())
            for k in kids:
                rec(k, x)
        elif isinstance(x, (tuple, list)):
            for k in x:
                rec(k, parent)

    rec(tree, None)
    return cm


def wellformed_problems(tree, limit=5):
    """C10's invariants on a real tree; returns list of problem strings (empty = ok)"""
    probs = []
    nodes = all_nodes(tree)
    ids = {}
    for n in nodes:
        ids[id(n)] = ids.get(id(n), 0) + 1
    dup = [n for n in nodes if ids[id(n)] > 1]
    if dup:
        probs.append("node object occurs %d times: %s %r" % (ids[id(dup[0])], type(dup[0]).__name__, str(dup[0])[:60]))
    cm = container_map(tree)
    for n in nodes:
        cont = cm[id(n)][0]
        if n.parent is not cont:
            probs.append("parent of %s %r is %s, container is %s" % (
                type(n).__name__, str(n)[:50], type(n.parent).__name__ if n.parent is not None else None,
                type(cont).__name__ if cont is not None else None))
            if len(probs) >= limit:
                return probs
        if n.get_root() is not tree:
            probs.append("get_root() of %s %r is not the root" % (type(n).__name__, str(n)[:50]))
            if len(probs) >= limit:
                return probs
    if tree.parent is not None:
        probs.append("root has a parent")
    w = [x for x in U.walk(tree) if isinstance(x, U.Base)]
    if [id(x) for x in w] != [id(x) for x in nodes]:
        probs.append("walk() order/coverage differs from pre-order of children: %d vs %d nodes" % (len(w), len(nodes)))
    return probs


def statement_nodes(tree):
    """leaf statement-level nodes in tree order: StmtBase instances, Comment, Directive,
    cpp directive nodes, Include_Stmt"""
    out = []

    def rec(x):
        if isinstance(x, U.BlockBase):
            for k in x.content:
                rec(k)
        elif isinstance(x, U.Base):
            out.append(x)

    rec(tree)
    return out
