import FparserModel.Proofs.BlockStream

/-!
# M-D proofs, part 4: every block node of a result tree is properly closed

`WF tbl t`: every node of `t` whose class is a block (or `Main_Program0`) with an `endcls`
consists of leading comment/include/directive/cpp leaves, the object returned for its start
class (if it has one), …, and ends with an object accepted as its end statement — for which
the label and name checks of `BlockBase.match` held.
-/
namespace Fp.Block

def isLeafT : Tree → Prop
  | .leaf .. => True
  | .node .. => False

/-- the checks `BlockBase.match` made when it accepted `en` as the end of the block started
by `stO` -/
def EndOK (tbl : Table) (cfg : Cfg) (stO : Option Tree) (en : Tree) : Prop :=
  isaAny (infoOf tbl en) cfg.endAll = true ∧
  (cfg.matchLabels = true → ∃ st, stO = some st ∧
      (infoOf tbl st).hasStartLabel = true ∧ (infoOf tbl en).hasEndLabel = true ∧
      (infoOf tbl st).startLabel = (infoOf tbl en).endLabel) ∧
  (cfg.matchNames = true → endNameCheck cfg (stO.map (infoOf tbl)) (infoOf tbl en) = none) ∧
  (endDoNames tbl.quirks cfg (stO.map (infoOf tbl)) (infoOf tbl en) = true →
    endNameCheck { cfg with matchNames := true, strictNames := true }
      (stO.map (infoOf tbl)) (infoOf tbl en) = none)

def CfgOK (tbl : Table) (cfg : Cfg) (kids : List Tree) : Prop :=
  cfg.end_.isSome = true →
    ∃ pre stO mid en, kids = pre ++ stO.toList ++ mid ++ [en] ∧ (∀ t ∈ pre, isLeafT t) ∧
      stO.isSome = cfg.start.isSome ∧ EndOK tbl cfg stO en

def NodeOK (tbl : Table) (c : Cls) (kids : List Tree) : Prop :=
  match tbl.kind c with
  | .block cfg _ => CfgOK tbl cfg kids
  | .main0 cfg _ _ => CfgOK tbl cfg kids
  | _ => True

mutual
def WF (tbl : Table) : Tree → Prop
  | .leaf .. => True
  | .node c ks => NodeOK tbl c ks ∧ WFL tbl ks
def WFL (tbl : Table) : List Tree → Prop
  | [] => True
  | t :: ts => WF tbl t ∧ WFL tbl ts
end

theorem WFL_cons {tbl : Table} {t : Tree} {ts : List Tree} :
    WFL tbl (t :: ts) ↔ WF tbl t ∧ WFL tbl ts := by simp [WFL]

theorem WFL_append (tbl : Table) (xs ys : List Tree) :
    WFL tbl (xs ++ ys) ↔ WFL tbl xs ∧ WFL tbl ys := by
  induction xs with
  | nil => simp [WFL]
  | cons t ts ih => simp [WFL, ih, and_assoc]

theorem WFL_reverse (tbl : Table) (xs : List Tree) : WFL tbl xs.reverse ↔ WFL tbl xs := by
  induction xs with
  | nil => simp
  | cons t ts ih => simp [WFL, WFL_append, ih, and_comm]

theorem WF_of_leaf {tbl : Table} {t : Tree} (h : isLeafT t) : WF tbl t := by
  cases t with
  | leaf => trivial
  | node => exact absurd h id

theorem WFL_of_leaves {tbl : Table} {ts : List Tree} (h : ∀ t ∈ ts, isLeafT t) : WFL tbl ts := by
  induction ts with
  | nil => trivial
  | cons t ts ih =>
    exact ⟨WF_of_leaf (h t (by simp)), ih (fun x hx => h x (by simp [hx]))⟩

/-- the spec of calls: a returned tree is well-formed -/
def ESpec (tbl : Table) (o : Outcome) : Prop := ∀ t, o = .tree t → WF tbl t

def LeafOut (o : Outcome) : Prop := ∀ t, o = .tree t → isLeafT t

variable {env : Env}

theorem leafNew_E {c : Cls} {pc : List Cls} {s : St} {o : Outcome} {pc' : List Cls} {s' : St}
    (heq : leafNew env c pc s = (o, pc', s')) : LeafOut o := by
  unfold leafNew at heq
  split at heq
  · inj3 heq; intro t h; cases h
  · split at heq
    · inj3 heq; intro t h; cases h
    · simp only at heq
      split at heq
      · split at heq
        · inj3 heq; intro t h; cases h; trivial
        · inj3 heq; intro t h; cases h
      · split at heq
        · inj3 heq; intro t h; cases h; trivial
        · inj3 heq; intro t h; cases h
        · inj3 heq; intro t h; cases h
        · inj3 heq; intro t h; cases h

theorem leafFresh_E {c : Cls} {s : St} {o : Outcome} {s' : St}
    (heq : leafFresh env c s = (o, s')) : LeafOut o := by
  unfold leafFresh at heq; inj2 heq
  exact leafNew_E (pc' := (leafNew env c [c] s).2.1) (s' := (leafNew env c [c] s).2.2) rfl

theorem commentNew_E {s : St} {o : Outcome} {s' : St} (heq : commentNew env s = (o, s')) :
    LeafOut o := by
  unfold commentNew at heq
  split at heq
  · inj2 heq; intro t h; cases h
  · split at heq
    · inj2 heq; intro t h; cases h; trivial
    · inj2 heq; intro t h; cases h

theorem directiveNew_E {s : St} {o : Outcome} {s' : St} (heq : directiveNew env s = (o, s')) :
    LeafOut o := by
  unfold directiveNew at heq
  split at heq
  · inj2 heq; intro t h; cases h
  · split at heq
    · split at heq
      · inj2 heq; intro t h; cases h; trivial
      · inj2 heq; intro t h; cases h
    · inj2 heq; intro t h; cases h

theorem firstLeaf_E {cs : List Cls} {s : St} {o : Outcome} {s' : St}
    (heq : firstLeaf env cs s = (o, s')) : LeafOut o := by
  induction cs generalizing s with
  | nil => simp only [firstLeaf] at heq; inj2 heq; intro t h; cases h
  | cons c cs ih =>
    simp only [firstLeaf] at heq
    split at heq
    · exact ih heq
    · exact leafFresh_E heq

theorem cppNew_E {cs : List Cls} {s : St} {o : Outcome} {s' : St}
    (heq : cppNew env cs s = (o, s')) : LeafOut o := by
  unfold cppNew at heq
  split at heq
  · inj2 heq; intro t h; cases h
  · simp only at heq
    split at heq
    · exact firstLeaf_E heq
    · inj2 heq; intro t h; cases h

theorem cidRest_E {s : St} {o : Outcome} {s' : St} (heq : cidRest env s = (o, s')) :
    LeafOut o := by
  unfold cidRest at heq
  split at heq
  · split at heq
    · exact cppNew_E heq
    · exact leafFresh_E heq
  · exact commentNew_E heq

theorem cidOne_E {s : St} {o : Outcome} {s' : St} (heq : cidOne env s = (o, s')) :
    LeafOut o := by
  unfold cidOne at heq
  split at heq
  · split at heq
    · exact cidRest_E heq
    · exact directiveNew_E heq
  · exact cidRest_E heq

theorem addCID_E {k : Nat} {rc : List Tree} {s : St} {rc' : List Tree} {s' : St}
    (heq : addCID env k rc s = (.ok rc', s')) : ∃ new, rc' = new ++ rc ∧ ∀ t ∈ new, isLeafT t := by
  induction k generalizing rc s with
  | zero => simp only [addCID] at heq; simp at heq
  | succ k ih =>
    simp only [addCID] at heq
    split at heq
    · rename_i t s1 h1
      obtain ⟨new, hn, hl⟩ := ih heq
      refine ⟨new ++ [t], by simp [hn], ?_⟩
      intro x hx
      simp at hx
      rcases hx with hx | rfl
      · exact hl x hx
      · exact cidOne_E h1 _ rfl
    · simp only [Prod.mk.injEq, Except.ok.injEq] at heq
      exact ⟨[], by simp [heq.1], by simp⟩
    · simp at heq

/-- what is assumed of the recursive call -/
def FE (tbl : Table) (f : F) : Prop := ∀ c s, ESpec tbl (f c s).1
def GE (tbl : Table) (g : G) : Prop := ∀ c pc s, ESpec tbl (g c pc s).1

theorem fresh_E {tbl : Table} {g : G} (hg : GE tbl g) : FE tbl (fresh g) := by
  intro c s; unfold fresh; exact hg c [] s

theorem callCatch_E {tbl : Table} {f : F} (hf : FE tbl f) {c : Cls} {s : St} {t : Tree} {s' : St}
    (heq : callCatch f c s = (.tree t, s')) : WF tbl t := by
  unfold callCatch at heq
  split at heq
  · simp at heq
  · have := hf c s; rw [heq] at this; exact this t rfl

theorem matchedStep_E {cfg : Cfg} {startT : Option Tree} {sn : Option (Option Name)} {i : Nat}
    {v : LoopVars} {t : Tree} {s1 : St} {v2 : LoopVars} {s2 : St}
    (heq : matchedStep env cfg startT sn i v t s1 = (.done v2, s2)) :
    EndOK env.tbl cfg startT t := by
  unfold matchedStep at heq
  simp only at heq
  split at heq
  · simp at heq
  · simp at heq
  · split at heq
    · simp at heq
    · split at heq
      · rename_i hend
        simp only [Bool.and_eq_true] at hend
        split at heq
        · simp at heq
        · split at heq <;> simp at heq
        · rename_i v3 hlab
          split at heq
          · simp at heq
          · rename_i hname
            have hn1 : cfg.matchNames = true →
                endNameCheck cfg (startT.map (infoOf env.tbl)) (infoOf env.tbl t) = none := by
              intro hm
              have hq : endDoNames env.tbl.quirks cfg (startT.map (infoOf env.tbl))
                  (infoOf env.tbl t) = false := by unfold endDoNames; simp [hm]
              unfold endNameCheckQ at hname
              rw [hq] at hname
              simpa using hname
            have hn2 : endDoNames env.tbl.quirks cfg (startT.map (infoOf env.tbl))
                (infoOf env.tbl t) = true →
                endNameCheck { cfg with matchNames := true, strictNames := true }
                  (startT.map (infoOf env.tbl)) (infoOf env.tbl t) = none := by
              intro hq
              unfold endNameCheckQ at hname
              rw [hq] at hname
              simpa using hname
            refine ⟨hend.2, ?_, hn1, hn2⟩
            intro hml
            unfold endLabelCheck at hlab
            rw [if_pos hml] at hlab
            cases hst : startT with
            | none => simp [hst] at hlab
            | some st =>
              simp only [hst, Option.map_some] at hlab
              split at hlab
              · cases hlab
              · rename_i h1
                split at hlab
                · cases hlab
                · rename_i h2
                  simp only [Except.ok.injEq, Prod.mk.injEq] at hlab
                  refine ⟨st, rfl, by simpa using h1, by simpa using h2, ?_⟩
                  have := hlab.2
                  simpa using this
      · simp at heq

theorem hookLead_E {fuel : Nat} {s : St} {lead : List Tree} {s' : St}
    (heq : hookLead env fuel s = (.ok lead, s')) : ∀ t ∈ lead, isLeafT t := by
  unfold hookLead at heq
  split at heq
  · obtain ⟨new, hn, hl⟩ := addCID_E heq
    simp at hn; subst hn; exact hl
  · simp only [Prod.mk.injEq, Except.ok.injEq] at heq
    rw [← heq.1]; simp

theorem doHook_E {f : F} (hf : FE env.tbl f) {fuel : Nat} {cfg : Cfg} {v : LoopVars} {s : St}
    {ts : List Tree} {s' : St} (heq : doHook env f fuel cfg v s = (.append ts, s')) :
    WFL env.tbl ts := by
  unfold doHook at heq
  split at heq
  · split at heq
    · simp at heq
    · rename_i lead s0 h0
      split at heq
      · simp at heq
      · rename_i sc _
        split at heq
        · simp at heq
        · simp at heq
        · rename_i t0 s1 h1
          split at heq
          · split at heq
            · simp at heq
            · split at heq
              · simp only [Prod.mk.injEq, HookRes.append.injEq] at heq
                have := hf sc s0; rw [h1] at this
                rw [← heq.1]
                exact WFL_cons.2 ⟨this t0 rfl, WFL_of_leaves (hookLead_E h0)⟩
              · simp at heq
          · simp at heq
  · simp at heq

theorem matchedStep_rc {cfg : Cfg} {startT : Option Tree} {sn : Option (Option Name)} {i : Nat}
    {v : LoopVars} {t : Tree} {s1 : St} {st : Step} {s2 : St}
    (heq : matchedStep env cfg startT sn i v t s1 = (st, s2)) :
    match st with
    | .done v2 => v2.rc = t :: v.rc
    | .again _ v2 => v2.rc = t :: v.rc
    | _ => True := by
  have := matchedStep_A heq
  cases st with
  | done v2 => exact this.2
  | again i2 v2 => exact this.2
  | _ => trivial

/-- what the loop adds to the content -/
theorem blockLoop_E {f : F} (hf : FE env.tbl f) {cfg : Cfg} {classes : List Cls}
    {startT : Option Tree} {sn : Option (Option Name)} {k i : Nat} {v : LoopVars} {s : St}
    {v' : LoopVars} {fe : Bool} {s' : St} (hw : WFL env.tbl v.rc)
    (heq : blockLoop env f cfg classes startT sn k i v s = (.done v' fe, s')) :
    WFL env.tbl v'.rc ∧ ∃ new, v'.rc = new ++ v.rc ∧
      (fe = true → ∃ en rest, new = en :: rest ∧ EndOK env.tbl cfg startT en) := by
  induction k generalizing i v s with
  | zero => simp only [blockLoop] at heq; simp at heq
  | succ k ih =>
    simp only [blockLoop] at heq
    split at heq
    · simp only [Prod.mk.injEq, LoopRes.done.injEq] at heq
      obtain ⟨⟨rfl, rfl⟩, _⟩ := heq
      exact ⟨hw, [], rfl, fun h => by cases h⟩
    · split at heq
      · simp at heq
      · rename_i ts s1 h1
        have hwt := doHook_E hf h1
        obtain ⟨hw', new, hn, hfe⟩ := ih (v := { v with rc := ts ++ v.rc })
          ((WFL_append _ _ _).2 ⟨hwt, hw⟩) heq
        refine ⟨hw', new ++ ts, by simp [hn], ?_⟩
        intro h
        obtain ⟨en, rest, hr, he⟩ := hfe h
        exact ⟨en, rest ++ ts, by simp [hr], he⟩
      · split at heq
        · simp at heq
        · exact ih hw heq
        · rename_i t sb h2
          have hwt := callCatch_E hf h2
          split at heq
          · simp at heq
          · simp at heq
          · rename_i v2 sc h3
            simp only [Prod.mk.injEq, LoopRes.done.injEq] at heq
            obtain ⟨⟨rfl, rfl⟩, _⟩ := heq
            have hrc := matchedStep_rc h3
            simp only at hrc
            refine ⟨by rw [hrc]; exact ⟨hwt, hw⟩, [t], by simp [hrc], ?_⟩
            intro _
            exact ⟨t, [], rfl, matchedStep_E h3⟩
          · rename_i i2 v2 sc h3
            have hrc := matchedStep_rc h3
            simp only at hrc
            obtain ⟨hw', new, hn, hfe⟩ := ih (v := v2) (by rw [hrc]; exact ⟨hwt, hw⟩) heq
            refine ⟨hw', new ++ [t], by simp [hn, hrc], ?_⟩
            intro h
            obtain ⟨en, rest, hr, he⟩ := hfe h
            exact ⟨en, rest ++ [t], by simp [hr], he⟩

/-- the shape of the content after the start phase -/
theorem blockStart_E {f : F} (hf : FE env.tbl f) {fuel : Nat} {cfg : Cfg} {s : St}
    {rc0 : List Tree} {startT : Option Tree} {tn : Option Name} {sl : Option (Option Nat)}
    {sn : Option (Option Name)} {s1 : St}
    (heq : blockStart env f fuel cfg s = (.go rc0 startT tn sl sn, s1)) :
    WFL env.tbl rc0 ∧ startT.isSome = cfg.start.isSome ∧
    ∃ pre, rc0 = startT.toList ++ pre ∧ ∀ t ∈ pre, isLeafT t := by
  unfold blockStart at heq
  split at heq
  · rename_i hst
    simp only [Prod.mk.injEq, StartRes.go.injEq] at heq
    obtain ⟨⟨rfl, rfl, _⟩, _⟩ := heq
    exact ⟨trivial, by simp [hst], [], rfl, by simp⟩
  · rename_i sc hst
    split at heq
    · simp at heq
    · rename_i rc00 sa h1
      obtain ⟨new, hn, hl⟩ := addCID_E h1
      have hn' : new = rc00 := by simpa using hn.symm
      subst hn' 
      split at heq
      · simp at heq
      · simp at heq
      · rename_i t sb h2
        have hwt := callCatch_E hf h2
        split at heq
        · simp at heq
        · split at heq
          · simp at heq
          · simp only [Prod.mk.injEq, StartRes.go.injEq] at heq
            obtain ⟨⟨rfl, rfl, _⟩, _⟩ := heq
            exact ⟨⟨hwt, WFL_of_leaves hl⟩, by simp [hst], new, rfl, hl⟩

theorem blockTail_E {cfg : Cfg} {startT : Option Tree} {tn : Option Name} {v : LoopVars}
    {fe : Bool} {s3 : St} {content : List Tree} {s' : St}
    (heq : blockTail env cfg startT tn v fe s3 = (.tuple content, s')) :
    content = v.rc.reverse ∧ (cfg.end_.isSome = true → fe = true) := by
  unfold blockTail at heq
  split at heq
  · split at heq <;> simp at heq
  · rename_i hc
    split at heq
    · simp at heq
    · split at heq
      · simp only [Prod.mk.injEq, MRes.tuple.injEq] at heq
        refine ⟨heq.1.symm, fun he => ?_⟩
        cases fe with
        | true => rfl
        | false => simp [he] at hc
      · simp at heq
      · split at heq
        · split at heq <;> simp at heq
        · simp at heq
      · split at heq
        · split at heq <;> simp at heq
        · simp at heq

theorem blockMatch_E {f : F} (hf : FE env.tbl f) {fuel : Nat} {cfg : Cfg} {s : St}
    {content : List Tree} {s' : St} (heq : blockMatch env f fuel cfg s = (.tuple content, s')) :
    WFL env.tbl content ∧ CfgOK env.tbl cfg content := by
  unfold blockMatch at heq
  split at heq
  · rename_i r s1 h1
    -- `blockStart` never returns a tuple
    exfalso
    simp only [Prod.mk.injEq] at heq
    obtain ⟨rfl, rfl⟩ := heq
    unfold blockStart at h1
    split at h1
    · simp at h1
    · split at h1
      · simp at h1
      · split at h1
        · simp at h1
        · simp at h1
        · split at h1
          · simp at h1
          · split at h1 <;> simp at h1
  · rename_i rc0 startT tn sl sn s1 h1
    simp only at heq
    obtain ⟨hw0, hst, pre, hpre, hleaf⟩ := blockStart_E hf h1
    generalize hlr : blockLoop env f cfg (blockClasses env cfg) startT sn fuel 0
      (loopVars0 cfg rc0 sl) s1 = lr at heq
    obtain ⟨res, sL⟩ := lr
    simp only at heq
    unfold blockFinish at heq
    split at heq
    · split at heq
      · unfold blockCleanup at heq
        split at heq
        · simp at heq
        · split at heq <;> simp at heq
      · simp at heq
    · simp at heq
    · rename_i v fe
      split at heq
      · simp at heq
      · rename_i s3 _
        obtain ⟨hc, hfe⟩ := blockTail_E heq
        obtain ⟨hw, new, hn, hend⟩ := blockLoop_E hf (v := loopVars0 cfg rc0 sl) hw0 hlr
        simp only [loopVars0] at hn
        subst hc
        refine ⟨(WFL_reverse _ _).2 hw, fun he => ?_⟩
        obtain ⟨en, rest, hr, hok⟩ := hend (hfe he)
        refine ⟨pre.reverse, startT, rest.reverse, en, ?_, ?_, hst, hok⟩
        · rw [hn, hr, hpre]
          cases startT <;> simp
        · intro t ht; exact hleaf t (by simpa using ht)

theorem manyLoop_E {tbl : Table} {f : F} (hf : FE tbl f) {c : Cls} {k : Nat} {rc : List Tree}
    {s : St} {content : List Tree} {s' : St} (hw : WFL tbl rc)
    (heq : manyLoop f c k rc s = (.tuple content, s')) : WFL tbl content := by
  induction k generalizing rc s with
  | zero => simp only [manyLoop] at heq; simp at heq
  | succ k ih =>
    simp only [manyLoop] at heq
    split at heq
    · simp at heq
    · split at heq
      · simp at heq
      · simp only [Prod.mk.injEq, MRes.tuple.injEq] at heq
        rw [← heq.1]; exact (WFL_reverse _ _).2 hw
    · rename_i t s1 h1
      exact ih (WFL_cons.2 ⟨callCatch_E hf h1, hw⟩) heq

theorem seqNR_E {tbl : Table} {f : F} (hf : FE tbl f) {q : Quirks} {cs : List Cls}
    {rc : List Tree} {s : St} {content : List Tree} {s' : St} (hw : WFL tbl rc)
    (heq : seqNR q f cs rc s = (.tuple content, s')) : WFL tbl content := by
  induction cs generalizing rc s with
  | nil =>
    simp only [seqNR, Prod.mk.injEq, MRes.tuple.injEq] at heq
    rw [← heq.1]; exact (WFL_reverse _ _).2 hw
  | cons c cs ih =>
    simp only [seqNR] at heq
    split at heq
    · split at heq
      · simp at heq
      · simp at heq
      · rename_i t s1 h1
        exact ih (WFL_cons.2 ⟨callCatch_E hf h1, hw⟩) heq
    · split at heq
      · simp at heq
      · simp at heq
      · rename_i t s1 h1
        have := hf c s; rw [h1] at this
        exact ih (WFL_cons.2 ⟨this t rfl, hw⟩) heq

theorem main0Match_E {f : F} (hf : FE env.tbl f) {fuel : Nat} {cfg : Cfg} {scope : Name} {s : St}
    {content : List Tree} {s' : St}
    (heq : main0Match env f fuel cfg scope s = (.tuple content, s')) :
    WFL env.tbl content ∧ CfgOK env.tbl cfg content := by
  unfold main0Match at heq
  generalize hb : blockMatch env f fuel cfg ((ghostIf (s.sym.clashes scope) Ghost.nameClash s).enter scope) = br at heq
  obtain ⟨r0, s2⟩ := br
  cases r0 with
  | raise e =>
    simp only at heq
    split at heq
    · simp at heq
    split at heq
    · split at heq
      · simp at heq
      · split at heq <;> simp at heq
    · simp at heq
  | none =>
    simp only at heq
    split at heq
    · simp at heq
    · split at heq <;> simp at heq
  | tuple c0 =>
    simp only at heq
    split at heq
    · simp at heq
    · simp only [Prod.mk.injEq, MRes.tuple.injEq] at heq
      rw [← heq.1]; exact blockMatch_E hf hb

theorem pushTree_E {tbl : Table} {o : Outcome} {rc : List Tree} (ho : ESpec tbl o)
    (hw : WFL tbl rc) : WFL tbl (pushTree o rc) := by
  unfold pushTree
  split
  · exact ⟨ho _ rfl, hw⟩
  · exact hw

theorem addCID_WFL {tbl : Table} {k : Nat} {rc : List Tree} {s : St} {rc' : List Tree} {s' : St}
    (hw : WFL tbl rc) (heq : addCID env k rc s = (.ok rc', s')) : WFL tbl rc' := by
  obtain ⟨new, hn, hl⟩ := addCID_E heq
  rw [hn]; exact (WFL_append _ _ _).2 ⟨WFL_of_leaves hl, hw⟩

theorem unitStep_E {f : F} (hf : FE env.tbl f) {fuel : Nat} {unit main0 : Cls} {rc : List Tree}
    {s : St} {rc1 : List Tree} {s' : St} (hw : WFL env.tbl rc)
    (heq : unitStep env f fuel unit main0 rc s = (.go rc1, s')) : WFL env.tbl rc1 := by
  unfold unitStep at heq
  split at heq
  · split at heq
    · split at heq
      · rename_i c0 s2 hb
        simp only [Prod.mk.injEq, UnitStep.go.injEq] at heq
        rw [← heq.1]
        exact (WFL_append _ _ _).2 ⟨(WFL_reverse _ _).2 (blockMatch_E hf hb).1, hw⟩
      · simp at heq
      · simp at heq
    · simp at heq
  · rename_i o s1 _ h1
    simp only [Prod.mk.injEq, UnitStep.go.injEq] at heq
    rw [← heq.1]
    have ho : ESpec env.tbl o := by have := hf unit s; rw [h1] at this; exact this
    exact pushTree_E ho hw

theorem programLoop_E {f : F} (hf : FE env.tbl f) {unit main0 : Cls} {fuel k : Nat}
    {rc : List Tree} {s : St} {rc' : List Tree} {s' : St} (hw : WFL env.tbl rc)
    (heq : programLoop env f unit main0 fuel k rc s = (.done rc', s')) : WFL env.tbl rc' := by
  induction k generalizing rc s with
  | zero => simp only [programLoop] at heq; simp at heq
  | succ k ih =>
    simp only [programLoop] at heq
    split at heq
    · rename_i r1 s1 h1
      -- a `stop` result is never `done`
      exfalso
      simp only [Prod.mk.injEq] at heq
      obtain ⟨rfl, _⟩ := heq
      unfold unitStep at h1
      split at h1
      · split at h1
        · split at h1 <;> simp at h1
        · simp at h1
      · simp at h1
    · rename_i rc1 s1 h1
      have hw1 := unitStep_E hf hw h1
      split at heq
      · simp at heq
      · rename_i rc2 s2 h2
        have hw2 := addCID_WFL hw1 h2
        split at heq
        · simp only [Prod.mk.injEq, PRes.done.injEq] at heq
          rw [← heq.1]; exact hw2
        · exact ih hw2 heq

theorem programMatch_E {f : F} (hf : FE env.tbl f) {fuel : Nat} {unit main0 : Cls} {s : St}
    {content : List Tree} {s' : St}
    (heq : programMatch env f fuel unit main0 s = (.tuple content, s')) :
    WFL env.tbl content := by
  unfold programMatch at heq
  split at heq
  · simp at heq
  · rename_i rc0 s1 h1
    have hw0 := addCID_WFL (tbl := env.tbl) (rc := []) trivial h1
    split at heq
    · rename_i rc s2 h2
      simp only [Prod.mk.injEq, MRes.tuple.injEq] at heq
      rw [← heq.1]; exact (WFL_reverse _ _).2 (programLoop_E hf hw0 h2)
    · simp at heq
    · split at heq
      · exact (blockMatch_E hf heq).1
      · simp at heq

theorem altLoop_E {g : G} (hg : GE env.tbl g) (ds pc : List Cls) (s : St) :
    ESpec env.tbl (altLoop env g ds pc s).1 := by
  induction ds generalizing pc s with
  | nil =>
    simp only [altLoop]
    intro t h
    unfold blankRule at h
    split at h <;> cases h
  | cons d ds ih =>
    simp only [altLoop]
    split
    · exact ih _ _
    · have := hg d pc s
      split
      · rename_i t pc1 s1 h1; rw [h1] at this; exact this
      · exact ih _ _
      · exact ih _ _
      · intro t h; cases h

theorem finish_E {g : G} (hg : GE env.tbl g) {c : Cls} {subs : List Cls} {r : MRes} {s1 : St}
    {pc : List Cls}
    (hr : ∀ content, r = .tuple content → WFL env.tbl content ∧ NodeOK env.tbl c content) :
    ESpec env.tbl (finish env g c subs (r, s1) pc).1 := by
  unfold finish
  split
  · rename_i content sa hh
    simp only [Prod.mk.injEq] at hh
    intro t h
    simp only [Outcome.tree.injEq] at h
    subst h
    have := hr content hh.1
    exact ⟨this.2, this.1⟩
  · exact altLoop_E hg _ _ _
  · exact altLoop_E hg _ _ _
  · intro t h; cases h

theorem eval_E (env : Env) (fuel : Nat) : GE env.tbl (eval env fuel) := by
  induction fuel with
  | zero => intro c pc s t h; simp only [eval] at h; cases h
  | succ fuel ih =>
    intro c pc s
    have hf : FE env.tbl (fresh (eval env fuel)) := fresh_E ih
    simp only [eval]
    split
    · intro t h
      exact WF_of_leaf (leafNew_E (o := (leafNew env c _ s).1) (pc' := (leafNew env c _ s).2.1)
        (s' := (leafNew env c _ s).2.2) rfl t h)
    · exact altLoop_E ih _ _ _
    · rename_i cfg subs hk
      apply finish_E ih
      intro content hc
      have := blockMatch_E hf (cfg := cfg) (s := s) (fuel := fuel)
        (s' := (blockMatch env (fresh (eval env fuel)) fuel cfg s).2) (content := content)
        (Prod.ext hc rfl)
      exact ⟨this.1, by unfold NodeOK; rw [hk]; exact this.2⟩
    · rename_i item subs hk
      apply finish_E ih
      intro content hc
      have := manyLoop_E hf (c := item) (k := fuel) (rc := []) (s := s)
        (s' := (manyLoop (fresh (eval env fuel)) item fuel [] s).2) (content := content) trivial
        (Prod.ext hc rfl)
      exact ⟨this, by unfold NodeOK; rw [hk]; trivial⟩
    · rename_i cs subs hk
      apply finish_E ih
      intro content hc
      have := seqNR_E hf (q := env.tbl.quirks) (cs := cs) (rc := []) (s := s)
        (s' := (seqNR env.tbl.quirks (fresh (eval env fuel)) cs [] s).2) (content := content)
        trivial (Prod.ext hc rfl)
      exact ⟨this, by unfold NodeOK; rw [hk]; trivial⟩
    · rename_i cfg scope subs hk
      apply finish_E ih
      intro content hc
      have := main0Match_E hf (cfg := cfg) (scope := scope) (s := s) (fuel := fuel)
        (s' := (main0Match env (fresh (eval env fuel)) fuel cfg scope s).2) (content := content)
        (Prod.ext hc rfl)
      exact ⟨this.1, by unfold NodeOK; rw [hk]; exact this.2⟩
    · rename_i unit main0 subs hk
      have hfin : ESpec env.tbl (finish env (eval env fuel) c subs
          (programMatch env (fresh (eval env fuel)) fuel unit main0 s) [c]).1 := by
        apply finish_E ih
        intro content hc
        have := programMatch_E hf (unit := unit) (main0 := main0) (s := s) (fuel := fuel)
          (s' := (programMatch env (fresh (eval env fuel)) fuel unit main0 s).2)
          (content := content) (Prod.ext hc rfl)
        exact ⟨this, by unfold NodeOK; rw [hk]; trivial⟩
      intro t h
      apply hfin t
      generalize (finish env (eval env fuel) c subs
        (programMatch env (fresh (eval env fuel)) fuel unit main0 s) [c]).1 = o1 at h
      cases o1 with
      | tree t1 => exact h
      | none => cases h
      | raise e => cases e <;> cases h
    · intro t h
      exact WF_of_leaf (commentNew_E (o := (commentNew env s).1) (s' := (commentNew env s).2) rfl t h)
    · intro t h
      exact WF_of_leaf (directiveNew_E (o := (directiveNew env s).1)
        (s' := (directiveNew env s).2) rfl t h)
    · rename_i cs _
      intro t h
      exact WF_of_leaf (cppNew_E (o := (cppNew env cs s).1) (s' := (cppNew env cs s).2) rfl t h)

end Fp.Block
