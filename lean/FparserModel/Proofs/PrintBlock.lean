import FparserModel.Proofs.PrintRender
import FparserModel.Props.Block
/-!
# PrintBlock — from the block matcher's tree (`Fp.Block.Tree`) to the printed lines

`ofBlock L` reads a matcher tree as a printer tree: the same shape, every leaf `(class, item)`
printed as `L class item` (its `tofortran` data: the leaf slices).  The frontier theorem of the
printer then composes with `frontier_eq_consumed` / `comments_once_in_order` of the matcher.
-/
namespace Fp.Print

mutual
def ofBlock (L : Block.Cls → Block.Item → Leaf) : Block.Tree → Tree
  | .leaf c i _ => .leaf (L c i)
  | .node c ks => .block c (ofBlockL L ks)
def ofBlockL (L : Block.Cls → Block.Item → Leaf) : List Block.Tree → List Tree
  | [] => []
  | t :: ts => ofBlock L t :: ofBlockL L ts
end

mutual
/-- (class, item) of the leaves of a matcher tree -/
def leafPairs : Block.Tree → List (Block.Cls × Block.Item)
  | .leaf c i _ => [(c, i)]
  | .node _ ks => leafPairsL ks
def leafPairsL : List Block.Tree → List (Block.Cls × Block.Item)
  | [] => []
  | t :: ts => leafPairs t ++ leafPairsL ts
end

mutual
theorem leafPairs_snd (t : Block.Tree) : (leafPairs t).map (·.2) = t.frontier := by
  cases t with
  | leaf c i info => simp [leafPairs, Block.Tree.frontier]
  | node c ks => simp only [leafPairs, Block.Tree.frontier]; exact leafPairsL_snd ks
theorem leafPairsL_snd (ts : List Block.Tree) : (leafPairsL ts).map (·.2) = Block.frontierL ts := by
  cases ts with
  | nil => simp [leafPairsL, Block.frontierL]
  | cons t ts => simp [leafPairsL, Block.frontierL, leafPairs_snd t, leafPairsL_snd ts]
end

mutual
theorem frontier_ofBlock (L : Block.Cls → Block.Item → Leaf) (t : Block.Tree) :
    (ofBlock L t).frontier = (leafPairs t).map fun p => L p.1 p.2 := by
  cases t with
  | leaf c i info => simp [ofBlock, leafPairs, Tree.frontier]
  | node c ks => simp only [ofBlock, leafPairs, Tree.frontier]; exact frontierL_ofBlockL L ks
theorem frontierL_ofBlockL (L : Block.Cls → Block.Item → Leaf) (ts : List Block.Tree) :
    frontierL (ofBlockL L ts) = (leafPairsL ts).map fun p => L p.1 p.2 := by
  cases ts with
  | nil => simp [ofBlockL, leafPairsL, frontierL]
  | cons t ts => simp [ofBlockL, leafPairsL, frontierL, frontier_ofBlock L t, frontierL_ofBlockL L ts]
end

/-- the leaves behind the printed lines of a sane tree are its frontier -/
theorem lineLeaves_printTree (T : Tbl) (tab : Str) (t : Tree) (hs : t.sane T = true) :
    lineLeaves (printTree T tab t) = t.frontier :=
  lineLeaves_of_src _ _ (by rw [printTree_src, slots_sane T t hs])

/-- the item ids of the printed lines that satisfy `q` are the ids of the frontier items that
    satisfy `p` (when `q` on a printed leaf is `p` on its item) -/
theorem printed_items_of_frontier (p : Block.Item → Bool) (q : Leaf → Bool)
    (L : Block.Cls → Block.Item → Leaf) (hq : ∀ c i, q (L c i) = p i) (hid : ∀ c i, (L c i).item = i.id)
    (T : Tbl) (tab : Str) (t : Block.Tree) (hs : (ofBlock L t).sane T = true) :
    ((lineLeaves (printTree T tab (ofBlock L t))).filter q).map (·.item)
      = (Block.itemsOf p t.frontier).map (·.id) := by
  rw [lineLeaves_printTree T tab _ hs, frontier_ofBlock, ← leafPairs_snd]
  unfold Block.itemsOf
  generalize leafPairs t = ps
  induction ps with
  | nil => rfl
  | cons a r ih =>
    simp only [List.map_cons, List.filter_cons, hq]
    by_cases h : p a.2 = true
    · simp [h, hid, ih]
    · simp [h, ih]

end Fp.Print
