import FparserModel.Proofs.ExprSplit

/-! whatever the chain accepts is grouped by the precedence table -/
namespace Fp.Expr

/-- The grammar the CODE implements, read off the level table: a tree accepted by class `k`
is either accepted by the next class, or an operator of `k`'s pattern applied to operands
accepted by `k`'s lhs/rhs classes. Precedence: operands come from the classes the table
names (tighter or equal). Associativity: for a `binL` row the rhs class is strictly tighter
than `k`, so an equal-precedence operator can only sit in the LEFT operand (for `**`, the
`binR` row, only in the right one); `Level_4_Expr` has tighter classes on both sides (not
associative). "Loose": `Level_1_Expr` takes any `.word.` as unary operator, which only
matters for invalid input (`- .not. a`). -/
inductive Groups : Lv → Ex → Prop
  | sub {k k' : Lv} {e : Ex} : (rowOf k).next = some k' → Groups k' e → Groups k e
  | bin {k a b : Lv} {o : T} {l r : Ex} :
      (rowOf k).kind = .binL ∨ (rowOf k).kind = .binR →
      (rowOf k).lhs = some a → (rowOf k).rhs = some b →
      (rowOf k).cls.test o = true → o.isParen = false →
      ((rowOf k).excl = true → o.excluded = false) →
      Groups a l → Groups b r → Groups k (.bin o l r)
  | un {k b : Lv} {o : T} {e : Ex} :
      (rowOf k).kind = .unary → (rowOf k).rhs = some b → (rowOf k).cls.test o = true →
      Groups b e → Groups k (.un o e)
  | atom {k : Lv} (i : Nat) (d g : Bool) : (rowOf k).kind = .prim → Groups k (.atom i d g)
  | paren {k b : Lv} {e : Ex} : (rowOf k).kind = .prim → (rowOf k).rhs = some b →
      Groups b e → Groups k (.paren e)

theorem matchStep_groups {rec : Lv → List T → Option Ex}
    (hrec : ∀ k ts e, rec k ts = some e → Groups k e)
    {k : Lv} {ts : List T} {e : Ex} (h : matchStep rec (rowOf k) ts = some e) : Groups k e := by
  unfold matchStep at h
  split at h
  · -- binL
    rename_i lhs rhs hk hl hr
    split at h
    · simp at h
    · split at h
      · rename_i l o r hs
        split at h
        · simp at h
        · split at h
          · simp at h
          · rename_i hex
            split at h
            · rename_i R hR
              split at h
              · rename_i L hL
                simp only [Option.some.injEq] at h
                subst h
                have ht := splitLast_test hs
                refine Groups.bin (Or.inl hk) hl hr ht.1 ht.2 ?_ (hrec _ _ _ hL) (hrec _ _ _ hR)
                intro hx
                cases hxx : o.excluded with
                | false => rfl
                | true => exact absurd ⟨hx, hxx⟩ hex
              · simp at h
            · simp at h
      · simp at h
  · -- binR
    rename_i lhs rhs hk hl hr
    split at h
    · rename_i l o r hs
      split at h
      · simp at h
      · split at h
        · simp at h
        · rename_i hex
          split at h
          · rename_i L hL
            split at h
            · rename_i R hR
              simp only [Option.some.injEq] at h
              subst h
              have ht := splitFirst_test hs
              refine Groups.bin (Or.inr hk) hl hr ht.1 ht.2 ?_ (hrec _ _ _ hL) (hrec _ _ _ hR)
              intro hx
              cases hxx : o.excluded with
              | false => rfl
              | true => exact absurd ⟨hx, hxx⟩ hex
            · simp at h
          · simp at h
    · simp at h
  · -- unary
    rename_i rhs hk hr
    split at h
    · split at h
      · rename_i hc
        split at h
        · rename_i R hR
          simp only [Option.some.injEq] at h
          subst h
          exact Groups.un hk hr hc.1 (hrec _ _ _ hR)
        · simp at h
      · simp at h
    · simp at h
  · -- prim
    rename_i inner hk hr
    split at h
    · simp only [Option.some.injEq] at h
      subst h
      exact Groups.atom _ _ _ hk
    · split at h
      · split at h
        · simp at h
        · split at h
          · rename_i e' he
            simp only [Option.some.injEq] at h
            subst h
            exact Groups.paren hk hr (hrec _ _ _ he)
          · simp at h
      · simp at h
    · simp at h
  · simp at h

theorem parseF_groups : ∀ (n : Nat) (k : Lv) (ts : List T) (e : Ex),
    parseF n k ts = some e → Groups k e := by
  intro n
  induction n with
  | zero => intro k ts e h; simp [parseF] at h
  | succ n ih =>
    intro k ts e h
    rw [parseF_succ] at h
    split at h
    · rename_i e' hm
      simp only [Option.some.injEq] at h
      subst h
      exact matchStep_groups ih hm
    · split at h
      · rename_i k' hk
        exact Groups.sub hk (ih _ _ _ h)
      · simp at h

/-- the root operator of a tree accepted at class `k` belongs to `k` or to a tighter class:
an explicit reading of "grouped by precedence" -/
def rootRankOK (k : Lv) : Ex → Prop
  | .bin o _ _ => ∃ k', k'.rank ≤ k.rank ∧ (rowOf k').cls.test o = true ∧
      ((rowOf k').kind = .binL ∨ (rowOf k').kind = .binR)
  | .un o _ => ∃ k', k'.rank ≤ k.rank ∧ (rowOf k').cls.test o = true ∧ (rowOf k').kind = .unary
  | _ => True

theorem groups_root {k : Lv} {e : Ex} (h : Groups k e) : rootRankOK k e := by
  induction h with
  | bin hk _ _ ht _ _ _ _ _ _ => exact ⟨_, Nat.le_refl _, ht, hk⟩
  | un hk _ ht _ _ => exact ⟨_, Nat.le_refl _, ht, hk⟩
  | atom => trivial
  | paren => trivial
  | @sub k k' e hk _ ih =>
    have := next_rank hk
    cases e with
    | bin o l r =>
      obtain ⟨k'', h1, h2⟩ := ih
      exact ⟨k'', by omega, h2⟩
    | un o x =>
      obtain ⟨k'', h1, h2⟩ := ih
      exact ⟨k'', by omega, h2⟩
    | atom => trivial
    | paren => trivial

end Fp.Expr
