import FparserModel.Proofs.IoStmtBasic
/-!
The Hollerith count of `Format_Item_List.match` after the repair fa6d1cf of /repo:
`int(match_str[:-1].replace(" ", ""))` cannot raise — the text is a non-empty string of digits.
(Before the repair it was `int(match_str[:-1])`, and `int("1 2")` raised `ValueError`.)
-/
namespace Fp.IoStmt
open Fp Fp.Splitline

theorem isDigit_not_space {c : Char} (h : isDigit c = true) : isSpace c = false := by
  cases hs : isSpace c with
  | false => rfl
  | true =>
    rcases isSpace_cases hs with e | e | e | e | e | e | e | e | e | e <;> (subst e; revert h; decide)

theorem rstrip_of_no_space {t : Str} (h : ∀ c ∈ t, isSpace c = false) : rstrip t = t := by
  unfold rstrip
  have : t.reverse.dropWhile isSpace = t.reverse := by
    cases hr : t.reverse with
    | nil => rfl
    | cons x xs =>
      have hx : x ∈ t := by
        have : x ∈ t.reverse := by rw [hr]; simp
        exact List.mem_reverse.mp this
      simp [List.dropWhile_cons, h x hx]
  rw [this, List.reverse_reverse]

theorem digit_of_range {c : Char} (h1 : '1' ≤ c) (h2 : c ≤ '9') : isDigit c = true := by
  have a : 49 ≤ c.toNat := h1
  have b : c.toNat ≤ 57 := h2
  simp only [isDigit, Char.isDigit, Bool.and_eq_true, decide_eq_true_eq]
  constructor
  · show (48 : Nat) ≤ c.val.toNat
    have : c.val.toNat = c.toNat := rfl
    omega
  · show c.val.toNat ≤ (57 : Nat)
    have : c.val.toNat = c.toNat := rfl
    omega

/-- the shape of a Hollerith prefix `^[1-9][0-9 ]*[hH]` -/
theorem hollerithPrefix_shape {cur m : Str} (h : hollerithPrefix cur = some m) :
    ∃ c run hh, m = c :: run ++ [hh] ∧ isDigit c = true ∧ (∀ d ∈ run, isDigit d = true ∨ d = ' ') := by
  unfold hollerithPrefix at h
  split at h
  · cases h
  · rename_i c cs
    split at h
    · rename_i hc
      simp only [Bool.and_eq_true, decide_eq_true_eq] at hc
      dsimp only at h
      split at h
      · rename_i hh rest hdrop
        split at h
        · cases h
          refine ⟨c, _, hh, rfl, digit_of_range hc.1 hc.2, ?_⟩
          intro d hd
          have := mem_takeWhile_p _ _ _ hd
          simpa using this
        · cases h
      · cases h
    · cases h

/-- **the `int(...)` of the repaired Hollerith branch never raises** -/
theorem hollerith_count_int {cur m : Str} (h : hollerithPrefix cur = some m) :
    ∃ n, pyInt (Combi.noSpaces m.dropLast) = some n := by
  obtain ⟨c, run, hh, rfl, hc, hrun⟩ := hollerithPrefix_shape h
  have hd : (c :: run ++ [hh]).dropLast = c :: run := by
    rw [show c :: run ++ [hh] = (c :: run) ++ [hh] from rfl, List.dropLast_concat]
  rw [hd]
  have hc' : (c != ' ') = true := by
    simp only [bne_iff_ne, ne_eq]; intro e; subst e; revert hc; decide
  have hns : Combi.noSpaces (c :: run) = c :: run.filter (· != ' ') := by
    simp [Combi.noSpaces, List.filter_cons, hc']
  have hall : ∀ d ∈ c :: run.filter (· != ' '), isDigit d = true := by
    intro d hd'
    rcases List.mem_cons.mp hd' with e | e
    · subst e; exact hc
    · obtain ⟨h1, h2⟩ := List.mem_filter.mp e
      rcases hrun d h1 with h3 | h3
      · exact h3
      · subst h3; simp at h2
  have hr : rstrip (c :: run.filter (· != ' ')) = c :: run.filter (· != ' ') :=
    rstrip_of_no_space (fun d hd' => isDigit_not_space (hall d hd'))
  refine ⟨digitsToNat (c :: run.filter (· != ' ')), ?_⟩
  unfold pyInt
  rw [hns]
  simp only [hr]
  have : (c :: run.filter (· != ' ')).all isDigit = true := List.all_eq_true.mpr hall
  simp [this]

/-- regression witnesses for fa6d1cf: the inputs on which `int("1 2")` used to raise -/
theorem formatItemList_hollerith_blank_no_raise :
    planFormatItemList "1 2habc".toList = .ok [.fail] ∧
    planFormatItemList "1 0h".toList = .ok [.fail] := by decide +kernel

theorem formatItemList_hollerith_blank_count :
    planFormatItemList "1 2habcdefghijkl, i3".toList
      = .ok [.child C.Hollerith_Item "1 2habcdefghijkl".toList, .child C.Format_Item "i3".toList] := by
  decide +kernel

end Fp.IoStmt
