"""Co-simulation of the SymTab / Registry / Tree models against the real fparser2.

  (i)   random operation scripts against fresh REAL `SymbolTables` / `SymbolTable` objects
        (and the real `Intrinsic_Function_Reference.match` decision) vs `Fp.SymTab`;
  (ii)  the model's registry (`setup (members std)` over the generated class facts) vs the
        REAL `Base.subclasses`, for both standards and for random histories of `create`;
  (iii) real parse trees of sample programs: the `_set_parent` / `Base.__init__` events are
        recorded, replayed in the arena model, and parent map / walk / get_root / get_child
        are compared with the real tree; `copy.deepcopy` + `pickle` of the real tree vs the
        model's `deepcopy` (incl. hypothetical classes with a broken copy protocol, which the
        model must predict to fail).

    timeout 900 /venv/bin/python -m fv.cosim_symtree --seed 0 --n 2000
"""
import argparse
import copy
import pickle
import random
import sys
import time

from fv import repo
repo.activate()

from fv import model as _model            # noqa: E402
from fv import extract_classes            # noqa: E402


def _hex(s):
    return s.encode("utf-8").hex()


# =========================================================================== (i) symbol tables

NAMES = ["a", "B", "c", "Mod", "x", "SIN", "cos", "Max", "f", "G", "mod_b", "Amax0", "null",
         "Shiftl", "erf", "p", "q"]
TYPES = ["integer", "REAL", "character", "Logical"]


class RealTabs:
    """Drives a fresh real SymbolTables instance with the op language of the driver."""

    def __init__(self):
        from fparser.two.symbol_table import SymbolTables
        self.st = SymbolTables()
        self.std = None

    # -- helpers
    def resolve(self, tgt):
        if tgt == "cur":
            return self.st.current_scope
        parts = tgt.split("/")
        try:
            t = self.st.lookup(parts[0])
            for i in parts[1:]:
                t = t.children[int(i)]
            return t
        except (KeyError, IndexError):
            return None

    def path_of(self, table):
        if table is None:
            return "-"
        idx = []
        cur = table
        while cur.parent is not None:
            par = cur.parent
            pos = [i for i, c in enumerate(par.children) if c is cur]
            if len(pos) != 1:
                return "DETACHED"
            idx.append(str(pos[0]))
            cur = par
        # the root must be the registered top-level table of that name
        try:
            if self.st.lookup(cur.name) is not cur:
                return "DETACHED"
        except KeyError:
            return "DETACHED"
        return "/".join([cur.name] + idx[::-1])

    def all_paths(self):
        out = []

        def rec(t, p):
            out.append(p)
            for i, c in enumerate(t.children):
                rec(c, p + "/" + str(i))
        for name, t in self.st._symbol_tables.items():
            rec(t, name)
        return out

    @staticmethod
    def parse_only(s):
        if s == "-":
            return None
        out = []
        for e in [x for x in s[1:-1].split(",") if x]:
            if "=" in e:
                a, b = e.split("=")[:2]
                out.append((a, b))
            else:
                out.append((e, None))
        return out

    @staticmethod
    def parse_rename(s):
        if s == "-":
            return None
        out = []
        for e in [x for x in s[1:-1].split(",") if x]:
            a, b = (e.split("=") + [""])[:2]
            out.append((a, b))
        return out

    def ensure_std(self, std):
        if self.std != std:
            from fparser.two.parser import ParserFactory
            ParserFactory().create(std=std)
            self.std = std

    _submod_node = None

    @classmethod
    def submod_node(cls):
        if cls._submod_node is None:
            from fparser.two.parser import ParserFactory
            ParserFactory().create(std="f2008")
            from fparser.two.Fortran2008 import Submodule_Stmt
            cls._submod_node = Submodule_Stmt("submodule (anc) sub")
            ParserFactory().create(std="f2003")
        return cls._submod_node

    # -- one op
    def step(self, op):
        from fparser.two.symbol_table import SymbolTableError
        t = op.split()
        k = t[0]
        st = self.st
        try:
            if k == "clear":
                st.clear()
                return "ok"
            if k == "checks":
                st.enable_checks(t[1] == "1")
                return "ok"
            if k == "add":
                st.add(t[1])
                return "ok"
            if k == "clookup":
                return "ok:" + self.path_of(st.lookup(t[1]))
            if k == "enter":
                st.enter_scope(t[1])
                return "ok"
            if k == "enters":
                st.enter_scope(t[1], node=self.submod_node())
                return "ok"
            if k == "exit":
                st.exit_scope()
                return "ok"
            if k == "remove":
                st.remove(t[1])
                return "ok"
            if k == "intr":
                return self.intr(t[1], t[2], int(t[3]))
            tab = self.resolve(t[1])
            if tab is None:
                return "badpath"
            if k == "sym":
                tab.add_data_symbol(t[2], t[3])
                return "ok"
            if k == "use":
                tab.add_use_symbols(t[2], self.parse_only(t[3]), self.parse_rename(t[4]))
                return "ok"
            if k == "look":
                s = tab.lookup(t[2])
                return "found:%s:%s" % (s.name, s.primitive_type)
            if k == "wild":
                return "wild:" + ",".join(tab.wildcard_imports)
            if k == "resolved":
                return "resolved:%d" % (1 if tab.all_symbols_resolved else 0)
            if k == "str":
                return _hex(str(tab))
        except SymbolTableError:
            return "SymbolTableError"
        except KeyError:
            return "KeyError"
        return "badop"

    def intr(self, std, name, nargs):
        """The REAL decision: Intrinsic_Function_Reference.match with SYMBOL_TABLES pointing
        at our fresh container."""
        self.ensure_std(std)
        from fparser.two import Fortran2003, Fortran2008
        from fparser.two.utils import InternalSyntaxError, NoMatchError
        cls = (Fortran2008.Intrinsic_Function_Reference if std == "f2008"
               else Fortran2003.Intrinsic_Function_Reference)
        text = "%s(%s)" % (name, ", ".join("arg%d" % i for i in range(nargs)))
        saved = Fortran2003.SYMBOL_TABLES
        Fortran2003.SYMBOL_TABLES = self.st
        try:
            try:
                res = cls.match(text)
            except InternalSyntaxError:
                return "InternalSyntaxError"
            except NoMatchError:
                # `Intrinsic_Name(lhs)` failed inside CallBase.match; Base.__new__ of the
                # caller turns this into "no match"
                return "nomatch"
            except KeyError:
                return "KeyError"
        finally:
            Fortran2003.SYMBOL_TABLES = saved
        return "match" if res else "nomatch"

    # -- renderings (mirror FpDriver/SymTree.lean)
    @staticmethod
    def opt_set(s):
        return "-" if s is None else "|".join(sorted(s))

    def render_mod(self, m):
        return "%s(w=%d,only=%s,ren=%s,syms=%s,l2m=%s)" % (
            m.name, 1 if m.wildcard_import else 0, self.opt_set(m._only_set),
            self.opt_set(m._rename_set), "|".join(sorted(m._symbols.keys())),
            "|".join("%s>%s" % kv for kv in m._local_to_module_map.items()))

    def render_table(self, t):
        from fparser.two.Fortran2008 import Submodule_Stmt
        for k, v in t._data_symbols.items():
            assert k == v.name
        loc = "%s{syms:%s;mods:%s;chk=%d;sub=%d}" % (
            t.name,
            ",".join("%s:%s:%s" % (k, v.name, v.primitive_type) for k, v in t._data_symbols.items()),
            ",".join("%s=%s" % (k, self.render_mod(m)) for k, m in t._modules.items()),
            1 if t._checking_enabled else 0, 1 if isinstance(t.node, Submodule_Stmt) else 0)
        return loc + "[" + ",".join(self.render_table(c) for c in t.children) + "]"

    def render_forest(self):
        return ";".join("%s=>%s" % (k, self.render_table(t))
                        for k, t in self.st._symbol_tables.items())


def _rand_only(rng):
    r = rng.random()
    if r < 0.35:
        return "-"
    if r < 0.45:
        return "[]"
    ents = []
    for _ in range(rng.randint(1, 3)):
        a = rng.choice(NAMES)
        q = rng.random()
        if q < 0.5:
            ents.append(a)
        elif q < 0.9:
            ents.append(a + "=" + rng.choice(NAMES))
        else:
            ents.append(a + "=")       # empty original name (falsy)
    return "[" + ",".join(ents) + "]"


def _rand_rename(rng):
    r = rng.random()
    if r < 0.6:
        return "-"
    if r < 0.7:
        return "[]"
    return "[" + ",".join(rng.choice(NAMES) + "=" + rng.choice(NAMES)
                          for _ in range(rng.randint(1, 2))) + "]"


def gen_symtab_script(rng, length=None):
    """Generate a script op by op, consulting a real container only to pick valid paths."""
    real = RealTabs()
    ops, expect = [], []
    std = rng.choice(["f2003", "f2008"])
    n = length or rng.randint(5, 40)
    for _ in range(n):
        r = rng.random()
        paths = real.all_paths()
        tgt = "cur" if ((rng.random() < 0.6 and real.st.current_scope is not None)
                        or not paths) else rng.choice(paths)
        nm = rng.choice(NAMES[:7]) if rng.random() < 0.7 else rng.choice(NAMES)
        if r < 0.24:
            op = "%s %s" % ("enters" if rng.random() < 0.07 else "enter", nm)
        elif r < 0.33:
            op = "exit"
        elif r < 0.40:
            # mostly a name that exists (child of the current scope or top-level)
            cs = real.st.current_scope
            cands = ([c.name for c in cs.children] if cs else []) + list(real.st._symbol_tables)
            op = "remove " + (rng.choice(cands) if cands and rng.random() < 0.7 else nm)
        elif r < 0.44:
            op = "add " + nm
        elif r < 0.47:
            op = "clookup " + nm
        elif r < 0.475:
            op = "clear"
        elif r < 0.52:
            op = "checks %d" % rng.randint(0, 1)
        elif r < 0.64:
            op = "sym %s %s %s" % (tgt, nm, rng.choice(TYPES))
        elif r < 0.74:
            op = "use %s %s %s %s" % (tgt, rng.choice(["Mod", "mod_b", "m3", "a"]),
                                      _rand_only(rng), _rand_rename(rng))
        elif r < 0.86:
            op = "look %s %s" % (tgt, nm)
        elif r < 0.89:
            op = "wild " + tgt
        elif r < 0.92:
            op = "resolved " + tgt
        elif r < 0.94:
            op = "str " + tgt
        else:
            op = "intr %s %s %d" % (std, rng.choice(
                ["sin", "SIN", "Max", "amax0", "cos", "null", "shiftl", "erf", "x", "f",
                 "command_argument_count", "Min", "size"]), rng.randint(0, 4))
        if op.split()[0] in ("sym", "use", "look", "wild", "resolved", "str") and tgt == "cur" \
                and real.st.current_scope is None:
            expect.append(real.step(op))   # gives badpath on both sides
        else:
            expect.append(real.step(op))
        ops.append(op)
    final = (str(real.st), real.render_forest(), real.path_of(real.st.current_scope))
    return ops, expect, final


def check_symtab(m, ops, expect, final):
    rep = m.ask("symtab", "\n".join(ops))
    got = rep[0].split("\n") if rep[0] else []
    probs = []
    if got != expect:
        for i, (g, e) in enumerate(zip(got, expect)):
            if g != e:
                probs.append("op %d %r: model %r real %r" % (i, ops[i], g, e))
                break
        if len(got) != len(expect):
            probs.append("length %d vs %d" % (len(got), len(expect)))
    if rep[1] != final[0]:
        probs.append("str(SYMBOL_TABLES): model %r real %r" % (rep[1], final[0]))
    if rep[2] != final[1]:
        probs.append("forest: model %r real %r" % (rep[2], final[1]))
    if rep[3] != final[2]:
        probs.append("current scope: model %r real %r" % (rep[3], final[2]))
    return probs


FIXED_SYMTAB = [
    # del_child removes the FIRST child of that name
    ["enter a", "enter b", "sym cur x integer", "exit", "enter b", "exit", "remove b",
     "look a/0 x"],
    # top-level reuse
    ["enter a", "sym cur v real", "exit", "enter A", "look cur V", "exit", "remove a", "remove a"],
    # cannot remove an ancestor
    ["enter a", "enter b", "remove a", "exit", "remove a", "exit", "remove a"],
    # wildcard / only / rename
    ["enter m", "use cur Mod - -", "use cur Mod [sin] -", "look cur SIN", "wild cur",
     "resolved cur", "intr f2003 sin 3", "intr f2003 cos 3", "enter s", "intr f2003 cos 3"],
    ["intr f2003 cos 3", "intr f2008 shiftl 2", "intr f2003 shiftl 2", "intr f2003 max 1",
     "intr f2003 null 0", "intr f2003 amax0 1"],
    ["enters sm", "enter p", "resolved cur", "intr f2008 cos 2", "exit", "exit", "enter q",
     "intr f2008 cos 2"],
    ["checks 1", "enter a", "sym cur x integer", "sym cur X real", "use cur m [y] -",
     "sym cur y real", "sym cur m real", "checks 0", "enter b", "sym cur x real", "sym cur x real"],
    ["enter a", "use cur m [a=,b=c] [d=e]", "use cur m - [f=g]", "use cur m [] -", "str cur",
     "look cur d", "look cur e", "look cur c"],
    ["add a", "add A", "clookup A", "clookup b", "enter a", "clear", "exit"],
]


# =========================================================================== (ii) registry

def real_registry():
    from fparser.two.utils import Base
    lines = []
    for key, lst in Base.subclasses.items():
        lines.append("%s=%s" % (key, ",".join(
            "%d:%s" % (extract_classes._mod_id(c.__module__), c.__name__) for c in lst)))
    return "\n".join(lines)


def check_registry_history(m, hist):
    """hist: list of 'f2003' | 'f2008' | 'none' | 'bad'."""
    from fparser.two.parser import ParserFactory
    from fparser.two.utils import Base
    from fparser.two.symbol_table import SYMBOL_TABLES
    probs = []
    Base.subclasses = {}      # the model starts from the empty registry
    for h in hist:
        SYMBOL_TABLES.enter_scope("leftover")
        try:
            ParserFactory().create(std=None if h == "none" else h)
            if h == "bad":
                probs.append("create('bad') did not raise")
        except ValueError:
            if h != "bad":
                probs.append("create(%r) raised ValueError" % h)
        if SYMBOL_TABLES.current_scope is not None or SYMBOL_TABLES._symbol_tables:
            probs.append("symbol tables not cleared by create(%r)" % h)
    got = m.ask("registry", ",".join(hist))[0]
    want = real_registry()
    if got != want:
        gl, wl = got.split("\n"), want.split("\n")
        for i in range(max(len(gl), len(wl))):
            a = gl[i] if i < len(gl) else None
            b = wl[i] if i < len(wl) else None
            if a != b:
                probs.append("history %s: line %d model %r real %r" % (hist, i, a, b))
                break
    # "depends only on the last create"
    last = [h for h in hist if h != "bad"]
    if last:
        alone = m.ask("registry", last[-1])[0]
        if alone != got:
            probs.append("history %s: model registry differs from create(%s) alone" % (hist, last[-1]))
    return probs


def gen_history(rng):
    return [rng.choice(["f2003", "f2008", "f2008", "f2003", "none", "bad"])
            for _ in range(rng.randint(1, 5))]


# =========================================================================== (iii) trees

PROGRAMS = [
    ("p01_simple", "f2003", "program p\n  integer :: i\n  i = 1\nend program p\n"),
    ("p02_comments", "f2003",
     "! header\nprogram p\n  ! inside\n  integer :: i ! trailing\n  i = 1\n  ! last\nend program p\n! after\n"),
    ("p03_directive", "f2003",
     "subroutine s(a)\n  real :: a(10)\n  integer :: i\n  !$omp parallel do\n  do i = 1, 10\n"
     "    a(i) = 0.0\n  end do\n  !$omp end parallel do\n  !dir$ ivdep\nend subroutine s\n"),
    ("p04_cpp", "f2003",
     "#define N 10\nmodule m\n#ifdef FOO\n  integer :: foo\n#else\n  real :: nofoo\n#endif\n  integer :: k\n"
     "#include \"x.h\"\nend module m\n"),
    ("p05_include", "f2003",
     "program p\n  include 'decls.inc'\n  x = 1\n  include \"more.inc\"\nend program p\n"),
    ("p06_nested", "f2003",
     "module m\n  implicit none\n  integer :: a\ncontains\n  subroutine s1()\n    integer :: b\n"
     "    b = a\n  contains\n    subroutine inner()\n      integer :: c\n      c = 1\n"
     "    end subroutine inner\n  end subroutine s1\n  function f(x)\n    real :: f, x\n"
     "    f = x\n  end function f\nend module m\n"),
    ("p07_block", "f2008",
     "program p\n  integer :: i\n  i = 1\n  b1: block\n    integer :: j\n    j = i\n"
     "    block\n      real :: z\n      z = 1.0\n    end block\n  end block b1\nend program p\n"),
    ("p08_intrinsic_shadow", "f2003",
     "module m\ncontains\n  subroutine s(x, y)\n    real :: x, y, sin(3)\n    y = sin(2) + cos(x)\n"
     "  end subroutine s\n  subroutine t(x, y)\n    real :: x, y\n    y = sin(x) + max(x, y, 1.0)\n"
     "  end subroutine t\nend module m\n"),
    ("p09_if_select", "f2003",
     "subroutine s(i, r)\n  integer :: i\n  real :: r\n  if (i > 0) then\n    r = 1.0\n"
     "  else if (i < 0) then\n    r = -1.0\n  else\n    r = 0.0\n  end if\n  select case (i)\n"
     "  case (1, 2)\n    r = r + 1\n  case (3:)\n    r = r + 2\n  case default\n    r = 0\n"
     "  end select\nend subroutine s\n"),
    ("p10_do_loops", "f2003",
     "program p\n  integer :: i, j\n  real :: a(3, 3)\n  do i = 1, 3\n    do j = 1, 3\n"
     "      a(i, j) = i * j\n    end do\n  end do\n  outer: do while (i > 0)\n    i = i - 1\n"
     "    if (i == 2) cycle outer\n  end do outer\n  do 10 i = 1, 3\n    a(i, 1) = 0\n"
     "10 continue\nend program p\n"),
    ("p11_types", "f2003",
     "module m\n  type :: point\n    real :: x, y\n  end type point\n  type, extends(point) :: p3\n"
     "    real :: z\n  contains\n    procedure :: norm\n  end type p3\ncontains\n"
     "  function norm(this)\n    class(p3), intent(in) :: this\n    real :: norm\n"
     "    norm = sqrt(this%x**2 + this%y**2 + this%z**2)\n  end function norm\nend module m\n"),
    ("p12_interface", "f2003",
     "module m\n  interface gen\n    module procedure a1, a2\n  end interface gen\n  interface\n"
     "    subroutine ext(n)\n      integer, intent(in) :: n\n    end subroutine ext\n"
     "  end interface\ncontains\n  subroutine a1(i)\n    integer :: i\n  end subroutine a1\n"
     "  subroutine a2(r)\n    real :: r\n  end subroutine a2\nend module m\n"),
    ("p13_use", "f2003",
     "module a\n  integer :: x\nend module a\nmodule b\n  use a, only: y => x\n  use c\n"
     "contains\n  subroutine s()\n    use d, only: q, r\n    q = y + dot_product(r, r)\n"
     "  end subroutine s\nend module b\n"),
    ("p14_io", "f2003",
     "program p\n  integer :: u, ios\n  character(len=20) :: name\n  open(unit=u, file='x.dat', iostat=ios)\n"
     "  read(u, *) name\n  write(*, '(a, i3)') trim(name), len(name)\n  print *, \"done\", 1.0e3\n"
     "  close(u)\n100 format(1x, a)\nend program p\n"),
    ("p15_arrays", "f2003",
     "program p\n  real, allocatable :: a(:, :)\n  integer :: n\n  n = 3\n  allocate(a(n, n))\n"
     "  a = reshape([1., 2., 3., 4., 5., 6., 7., 8., 9.], [3, 3])\n  a(1:2, :) = a(2:3, :)\n"
     "  where (a > 2.0)\n    a = 0.0\n  elsewhere\n    a = 1.0\n  end where\n  forall (n = 1:3) a(n, n) = 1.0\n"
     "  deallocate(a)\nend program p\n"),
    ("p16_empty_units", "f2003",
     "subroutine a\nend subroutine a\nfunction f()\nend function f\nmodule m\nend module m\n"
     "block data bd\nend block data bd\n"),
    ("p17_no_program_stmt", "f2003", "integer :: i\ni = 1\nprint *, i\nend\n"),
    ("p18_only_comments", "f2003", "! just a comment\n! another\n"),
    ("p19_submodule", "f2008",
     "module m\n  interface\n    module subroutine s(x)\n      real :: x\n    end subroutine s\n"
     "  end interface\nend module m\nsubmodule (m) sm\ncontains\n  module subroutine s(x)\n"
     "    real :: x\n    x = cos(x)\n  end subroutine s\nend submodule sm\n"),
    ("p20_critical_errorstop", "f2008",
     "program p\n  integer :: i\n  critical\n    i = 1\n  end critical\n"
     "  if (i > 2) error stop 'bad'\nend program p\n"),
    ("p21_do_concurrent", "f2008",
     "subroutine s(a, n)\n  integer :: n, i\n  real :: a(n)\n  do concurrent (i = 1:n)\n"
     "    a(i) = erf(a(i))\n  end do\nend subroutine s\n"),
    ("p22_block_in_do", "f2008",
     "program p\n  integer :: i\n  do i = 1, 3\n    blk: block\n      integer :: k\n"
     "      k = i\n    end block blk\n  end do\nend program p\n"),
    ("p23_associate", "f2003",
     "subroutine s(v)\n  real :: v(3)\n  associate (x => v(1), y => v(2))\n    x = y\n"
     "  end associate\nend subroutine s\n"),
    ("p24_strings", "f2003",
     "program p\n  character(len=*), parameter :: s = 'it''s', t = \"a \"\"q\"\" b\"\n"
     "  print *, s // t, 'x'(1:1)\nend program p\n"),
    ("p25_data_common", "f2003",
     "subroutine s\n  integer :: i, j\n  real :: x(3)\n  common /blk/ i, j\n  data x /1.0, 2.0, 3.0/\n"
     "  equivalence (i, j)\n  save\n  goto 10\n10 continue\n  return\nend subroutine s\n"),
    ("p26_fn_prefix", "f2003",
     "pure elemental real function sq(x) result(r)\n  real, intent(in) :: x\n  r = x * x\n"
     "end function sq\nrecursive subroutine rs(n)\n  integer :: n\n  if (n > 0) call rs(n - 1)\n"
     "end subroutine rs\n"),
    ("p27_comment_everywhere", "f2003",
     "module m ! c0\n  ! c1\n  integer :: a ! c2\n  ! c3\ncontains ! c4\n  ! c5\n"
     "  subroutine s ! c6\n    ! c7\n    a = 1 ! c8\n    if (a > 0) then ! c9\n      ! c10\n"
     "      a = 2\n    end if ! c11\n  end subroutine s ! c12\n  ! c13\nend module m ! c14\n"),
    ("p28_enum_proc_ptr", "f2003",
     "module m\n  enum, bind(c)\n    enumerator :: red = 1, green\n  end enum\n"
     "  procedure(real), pointer :: fp => null()\n  abstract interface\n    real function fi(x)\n"
     "      real, intent(in) :: x\n    end function fi\n  end interface\nend module m\n"),
    ("p29_select_type", "f2003",
     "subroutine s(o)\n  class(*) :: o\n  select type (o)\n  type is (integer)\n    print *, 'i'\n"
     "  class default\n    print *, 'd'\n  end select\nend subroutine s\n"),
    ("p30_cpp_mixed", "f2008",
     "#if defined(A)\n! c\n#endif\nprogram p\n#ifdef B\n  integer :: b\n#else\n  integer :: nb\n"
     "#endif\n  !$acc kernels\n  block\n    include 'q.inc'\n  end block\n#undef A\nend program p\n"),
    ("p31_nonblock_do_block", "f2008",
     "subroutine s\n  integer :: i\n  real :: x\n  do 10 i = 1, 3\n    b1: block\n"
     "      integer :: k\n    end block b1\n10 x = 1\nend subroutine s\n"),
]


class Recorder:
    """Records `_set_parent` and `Base.__init__` events while active."""

    def __init__(self, cids):
        self.cids = cids
        self.extra = {}
        self.objs = []
        self.ids = {}
        self.events = []

    def cid(self, cls):
        if cls in self.cids:
            return self.cids[cls]
        if cls not in self.extra:
            self.extra[cls] = 9000 + len(self.extra)
        return self.extra[cls]

    def see(self, obj):
        k = id(obj)
        if k not in self.ids:
            self.ids[k] = len(self.objs)
            self.objs.append(obj)
            self.events.append("A %d" % self.cid(type(obj)))
        return self.ids[k]

    def enc_item(self, it):
        from fparser.two.utils import Base
        if isinstance(it, Base):
            return "n%d" % self.see(it)
        if isinstance(it, str):
            return "s" + _hex(it)
        if it is None:
            return "N"
        if isinstance(it, tuple):
            return "T( " + "".join(self.enc_item(x) + " " for x in it) + ")"
        if isinstance(it, list):
            return "L( " + "".join(self.enc_item(x) + " " for x in it) + ")"
        return "o1" if it else "o0"

    def enc_items(self, items):
        return "".join(self.enc_item(x) + " " for x in items)

    def __enter__(self):
        from fparser.two import utils
        self.utils = utils
        self.orig_sp = utils._set_parent
        self.orig_init = utils.Base.__init__
        rec = self

        def sp(parent_node, items):
            # encode first (allocates ids in the order the real code would touch them)
            enc = rec.enc_items(items)
            p = rec.see(parent_node)
            rec.events.append("P %d %s" % (p, enc))
            return rec.orig_sp(parent_node, items)

        def init(obj, *a, **kw):
            n = rec.see(obj)
            rec.events.append("R %d" % n)
            return rec.orig_init(obj, *a, **kw)
        utils._set_parent = sp
        utils.Base.__init__ = init
        return self

    def __exit__(self, *exc):
        self.utils._set_parent = self.orig_sp
        self.utils.Base.__init__ = self.orig_init

    def snapshot(self):
        """children of every known node, as they are now (may discover new nodes)."""
        i = 0
        out = []
        while i < len(self.objs):
            out.append("C %d %s" % (i, self.enc_items(self.objs[i].children)))
            i += 1
        return out


def real_canon(rec, it):
    from fparser.two.utils import Base
    if isinstance(it, Base):
        return "c%d( %s )" % (rec.cid(type(it)), " ".join(real_canon(rec, x) for x in it.children))
    if isinstance(it, tuple):
        return "T( %s )" % " ".join(real_canon(rec, x) for x in it)
    if isinstance(it, list):
        return "L( %s )" % " ".join(real_canon(rec, x) for x in it)
    if isinstance(it, str):
        return "s" + _hex(it)
    if it is None:
        return "N"
    return "o1" if it else "o0"


def _sp_nodes(items):
    from fparser.two.utils import Base
    out = []
    for it in items:
        if it:
            if isinstance(it, Base):
                out.append(it)
            elif isinstance(it, (list, tuple)):
                out.extend(_sp_nodes(it))
    return out


def parse_recorded(src, std, cids, graft=None):
    """Parse `src` with comments and directives kept, recording events.  `graft` is a
    callable(root) run inside the recording (to add hypothetical nodes)."""
    from fparser.two.parser import ParserFactory
    from fparser.common.readfortran import FortranStringReader
    parser = ParserFactory().create(std=std)
    try:
        reader = FortranStringReader(src, ignore_comments=False, process_directives=True)
    except TypeError:
        reader = FortranStringReader(src, ignore_comments=False)
    rec = Recorder(cids)
    with rec:
        tree = parser(reader)
        rec.see(tree)
        if graft:
            graft(tree, rec)
    return tree, rec


def check_tree(m, name, tree, rec):
    from fparser.two.utils import Base, walk, get_child
    probs = []
    script = "\n".join(rec.events + rec.snapshot())
    root = rec.ids[id(tree)]
    rep = m.ask("tree", script, str(root))
    # parent map
    want = ",".join("%d:%s" % (i, "-" if getattr(o, "parent", None) is None
                               else str(rec.ids.get(id(o.parent), "?")))
                    for i, o in enumerate(rec.objs))
    if rep[0] != want:
        a, b = rep[0].split(","), want.split(",")
        d = [(x, y) for x, y in zip(a, b) if x != y][:3]
        probs.append("%s: parent map differs (model,real): %s" % (name, d))
    w = walk(tree)
    wantw = rec.enc_items(w)
    if rep[1] != wantw:
        probs.append("%s: walk differs: model %d items real %d items" % (
            name, len(rep[1].split()), len(wantw.split())))
    wantr = ",".join("%d:%d" % (i, rec.ids[id(o.get_root())]) for i, o in enumerate(rec.objs))
    if rep[2] != wantr:
        probs.append("%s: get_root differs" % name)

    def gc(o):
        c = get_child(o, Base)
        return "-" if c is None else str(rec.ids[id(c)])
    wantg = ",".join("%d:%s" % (i, gc(o)) for i, o in enumerate(rec.objs))
    if rep[3] != wantg:
        probs.append("%s: get_child differs" % name)
    # C10 on the real tree itself: every walked node's _set_parent-children point back
    stale = 0
    nodes = [x for x in w if isinstance(x, Base)]
    for nd in nodes:
        for k in _sp_nodes(nd.children):
            if k.parent is not nd:
                stale += 1
    if stale:
        probs.append("%s: REAL tree has %d child(ren) whose parent is not the container" % (name, stale))
    if len(set(id(x) for x in nodes)) != len(nodes):
        probs.append("%s: REAL tree lists a node twice in walk" % name)
    return probs, len(nodes), script, root


def check_deepcopy(m, name, tree, rec, script, start_obj, facts_text, how="deepcopy"):
    """Real copy.deepcopy / pickle round trip vs the model's verdict."""
    from fparser.two.utils import Base, walk
    probs = []
    start = rec.ids[id(start_obj)]
    rep = m.ask("deepcopy", script, str(start), facts_text, how)
    try:
        if how == "deepcopy":
            cp = copy.deepcopy(start_obj)
        else:
            cp = pickle.loads(pickle.dumps(start_obj))
        real = ("ok", cp)
    except AttributeError as err:
        real = ("err:noString", str(err))
    except TypeError as err:
        real = ("err:newRejects", str(err))
    if real[0] == "ok":
        if rep[0] != "ok":
            probs.append("%s/%s: model predicts %s, real copy succeeded" % (name, how, rep[0]))
            return probs, real[0]
        cp = real[1]
        croot = cp.get_root()
        canon_copy = real_canon(rec, croot)
        canon_orig = real_canon(rec, start_obj.get_root())
        if not (rep[1] == rep[2] == canon_copy == canon_orig):
            probs.append("%s/%s: canonical forms differ (model copy==model orig: %s, real copy==real "
                         "orig: %s, model==real: %s)" % (name, how, rep[1] == rep[2],
                                                        canon_copy == canon_orig, rep[1] == canon_copy))
        cnodes = [x for x in walk(croot) if isinstance(x, Base)]
        onodes = set(id(x) for x in walk(start_obj.get_root()) if isinstance(x, Base))
        if any(id(x) in onodes for x in cnodes):
            probs.append("%s/%s: REAL copy shares nodes with the original" % (name, how))
        if rep[3] != "1":
            probs.append("%s/%s: model copy not id-disjoint" % (name, how))
        stale = sum(1 for nd in cnodes for k in _sp_nodes(nd.children) if k.parent is not nd)
        if stale:
            probs.append("%s/%s: REAL copy has %d stale parent links" % (name, how, stale))
        if rep[4] != "1":
            probs.append("%s/%s: model copy has stale parent links" % (name, how))
        if str(len(cnodes)) != rep[5]:
            probs.append("%s/%s: node count model %s real %d" % (name, how, rep[5], len(cnodes)))
        if str(cp) != str(start_obj):
            probs.append("%s/%s: str(copy) != str(original)" % (name, how))
    else:
        kind = rep[0].rsplit(":", 1)[0]
        if kind != real[0]:
            probs.append("%s/%s: model %s real %s (%s)" % (name, how, rep[0], real[0], real[1]))
        else:
            # the class named in the real message must be the one the model names
            cid = int(rep[0].rsplit(":", 1)[1])
            cname = [c.__name__ for c, i in list(rec.cids.items()) + list(rec.extra.items())
                     if i == cid]
            if real[0] == "err:noString" and cname and cname[0] not in real[1]:
                probs.append("%s/%s: model blames %s, real message %r" % (name, how, cname, real[1]))
    return probs, real[0]


def facts_text_for(rec, table):
    """`cls a h n` lines for every class: generated facts + facts of hypothetical classes
    (extracted from the live class by the same extractor code)."""
    lines = []
    for f in table["classes"]:
        if f["is_rule"]:
            lines.append("%d %d %d %d" % (f["cid"], f["args_need_string"], f["has_string"],
                                          f["new_accepts"]))
    for cls, cid in rec.extra.items():
        inst = [o for o in rec.objs if type(o) is cls]
        f = extract_classes._facts(cls, cid, inst)
        lines.append("%d %d %d %d" % (cid, f["args_need_string"], f["has_string"], f["new_accepts"]))
    return "\n".join(lines)


def make_legacy_classes():
    """Hypothetical classes with the pre-fix Comment/Directive copy behaviour."""
    from fparser.two.utils import Base

    class Legacy_No_String(Base):
        """custom __new__, no `_deepcopy`, instances have no `.string` (the old Comment)"""
        subclass_names = []

        def __new__(cls, string, parent_cls=None):
            obj = object.__new__(cls)
            obj.items = [string]
            obj.item = None
            return obj

        def tostr(self):
            return str(self.items[0])

    class Legacy_No_Deepcopy(Base):
        """has `.string` but `__new__` does not take `_deepcopy`"""
        subclass_names = []

        def __new__(cls, string, parent_cls=None):
            obj = object.__new__(cls)
            obj.string = string
            obj.items = [string]
            obj.item = None
            return obj

        def tostr(self):
            return str(self.items[0])
    # make them picklable by reference
    g = globals()
    g["Legacy_No_String"] = Legacy_No_String
    g["Legacy_No_Deepcopy"] = Legacy_No_Deepcopy
    for c in (Legacy_No_String, Legacy_No_Deepcopy):
        c.__module__ = __name__
        c.__qualname__ = c.__name__
    return Legacy_No_String, Legacy_No_Deepcopy


def grafter(classes, texts):
    def graft(tree, rec):
        from fparser.two import utils
        for cls, text in zip(classes, texts):
            inst = cls(text)
            utils._set_parent(tree, [inst])      # recorded
            tree.content.append(inst)
    return graft


# =========================================================================== main

def class_ids():
    """{class object: cid} with the numbering of extract_classes.collect()."""
    import inspect
    from fparser.two import Fortran2003, Fortran2008, C99Preprocessor
    raw03 = inspect.getmembers(sys.modules[Fortran2003.__name__], inspect.isclass)
    raw08 = inspect.getmembers(sys.modules[Fortran2008.__name__], inspect.isclass)
    rawc99 = [(n, c) for n, c in inspect.getmembers(C99Preprocessor, inspect.isclass)
              if c.__module__ == C99Preprocessor.__name__]
    order = []
    seen = set()

    def reg(c):
        if c not in seen:
            seen.add(c)
            order.append(c)
    for _, c in raw03:
        if c.__module__ == Fortran2003.__name__:
            reg(c)
    for _, c in raw03:
        reg(c)
    for _, c in rawc99:
        reg(c)
    for _, c in raw08:
        reg(c)
    return {c: i for i, c in enumerate(order)}


def main(argv=None):
    ap = argparse.ArgumentParser()
    ap.add_argument("--seed", type=int, default=0)
    ap.add_argument("--n", type=int, default=2000)
    ap.add_argument("--verbose", action="store_true")
    args = ap.parse_args(argv)
    rng = random.Random(args.seed)
    t0 = time.time()
    m = _model.get_model()
    failures = []
    stats = {}

    # ---- generated facts must be current and self-consistent
    from fparser.two.parser import ParserFactory
    ParserFactory().create(std="f2003")
    live = extract_classes.collect()
    table = extract_classes.load()
    import json
    live = json.loads(json.dumps(live))
    if live != table:
        keys = [k for k in live if live[k] != table.get(k)]
        failures.append("Generated/classes.json is stale w.r.t. the live classes (keys %s): "
                        "run ./check setup" % keys)
    for c in live["fact_conflicts"]:
        failures.append("copy facts: static vs behavioural disagreement: %r" % (c,))
    not_ok = [f["name"] for f in live["classes"] if f["is_rule"] and not
              (((not f["args_need_string"]) or f["has_string"]) and f["new_accepts"])]
    stats["classes"] = len(live["classes"])
    stats["classes_not_copyok"] = not_ok
    for nme in not_ok:
        failures.append("class %s is not CopyOK (copy.deepcopy / pickle of a tree containing it fails)" % nme)

    # ---- (i) symbol tables
    n_ops = 0
    nsym = 0
    kinds = {}
    for ops in FIXED_SYMTAB:
        real = RealTabs()
        expect = [real.step(o) for o in ops]
        final = (str(real.st), real.render_forest(), real.path_of(real.st.current_scope))
        pr = check_symtab(m, ops, expect, final)
        failures += ["symtab fixed: " + p for p in pr]
        nsym += 1
        n_ops += len(ops)
    for _ in range(args.n):
        ops, expect, final = gen_symtab_script(rng)
        pr = check_symtab(m, ops, expect, final)
        if pr:
            failures += ["symtab seed %d: %s\n    script: %s" % (args.seed, p, " ; ".join(ops)) for p in pr[:1]]
        nsym += 1
        n_ops += len(ops)
        for o, e in zip(ops, expect):
            key = o.split()[0] + ":" + e.split(":")[0][:20]
            kinds[key] = kinds.get(key, 0) + 1
        if "DETACHED" in final[2]:
            failures.append("symtab: current scope detached from the forest: " + " ; ".join(ops))
    stats["symtab_scripts"] = nsym
    stats["symtab_ops"] = n_ops
    stats["symtab_outcomes"] = kinds

    # ---- (ii) registry
    nh = 0
    for hist in (["f2003"], ["f2008"], ["none"], ["f2008", "f2003"], ["f2003", "f2008"],
                 ["f2008", "bad"], ["bad"], ["f2003", "f2008", "f2003", "f2008"]):
        failures += ["registry: " + p for p in check_registry_history(m, hist)]
        nh += 1
    for _ in range(max(5, args.n // 40)):
        failures += ["registry: " + p for p in check_registry_history(m, gen_history(rng))]
        nh += 1
    # setup_matches_generated, as an exhaustive executable check (too big for the kernel):
    # model setup over the generated facts == the generated REAL Base.subclasses
    rc = m.ask("regcheck")
    if rc[0] != "1" or rc[1] != "1":
        failures.append("registry: setup(members std) over the generated facts differs from the "
                        "generated real Base.subclasses: f2003 %s f2008 %s" % (rc[0], rc[1]))
    stats["setup_matches_generated"] = "f2003 %s (%s rules)  f2008 %s (%s rules)" % (
        "ok" if rc[0] == "1" else "FAIL", rc[2], "ok" if rc[1] == "1" else "FAIL", rc[3])
    stats["registry_histories"] = nh
    ParserFactory().create(std="f2003")
    from fparser.two.utils import Base
    stats["registry_rules_f2003"] = len(Base.subclasses)
    ParserFactory().create(std="f2008")
    stats["registry_rules_f2008"] = len(Base.subclasses)

    # ---- (iii) trees
    cids = class_ids()
    legacy_ns, legacy_nd = make_legacy_classes()
    ntrees = nnodes = ncopy = nerr = 0
    verdicts = {}
    for name, std, src in PROGRAMS:
        stds = [std] if std == "f2008" else ["f2003", "f2008"]
        for s in stds:
            try:
                tree, rec = parse_recorded(src, s, cids)
            except Exception as err:   # a sample that does not parse is a harness problem
                failures.append("tree %s/%s: sample does not parse: %s: %s" % (
                    name, s, type(err).__name__, str(err)[:200]))
                continue
            if tree is None:
                continue
            tag = "%s/%s" % (name, s)
            pr, nn, script, root = check_tree(m, tag, tree, rec)
            failures += ["tree: " + p for p in pr]
            ntrees += 1
            nnodes += nn
            ft = facts_text_for(rec, table)
            from fparser.two.utils import walk
            nodes = [x for x in walk(tree) if isinstance(x, Base)]
            starts = [tree] + ([rng.choice(nodes)] if nodes else [])
            for st_obj in starts:
                for how in ("deepcopy", "pickle"):
                    pr, v = check_deepcopy(m, tag, tree, rec, script, st_obj, ft, how)
                    failures += ["copy: " + p for p in pr]
                    ncopy += 1
                    verdicts[v] = verdicts.get(v, 0) + 1
        # hypothetical broken classes grafted into the tree: the model must predict the error
        for classes, texts in (((legacy_ns,), ("! old comment",)),
                               ((legacy_nd,), ("! no deepcopy",)),
                               ((legacy_nd, legacy_ns), ("x", "y")),
                               ((legacy_ns, legacy_nd), ("x", "y"))):
            try:
                tree, rec = parse_recorded(src, std, cids, graft=grafter(classes, texts))
            except Exception as err:
                continue
            tag = "%s/%s+%s" % (name, std, "+".join(c.__name__ for c in classes))
            pr, nn, script, root = check_tree(m, tag, tree, rec)
            failures += ["tree: " + p for p in pr]
            ft = facts_text_for(rec, table)
            for how in ("deepcopy", "pickle"):
                pr, v = check_deepcopy(m, tag, tree, rec, script, tree, ft, how)
                failures += ["copy: " + p for p in pr]
                if v == "ok":
                    failures.append("copy: %s/%s: a hypothetical broken class was copied without error" % (tag, how))
                nerr += 1
                verdicts[v] = verdicts.get(v, 0) + 1
    ParserFactory().create(std="f2003")
    stats["trees"] = ntrees
    stats["tree_nodes"] = nnodes
    stats["copies_checked"] = ncopy
    stats["copies_with_broken_class"] = nerr
    stats["copy_verdicts"] = verdicts

    print("cosim_symtree: seed=%d n=%d  %.1fs" % (args.seed, args.n, time.time() - t0))
    for k in sorted(stats):
        if k == "symtab_outcomes" and not args.verbose:
            print("  %-26s %d distinct (op,outcome) pairs" % (k, len(stats[k])))
        else:
            print("  %-26s %s" % (k, stats[k]))
    if failures:
        print("FAILURES: %d" % len(failures))
        for f in failures[:40]:
            print("  - " + f)
        return 1
    print("OK: model and real code agree on every check")
    return 0


if __name__ == "__main__":
    sys.exit(main())
