import FparserModel.Proofs.One2Sim

/-!
# One2 — the source level never ends before the end of input; printed line count
-/
namespace Fp.One2
open Fp

variable (T : Tables)

/-- the table's first row is a block that no line closes (`EndSource.match = lambda s: False`,
    `BeginSource` is not a DO) -/
def TopOpen (T : Tables) : Prop :=
  (rowAt T 0).endRe = .unsupported ∧ ((rowAt T 0).cls == "Do") = false

instance : Decidable (TopOpen T) := by unfold TopOpen; infer_instance

theorem top_step {c : Ctx} (h : TopOpen T) (hc : c.row = 0) (it : Item) :
    step T c it ≠ .putback ∧ step T c it ≠ .close ∧ hit T c it = false := by
  have hh : hit T c it = false := by simp [hit, isDo, hc, h.2]
  have hs : shared T c it = false := by simp [shared, hh]
  have he : endOk T c it = false := by
    simp [endOk, hc, h.1, Re.matches, Re.m]
  refine ⟨?_, ?_, hh⟩
  · intro hp; have := (step_putback T c it hp).2; simp [hs] at this
  · intro hp
    unfold step at hp
    split at hp
    · simp at hp
    · simp only [hs, he, Bool.false_eq_true, if_false] at hp
      revert hp
      generalize (rowAt T c.row).classes = ks
      induction ks with
      | nil => simp [scan]
      | cons k ks ih =>
        simp only [scan]
        split
        · split
          · split <;> simp
          · exact ih
        · split
          · split
            · split
              · simp
              · exact ih
            · split
              · split
                · simp
                · split <;> simp
              · simp
          · exact ih

theorem fill_top_rest (ic : Bool) (h : TopOpen T) (f : Nat) : ∀ (c : Ctx) (ls : List Item)
    (t : Forest) (rest : List Item), c.row = 0 → fill T ic f c ls = .ok (t, rest) → rest = [] := by
  induction f with
  | zero => intro c ls t rest _ hf; simp [fill] at hf
  | succ f ih =>
    intro c ls t rest hc hf
    cases ls with
    | nil => simp [fill] at hf; exact hf.2
    | cons it ls =>
      obtain ⟨h1, h2, h3⟩ := top_step T h hc it
      simp only [fill, h3, Bool.false_eq_true, if_false] at hf
      split at hf
      · exact ih _ _ _ _ hc hf
      · split at hf
        · split at hf
          · simp at hf
          · rename_i hn
            simp at hf
            exact ih _ _ _ _ (by simpa [nextCtx] using hc) (hf.2 ▸ hn)
        · rename_i hs; exact absurd hs h1
        · rename_i hs; exact absurd hs h2
        · exact ih _ _ _ _ (by simpa [nextCtx] using hc) hf
        · split at hf
          · simp at hf
          · rename_i hn
            simp at hf
            exact ih _ _ _ _ (by simpa [nextCtx] using hc) (hf.2 ▸ hn)
        · split at hf
          · simp at hf
          · split at hf
            · simp at hf
            · rename_i hn
              simp at hf
              exact ih _ _ _ _ hc (hf.2 ▸ hn)
        · simp at hf
        · simp at hf

theorem pr_length : ∀ (t : Forest) (c : Ctx), (pr T c t).length = (flat t).length := by
  intro t
  induction t with
  | nil => intro c; rfl
  | leaf it k nx ih => intro c; simp [pr, flat, ih]
  | endl it nx ih => intro c; simp [pr, flat, ih]
  | blk it ri ch kids nx ih1 ih2 => intro c; simp [pr, flat, ih1, ih2]

theorem pr_ids : ∀ (t : Forest) (c : Ctx), (pr T c t).map PLine.id = (flat t).map (·.id) := by
  intro t
  induction t with
  | nil => intro c; rfl
  | leaf it k nx ih => intro c; simp [pr, flat, ih, PLine.id]
  | endl it nx ih => intro c; simp [pr, flat, ih, PLine.id]
  | blk it ri ch kids nx ih1 ih2 => intro c; simp [pr, flat, ih1, ih2, PLine.id, reHdr_id]

/-- a statement line of the print carries an item of the tree, unchanged -/
theorem pr_stmt_mem : ∀ (t : Forest) (c : Ctx) (it : Item) (k : Nat),
    PLine.stmt it k ∈ pr T c t → it ∈ flat t := by
  intro t
  induction t with
  | nil => intro c it k h; simp [pr] at h
  | leaf it0 k0 nx ih =>
    intro c it k h
    simp only [pr, List.mem_cons, PLine.stmt.injEq] at h
    rcases h with h | h
    · simp [flat, h.1]
    · simp [flat, ih _ it k h]
  | endl it0 nx ih =>
    intro c it k h
    simp only [pr, List.mem_cons] at h
    rcases h with h | h
    · cases h
    · simp [flat, ih c it k h]
  | blk it0 ri ch kids nx ih1 ih2 =>
    intro c it k h
    simp only [pr, List.mem_cons, List.mem_append] at h
    rcases h with h | h | h
    · cases h
    · simp [flat, ih1 ch it k h]
    · simp [flat, ih2 c it k h]

end Fp.One2
