"""Client for the compiled Lean model driver `fpmodel` (line protocol, see
lean/FparserModel/Wire.lean).  One request per line, fields hex-encoded UTF-8."""
import os
import subprocess
import threading

VERIF = os.path.dirname(os.path.dirname(os.path.abspath(__file__)))
LEAN_DIR = os.path.join(VERIF, "lean")
EXE = os.path.join(LEAN_DIR, ".lake", "build", "bin", "fpmodel")


def enc(s):
    if isinstance(s, str):
        s = s.encode("utf-8", "surrogateescape")
    return s.hex()


def dec(h):
    return bytes.fromhex(h).decode("utf-8", "replace")


class Model:
    """A running fpmodel process.  `ask(cmd, *fields)` -> list of decoded reply fields.
    Thread-safe; cheap enough to keep one per worker process."""

    def __init__(self, exe=None):
        self.exe = exe or EXE
        if not os.path.exists(self.exe):
            raise RuntimeError("model driver not built: %s (run ./check setup)" % self.exe)
        self.p = subprocess.Popen([self.exe], stdin=subprocess.PIPE, stdout=subprocess.PIPE,
                                  bufsize=0)
        self.lock = threading.Lock()

    def ask_raw(self, line):
        with self.lock:
            self.p.stdin.write(line.encode("ascii") + b"\n")
            self.p.stdin.flush()
            out = self.p.stdout.readline()
        if not out:
            raise RuntimeError("model driver died on request: %r" % line[:200])
        return out.decode("ascii").rstrip("\n")

    def ask(self, cmd, *fields):
        reply = self.ask_raw("\t".join([cmd] + [enc(f) for f in fields]))
        return self._parse(reply)

    @staticmethod
    def _parse(reply):
        """reply = status word (`OK`/`ERR`, plain) then hex fields."""
        parts = reply.split("\t")
        if not parts or parts[0] != "OK":
            raise RuntimeError("model error: " + " ".join(dec(x) for x in parts[1:]))
        return [dec(x) for x in parts[1:]]

    def ask_many(self, requests):
        """requests: list of (cmd, fields...) tuples; pipelined for throughput."""
        lines = ["\t".join([r[0]] + [enc(f) for f in r[1:]]) for r in requests]
        out = []
        with self.lock:
            # write in a thread to avoid pipe deadlock on large batches
            data = ("\n".join(lines) + "\n").encode("ascii")
            t = threading.Thread(target=lambda: (self.p.stdin.write(data), self.p.stdin.flush()),
                                 daemon=True)
            t.start()
            for _ in lines:
                o = self.p.stdout.readline()
                if not o:
                    raise RuntimeError("model driver died in batch")
                out.append(o.decode("ascii").rstrip("\n"))
            t.join()
        return [self._parse(o) for o in out]

    def close(self):
        try:
            self.p.stdin.close()
            self.p.wait(timeout=5)
        except Exception:
            self.p.kill()


_model = None


def get_model():
    global _model
    if _model is None or _model.p.poll() is not None:
        _model = Model()
    return _model
