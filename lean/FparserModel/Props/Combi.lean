import FparserModel.Proofs.CombiRT
import FparserModel.Proofs.CombiTok
import FparserModel.Props.SplitlineSrm2
/-!
# The generic rule combinators of fparser2: `match (tostr x) = x` and "nothing dropped"
# — serves C01 (print / re-parse round trip at the leaves) and C02 (no token lost)

198 of the rule classes have a `match` that is `return <Base>.match(<constants>, string)` and an
inherited `tostr` (`Generated/Combi.lean`); for them C01/C02 at the class reduce to the lemmas
below about the combinator, under explicit conditions on the children's printed texts.

All theorems are for every oracle `o` (the children are arbitrary rule classes), every text and
every argument tuple; `ChildRT o c x` = "the child `x` re-matches from its printed text under
class `c`".  Conditions on texts are decidable (`lstrip t = t`, `c ∉ t`, `Flat line`).

For the three combinators that go through `string_replace_map` (Sequence, Call, Separator) the
round trip is stated in two layers: `*_rt` with the behaviour of the tokeniser on the printed line
as an explicit decidable hypothesis (`SeqTokOK`, `CallTokOK`, `SepTokOK`: "the pieces of the
tokenised line, mapped back, are the children's texts"), and `*_rt_flat` where that hypothesis is
PROVED from a syntactic condition (`Flat`: no quotation mark, backslash, opening bracket or
exponent constant — `tokenise_flat`).  The general (bracketed / quoted) case of the tokeniser
condition is co-simulated (`fv/cosim_combi.py`), not proved.
-/
namespace Fp.Combi
open Fp Fp.Splitline

variable {Node : Type}

/-! ## SequenceBase -/

/-- every node of the tuple re-matches from its printed text -/
def ChildrenRT (o : Oracle Node) (c : ClassId) (xs : List Node) : Prop := ∀ x ∈ xs, ChildRT o c x

/-- the children's printed texts contain no separator character -/
def NoSepInChildText (sep : Char) (ts : List Str) : Prop := ∀ t ∈ ts, sep ∉ t

/-- every text is free of leading and trailing blanks -/
def AllTight (ts : List Str) : Prop := ∀ t ∈ ts, lstrip t = t ∧ rstrip t = t

/-- what the tokeniser has to do on the printed line: split at the separator and mapped back,
    the pieces are the texts -/
def SeqTokOK (sep line : Str) (ts : List Str) : Prop :=
  ∃ r pieces, tokenise line = some r ∧ splitStr r.text sep = some pieces ∧
    pieces.map (fun e => applyMap r.map (strip e)) = ts

theorem runSlots_children (o : Oracle Node) (c : ClassId) :
    ∀ (xs : List Node), ChildrenRT o c xs →
      runSlots o (xs.map fun x => Slot.child c (o.childStr x)) = some (xs.map Item.node)
  | [], _ => rfl
  | x :: xs, h => by
    have hx := runSlot_child o c x (h x (by simp))
    have ih := runSlots_children o c xs (fun y hy => h y (List.mem_cons_of_mem _ hy))
    simp only [List.map_cons, runSlots, hx, ih]

/-- **seq_rt** (tokeniser condition explicit) -/
theorem seq_rt (o : Oracle Node) (sep : Str) (cls : ClassId) (xs : List Node)
    (hsep : sep ≠ [' '])
    (hc : ChildrenRT o cls xs)
    (ht : SeqTokOK sep (seqStr o sep (xs.map Item.node)) (xs.map o.childStr)) :
    seqMatch o sep cls (seqStr o sep (xs.map Item.node)) = some (xs.map Item.node) := by
  obtain ⟨r, pieces, h1, h2, h3⟩ := ht
  have hs : (sep == [' ']) = false := by simpa using hsep
  unfold seqMatch seqSplit
  simp only [hs, Bool.false_eq_true, if_false, h1, h2]
  have : pieces.map (fun e => Slot.child cls (applyMap r.map (strip e)))
      = xs.map fun x => Slot.child cls (o.childStr x) := by
    have := congrArg (List.map (Slot.child cls)) h3
    simpa [List.map_map, Function.comp_def] using this
  rw [this]
  exact runSlots_children o cls xs hc

theorem seqStr_nodes (o : Oracle Node) (sep : Str) (xs : List Node) :
    seqStr o sep (xs.map Item.node) = joinStr (seqSepText sep) (xs.map o.childStr) := by
  simp [seqStr, List.map_map, Function.comp_def, Item.text]

/-- **seq_rt_flat** — `X_List` classes (separator `","`): children round-trip, their texts are
    tight and comma-free, the printed line is flat ⟹ `match(tostr x) = x`. -/
theorem seq_rt_flat (o : Oracle Node) (cls : ClassId) (x : Node) (xs : List Node)
    (hc : ChildrenRT o cls (x :: xs))
    (hn : NoSepInChildText ',' ((x :: xs).map o.childStr))
    (ht : AllTight ((x :: xs).map o.childStr))
    (hf : Flat (seqStr o [','] ((x :: xs).map Item.node))) :
    seqMatch o [','] cls (seqStr o [','] ((x :: xs).map Item.node))
      = some ((x :: xs).map Item.node) := by
  refine seq_rt o [','] cls (x :: xs) (by decide) hc ?_
  rw [seqStr_nodes] at hf ⊢
  have hsep : seqSepText [','] = [',', ' '] := by decide
  rw [hsep] at hf ⊢
  simp only [List.map_cons] at hn ht hf ⊢
  refine ⟨{ text := _, map := [] }, o.childStr x :: (xs.map o.childStr).map (' ' :: ·),
    tokenise_flat _ hf, ?_, ?_⟩
  · simp only [splitStr, List.isEmpty_cons, Bool.false_eq_true, if_false, Option.some.injEq]
    exact splitGo_join_comma _ _ (fun u hu => hn u hu)
  · simp only [List.map_cons, applyMap_nil, List.map_map, Function.comp_def]
    have h0 := ht (o.childStr x) (by simp)
    rw [strip_self h0.1 h0.2]
    congr 1
    apply List.map_congr_left
    intro y hy
    have h1 := ht (o.childStr y) (by
      simp only [List.mem_cons, List.mem_map]; exact Or.inr ⟨y, hy, rfl⟩)
    exact strip_space_left h1.1 h1.2

/-- **seq_sound** (C02): the pieces handed to the children, joined by the separator, ARE the
    tokenised line — `split` drops nothing; each child gets its piece, blanks trimmed, with the
    placeholders mapped back. -/
theorem seq_sound (sep : Str) (cls : ClassId) (s : Str) (slots : List Slot)
    (h : seqSplit sep cls s = some slots) :
    ∃ r pieces, tokenise s = some r ∧ joinStr sep pieces = r.text ∧
      slots = pieces.map (fun e => Slot.child cls (applyMap r.map (strip e))) := by
  unfold seqSplit at h
  split at h
  · exact absurd h (by simp)
  · cases ht : tokenise s with
    | none => simp [ht] at h
    | some r =>
      simp only [ht] at h
      cases hp : splitStr r.text sep with
      | none => simp [hp] at h
      | some pieces =>
        simp only [hp, Option.some.injEq] at h
        exact ⟨r, pieces, rfl, joinStr_splitStr _ _ _ hp, h.symm⟩

/-- … and the tokenised line is the line, up to the blanks just inside brackets (`squeeze`),
    under the two hypotheses of `srm_roundtrip_partial` -/
theorem seq_sound_line (sep : Str) (cls : ClassId) (s : Str) (slots : List Slot)
    (h : seqSplit sep cls s = some slots) (hF : Free s)
    (hE : FoundsEndOK (expConsts (phase1Text discipline s false))) :
    ∃ r pieces, tokenise s = some r ∧
      squeeze (applyMap r.map (joinStr sep pieces)) = squeeze s ∧
      slots = pieces.map (fun e => Slot.child cls (applyMap r.map (strip e))) := by
  obtain ⟨r, pieces, h1, h2, h3⟩ := seq_sound sep cls s slots h
  obtain ⟨r', hr', hsq⟩ := srm_roundtrip_partial_nolower s hF hE
  have : r' = r := by
    have : tokenise s = some r' := hr'
    rw [h1] at this; exact (Option.some.inj this).symm
  subst this
  exact ⟨r', pieces, h1, by rw [h2]; exact hsq, h3⟩

/-! ## BracketBase -/

/-- **bracket_rt**: `left ++ str(child) ++ right` re-matches.  `left`/`right` = the two halves of
    the `brackets` argument (`"()"`, `"//"`, `"[]"`, `"(//)"` …). -/
theorem bracket_rt (o : Oracle Node) (l r : Str) (c : ClassId) (req : Bool) (x : Node)
    (hlen : l.length = r.length) (hl0 : l ≠ []) (hls : ' ' ∉ l) (hrs : ' ' ∉ r)
    (hl : lstrip l = l) (hr : rstrip r = r)
    (ht0 : o.childStr x ≠ []) (htl : lstrip (o.childStr x) = o.childStr x)
    (hc : ChildRT o c x) :
    bracketStr o [.str l, .node x, .str r] = some (l ++ o.childStr x ++ r) ∧
    bracketMatch o (l ++ r) (some c) req (l ++ o.childStr x ++ r)
      = some [.str l, .node x, .str r] := by
  have hr0 : r ≠ [] := by
    intro e; subst e
    cases l with
    | nil => exact hl0 rfl
    | cons _ _ => simp at hlen
  refine ⟨by simp [bracketStr, isEmpty_false_of_ne hl0, isEmpty_false_of_ne hr0, Item.text], ?_⟩
  unfold bracketMatch
  rw [bracketSplit_sandwich l r _ c req hlen hl0 hls hrs hl hr ht0 htl]
  simp [runSlots, runSlot, show o.childMatch c (o.childStr x) = some x from hc]

/-- the empty bracket (`require_cls=False`, e.g. `Format_Specification`) -/
theorem bracket_rt_empty (o : Oracle Node) (l r : Str) (cls : Option ClassId)
    (hlen : l.length = r.length) (hl0 : l ≠ []) (hls : ' ' ∉ l) (hrs : ' ' ∉ r)
    (hl : lstrip l = l) (hr : rstrip r = r) :
    bracketMatch o (l ++ r) cls false (l ++ r) = some [.str l, .none, .str r] := by
  unfold bracketMatch
  rw [bracketSplit_empty l r cls hlen hl0 hls hrs hl hr]
  rfl

/-! ## KeywordValueBase -/

/-- **kv_rt**: `lhs = rhs` with a class on the left -/
theorem kv_rt (o : Oracle Node) (lc rc : ClassId) (q u : Bool) (x y : Node)
    (ha : '=' ∉ o.childStr x)
    (hal : lstrip (o.childStr x) = o.childStr x) (har : rstrip (o.childStr x) = o.childStr x)
    (hbl : lstrip (o.childStr y) = o.childStr y) (hbr : rstrip (o.childStr y) = o.childStr y)
    (hb0 : o.childStr y ≠ [])
    (hx : ChildRT o lc x) (hy : ChildRT o rc y) :
    kvMatch o (.cls lc) rc q u (kvStr o [.node x, .node y]) = some [.node x, .node y] := by
  unfold kvMatch
  have : kvStr o [.node x, .node y] = o.childStr x ++ " = ".toList ++ o.childStr y := rfl
  rw [this, kvSplit_cls lc rc q u _ _ ha hal har hbl hbr hb0]
  exact runSlots_pair o _ _ _ _ (runSlot_child o lc x hx) (runSlot_child o rc y hy)

/-- a keyword on the left (`upper_lhs` needs an upper-case keyword) -/
theorem kv_rt_kw (o : Oracle Node) (k : Str) (rc : ClassId) (q u : Bool) (y : Node)
    (hk : '=' ∉ k) (hkl : lstrip k = k) (hkr : rstrip k = k) (hk0 : k ≠ [])
    (hku : u = true → upper k = k)
    (hbl : lstrip (o.childStr y) = o.childStr y) (hbr : rstrip (o.childStr y) = o.childStr y)
    (hb0 : o.childStr y ≠ []) (hy : ChildRT o rc y) :
    kvMatch o (.kw k) rc q u (kvStr o [.str k, .node y]) = some [.str k, .node y] := by
  unfold kvMatch
  have : kvStr o [.str k, .node y] = k ++ " = ".toList ++ o.childStr y := rfl
  rw [this, kvSplit_kw k rc q u _ hk hkl hkr hk0 hku hbl hbr hb0]
  exact runSlots_pair o _ _ _ _ rfl (runSlot_child o rc y hy)

/-- no left-hand side (`require_lhs=False`): the value must not contain `=` -/
theorem kv_rt_nolhs (o : Oracle Node) (la : Arg) (rc : ClassId) (u : Bool) (y : Node)
    (hb : '=' ∉ o.childStr y)
    (hbl : lstrip (o.childStr y) = o.childStr y) (hbr : rstrip (o.childStr y) = o.childStr y)
    (hb0 : o.childStr y ≠ []) (hy : ChildRT o rc y) :
    kvMatch o la rc false u (kvStr o [.none, .node y]) = some [.none, .node y] := by
  unfold kvMatch
  have : kvStr o [.none, .node y] = o.childStr y := rfl
  rw [this, kvSplit_nolhs la rc u _ hb hbl hbr hb0]
  exact runSlots_pair o _ _ _ _ rfl (runSlot_child o rc y hy)

/-- **kv_sound** (C02): the two texts handed to the children are the text before and after the
    first `=`, blanks trimmed — nothing else is dropped -/
theorem kv_sound (lc rc : ClassId) (q u : Bool) (s a b : Str)
    (h : kvSplit (.cls lc) rc q u s = some [.child lc a, .child rc b]) :
    ∃ p0 p1, s = p0 ++ '=' :: p1 ∧ a = strip p0 ∧ b = strip p1 ∧
      noBlank s = noBlank a ++ '=' :: noBlank b := by
  unfold kvSplit at h
  cases hc : cutFirst '=' s with
  | none =>
    simp only [hc] at h
    split at h
    · exact absurd h (by simp)
    · split at h <;> simp at h
  | some p =>
    obtain ⟨p0, p1⟩ := p
    obtain ⟨hs, _⟩ := cutFirst_spec s p0 p1 hc
    simp only [hc] at h
    split at h
    · exact absurd h (by simp)
    · simp only [Option.some.injEq, List.cons.injEq, Slot.child.injEq, true_and, and_true] at h
      obtain ⟨h1, h2⟩ := h
      split at h2
      · exact absurd h2 (by simp)
      · simp only [Slot.child.injEq, true_and] at h2
        refine ⟨p0, p1, hs, h1.symm, h2.symm, ?_⟩
        rw [← h1, ← h2, noBlank_strip, noBlank_strip, hs, noBlank_append]
        simp [noBlank, List.filter_cons, show isSpace '=' = false by decide]

/-! ## WORDClsBase -/

/-- **wordcls_rt** -/
theorem wordcls_rt (o : Oracle Node) (kw : Str) (c : ClassId) (colons req : Bool) (x : Node)
    (hkl : lstrip kw = kw) (hk0 : kw ≠ [])
    (ht0 : o.childStr x ≠ []) (htl : lstrip (o.childStr x) = o.childStr x)
    (hcol : colons = true → isPrefix [':', ':'] (o.childStr x) = false)
    (hc : ChildRT o c x) :
    wordMatch o [kw] false (some c) colons req (wordStr o [.str kw, .node x])
      = some [.str kw, .node x] := by
  have hstr : wordStr o [.str kw, .node x] = kw ++ wordGlue (o.childStr x) := by
    simp only [wordStr, Item.text, wordGlue]
    cases o.childStr x with
    | nil => rfl
    | cons d t => by_cases hp : (d == '(' || d == '*') = true <;> simp [hp]
  unfold wordMatch
  simp only [Bool.false_eq_true, if_false]
  rw [hstr, wordSplit1_child kw _ c colons req hkl hk0 ht0 htl hcol]
  exact runSlots_pair o _ _ _ _ rfl (runSlot_child o c x hc)

/-- the bare keyword -/
theorem wordcls_rt_bare (o : Oracle Node) (kw : Str) (cls : Option ClassId) (colons : Bool)
    (hkl : lstrip kw = kw) :
    wordMatch o [kw] false cls colons false (wordStr o [.str kw, .none]) = some [.str kw, .none] := by
  have : wordStr o [.str kw, .none] = kw := rfl
  unfold wordMatch
  simp only [Bool.false_eq_true, if_false]
  rw [this, wordSplit1_bare kw cls colons hkl]
  rfl

/-- the classes that print with `tostr_a` (`KW :: cls`, all have `colons=True`) -/
theorem wordcls_rt_a (o : Oracle Node) (kw : Str) (c : ClassId) (req : Bool) (x : Node)
    (hkl : lstrip kw = kw) (hk0 : kw ≠ [])
    (ht0 : o.childStr x ≠ []) (htl : lstrip (o.childStr x) = o.childStr x)
    (hc : ChildRT o c x) :
    wordMatch o [kw] false (some c) true req (wordStrA o [.str kw, .node x])
      = some [.str kw, .node x] := by
  have : wordStrA o [.str kw, .node x] = kw ++ " :: ".toList ++ o.childStr x := rfl
  unfold wordMatch
  simp only [Bool.false_eq_true, if_false]
  rw [this, wordSplit1_colons kw _ c req hkl hk0 ht0 htl]
  exact runSlots_pair o _ _ _ _ rfl (runSlot_child o c x hc)

/-! ## EndStmtBase -/

/-- **endstmt_rt**: `END <type> <name>` -/
theorem endstmt_rt (o : Oracle Node) (ty : Str) (c : ClassId) (q : Bool) (x : Node)
    (hty0 : ty ≠ []) (htyl : lstrip ty = ty) (htyu : upper ty = ty)
    (ht0 : o.childStr x ≠ []) (htl : lstrip (o.childStr x) = o.childStr x)
    (hc : ChildRT o c x) :
    endMatch o ty (some c) q (endStr o [.str ty, .node x]) = some [.str ty, .node x] := by
  have : endStr o [.str ty, .node x] = "END ".toList ++ ty ++ ' ' :: o.childStr x := rfl
  unfold endMatch
  rw [this, endSplit_named ty _ c q hty0 htyl htyu ht0 htl]
  exact runSlots_pair o _ _ _ _ rfl (runSlot_child o c x hc)

/-- `END <type>` -/
theorem endstmt_rt_typed (o : Oracle Node) (ty : Str) (nc : Option ClassId) (q : Bool)
    (hty0 : ty ≠ []) (htyl : lstrip ty = ty) (htyu : upper ty = ty) :
    endMatch o ty nc q (endStr o [.str ty, .none]) = some [.str ty, .none] := by
  have : endStr o [.str ty, .none] = "END ".toList ++ ty := rfl
  unfold endMatch
  rw [this, endSplit_typed ty nc q hty0 htyl htyu]
  rfl

/-- the bare `END` (`require_stmt_type=False`) -/
theorem endstmt_rt_bare (o : Oracle Node) (ty : Str) (nc : Option ClassId) :
    endMatch o ty nc false (endStr o [.none, .none]) = some [.none, .none] := by
  have : endStr o [(.none : Item Node), .none] = "END".toList := rfl
  unfold endMatch
  rw [this, endSplit_bare ty nc]
  rfl

/-! ## SeparatorBase -/

/-- what the tokeniser has to do on `lhs : rhs` -/
def SepTokOK (line tl tr : Str) : Prop :=
  ∃ r l0 r0, tokenise line = some r ∧ cutFirst ':' r.text = some (l0, r0) ∧
    rstrip l0 ≠ [] ∧ lstrip r0 ≠ [] ∧
    applyMap r.map (rstrip l0) = tl ∧ applyMap r.map (lstrip r0) = tr

/-- **separator_rt** (`lhs : rhs`, tokeniser condition explicit) -/
theorem separator_rt (o : Oracle Node) (lc rc : ClassId) (ql qr : Bool) (x y : Node)
    (hx : ChildRT o lc x) (hy : ChildRT o rc y)
    (ht : SepTokOK (sepStr o [.node x, .node y]) (o.childStr x) (o.childStr y)) :
    sepMatch o (some lc) (some rc) ql qr (sepStr o [.node x, .node y])
      = some [.node x, .node y] := by
  obtain ⟨r, l0, r0, h1, h2, h3, h4, h5, h6⟩ := ht
  unfold sepMatch sepSplit
  simp only [h1, h2, isEmpty_false_of_ne h3, isEmpty_false_of_ne h4, h5, h6]
  exact runSlots_pair o _ _ _ _ (runSlot_child o lc x hx) (runSlot_child o rc y hy)

/-- **separator_rt_flat**: the tokeniser condition holds for flat, colon-free, tight texts -/
theorem separator_rt_flat (o : Oracle Node) (lc rc : ClassId) (ql qr : Bool) (x y : Node)
    (hx : ChildRT o lc x) (hy : ChildRT o rc y)
    (ha : ':' ∉ o.childStr x) (ha0 : o.childStr x ≠ []) (har : rstrip (o.childStr x) = o.childStr x)
    (hb0 : o.childStr y ≠ []) (hbl : lstrip (o.childStr y) = o.childStr y)
    (hf : Flat (sepStr o [.node x, .node y])) :
    sepMatch o (some lc) (some rc) ql qr (sepStr o [.node x, .node y])
      = some [.node x, .node y] := by
  refine separator_rt o lc rc ql qr x y hx hy ?_
  have hs : sepStr o [.node x, .node y]
      = (o.childStr x ++ [' ']) ++ ':' :: (' ' :: o.childStr y) := by
    simp [sepStr, Item.text]
  rw [hs] at hf ⊢
  have hna : ':' ∉ o.childStr x ++ [' '] := by
    simp only [List.mem_append, List.mem_singleton, not_or]; exact ⟨ha, by decide⟩
  refine ⟨_, _, _, tokenise_flat _ hf, cutFirst_append _ _ hna, ?_, ?_, ?_, ?_⟩
  · rw [rstrip_append_space, har]; exact ha0
  · rw [lstrip_space_cons, hbl]; exact hb0
  · rw [applyMap_nil, rstrip_append_space, har]
  · rw [applyMap_nil, lstrip_space_cons, hbl]

/-- **separator_sound** (C02): the tokenised line is `l0 : r0` and the children get `l0` / `r0`
    with the blanks next to the colon trimmed and the placeholders mapped back -/
theorem separator_sound (lc rc : Option ClassId) (ql qr : Bool) (s : Str) (slots : List Slot)
    (h : sepSplit lc rc ql qr s = some slots) :
    ∃ r l0 r0, tokenise s = some r ∧ r.text = l0 ++ ':' :: r0 ∧ ':' ∉ l0 ∧
      (∀ c t, Slot.child c t ∈ slots →
        t = applyMap r.map (rstrip l0) ∨ t = applyMap r.map (lstrip r0)) := by
  unfold sepSplit at h
  cases ht : tokenise s with
  | none => simp [ht] at h
  | some r =>
    simp only [ht] at h
    cases hc : cutFirst ':' r.text with
    | none => simp [hc] at h
    | some p =>
      obtain ⟨l0, r0⟩ := p
      obtain ⟨hs, hn⟩ := cutFirst_spec _ _ _ hc
      refine ⟨r, l0, r0, rfl, hs, hn, ?_⟩
      simp only [hc] at h
      intro c t hm
      split at h
      · exact absurd h (by simp)
      · rename_i ls hls
        simp only [Option.some.injEq] at h
        subst h
        simp only [List.mem_cons, List.mem_nil_iff, or_false] at hm
        rcases hm with e | e
        · left
          subst e
          split at hls
          · split at hls
            · exact absurd hls (by simp)
            · simp only [Option.some.injEq, Slot.child.injEq] at hls; exact hls.2.symm
          · split at hls <;> simp at hls
        · right
          split at e
          · split at e
            · exact absurd e (by simp)
            · simp only [Slot.child.injEq] at e; exact e.2
          · split at e <;> simp at e

/-! ## CallBase -/

/-- what the tokeniser has to do on `lhs(rhs)` -/
def CallTokOK (line tl tr : Str) : Prop :=
  ∃ r pre post, tokenise line = some r ∧ cutLast '(' r.text = some (pre, post) ∧
    rstrip pre ≠ [] ∧ applyMap r.map (rstrip pre) = tl ∧
    applyMap r.map (strip (callRhsRaw pre post)) = tr

theorem rstrip_close (s : Str) : (rstrip (s ++ [')'])).getLast? = some ')' := by
  have : rstrip (s ++ [')']) = s ++ [')'] :=
    rstrip_append_of_self s (by decide) (by simp)
  rw [this]; simp

/-- **call_rt** (`lhs(rhs)`, both arguments classes, tokeniser condition explicit) -/
theorem call_rt (o : Oracle Node) (lc rc : ClassId) (q : Bool) (x y : Node)
    (hx : ChildRT o lc x) (hy : ChildRT o rc y) (hy0 : o.childStr y ≠ [])
    (ht : CallTokOK (callStr o [.node x, .node y]) (o.childStr x) (o.childStr y)) :
    callMatch o (.cls lc) (.cls rc) false q (callStr o [.node x, .node y])
      = some [.node x, .node y] := by
  obtain ⟨r, pre, post, h1, h2, h3, h4, h5⟩ := ht
  have hs : callStr o [.node x, .node y] = (o.childStr x ++ '(' :: o.childStr y) ++ [')'] := by
    simp [callStr, Item.text]
  have hlast := rstrip_close (o.childStr x ++ '(' :: o.childStr y)
  unfold callMatch callSplit
  rw [hs] at h1 ⊢
  simp only [hlast, bne_self_eq_false, Bool.false_eq_true, if_false, h1, h2,
    isEmpty_false_of_ne h3, h4, h5, isEmpty_false_of_ne hy0, Bool.not_false, if_true]
  exact runSlots_pair o _ _ _ _ (runSlot_child o lc x hx) (runSlot_child o rc y hy)

/-- **call_rt_kw** (`KEYWORD(rhs)`, the `CALLBase` classes: the keyword is upper case) -/
theorem call_rt_kw (o : Oracle Node) (k : Str) (rc : ClassId) (u q : Bool) (y : Node)
    (hku : u = true → upper k = k)
    (hy : ChildRT o rc y) (hy0 : o.childStr y ≠ [])
    (ht : CallTokOK (callStr o [.str k, .node y]) k (o.childStr y)) :
    callMatch o (.kw k) (.cls rc) u q (callStr o [.str k, .node y]) = some [.str k, .node y] := by
  obtain ⟨r, pre, post, h1, h2, h3, h4, h5⟩ := ht
  have hs : callStr o [.str k, .node y] = (k ++ '(' :: o.childStr y) ++ [')'] := by
    simp [callStr, Item.text]
  have hlast := rstrip_close (k ++ '(' :: o.childStr y)
  have hup : (if u = true then upper k else k) = k := by
    by_cases h : u = true
    · simp [h, hku h]
    · simp [h]
  unfold callMatch callSplit
  rw [hs] at h1 ⊢
  simp only [hlast, bne_self_eq_false, Bool.false_eq_true, if_false, h1, h2,
    isEmpty_false_of_ne h3, h4, h5, isEmpty_false_of_ne hy0, Bool.not_false, if_true, hup]
  exact runSlots_pair o _ _ _ _ rfl (runSlot_child o rc y hy)

/-- **call_sound** (C02): the tokenised line is `pre ( post`, cut at its LAST `(`; the children
    get `pre` and the text up to the last `)` -/
theorem call_sound (la ra : Arg) (u q : Bool) (s : Str) (slots : List Slot)
    (h : callSplit la ra u q s = some slots) :
    ∃ r pre post, tokenise s = some r ∧ r.text = pre ++ '(' :: post ∧ '(' ∉ post ∧
      (rstrip s).getLast? = some ')' := by
  unfold callSplit at h
  split at h
  · exact absurd h (by simp)
  · rename_i hl
    cases ht : tokenise s with
    | none => simp [ht] at h
    | some r =>
      simp only [ht] at h
      cases hc : cutLast '(' r.text with
      | none => simp [hc] at h
      | some p =>
        obtain ⟨pre, post⟩ := p
        obtain ⟨hs, hn⟩ := cutLast_spec _ _ _ hc
        exact ⟨r, pre, post, rfl, hs, hn, by simpa using hl⟩

/-! ## StringBase / STRINGBase / NumberBase -/

/-- **string_rt**: what `StringBase.match` / `STRINGBase.match` returns is accepted again and
    returned unchanged (`upper` is idempotent), whatever the regexes are -/
theorem string_rt (reMatch : Nat → Str → Bool) (up : Bool) (atoms : List PatAtom) (s x : Str)
    (h : stringMatch reMatch up atoms s = some x) :
    stringMatch reMatch up atoms (stringStr x) = some x := by
  unfold stringMatch at h ⊢
  cases up with
  | false =>
    simp only [Bool.false_eq_true, if_false, stringStr] at h ⊢
    split at h
    · simp only [Option.some.injEq] at h
      subst h
      rename_i hany
      simp [hany]
    · exact absurd h (by simp)
  | true =>
    simp only [if_true, stringStr] at h ⊢
    split at h
    · simp only [Option.some.injEq] at h
      subst h
      rename_i hany
      rw [Fp.Norm.upper_idem]
      simp [hany]
    · exact absurd h (by simp)

/-- the regex of a `NumberBase` class accepts its own print-out with the same groups -/
def NumReStable (numRe : Str → Option (Str × Option Str)) (v : Str) (k : Option Str) : Prop :=
  ∃ v', numRe (noSpaces (numberStr (v, k))) = some (v', k) ∧ upper v' = v

/-- **number_rt** (the regex is an oracle: its stability is the explicit hypothesis; it is
    checked on the six real patterns by the leaf round-trip oracle of `fv/cosim_combi.py`) -/
theorem number_rt (numRe : Str → Option (Str × Option Str)) (v : Str) (k : Option Str)
    (h : NumReStable numRe v k) :
    numberMatch numRe (numberStr (v, k)) = some (v, k) := by
  obtain ⟨v', h1, h2⟩ := h
  simp [numberMatch, h1, h2]

/-! ## non-vacuity -/

/-- a toy oracle: nodes are texts, every class accepts every non-empty text as it is -/
def echo : Oracle Str := { childMatch := fun _ s => if s.isEmpty then none else some s, childStr := id }

example : ChildrenRT echo 7 ["a".toList, "b_1 + 2".toList, "c%d".toList] ∧
    NoSepInChildText ',' (["a".toList, "b_1 + 2".toList, "c%d".toList].map echo.childStr) ∧
    AllTight (["a".toList, "b_1 + 2".toList, "c%d".toList].map echo.childStr) ∧
    Flat (seqStr echo [','] (["a".toList, "b_1 + 2".toList, "c%d".toList].map Item.node)) := by
  refine ⟨?_, ?_, ?_, by decide +kernel⟩
  · intro x hx; simp at hx; rcases hx with rfl | rfl | rfl <;> exact rfl
  · intro t ht; simp [echo] at ht; rcases ht with rfl | rfl | rfl <;> decide
  · intro t ht; simp [echo] at ht; rcases ht with rfl | rfl | rfl <;> decide

/-- the tokeniser condition on a line WITH brackets and a literal (kernel-evaluated) -/
example : seqMatch echo [','] 7 "f(x, 'a,b'), k = (1, 2)".toList
    = some [.node "f(x, 'a,b')".toList, .node "k = (1, 2)".toList] := by decide +kernel

example : bracketMatch echo "()".toList (some 3) true "(a + b)".toList
    = some [.str "(".toList, .node "a + b".toList, .str ")".toList] := by decide +kernel

example : kvMatch echo (.cls 1) 2 true false "kind = 4".toList
    = some [.node "kind".toList, .node "4".toList] := by decide +kernel

example : wordMatch echo ["MODULE".toList] false (some 1) false true "MODULE m".toList
    = some [.str "MODULE".toList, .node "m".toList] := by decide +kernel

example : endMatch echo "BLOCK DATA".toList (some 1) false "END BLOCK DATA foo".toList
    = some [.str "BLOCK DATA".toList, .node "foo".toList] := by decide +kernel

example : SepTokOK (sepStr echo [.node "f(1)".toList, .node "'a:b'".toList])
    "f(1)".toList "'a:b'".toList := by
  refine ⟨_, "f(1) ".toList, " '_F2PY_STRING_CONSTANT_1_'".toList, rfl, ?_⟩
  decide +kernel

set_option maxRecDepth 8000 in
example : CallTokOK (callStr echo [.node "a(1)".toList, .node "i + 1, 'x)'".toList])
    "a(1)".toList "i + 1, 'x)'".toList := by
  refine ⟨_, "a(1)".toList, "F2PY_EXPR_TUPLE_1)".toList, rfl, ?_⟩
  decide +kernel

example : NumReStable (fun s => if s.length == 8 then some (s.take 5, some (s.drop 6)) else none)
    "1.0E5".toList (some "DP".toList) := ⟨"1.0E5".toList, by decide, by decide⟩

/-! ## where the round trip FAILS (the hypotheses are necessary; each reproduced on the real code) -/

/-- **Dtv_Type_Spec**: `CALLBase.match(['TYPE','CLASS'], …)` — a list is neither a `str` nor
    callable: every input that reaches `lhs_cls(lhs)` raises `TypeError` (`Slot.crash`);
    real input: `Dtv_Type_Spec("TYPE(t)")`. -/
theorem call_list_lhs_crashes :
    callSplit .bad (.cls 0) true true "TYPE(t)".toList = some [.crash, .child 0 "t".toList] := by
  decide +kernel

/-- **WORDClsBase keeps a trailing blank** (`line` is only left-stripped): `Stop_Stmt("STOP 1 ")`
    hands `"1 "` to `Stop_Code`, whose own subclass search then builds a different tree than the
    one re-parsed from the printed `STOP 1`. -/
theorem word_keeps_trailing_blank :
    wordSplit1 "STOP".toList (some 0) false false "STOP 1 ".toList
      = some [.str "STOP".toList, .child 0 "1 ".toList] := by decide +kernel

/-- `colons=True`: a child text starting with `::` does not come back (`hcol` is necessary) -/
theorem word_colons_text_lost :
    wordSplit1 "SAVE".toList (some 0) true false (wordStr echo [.str "SAVE".toList, .node "::a".toList])
      = some [.str "SAVE".toList, .child 0 "a".toList] := by decide +kernel

/-- `KeywordValueBase` with `require_lhs=False`: a value containing `=` is cut at it
    (`hb` of `kv_rt_nolhs` is necessary) -/
theorem kv_value_with_eq_is_cut :
    kvSplit (.cls 1) 2 false false "a == b".toList
      = some [.child 1 "a".toList, .child 2 "= b".toList] := by decide +kernel

/-- `BracketBase` strips the content on the left only: `( a )` hands `"a "` to the child -/
theorem bracket_keeps_trailing_blank :
    bracketSplit "()".toList (some 0) true "( a )".toList
      = some [.str "(".toList, .child 0 "a ".toList, .str ")".toList] := by decide +kernel

end Fp.Combi

open Fp.Combi in
#print axioms seq_rt
open Fp.Combi in
#print axioms seq_rt_flat
open Fp.Combi in
#print axioms seq_sound
open Fp.Combi in
#print axioms seq_sound_line
open Fp.Combi in
#print axioms bracket_rt
open Fp.Combi in
#print axioms bracket_rt_empty
open Fp.Combi in
#print axioms kv_rt
open Fp.Combi in
#print axioms kv_rt_kw
open Fp.Combi in
#print axioms kv_rt_nolhs
open Fp.Combi in
#print axioms kv_sound
open Fp.Combi in
#print axioms wordcls_rt
open Fp.Combi in
#print axioms wordcls_rt_bare
open Fp.Combi in
#print axioms wordcls_rt_a
open Fp.Combi in
#print axioms endstmt_rt
open Fp.Combi in
#print axioms endstmt_rt_typed
open Fp.Combi in
#print axioms endstmt_rt_bare
open Fp.Combi in
#print axioms separator_rt
open Fp.Combi in
#print axioms separator_rt_flat
open Fp.Combi in
#print axioms separator_sound
open Fp.Combi in
#print axioms call_rt
open Fp.Combi in
#print axioms call_rt_kw
open Fp.Combi in
#print axioms call_sound
open Fp.Combi in
#print axioms string_rt
open Fp.Combi in
#print axioms number_rt
open Fp.Combi in
#print axioms tokenise_flat
open Fp.Combi in
#print axioms joinStr_splitGo
open Fp.Combi in
#print axioms call_list_lhs_crashes
open Fp.Combi in
#print axioms word_keeps_trailing_blank
open Fp.Combi in
#print axioms word_colons_text_lost
open Fp.Combi in
#print axioms kv_value_with_eq_is_cut
open Fp.Combi in
#print axioms bracket_keeps_trailing_blank
