import FparserModel.Primary
import FparserModel.Generated.PrimaryTables
/-!
# PrimaryChoice — ORDER and AMBIGUITY of the alternatives of `Primary`

`Primary` has no `match`: `Primary(string)` is the loop of `Base.__new__` over
`Base.subclasses["Primary"]` (flattened by the class setup: 18 classes), first answer wins, an
exception other than `NoMatchError` escapes.  This file

1. reads the real alternative lists off the generated subclass table (kernel evaluation),
2. proves the general facts about the loop `subLoop` (first alternative that is not skipped and does
   not end in "no match" wins; an exception of an earlier alternative wins; the count is the sum),
3. proves the DECISION TABLE of `Primary` for every configuration over the real table, every text and
   every amount of fuel (`primary_choice`), and kernel-checked concrete instances.
-/
namespace Fp.Primary
open Fp Fp.Splitline
open Fp.IoStmt (Res Exc Slot Item Oracle Std)

/-- the real `Base.subclasses` table of a standard, restricted to the layer -/
def realTable (std : Std) : Table :=
  tableOf (realOf std) Generated.allClasses Generated.PrimaryTables.nameIds

/-! ## 1. the real tables -/

/-- `Base.subclasses["Primary"]`, in loop order -/
def primaryOrder : List ClassId :=
  [C.Intrinsic_Function_Reference, C.Int_Literal_Constant, C.Real_Literal_Constant,
   C.Complex_Literal_Constant, C.Logical_Literal_Constant, C.Char_Literal_Constant, C.Binary_Constant,
   C.Octal_Constant, C.Hex_Constant, C.Name, C.Data_Ref, C.Array_Section, C.Substring,
   C.Array_Constructor, C.Structure_Constructor, C.Function_Reference, C.Type_Param_Inquiry,
   C.Parenthesis]

theorem primaryAlternatives_f2003 : primaryAlternatives (realTable .f2003) =
    [C.Intrinsic_Function_Reference, C.Int_Literal_Constant, C.Real_Literal_Constant,
     C.Complex_Literal_Constant, C.Logical_Literal_Constant, C.Char_Literal_Constant, C.Binary_Constant,
     C.Octal_Constant, C.Hex_Constant, C.Name, C.Data_Ref, C.Array_Section, C.Substring,
     C.Array_Constructor, C.Structure_Constructor, C.Function_Reference, C.Type_Param_Inquiry,
     C.Parenthesis] := by decide +kernel

theorem primaryAlternatives_f2008 : primaryAlternatives (realTable .f2008) =
    [C.Intrinsic_Function_Reference, C.Int_Literal_Constant, C.Real_Literal_Constant,
     C.Complex_Literal_Constant, C.Logical_Literal_Constant, C.Char_Literal_Constant, C.Binary_Constant,
     C.Octal_Constant, C.Hex_Constant, C.Name, C.Data_Ref, C.Array_Section, C.Substring,
     C.Array_Constructor, C.Structure_Constructor, C.Function_Reference, C.Type_Param_Inquiry,
     C.Parenthesis] := by decide +kernel

/-- the two standards have the same table on the whole layer (all 91 local classes) -/
theorem realTable_f2008_eq_f2003 :
    ∀ c ∈ List.range clsNames.length, (realTable .f2008).subs c = (realTable .f2003).subs c := by
  decide +kernel

theorem subs_Level_1_Expr (std : Std) : (realTable std).subs C.Level_1_Expr = primaryOrder := by
  cases std <;> decide +kernel

theorem subs_Designator (std : Std) :
    (realTable std).subs C.Designator = [C.Name, C.Data_Ref, C.Array_Section, C.Substring] := by
  cases std <;> decide +kernel

theorem subs_Variable (std : Std) :
    (realTable std).subs C.Variable = [C.Name, C.Data_Ref, C.Array_Section, C.Substring] := by
  cases std <;> decide +kernel

theorem subs_Data_Ref (std : Std) : (realTable std).subs C.Data_Ref = [C.Part_Ref] := by
  cases std <;> decide +kernel

theorem subs_Part_Ref (std : Std) : (realTable std).subs C.Part_Ref = [C.Name] := by
  cases std <;> decide +kernel

theorem subs_Array_Section (std : Std) : (realTable std).subs C.Array_Section = [C.Data_Ref] := by
  cases std <;> decide +kernel

theorem subs_Constant (std : Std) : (realTable std).subs C.Constant =
    [C.Int_Literal_Constant, C.Real_Literal_Constant, C.Complex_Literal_Constant,
     C.Logical_Literal_Constant, C.Char_Literal_Constant, C.Binary_Constant, C.Octal_Constant,
     C.Hex_Constant, C.Name] := by
  cases std <;> decide +kernel

theorem subs_Section_Subscript (std : Std) :
    (realTable std).subs C.Section_Subscript = [C.Subscript_Triplet, C.Int_Expr] := by
  cases std <;> decide +kernel

theorem subs_Actual_Arg (std : Std) : (realTable std).subs C.Actual_Arg =
    [C.Expr, C.Name, C.Proc_Component_Ref, C.Alt_Return_Spec, C.Data_Ref, C.Array_Section,
     C.Substring] := by
  cases std <;> decide +kernel

theorem subs_Component_Data_Source (std : Std) : (realTable std).subs C.Component_Data_Source =
    [C.Proc_Component_Ref, C.Name, C.Expr, C.Data_Ref, C.Array_Section, C.Substring] := by
  cases std <;> decide +kernel

theorem subs_Parent_String (std : Std) : (realTable std).subs C.Parent_String =
    [C.Name, C.Data_Ref, C.Int_Literal_Constant, C.Real_Literal_Constant, C.Complex_Literal_Constant,
     C.Logical_Literal_Constant, C.Char_Literal_Constant, C.Binary_Constant, C.Octal_Constant,
     C.Hex_Constant] := by
  cases std <;> decide +kernel

theorem subs_Procedure_Designator (std : Std) :
    (realTable std).subs C.Procedure_Designator = [C.Name, C.Proc_Component_Ref] := by
  cases std <;> decide +kernel

/-- every alternative of `Primary` except `Data_Ref` (→ `Part_Ref`) and `Array_Section`
    (→ `Data_Ref`) is a leaf of the table -/
theorem primary_alternatives_leaves (std : Std) :
    ∀ a ∈ primaryOrder, a ≠ C.Data_Ref → a ≠ C.Array_Section → (realTable std).subs a = [] := by
  cases std <;> decide +kernel

/-! ## 2. the loop `subLoop` -/

section Loop
variable (f : ClassId → List ClassId → Str → Out) (s : Str)

@[simp] theorem subLoop_nil (ps : List ClassId) (n : Nat) :
    subLoop f s [] ps n = { res := .noMatch, calls := n, parents := ps } := by
  simp [subLoop]

/-- "avoid recursion 2": a class already in `parent_cls` is not tried -/
theorem subLoop_cons_skip {a : ClassId} {ps : List ClassId} (h : ps.contains a = true)
    (rest : List ClassId) (n : Nat) :
    subLoop f s (a :: rest) ps n = subLoop f s rest ps n := by
  rw [subLoop, if_pos h]

/-- an alternative that ends in "no match" hands its `parent_cls` and its count on -/
theorem subLoop_cons_noMatch {a : ClassId} {ps : List ClassId} (h : ps.contains a = false)
    (hr : (f a ps s).res = .noMatch) (rest : List ClassId) (n : Nat) :
    subLoop f s (a :: rest) ps n = subLoop f s rest (f a ps s).parents (n + (f a ps s).calls) := by
  rw [subLoop, if_neg (by rw [h]; simp)]; simp [hr]

/-- an alternative that answers (object or escaping exception) ends the loop -/
theorem subLoop_cons_stop {a : ClassId} {ps : List ClassId} (h : ps.contains a = false)
    (hr : (f a ps s).res ≠ .noMatch) (rest : List ClassId) (n : Nat) :
    subLoop f s (a :: rest) ps n =
      { res := (f a ps s).res, calls := n + (f a ps s).calls, parents := (f a ps s).parents } := by
  rw [subLoop, if_neg (by rw [h]; simp)]
  cases hres : (f a ps s).res with
  | noMatch => exact absurd hres hr
  | ok x => simp [hres]
  | raises e => simp [hres]

/-- all alternatives already in `parent_cls`: nothing is tried -/
theorem subLoop_all_skipped (alts ps : List ClassId) (n : Nat)
    (h : ∀ a ∈ alts, ps.contains a = true) :
    subLoop f s alts ps n = { res := .noMatch, calls := n, parents := ps } := by
  induction alts with
  | nil => simp
  | cons a rest ih =>
    rw [subLoop_cons_skip f s (h a (by simp))]
    exact ih fun b hb => h b (by simp [hb])

/-- the run of a prefix of alternatives that ALL fail (skipped, or tried and "no match"):
    `some (parent_cls afterwards, calls made)`; `none` when one of them answers -/
def failRun : List ClassId → List ClassId → Option (List ClassId × Nat)
  | [], ps => some (ps, 0)
  | a :: rest, ps =>
    if ps.contains a then failRun rest ps
    else
      match (f a ps s).res with
      | .noMatch => (failRun rest (f a ps s).parents).map fun pk => (pk.1, (f a ps s).calls + pk.2)
      | _ => none

/-- failed alternatives only cost their calls and leave their marks in `parent_cls` -/
theorem subLoop_append_of_failRun (pre rest : List ClassId) :
    ∀ (ps ps' : List ClassId) (k n : Nat), failRun f s pre ps = some (ps', k) →
      subLoop f s (pre ++ rest) ps n = subLoop f s rest ps' (n + k) := by
  induction pre with
  | nil => intro ps ps' k n h; simp [failRun] at h; obtain ⟨rfl, rfl⟩ := h; simp
  | cons a pre ih =>
    intro ps ps' k n h
    by_cases hc : ps.contains a = true
    · rw [failRun, if_pos hc] at h
      rw [List.cons_append, subLoop_cons_skip f s hc]; exact ih _ _ _ _ h
    · have hc' : ps.contains a = false := by simpa using hc
      rw [failRun, if_neg hc] at h
      cases hres : (f a ps s).res with
      | noMatch =>
        rw [hres] at h
        simp only [Option.map_eq_some_iff] at h
        obtain ⟨⟨p1, k1⟩, h1, h2⟩ := h
        simp only [Prod.mk.injEq] at h2
        obtain ⟨rfl, rfl⟩ := h2
        rw [List.cons_append, subLoop_cons_noMatch f s hc' hres, ih _ _ _ _ h1]
        congr 1; omega
      | ok x => rw [hres] at h; simp at h
      | raises e => rw [hres] at h; simp at h

/-- FIRST ANSWER WINS: when every earlier alternative failed and `a` (not skipped) answers, the loop
    returns `a`'s answer; the later alternatives `rest` are never consulted; the count is the sum of
    the calls of the tried alternatives -/
theorem subLoop_first_ok (pre rest : List ClassId) (a : ClassId) (ps ps' : List ClassId) (k n : Nat)
    (hpre : failRun f s pre ps = some (ps', k)) (hc : ps'.contains a = false)
    (ha : (f a ps' s).res ≠ .noMatch) :
    subLoop f s (pre ++ a :: rest) ps n =
      { res := (f a ps' s).res, calls := n + k + (f a ps' s).calls, parents := (f a ps' s).parents } := by
  rw [subLoop_append_of_failRun f s pre _ ps ps' k n hpre, subLoop_cons_stop f s hc ha]

/-- an escaping exception of an earlier alternative wins over everything behind it -/
theorem subLoop_raises_wins (pre rest : List ClassId) (a : ClassId) (ps ps' : List ClassId) (k n : Nat)
    (e : Exc) (hpre : failRun f s pre ps = some (ps', k)) (hc : ps'.contains a = false)
    (ha : (f a ps' s).res = .raises e) :
    (subLoop f s (pre ++ a :: rest) ps n).res = .raises e := by
  rw [subLoop_first_ok f s pre rest a ps ps' k n hpre hc (by rw [ha]; simp)]; exact ha

/-- all alternatives fail: "no match", the count is the sum -/
theorem subLoop_all_fail (alts ps ps' : List ClassId) (k n : Nat)
    (h : failRun f s alts ps = some (ps', k)) :
    subLoop f s alts ps n = { res := .noMatch, calls := n + k, parents := ps' } := by
  have := subLoop_append_of_failRun f s alts [] ps ps' k n h
  simpa using this

/-- the loop is decided by its FIRST answering alternative — exhaustive case distinction -/
theorem subLoop_decision (alts : List ClassId) : ∀ (ps : List ClassId) (n : Nat),
    (∃ ps' k, failRun f s alts ps = some (ps', k) ∧
        subLoop f s alts ps n = { res := .noMatch, calls := n + k, parents := ps' }) ∨
    (∃ pre a rest ps' k, alts = pre ++ a :: rest ∧ failRun f s pre ps = some (ps', k) ∧
        ps'.contains a = false ∧ (f a ps' s).res ≠ .noMatch ∧
        subLoop f s alts ps n =
          { res := (f a ps' s).res, calls := n + k + (f a ps' s).calls,
            parents := (f a ps' s).parents }) := by
  induction alts with
  | nil => intro ps n; left; exact ⟨ps, 0, by simp [failRun], by simp⟩
  | cons a alts ih =>
    intro ps n
    by_cases hc : ps.contains a = true
    · rcases ih ps n with ⟨ps', k, h1, h2⟩ | ⟨pre, b, rest, ps', k, h0, h1, h2, h3, h4⟩
      · left; refine ⟨ps', k, ?_, ?_⟩
        · rw [failRun, if_pos hc]; exact h1
        · rw [subLoop_cons_skip f s hc]; exact h2
      · right; refine ⟨a :: pre, b, rest, ps', k, by simp [h0], ?_, h2, h3, ?_⟩
        · rw [failRun, if_pos hc]; exact h1
        · rw [subLoop_cons_skip f s hc]; exact h4
    · have hc' : ps.contains a = false := by simpa using hc
      by_cases hres : (f a ps s).res = .noMatch
      · rcases ih (f a ps s).parents (n + (f a ps s).calls) with
          ⟨ps', k, h1, h2⟩ | ⟨pre, b, rest, ps', k, h0, h1, h2, h3, h4⟩
        · left; refine ⟨ps', (f a ps s).calls + k, ?_, ?_⟩
          · rw [failRun, if_neg hc, hres]; simp [h1]
          · rw [subLoop_cons_noMatch f s hc' hres, h2]; congr 1; omega
        · right; refine ⟨a :: pre, b, rest, ps', (f a ps s).calls + k, by simp [h0], ?_, h2, h3, ?_⟩
          · rw [failRun, if_neg hc, hres]; simp [h1]
          · rw [subLoop_cons_noMatch f s hc' hres, h4]; congr 1; omega
      · right
        exact ⟨[], a, alts, ps, 0, by simp, by simp [failRun], hc', hres,
          by rw [subLoop_cons_stop f s hc' hres]; simp⟩

/-- the loop ends in "no match" iff every alternative fails -/
theorem subLoop_noMatch_iff (alts ps : List ClassId) (n : Nat) :
    (subLoop f s alts ps n).res = .noMatch ↔ ∃ ps' k, failRun f s alts ps = some (ps', k) := by
  constructor
  · intro h
    rcases subLoop_decision f s alts ps n with ⟨ps', k, h1, _⟩ | ⟨pre, a, rest, ps', k, _, _, _, h3, h4⟩
    · exact ⟨ps', k, h1⟩
    · rw [h4] at h; exact absurd h h3
  · rintro ⟨ps', k, h⟩; rw [subLoop_all_fail f s alts ps ps' k n h]

/-- the loop returns an answer `r ≠ "no match"` iff `r` is the answer of an alternative `a` that is
    not skipped while every alternative before `a` failed -/
theorem subLoop_answer_iff (alts ps : List ClassId) (n : Nat) (r : Res PNode) (hr : r ≠ .noMatch) :
    (subLoop f s alts ps n).res = r ↔
      ∃ pre a rest ps' k, alts = pre ++ a :: rest ∧ failRun f s pre ps = some (ps', k) ∧
        ps'.contains a = false ∧ (f a ps' s).res = r := by
  constructor
  · intro h
    rcases subLoop_decision f s alts ps n with ⟨ps', k, _, h2⟩ | ⟨pre, a, rest, ps', k, h0, h1, h2, _, h4⟩
    · rw [h2] at h; exact absurd h.symm hr
    · rw [h4] at h; exact ⟨pre, a, rest, ps', k, h0, h1, h2, h⟩
  · rintro ⟨pre, a, rest, ps', k, rfl, h1, h2, h3⟩
    rw [subLoop_first_ok f s pre rest a ps ps' k n h1 h2 (by rw [h3]; exact hr)]; exact h3

/-- the count is additive in the start value; result and `parent_cls` do not depend on it -/
theorem subLoop_calls_shift (alts ps : List ClassId) (n : Nat) :
    subLoop f s alts ps n =
      { res := (subLoop f s alts ps 0).res, calls := n + (subLoop f s alts ps 0).calls,
        parents := (subLoop f s alts ps 0).parents } := by
  rcases subLoop_decision f s alts ps 0 with ⟨ps', k, h1, h2⟩ | ⟨pre, a, rest, ps', k, h0, h1, h2, h3, h4⟩
  · rw [h2, subLoop_all_fail f s alts ps ps' k n h1]; simp
  · rw [h4]; subst h0; rw [subLoop_first_ok f s pre rest a ps ps' k n h1 h2 h3]; simp; omega

end Loop

/-! ## 3. the decision table of `Primary` -/

/-- `parent_cls.append(cls)` unless already there -/
def addP (ps : List ClassId) (c : ClassId) : List ClassId := if ps.contains c then ps else ps ++ [c]

/-- `cls.match(string)` inside `Base.__new__` at fuel `fuel+1`: the items (call order) and the number
    of `Base.__new__` calls made by the children; "no match" for a class without `match` -/
def mres (cfg : Cfg) (fuel : Nat) (c : ClassId) (s : Str) : Res (List (Item PNode)) × Nat :=
  match planOf cfg.std cfg.iv c s with
  | some p => runPlanC (fun c' s' => ((new cfg fuel c' [] s').res, (new cfg fuel c' [] s').calls)) p
  | none => (.noMatch, 0)

/-- the object built from a successful `match` -/
def outcome (c : ClassId) (r : Res (List (Item PNode))) : Res PNode :=
  r.map fun items => mkNode c (arrangeOf c items)

theorem outcome_noMatch_iff (c : ClassId) (r : Res (List (Item PNode))) :
    outcome c r = .noMatch ↔ r = .noMatch := by
  cases r <;> simp [outcome, Res.map]

/-- `Base.__new__` of a class of the layer: `match`, else the subclass loop -/
theorem new_succ (cfg : Cfg) (fuel : Nat) (c : ClassId) (ps0 : List ClassId) (s : Str)
    (hc : isExternal c = false) :
    new cfg (fuel+1) c ps0 s =
      match (mres cfg fuel c s).1 with
      | .noMatch => subLoop (new cfg fuel) s (cfg.table.subs c) (addP ps0 c) ((mres cfg fuel c s).2 + 1)
      | r => { res := outcome c r, calls := (mres cfg fuel c s).2 + 1, parents := addP ps0 c } := by
  rw [new]; simp only [hc, Bool.false_eq_true, if_false]
  unfold mres addP
  cases planOf cfg.std cfg.iv c s with
  | none => simp
  | some p =>
    simp only []
    generalize runPlanC (fun c' s' => ((new cfg fuel c' [] s').res, (new cfg fuel c' [] s').calls)) p = m
    obtain ⟨r, n⟩ := m
    cases r <;> simp [outcome, Res.map]

/-- a class whose subclasses are all in `parent_cls` already (in particular a leaf of the table):
    only its `match` counts -/
theorem new_succ_leaf (cfg : Cfg) (fuel : Nat) (c : ClassId) (ps0 : List ClassId) (s : Str)
    (hc : isExternal c = false)
    (hsub : ∀ b ∈ cfg.table.subs c, (addP ps0 c).contains b = true) :
    new cfg (fuel+1) c ps0 s =
      { res := outcome c (mres cfg fuel c s).1, calls := (mres cfg fuel c s).2 + 1,
        parents := addP ps0 c } := by
  rw [new_succ _ _ _ _ _ hc]
  cases h : (mres cfg fuel c s).1 with
  | noMatch => simp [subLoop_all_skipped _ _ _ _ _ hsub, outcome, Res.map]
  | ok x => simp
  | raises e => simp

/-- the first answer in a list of candidate answers -/
def firstMatch (m : ClassId → Res PNode) : List ClassId → Res PNode
  | [] => .noMatch
  | a :: rest => match m a with
    | .noMatch => firstMatch m rest
    | r => r

theorem firstMatch_append (m : ClassId → Res PNode) (l₁ l₂ : List ClassId) :
    firstMatch m (l₁ ++ l₂) = match firstMatch m l₁ with
      | .noMatch => firstMatch m l₂
      | r => r := by
  induction l₁ with
  | nil => simp [firstMatch]
  | cons a l ih =>
    simp only [List.cons_append, firstMatch]
    cases h : m a <;> simp [ih]

/-- `firstMatch` is "no match" iff every candidate is -/
theorem firstMatch_noMatch_iff (m : ClassId → Res PNode) (l : List ClassId) :
    firstMatch m l = .noMatch ↔ ∀ a ∈ l, m a = .noMatch := by
  induction l with
  | nil => simp [firstMatch]
  | cons a l ih => simp only [firstMatch]; cases h : m a <;> simp [ih, h]

/-- the first answer is the answer of `a` when everything before `a` is "no match" -/
theorem firstMatch_eq_of_prefix (m : ClassId → Res PNode) (pre rest : List ClassId) (a : ClassId)
    (hpre : ∀ b ∈ pre, m b = .noMatch) (ha : m a ≠ .noMatch) :
    firstMatch m (pre ++ a :: rest) = m a := by
  rw [firstMatch_append, (firstMatch_noMatch_iff m pre).2 hpre]
  cases h : m a <;> simp_all [firstMatch]

/-- a segment of alternatives that behave like leaves (answer and count independent of
    `parent_cls`, which only gets the class appended) as long as `parent_cls ⊇ base` -/
theorem subLoop_segment (f : ClassId → List ClassId → Str → Out) (s : Str)
    (M : ClassId → Res PNode) (K : ClassId → Nat) (base : List ClassId) (alts : List ClassId)
    (hnd : alts.Nodup)
    (hleaf : ∀ a ∈ alts, ∀ ps : List ClassId, (∀ b ∈ base, b ∈ ps) → a ∉ ps →
      f a ps s = { res := M a, calls := K a, parents := ps ++ [a] }) :
    ∀ (ps : List ClassId) (n : Nat) (rest : List ClassId),
      (∀ b ∈ base, b ∈ ps) → (∀ a ∈ alts, a ∉ ps) →
      (firstMatch M alts = .noMatch →
        subLoop f s (alts ++ rest) ps n = subLoop f s rest (ps ++ alts) (n + (alts.map K).sum)) ∧
      (firstMatch M alts ≠ .noMatch → (subLoop f s (alts ++ rest) ps n).res = firstMatch M alts) := by
  induction alts with
  | nil => intro ps n rest _ _; simp [firstMatch]
  | cons a alts ih =>
    intro ps n rest hb hps
    have ha : a ∉ ps := hps a (by simp)
    have hc : ps.contains a = false := by simpa using ha
    have hf := hleaf a (by simp) ps hb ha
    have hnd' : alts.Nodup := (List.nodup_cons.1 hnd).2
    have hna : a ∉ alts := (List.nodup_cons.1 hnd).1
    have ih' := ih hnd' (fun b hb' => hleaf b (by simp [hb'])) (ps ++ [a]) (n + K a) rest
      (fun b hb' => by simp [hb b hb'])
      (fun b hb' => by
        have h1 := hps b (by simp [hb'])
        have h2 : b ≠ a := fun h => hna (h ▸ hb')
        simp [h1, h2])
    simp only [firstMatch, List.cons_append]
    cases hm : M a with
    | noMatch =>
      have hr : (f a ps s).res = .noMatch := by rw [hf]; exact hm
      rw [subLoop_cons_noMatch f s hc hr, hf]
      simp only []
      constructor
      · intro h
        rw [ih'.1 h]; simp [Nat.add_assoc]
      · intro h; exact ih'.2 h
    | ok x =>
      have hr : (f a ps s).res ≠ .noMatch := by rw [hf, hm]; simp
      rw [subLoop_cons_stop f s hc hr, hf]; simp [hm]
    | raises e =>
      have hr : (f a ps s).res ≠ .noMatch := by rw [hf, hm]; simp
      rw [subLoop_cons_stop f s hc hr, hf]; simp [hm]

/-- the ten alternatives in front of the designators: the intrinsic call, the literals, `Name` -/
def tenAlts : List ClassId :=
  [C.Intrinsic_Function_Reference, C.Int_Literal_Constant, C.Real_Literal_Constant,
   C.Complex_Literal_Constant, C.Logical_Literal_Constant, C.Char_Literal_Constant, C.Binary_Constant,
   C.Octal_Constant, C.Hex_Constant, C.Name]

/-- the alternatives behind `Data_Ref` -/
def sevenAlts : List ClassId :=
  [C.Array_Section, C.Substring, C.Array_Constructor, C.Structure_Constructor, C.Function_Reference,
   C.Type_Param_Inquiry, C.Parenthesis]

/-- the order in which the `match` methods decide `Primary(string)`: the alternatives of `Primary`
    with `Part_Ref` (the only subclass of `Data_Ref`) inserted behind `Data_Ref` -/
def choiceOrder : List ClassId := tenAlts ++ C.Data_Ref :: C.Part_Ref :: sevenAlts

/-- the answer of `a.match(string)` as an object, at the fuel at which `Primary(string)` with fuel
    `fuel+3` reaches it (`Part_Ref` sits one level deeper) -/
def matchAt (cfg : Cfg) (fuel : Nat) (s : Str) (a : ClassId) : Res PNode :=
  outcome a (mres cfg (if a = C.Part_Ref then fuel else fuel + 1) a s).1

theorem planOf_Primary (std : Std) (iv : Str → Nat → SymTab.IntrRes) (s : Str) :
    planOf std iv C.Primary s = none := rfl

/-- `Data_Ref(string)` in a loop where `Name` has been tried already: `Data_Ref.match`, then
    `Part_Ref.match` (the subclass `Name` of `Part_Ref` is skipped) -/
theorem new_Data_Ref (cfg : Cfg) (std : Std) (hT : cfg.table = realTable std) (fuel : Nat) (s : Str)
    (ps : List ClassId) (hN : C.Name ∈ ps) (hD : C.Data_Ref ∉ ps) (hP : C.Part_Ref ∉ ps) :
    (new cfg (fuel+2) C.Data_Ref ps s).res = firstMatch (matchAt cfg fuel s) [C.Data_Ref, C.Part_Ref] ∧
    (new cfg (fuel+2) C.Data_Ref ps s).parents =
      if (mres cfg (fuel+1) C.Data_Ref s).1 = .noMatch then ps ++ [C.Data_Ref, C.Part_Ref]
      else ps ++ [C.Data_Ref] := by
  have hD' : ps.contains C.Data_Ref = false := by simpa using hD
  have hne : C.Data_Ref ≠ C.Part_Ref := by decide
  have hne' : C.Part_Ref ≠ C.Data_Ref := by decide
  have hMD : matchAt cfg fuel s C.Data_Ref = outcome C.Data_Ref (mres cfg (fuel+1) C.Data_Ref s).1 := by
    simp [matchAt, hne]
  have hMP : matchAt cfg fuel s C.Part_Ref = outcome C.Part_Ref (mres cfg fuel C.Part_Ref s).1 := by
    simp [matchAt]
  rw [new_succ _ _ _ _ _ (by decide)]
  simp only [firstMatch, hMD, hMP, addP, hD']
  cases hd : (mres cfg (fuel+1) C.Data_Ref s).1 with
  | ok x => simp [outcome, Res.map]
  | raises e => simp [outcome, Res.map]
  | noMatch =>
    have hsD : cfg.table.subs C.Data_Ref = [C.Part_Ref] := by rw [hT]; exact subs_Data_Ref std
    have hsP : cfg.table.subs C.Part_Ref = [C.Name] := by rw [hT]; exact subs_Part_Ref std
    have hP2 : (ps ++ [C.Data_Ref]).contains C.Part_Ref = false := by
      simp [hP, hne']
    have hleaf := new_succ_leaf cfg fuel C.Part_Ref (ps ++ [C.Data_Ref]) s (by decide)
      (by rw [hsP]; intro b hb; simp at hb; subst hb; simp [addP, hP, hne', hN])
    simp only [addP, hP2] at hleaf
    simp only [hsD, outcome, Res.map, Bool.false_eq_true, if_false]
    cases hp : (mres cfg fuel C.Part_Ref s).1 with
    | noMatch =>
      have hr : (new cfg (fuel+1) C.Part_Ref (ps ++ [C.Data_Ref]) s).res = .noMatch := by
        rw [hleaf, hp]; simp [outcome, Res.map]
      rw [subLoop_cons_noMatch _ _ hP2 hr, hleaf]
      simp
    | ok x =>
      have hr : (new cfg (fuel+1) C.Part_Ref (ps ++ [C.Data_Ref]) s).res ≠ .noMatch := by
        rw [hleaf, hp]; simp [outcome, Res.map]
      rw [subLoop_cons_stop _ _ hP2 hr, hleaf, hp]
      simp [outcome, Res.map]
    | raises e =>
      have hr : (new cfg (fuel+1) C.Part_Ref (ps ++ [C.Data_Ref]) s).res ≠ .noMatch := by
        rw [hleaf, hp]; simp [outcome, Res.map]
      rw [subLoop_cons_stop _ _ hP2 hr, hleaf, hp]
      simp [outcome, Res.map]

theorem tenAlts_facts : ∀ a ∈ tenAlts, isExternal a = false ∧ a ≠ C.Part_Ref ∧ a ∈ primaryOrder ∧
    a ≠ C.Data_Ref ∧ a ≠ C.Array_Section := by decide

theorem sevenAlts_facts : ∀ a ∈ sevenAlts, isExternal a = false ∧ a ≠ C.Part_Ref ∧ a ∈ primaryOrder ∧
    a ≠ C.Data_Ref := by decide

theorem primaryOrder_split : primaryOrder = tenAlts ++ C.Data_Ref :: sevenAlts := rfl

theorem subs_Primary (std : Std) : (realTable std).subs C.Primary = primaryOrder := by
  cases std
  · exact primaryAlternatives_f2003
  · exact primaryAlternatives_f2008

/-- **The decision table of `Primary`.**  For every configuration over the real subclass table
    (any intrinsic decision `iv`, any external function `ext`), every text and every amount of fuel:
    `Primary(string)` is the answer of the FIRST class in

        Intrinsic_Function_Reference, Int_/Real_/Complex_/Logical_/Char_Literal_Constant,
        Binary_/Octal_/Hex_Constant, Name, Data_Ref, Part_Ref, Array_Section, Substring,
        Array_Constructor, Structure_Constructor, Function_Reference, Type_Param_Inquiry, Parenthesis

    whose `match` does not return `None` (an object, or an escaping exception), and "no match" when
    all nineteen return `None`. -/
theorem primary_choice (cfg : Cfg) (std : Std) (hT : cfg.table = realTable std) (fuel : Nat) (s : Str) :
    (new cfg (fuel+3) C.Primary [] s).res = firstMatch (matchAt cfg fuel s) choiceOrder := by
  have hm : mres cfg (fuel+2) C.Primary s = (.noMatch, 0) := by
    unfold mres; rw [planOf_Primary]
  have hsubs : cfg.table.subs C.Primary = tenAlts ++ C.Data_Ref :: sevenAlts := by
    rw [hT, subs_Primary, primaryOrder_split]
  have hleafT : ∀ a ∈ primaryOrder, a ≠ C.Data_Ref → a ≠ C.Array_Section → cfg.table.subs a = [] := by
    rw [hT]; exact primary_alternatives_leaves std
  rw [new_succ _ _ _ _ _ (by decide), hm]
  simp only [hsubs]
  have hP0 : addP [] C.Primary = [C.Primary] := rfl
  rw [hP0]
  -- segment 1
  have hleaf10 : ∀ a ∈ tenAlts, ∀ ps : List ClassId, (∀ b ∈ ([] : List ClassId), b ∈ ps) → a ∉ ps →
      new cfg (fuel+2) a ps s =
        { res := matchAt cfg fuel s a, calls := (mres cfg (fuel+1) a s).2 + 1, parents := ps ++ [a] } := by
    intro a ha ps _ hps
    have h1 := tenAlts_facts a ha
    have hc : ps.contains a = false := by simpa using hps
    rw [new_succ_leaf cfg (fuel+1) a ps s h1.1 (by rw [hleafT a h1.2.2.1 h1.2.2.2.1 h1.2.2.2.2]; simp)]
    simp [matchAt, h1.2.1, addP, hps]
  obtain ⟨s1a, s1b⟩ := subLoop_segment (new cfg (fuel+2)) s (matchAt cfg fuel s)
    (fun a => (mres cfg (fuel+1) a s).2 + 1) [] tenAlts (by decide) hleaf10 [C.Primary] (0+1)
    (C.Data_Ref :: sevenAlts) (by simp) (by decide)
  rw [choiceOrder, firstMatch_append]
  by_cases h1 : firstMatch (matchAt cfg fuel s) tenAlts = .noMatch
  case neg =>
    rw [s1b h1]
    cases h : firstMatch (matchAt cfg fuel s) tenAlts <;> simp_all
  rw [s1a h1, h1]
  try simp only []
  -- Data_Ref / Part_Ref
  obtain ⟨hDr, hDp⟩ := new_Data_Ref cfg std hT fuel s ([C.Primary] ++ tenAlts) (by decide) (by decide)
    (by decide)
  have hcD : ([C.Primary] ++ tenAlts).contains C.Data_Ref = false := by decide
  have happ : C.Data_Ref :: C.Part_Ref :: sevenAlts = [C.Data_Ref, C.Part_Ref] ++ sevenAlts := rfl
  rw [happ, firstMatch_append]
  by_cases h2 : firstMatch (matchAt cfg fuel s) [C.Data_Ref, C.Part_Ref] = .noMatch
  case neg =>
    rw [subLoop_cons_stop _ _ hcD (by rw [hDr]; exact h2)]
    cases h : firstMatch (matchAt cfg fuel s) [C.Data_Ref, C.Part_Ref] <;> simp_all
  rw [subLoop_cons_noMatch _ _ hcD (by rw [hDr]; exact h2), h2]
  try simp only []
  have hdn : (mres cfg (fuel+1) C.Data_Ref s).1 = .noMatch := by
    have := (firstMatch_noMatch_iff _ _).1 h2 C.Data_Ref (by simp)
    have hne : C.Data_Ref ≠ C.Part_Ref := by decide
    simpa [matchAt, hne, outcome_noMatch_iff] using this
  rw [hDp, if_pos hdn]
  -- segment 2
  have hleaf7 : ∀ a ∈ sevenAlts, ∀ ps : List ClassId, (∀ b ∈ [C.Data_Ref], b ∈ ps) → a ∉ ps →
      new cfg (fuel+2) a ps s =
        { res := matchAt cfg fuel s a, calls := (mres cfg (fuel+1) a s).2 + 1, parents := ps ++ [a] } := by
    intro a ha ps hb hps
    have hDin : C.Data_Ref ∈ ps := hb _ (by simp)
    have h1 := sevenAlts_facts a ha
    have hc : ps.contains a = false := by simpa using hps
    have hsub : ∀ b ∈ cfg.table.subs a, (addP ps a).contains b = true := by
      by_cases hA : a = C.Array_Section
      · subst hA
        have : cfg.table.subs C.Array_Section = [C.Data_Ref] := by rw [hT]; exact subs_Array_Section std
        rw [this]; intro b hb'; simp at hb'; subst hb'; simp [addP, hps, hDin]
      · rw [hleafT a h1.2.2.1 h1.2.2.2 hA]; simp
    rw [new_succ_leaf cfg (fuel+1) a ps s h1.1 hsub]
    simp [matchAt, h1.2.1, addP, hps]
  obtain ⟨s2a, s2b⟩ := subLoop_segment (new cfg (fuel+2)) s (matchAt cfg fuel s)
    (fun a => (mres cfg (fuel+1) a s).2 + 1) [C.Data_Ref] sevenAlts (by decide) hleaf7
    ([C.Primary] ++ tenAlts ++ [C.Data_Ref, C.Part_Ref])
    (0 + 1 + (tenAlts.map fun a => (mres cfg (fuel+1) a s).2 + 1).sum +
      (new cfg (fuel+2) C.Data_Ref ([C.Primary] ++ tenAlts) s).calls) [] (by decide) (by decide)
  rw [List.append_nil] at s2a s2b
  by_cases h3 : firstMatch (matchAt cfg fuel s) sevenAlts = .noMatch
  · rw [s2a h3, h3]; simp
  · rw [s2b h3]

/-- the same through `construct` (`need s ≥ 3` always) -/
theorem primary_choice_construct (cfg : Cfg) (std : Std) (hT : cfg.table = realTable std) (s : Str) :
    (construct cfg C.Primary s).res = firstMatch (matchAt cfg (need s - 3) s) choiceOrder := by
  have hl : clsNames.length = 91 := by decide
  have h : need s = (need s - 3) + 3 := by unfold need; rw [hl]; omega
  rw [construct, h]; exact primary_choice cfg std hT _ s

/-- the WINNER: the class `a` of `choiceOrder` whose `match` answers while the `match` of every class
    in front of it returns `None` -/
theorem primary_choice_winner (cfg : Cfg) (std : Std) (hT : cfg.table = realTable std) (fuel : Nat)
    (s : Str) (pre rest : List ClassId) (a : ClassId) (hsplit : choiceOrder = pre ++ a :: rest)
    (hpre : ∀ b ∈ pre, matchAt cfg fuel s b = .noMatch) (ha : matchAt cfg fuel s a ≠ .noMatch) :
    (new cfg (fuel+3) C.Primary [] s).res = matchAt cfg fuel s a := by
  rw [primary_choice cfg std hT, hsplit, firstMatch_eq_of_prefix _ _ _ _ hpre ha]

/-- `Primary(string)` is "no match" iff all nineteen `match` methods return `None` -/
theorem primary_noMatch_iff (cfg : Cfg) (std : Std) (hT : cfg.table = realTable std) (fuel : Nat)
    (s : Str) :
    (new cfg (fuel+3) C.Primary [] s).res = .noMatch ↔
      ∀ a ∈ choiceOrder, matchAt cfg fuel s a = .noMatch := by
  rw [primary_choice cfg std hT, firstMatch_noMatch_iff]

/-- the classes that compete for a text of the shape `name ( args )` (and everything else that is
    neither an intrinsic call, a literal nor a name), in the order in which they are asked -/
def referenceOrder : List ClassId :=
  [C.Data_Ref, C.Part_Ref, C.Array_Section, C.Substring, C.Array_Constructor, C.Structure_Constructor,
   C.Function_Reference, C.Type_Param_Inquiry, C.Parenthesis]

/-- DECISION TABLE FOR `name ( args )`: when the intrinsic call, the eight literals and `Name` say
    `None`, the winner is — in this order — `Data_Ref` (two or more `%` parts), else `Part_Ref`, else
    `Array_Section`, else `Substring`, else `Array_Constructor`, else `Structure_Constructor`, else
    `Function_Reference`, else `Type_Param_Inquiry`, else `Parenthesis`.  In particular
    `Function_Reference` is reached only when `Part_Ref` AND `Structure_Constructor` refuse. -/
theorem primary_choice_reference (cfg : Cfg) (std : Std) (hT : cfg.table = realTable std) (fuel : Nat)
    (s : Str) (h10 : ∀ a ∈ tenAlts, matchAt cfg fuel s a = .noMatch) :
    (new cfg (fuel+3) C.Primary [] s).res = firstMatch (matchAt cfg fuel s) referenceOrder := by
  rw [primary_choice cfg std hT, choiceOrder, firstMatch_append, (firstMatch_noMatch_iff _ _).2 h10]
  rfl

/-- … and `Function_Reference` wins exactly when the five classes in front of it refuse -/
theorem primary_choice_function_reference (cfg : Cfg) (std : Std) (hT : cfg.table = realTable std)
    (fuel : Nat) (s : Str) (h10 : ∀ a ∈ tenAlts, matchAt cfg fuel s a = .noMatch)
    (h5 : ∀ a ∈ [C.Data_Ref, C.Part_Ref, C.Array_Section, C.Substring, C.Array_Constructor,
      C.Structure_Constructor], matchAt cfg fuel s a = .noMatch)
    (hf : matchAt cfg fuel s C.Function_Reference ≠ .noMatch) :
    (new cfg (fuel+3) C.Primary [] s).res = matchAt cfg fuel s C.Function_Reference := by
  rw [primary_choice_reference cfg std hT fuel s h10]
  exact firstMatch_eq_of_prefix _ _ [C.Type_Param_Inquiry, C.Parenthesis] _ h5 hf

/-! ### concrete instances (kernel-checked), full fuel `need s`

A toy external function: `Expr` answers names, integer literals and real literals, `Int_Expr` names
and integer literals only (the real `Int_Expr.match` refuses a real literal), `Label` digits;
everything else "no match".  The intrinsic decision is the real one (`ivNoScope`). -/

def toyExt : Ext := fun c _ s =>
  let t := strip s
  let isInt := !t.isEmpty && t.all isDigit
  if c == C.Expr || c == C.Int_Expr then
    if isName t then (.ok (mkNode C.Name [.str t]), 1)
    else if isInt then (.ok (mkNode C.Int_Literal_Constant [.str t, .none]), 1)
    else if c == C.Expr && (scanReal t).isSome then
      (.ok (mkNode C.Real_Literal_Constant [.str (upper t), .none]), 1)
    else (.noMatch, 1)
  else if c == C.Label then
    if isInt then (.ok { cls := C.Label, text := t, shape := "Label('".toList ++ t ++ "')".toList }, 1)
    else (.noMatch, 1)
  else (.noMatch, 1)

def toyCfg : Cfg :=
  { std := .f2003, iv := ivNoScope .f2003, table := realTable .f2003, ext := toyExt }


theorem toyCfg_table : toyCfg.table = realTable .f2003 := rfl

/-- class and `repr`-like shape of `Primary(s)` under the toy configuration -/
def toyPrimary (s : String) : Res (ClassId × String) :=
  (construct toyCfg C.Primary s.toList).res.map fun n => (n.cls, String.ofList n.shape)

-- real parser: Part_Ref(Name('f'), Section_Subscript_List(',', (Name('x'),)))
theorem inst_part_ref : toyPrimary "f(x)" =
    .ok (C.Part_Ref, "Part_Ref(Name('f'), Section_Subscript_List(Name('x')))") := by decide +kernel

-- real parser: Structure_Constructor(Type_Name('f'), Component_Spec_List(',', (Real_Literal_Constant('1.0', None),)))
theorem inst_real_arg_is_structure_constructor : toyPrimary "f(1.0)" =
    .ok (C.Structure_Constructor,
      "Structure_Constructor(Type_Name('f'), Component_Spec_List(Real_Literal_Constant('1.0', None)))") := by
  decide +kernel

-- real parser: Structure_Constructor(Type_Name('f'), None)
theorem inst_no_arg_is_structure_constructor : toyPrimary "f()" =
    .ok (C.Structure_Constructor, "Structure_Constructor(Type_Name('f'), None)") := by decide +kernel

-- real parser: Structure_Constructor(Type_Name('t'), Component_Spec_List(',', (Int_Literal_Constant('1', None),
--   Component_Spec(Name('x'), Int_Literal_Constant('2', None)))))
theorem inst_keyword_arg_is_structure_constructor : toyPrimary "t(1, x = 2)" =
    .ok (C.Structure_Constructor,
      "Structure_Constructor(Type_Name('t'), Component_Spec_List(Int_Literal_Constant('1', None), Component_Spec(Name('x'), Int_Literal_Constant('2', None))))") := by
  decide +kernel

-- real parser: Function_Reference(Name('f'), Actual_Arg_Spec_List(',', (Alt_Return_Spec(Label('10')),)))
theorem inst_function_reference : toyPrimary "f(*10)" =
    .ok (C.Function_Reference,
      "Function_Reference(Name('f'), Actual_Arg_Spec_List(Alt_Return_Spec(Label('10'))))") := by
  decide +kernel

-- real parser: Array_Section(Part_Ref(Name('a'), Section_Subscript_List(',', (Int_Literal_Constant('1', None),))),
--   Substring_Range(Int_Literal_Constant('2', None), Int_Literal_Constant('3', None)))
theorem inst_array_section : toyPrimary "a(1)(2:3)" =
    .ok (C.Array_Section,
      "Array_Section(Part_Ref(Name('a'), Section_Subscript_List(Int_Literal_Constant('1', None))), Substring_Range(Int_Literal_Constant('2', None), Int_Literal_Constant('3', None)))") := by
  decide +kernel

-- real parser: Substring(Char_Literal_Constant("'abc'", None), Substring_Range(Int_Literal_Constant('1', None),
--   Int_Literal_Constant('2', None)))
theorem inst_substring : toyPrimary "'abc'(1:2)" =
    .ok (C.Substring,
      "Substring(Char_Literal_Constant(''abc'', None), Substring_Range(Int_Literal_Constant('1', None), Int_Literal_Constant('2', None)))") := by
  decide +kernel

-- real parser: Intrinsic_Function_Reference(Intrinsic_Name('SIN'), Actual_Arg_Spec_List(',', (Name('x'),)))
theorem inst_intrinsic : toyPrimary "sin(x)" =
    .ok (C.Intrinsic_Function_Reference,
      "Intrinsic_Function_Reference(Intrinsic_Name('SIN'), Actual_Arg_Spec_List(Name('x')))") := by
  decide +kernel

-- real parser: InternalSyntaxError "Intrinsic 'SIN' expects 1 arg(s) but found 0." escapes from `Primary`:
-- the exception of the FIRST alternative wins, `Structure_Constructor` (which accepts `sin()`) is never asked
theorem inst_intrinsic_exception_wins :
    toyPrimary "sin()" = .raises (.child "InternalSyntaxError".toList) := by decide +kernel

-- real parser: Data_Ref('%', (Name('a'), Name('b'))) ; Parenthesis('(', Name('x'), ')')
theorem inst_data_ref : toyPrimary "a%b" = .ok (C.Data_Ref, "Data_Ref(Name('a'), Name('b'))") := by
  decide +kernel
theorem inst_parenthesis : toyPrimary "(x)" = .ok (C.Parenthesis, "Parenthesis('(', Name('x'), ')')") := by
  decide +kernel

/-! ### non-vacuity -/

/-- a toy loop body: class 1 fails (2 calls), class 2 answers (3 calls), class 3 raises -/
def toyF : ClassId → List ClassId → Str → Out := fun c ps _ =>
  if c == 1 then { res := .noMatch, calls := 2, parents := ps ++ [1] }
  else if c == 2 then { res := .ok { cls := 2, text := [], shape := [] }, calls := 3, parents := ps ++ [2] }
  else { res := .raises .keyError, calls := 1, parents := ps ++ [c] }

-- subLoop_cons_skip / subLoop_all_skipped
example : ([7, 1] : List ClassId).contains 1 = true := by decide
example : ∀ a ∈ ([1, 7] : List ClassId), ([7, 1] : List ClassId).contains a = true := by decide
-- subLoop_cons_noMatch / subLoop_cons_stop
example : ([7] : List ClassId).contains 1 = false ∧ (toyF 1 [7] []).res = .noMatch := by decide
example : ([7] : List ClassId).contains 2 = false ∧ (toyF 2 [7] []).res ≠ .noMatch := by decide
-- subLoop_append_of_failRun / subLoop_first_ok / subLoop_all_fail : a skipped and a failing alternative
example : failRun toyF [] [7, 1] [7] = some ([7, 1], 2) := by decide
example : failRun toyF [] [7, 1] [7] = some ([7, 1], 2) ∧ ([7, 1] : List ClassId).contains 2 = false ∧
    (toyF 2 [7, 1] []).res ≠ .noMatch ∧
    subLoop toyF [] ([7, 1] ++ 2 :: [3]) [7] 10 =
      { res := (toyF 2 [7, 1] []).res, calls := 10 + 2 + 3, parents := [7, 1, 2] } := by decide
-- subLoop_raises_wins : the exception of alternative 3 wins over the later alternative 2
example : failRun toyF [] [1] [7] = some ([7, 1], 2) ∧ ([7, 1] : List ClassId).contains 3 = false ∧
    (toyF 3 [7, 1] []).res = .raises .keyError ∧
    (subLoop toyF [] ([1] ++ 3 :: [2]) [7] 0).res = .raises .keyError := by decide
-- subLoop_answer_iff
example : (Res.raises .keyError : Res PNode) ≠ .noMatch := by decide
-- subLoop_segment / new_succ / new_succ_leaf / new_Data_Ref : used by `primary_choice` below
example : isExternal C.Name = false ∧ ∀ b ∈ toyCfg.table.subs C.Name, (addP [] C.Name).contains b = true := by
  decide +kernel
example : C.Name ∈ [C.Primary] ++ tenAlts ∧ C.Data_Ref ∉ [C.Primary] ++ tenAlts ∧
    C.Part_Ref ∉ [C.Primary] ++ tenAlts := by decide
-- primary_choice / _construct / _noMatch_iff : `toyCfg_table`
-- primary_choice_winner on "f(x)": the eleven classes before `Part_Ref` say `None`, `Part_Ref` answers
example : choiceOrder = (tenAlts ++ [C.Data_Ref]) ++ C.Part_Ref :: sevenAlts ∧
    (∀ b ∈ tenAlts ++ [C.Data_Ref], matchAt toyCfg (need "f(x)".toList - 3) "f(x)".toList b = .noMatch) ∧
    matchAt toyCfg (need "f(x)".toList - 3) "f(x)".toList C.Part_Ref ≠ .noMatch := by decide +kernel
-- primary_choice_reference / primary_choice_function_reference on "f(*10)"
example : (∀ a ∈ tenAlts, matchAt toyCfg (need "f(*10)".toList - 3) "f(*10)".toList a = .noMatch) ∧
    (∀ a ∈ [C.Data_Ref, C.Part_Ref, C.Array_Section, C.Substring, C.Array_Constructor,
      C.Structure_Constructor], matchAt toyCfg (need "f(*10)".toList - 3) "f(*10)".toList a = .noMatch) ∧
    matchAt toyCfg (need "f(*10)".toList - 3) "f(*10)".toList C.Function_Reference ≠ .noMatch := by
  decide +kernel
-- firstMatch_eq_of_prefix / outcome_noMatch_iff are unconditional or used above

#print axioms primaryAlternatives_f2003
#print axioms primaryAlternatives_f2008
#print axioms realTable_f2008_eq_f2003
#print axioms subs_Designator
#print axioms primary_alternatives_leaves
#print axioms subLoop_first_ok
#print axioms subLoop_raises_wins
#print axioms subLoop_all_fail
#print axioms subLoop_decision
#print axioms subLoop_noMatch_iff
#print axioms subLoop_answer_iff
#print axioms subLoop_calls_shift
#print axioms subLoop_segment
#print axioms new_succ
#print axioms new_succ_leaf
#print axioms new_Data_Ref
#print axioms primary_choice
#print axioms primary_choice_construct
#print axioms primary_choice_winner
#print axioms primary_noMatch_iff
#print axioms primary_choice_reference
#print axioms primary_choice_function_reference
#print axioms inst_part_ref
#print axioms inst_real_arg_is_structure_constructor
#print axioms inst_no_arg_is_structure_constructor
#print axioms inst_keyword_arg_is_structure_constructor
#print axioms inst_function_reference
#print axioms inst_array_section
#print axioms inst_substring
#print axioms inst_intrinsic
#print axioms inst_intrinsic_exception_wins

end Fp.Primary
