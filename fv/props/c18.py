"""C18 — parse trees can be deep-copied and pickled faithfully."""
import copy
import pickle
from fv import real, treeutil, engine, findings
from fv.props import util
from fv.props import c10

RULE = ("trees of generated programs (both standards; comments dropped / kept / directives processed; cpp + unresolved include "
        "nodes): copy.deepcopy and pickle round trip succeed; str equal; structure equal; the copy satisfies C10's invariants; "
        "node identity sets disjoint; mutating the copy leaves the original's text unchanged. non-trivial = tree has >= 50 nodes"
        ' Correspondence: on every third program the copy model (Fp.Tree deepcopy over the generated class facts) gives its verdict, canonical form, id-disjointness and parent links for deepcopy and pickle from the root and from one inner node; compared with the real copies.')
ASSUMPTIONS = ["CPython's copy/pickle protocol (__reduce_ex__(4), copyreg.__newobj__) is modelled by Fp.Tree.deepcopy/pickleRoundTrip"]
TIE_MODULES = ["FparserModel.Tree", "FparserModel.Generated.Classes2008", "FparserModel.Props.Tree", "FparserModel.Tree3", "FparserModel.Generated.Tree3Proto", "FparserModel.Props.Tree3"]


def run_case(case):
    p = util.program_case(case)
    std, mode = case["std"], case["mode"]
    res = {"key": [case["seed"], std, mode], "counts": {"mode:" + mode: 1}, "findings": []}
    src = c10.decorate(p, case["seed"], mode)
    tmpd = None
    if case["seed"] % 4 == 1:
        # the same tree read through a FortranFileReader (the nodes refer to their reader,
        # which then holds an open file)
        import tempfile
        import os
        tmpd = tempfile.mkdtemp(prefix="fv_c18_")
        path = os.path.join(tmpd, "src.f90")
        with open(path, "w") as f:
            f.write(src)
        res["counts"]["reader:file"] = 1
        try:
            # by path, or from an already open file object (the reader then does not own the file)
            src_arg = path if case["seed"] % 8 == 1 else open(path, "r")
            rd = real.make_reader(None, path=src_arg, ignore_comments=(mode == "drop"), process_directives=(mode == "directives"), free=True)
            o = real.Outcome("tree", tree=real.get_parser(std)(rd), reader=rd)
        except Exception:  # noqa: BLE001
            o = real.Outcome("other")
        finally:
            import shutil
            shutil.rmtree(tmpd, ignore_errors=True)
    else:
        o = real.try_parse(src, std=std, ignore_comments=(mode == "drop"), process_directives=(mode == "directives"), free=True)
    if o.kind != "tree":
        res["nontrivial"] = False
        return res
    t = o.tree
    s0 = str(t)
    sig0 = treeutil.sig(t)
    ids0 = set(id(n) for n in treeutil.all_nodes(t))
    res["nontrivial"] = len(ids0) >= 50
    res["sample"] = {"seed": case["seed"], "mode": mode, "nodes": len(ids0)}
    for how in ("deepcopy", "pickle"):
        try:
            c = copy.deepcopy(t) if how == "deepcopy" else pickle.loads(pickle.dumps(t))
        except Exception as e:  # noqa: BLE001
            res["findings"].append({"signature": "%s-raises:%s" % (how, type(e).__name__),
                                    "what": "%s failed: %s: %s" % (how, type(e).__name__, str(e)[:200]),
                                    "replay": {"case": case, "source": src, "how": how, "reader": "file" if tmpd else "string"}})
            continue
        if str(c) != s0:
            res["findings"].append({"signature": how + "-text-differs", "what": "%s prints differently" % how,
                                    "replay": {"case": case, "source": src, "how": how}})
        if treeutil.sig(c) != sig0:
            d = treeutil.first_diff(sig0, treeutil.sig(c))
            res["findings"].append({"signature": how + "-structure-differs", "what": "%s structure differs at %s: %s vs %s" % ((how,) + tuple(d)),
                                    "replay": {"case": case, "source": src, "how": how}})
        for pr in treeutil.wellformed_problems(c):
            res["findings"].append({"signature": how + "-copy-malformed:" + pr.split(":")[0][:30].split(" of ")[0], "what": "%s copy: %s" % (how, pr),
                                    "replay": {"case": case, "source": src, "how": how}})
        idsc = set(id(n) for n in treeutil.all_nodes(c))
        if ids0 & idsc:
            res["findings"].append({"signature": how + "-shares-nodes", "what": "%s copy shares %d node objects with the original" % (how, len(ids0 & idsc)),
                                    "replay": {"case": case, "source": src, "how": how}})
        # mutate the copy: rename every Name, drop the last child of every block
        for n in treeutil.all_nodes(c):
            if type(n).__name__ == "Name":
                n.string = "zz_mutated"
            elif isinstance(n, real.U.BlockBase) and len(n.content) > 2:
                del n.content[1]
        if str(t) != s0:
            res["findings"].append({"signature": how + "-mutation-leaks", "what": "mutating the %s copy changed the original's text" % how,
                                    "replay": {"case": case, "source": src, "how": how}})
    if case["seed"] % 3 == 0:
        fs, info = util.tree_cosim(src, std=std, copies=True, case=case, seed=case["seed"])
        res["findings"] += fs
        res["counts"]["copy-cosim"] = 1
        for k, v in info.items():
            if k.startswith("copy:"):
                res["counts"]["copy-cosim-" + k[5:]] = v
    return res


def cases(tier, seed):
    n = util.tier_n(tier, 100, 1000)
    modes = ["drop", "keep", "directives", "extras"]
    return [{"seed": s, "std": "f2008" if i % 3 else "f2003", "mode": modes[i % 4], "size": 0.7} for i, s in enumerate(util.seeds(seed, n, 18))]


def run(tier, rep, st):
    util.sub_cosim(rep, tier, "cosim_tree3", "Fp.Tree3", 60, 600)
    engine.run_cases(__name__, cases(tier, rep.seed), rep)
