import FparserModel.Proofs.EndToEnd

/-!
# EndToEnd — C02 from the source to the regenerated text (capstone; also serves C01, C11)

Composition of the three proved layers

    (1) READER → STREAM   `Fp.Refine.reader_refines_stream`, `chunk_run_is_represented`, `read_comments_once`
    (2) STREAM → TREE     `Fp.Block.frontier_eq_consumed`, `program_consumes_all`
    (3) TREE → TEXT       `Fp.Print.Props.print_lines_eq_frontier`, `print_tokens_lift`, `tofortran_eq_render`

for the source class of layer (1) (`ChunkSource`: free-form chunk layouts — comment lines, one-line
statements, continued statements with comments / blank lines inside, preprocessor lines).

* `tree_frontier_is_read_items`        (1)+(2): the frontier of the tree IS the reader's delivery order,
                                       and a reader chain follows the run to its end;
* `printed_lines_are_consumed_items`   (2)+(3) for ARBITRARY streams, classes, fuels (no reader needed);
* `printed_statements_are_drained_items` (1)+(2)+(3) over the interface of `reader_refines_stream`: ANY reader
                                       chain (free / fixed form, INCLUDE readers) with `Drains` and returnable items;
* `printed_statements_are_read_items`  (1)+(2)+(3), THE CAPSTONE for chunk sources (no reader side condition
                                       left): the item ids of the printed lines are the ids (= positions) of the
                                       items the reader delivers — every logical line once, in reader order,
                                       nothing else; filtered by any predicate;
* `printed_lines_decode_to_read_items` the same read back through the positions: the printed lines of a kind
                                       ARE the reader's items of that kind;
* `printed_program_is_read_items`      the hypothesis "consumes the whole stream" discharged for `Program`
                                       (`program_consumes_all`);
* `printed_tokens_are_read_tokens`     with `print_tokens_lift`: token-preserving leaf printers ⇒ the token text
                                       of `tofortran` of the whole tree = concatenation of the items' tokens
                                       (`printed_tokens_are_drained_tokens`: for any delivery order).

Hypotheses (the union of the three layers', nothing else):
  layer (1)  `ChunkSource o cs r` (eight fields, see `Proofs/EndToEnd.lean`);
  layer (2)  the run returns a tree; `D st' = 0` (no drop event: `frontier_eq_consumed`'s `D st' = D st` on the
             start state); the tree consumed the whole stream (`st'.stream.all = []`; for `Program`:
             `programContinues` or no fall-back, fuel `+ 1`);
  layer (3)  `(ofBlock L t).sane T` (derived from the matcher by another slice); `L` carries the item id;
             for the token corollary: all-blank root tab, no newline inside a printed line, token-preserving
             leaf printers.
-/
namespace Fp.EndToEnd
open Fp Fp.Reader Fp.Refine Fp.Print

/-! ## (1) + (2) -/

/-- READER + MATCHER.  For a chunk source, a run of ANY class of ANY table on the reader's stream that
    returns a tree, logs no drop event and leaves the stream empty:
    the reader delivers exactly `readerItems r cs` and ends in `finOf r cs` (`read_comments_once`);
    the fresh reader is represented by the start stream (`reader_refines_stream`, `abs_init`);
    a reader chain represented by the FINAL stream exists (`chunk_run_is_represented`);
    the frontier of the tree is the image of the delivery order, and decodes to it.
    (`comments_are_leaves_once` for either value of `ignore_comments` and any class.) -/
theorem tree_frontier_is_read_items (dir : Item → Bool) (d : Nat) (fs : Fs) (o : Bool)
    (cs : List Chunk) (r : Rd) (hcs : ChunkSource o cs r)
    (env : Block.Env) (fuel : Nat) (cl : Block.Cls) (st' : Block.St) (t : Block.Tree)
    (h : Block.run env fuel cl (streamOf dir r cs) = (.tree t, st'))
    (hd : Block.D st' = 0) (hall : st'.stream.all = []) :
    Drains (d + 1) fs [r] (evItems (readerItems r cs)) (finOf r cs) ∧
    Abs dir d fs [r] (readerItems r cs) (finOf r cs) [r] (streamOf dir r cs).stream ∧
    (∃ rd, Abs dir d fs [r] (readerItems r cs) (finOf r cs) rd st'.stream) ∧
    t.frontier = absItems dir 0 (readerItems r cs) ∧
    t.frontier.map (decode (readerItems r cs)) = (readerItems r cs).map some := by
  have hdr := chunkSource_drains hcs d fs
  have hrep := chunk_run_is_represented dir d fs o cs r hcs.ok hcs.omp hcs.fifo hcs.filo
    hcs.notClosed hcs.free hcs.src hcs.noInc env fuel cl
  have hfr := frontier_of_whole_stream env fuel cl _ st' t h hd hall
  refine ⟨hdr, (reader_refines_stream dir d fs [r] _ _ hdr (by simp)).2.1, ?_, hfr, ?_⟩
  · obtain ⟨rd, hrd⟩ := hrep
    have h' : Block.run env fuel cl (Block.St.init (absItems dir 0
        (chunkItems r.ignoreComments r.linecount cs))) = (.tree t, st') := h
    rw [h'] at hrd
    exact ⟨rd, hrd⟩
  · rw [hfr]
    exact absItems_decode dir _ _ 0 (fun j => by simp)

/-! ## (2) + (3), arbitrary streams -/

/-- MATCHER + PRINTER, every stream, class, fuel, table: the item ids of the printed lines,
    followed by the ids of what is left in the stream, are the ids of the stream before the call
    (`print_items_in_place` with the trivial predicate). -/
theorem printed_lines_are_consumed_items (L : Block.Cls → Block.Item → Leaf)
    (hid : ∀ c i, (L c i).item = i.id)
    (env : Block.Env) (fuel : Nat) (c : Block.Cls) (st st' : Block.St) (t : Block.Tree)
    (h : Block.run env fuel c st = (.tree t, st')) (hd : Block.D st' = Block.D st)
    (T : Tbl) (tab : Str) (hs : (ofBlock L t).sane T = true) :
    st.stream.all.map (·.id)
      = (lineLeaves (printTree T tab (ofBlock L t))).map (·.item) ++ st'.stream.all.map (·.id) := by
  have := Fp.Print.Props.print_items_in_place (fun _ => true) (fun _ => true) L (fun _ _ => rfl) hid
    env fuel c st st' t h hd T tab hs
  simpa [Block.itemsOf, filter_const_true] using this

/-! ## (1) + (2) + (3): the capstone -/

/-- C02 END TO END, EVERY SOURCE (free and fixed form, INCLUDE readers, any layout): the general
    form over the interface of `reader_refines_stream`.  `st0` is ANY reader chain that delivers
    exactly `xs0` (`Drains`), whose items may be put back (`hret`, `hretF`: the hypotheses of
    `block_run_is_represented`).  The block model's run of a class on `St.init (absItems dir 0 xs0)`
    returns a tree, logs no drop event and consumes the whole stream; `(ofBlock L t).sane T`.  Then
    the fresh chain is represented by the start stream, a reader chain represented by the final
    stream exists, and the ids of the printed lines (selected by `q`) are the ids = positions of
    the delivered items (selected by `p`), in delivery order, each once. -/
theorem printed_statements_are_drained_items (dir : Item → Bool) (d : Nat) (fs : Fs) (st0 : List Rd)
    (xs0 : List Item) (fin0 : List Rd)
    (hdr : Drains (d + 1) fs st0 (evItems xs0) fin0) (hne : st0 ≠ [])
    (hret : ∀ k zs hw r, k ≤ xs0.length → getN (d + 1) fs k st0 = some (zs, hw) →
      innermost hw = some r → ∀ x ∈ xs0, returnable fs r x = true)
    (hretF : ∀ r, innermost fin0 = some r → ∀ x ∈ xs0, returnable fs r x = true)
    (env : Block.Env) (fuel : Nat) (cl : Block.Cls) (st' : Block.St) (t : Block.Tree)
    (h : Block.run env fuel cl (Block.St.init (absItems dir 0 xs0)) = (.tree t, st'))
    (hd : Block.D st' = 0) (hall : st'.stream.all = [])
    (p : Block.Item → Bool) (q : Leaf → Bool) (L : Block.Cls → Block.Item → Leaf)
    (hq : ∀ c i x, xs0[i]? = some x → q (L c (absItem dir i x)) = p (absItem dir i x))
    (hid : ∀ c i x, xs0[i]? = some x → (L c (absItem dir i x)).item = i)
    (T : Tbl) (tab : Str) (hs : (ofBlock L t).sane T = true) :
    Abs dir d fs st0 xs0 fin0 st0 (Block.St.init (absItems dir 0 xs0)).stream ∧
    (∃ rd, Abs dir d fs st0 xs0 fin0 rd st'.stream) ∧
    ((lineLeaves (printTree T tab (ofBlock L t))).filter q).map (·.item)
      = (Block.itemsOf p (absItems dir 0 xs0)).map (·.id) ∧
    (lineLeaves (printTree T tab (ofBlock L t))).map (·.item) = List.range xs0.length := by
  have ha := (reader_refines_stream dir d fs st0 xs0 fin0 hdr hne).2.1
  obtain ⟨rd, hrd⟩ := (block_run_is_represented dir d fs st0 xs0 fin0 hdr hne hret hretF env fuel cl
    _ st0 ha).1
  rw [h] at hrd
  have hfr := frontier_of_whole_stream env fuel cl _ st' t h hd hall
  exact ⟨ha, ⟨rd, hrd⟩, printed_ids_of_frontier dir xs0 t hfr p q L hq hid T tab hs⟩

/-- C02 END TO END, CHUNK SOURCES (no side condition on the reader left).  Source = a chunk
    source `cs` read by `r`.  The block model's run of a class `cl` (any table, oracle, fuel) on the
    reader's item stream returns a tree `t`, logs no drop event and consumes the whole stream.
    `L` = how a matcher leaf (class, item) prints, carrying the id of its item; `p` on items / `q`
    on printed leaves select a kind (statements, comments, cpp lines, include lines, directives —
    anything); `(ofBlock L t).sane T`.  Then

    * the reader delivers exactly `readerItems r cs` (and nothing else, ending in `finOf r cs`);
    * a reader chain represented by the final, empty stream exists (the reader followed the run);
    * the ids of the printed lines selected by `q` are the ids of the delivered items selected by
      `p`, in delivery order, each exactly once;
    * without a filter: the ids of the printed lines are `0, 1, …, n-1`, the positions of the
      `n` items in the reader's delivery order — no logical line dropped, duplicated or reordered,
      no line that is not a delivered item. -/
theorem printed_statements_are_read_items (dir : Item → Bool) (d : Nat) (fs : Fs) (o : Bool)
    (cs : List Chunk) (r : Rd) (hcs : ChunkSource o cs r)
    (env : Block.Env) (fuel : Nat) (cl : Block.Cls) (st' : Block.St) (t : Block.Tree)
    (h : Block.run env fuel cl (streamOf dir r cs) = (.tree t, st'))
    (hd : Block.D st' = 0) (hall : st'.stream.all = [])
    (p : Block.Item → Bool) (q : Leaf → Bool) (L : Block.Cls → Block.Item → Leaf)
    (hq : ∀ c i x, (readerItems r cs)[i]? = some x → q (L c (absItem dir i x)) = p (absItem dir i x))
    (hid : ∀ c i x, (readerItems r cs)[i]? = some x → (L c (absItem dir i x)).item = i)
    (T : Tbl) (tab : Str) (hs : (ofBlock L t).sane T = true) :
    Drains (d + 1) fs [r] (evItems (readerItems r cs)) (finOf r cs) ∧
    (∃ rd, Abs dir d fs [r] (readerItems r cs) (finOf r cs) rd st'.stream) ∧
    ((lineLeaves (printTree T tab (ofBlock L t))).filter q).map (·.item)
      = (Block.itemsOf p (absItems dir 0 (readerItems r cs))).map (·.id) ∧
    (lineLeaves (printTree T tab (ofBlock L t))).map (·.item) = List.range (readerItems r cs).length := by
  have hdr := chunkSource_drains hcs d fs
  have hret := chunk_returnable d fs o cs r hcs.ok hcs.omp hcs.fifo hcs.filo hcs.notClosed hcs.free
    hcs.src hcs.noInc
  obtain ⟨_, h2, h3⟩ := printed_statements_are_drained_items dir d fs [r] (readerItems r cs) (finOf r cs)
    hdr (by simp) hret (chunkSource_returnable_fin hcs fs) env fuel cl st' t h hd hall p q L hq hid T tab hs
  exact ⟨hdr, h2, h3⟩

/-- … READ BACK THROUGH THE POSITIONS: with `p` a predicate on the READER's items, the printed
    lines selected by `q`, each decoded to the reader item at the position it carries, are the
    delivered items selected by `p` — the same items, the same order, the same multiplicity. -/
theorem printed_lines_decode_to_read_items (dir : Item → Bool) (d : Nat) (fs : Fs) (o : Bool)
    (cs : List Chunk) (r : Rd) (hcs : ChunkSource o cs r)
    (env : Block.Env) (fuel : Nat) (cl : Block.Cls) (st' : Block.St) (t : Block.Tree)
    (h : Block.run env fuel cl (streamOf dir r cs) = (.tree t, st'))
    (hd : Block.D st' = 0) (hall : st'.stream.all = [])
    (p : Item → Bool) (q : Leaf → Bool) (L : Block.Cls → Block.Item → Leaf)
    (hq : ∀ c i x, (readerItems r cs)[i]? = some x → q (L c (absItem dir i x)) = p x)
    (hid : ∀ c i x, (readerItems r cs)[i]? = some x → (L c (absItem dir i x)).item = i)
    (T : Tbl) (tab : Str) (hs : (ofBlock L t).sane T = true) :
    Drains (d + 1) fs [r] (evItems (readerItems r cs)) (finOf r cs) ∧
    ((lineLeaves (printTree T tab (ofBlock L t))).filter q).map (fun l => (readerItems r cs)[l.item]?)
      = ((readerItems r cs).filter p).map some :=
  ⟨chunkSource_drains hcs d fs,
   printed_decode_of_frontier dir _ t (frontier_of_whole_stream env fuel cl _ st' t h hd hall)
     p q L hq hid T tab hs⟩

/-- THE CAPSTONE FOR `Program(reader)`: "consumes the whole stream" is a theorem
    (`program_consumes_all`) for the repaired `Program.match` (`programContinues`) and for the
    pinned one when no fall-back to `Main_Program0` happened (`FB st' = 0`). -/
theorem printed_program_is_read_items (dir : Item → Bool) (d : Nat) (fs : Fs) (o : Bool)
    (cs : List Chunk) (r : Rd) (hcs : ChunkSource o cs r)
    (env : Block.Env) (fuel : Nat) (cl unit main0 : Block.Cls) (st' : Block.St) (t : Block.Tree)
    (hk : env.tbl.kind cl = .program unit main0 [])
    (hfb : env.tbl.quirks.programContinues = true ∨ Block.FB st' = 0)
    (h : Block.run env (fuel + 1) cl (streamOf dir r cs) = (.tree t, st'))
    (hd : Block.D st' = 0)
    (p : Block.Item → Bool) (q : Leaf → Bool) (L : Block.Cls → Block.Item → Leaf)
    (hq : ∀ c i x, (readerItems r cs)[i]? = some x → q (L c (absItem dir i x)) = p (absItem dir i x))
    (hid : ∀ c i x, (readerItems r cs)[i]? = some x → (L c (absItem dir i x)).item = i)
    (T : Tbl) (tab : Str) (hs : (ofBlock L t).sane T = true) :
    Drains (d + 1) fs [r] (evItems (readerItems r cs)) (finOf r cs) ∧
    (∃ rd, Abs dir d fs [r] (readerItems r cs) (finOf r cs) rd st'.stream) ∧
    ((lineLeaves (printTree T tab (ofBlock L t))).filter q).map (·.item)
      = (Block.itemsOf p (absItems dir 0 (readerItems r cs))).map (·.id) ∧
    (lineLeaves (printTree T tab (ofBlock L t))).map (·.item) = List.range (readerItems r cs).length :=
  printed_statements_are_read_items dir d fs o cs r hcs env (fuel + 1) cl st' t h hd
    (Block.program_consumes_all env fuel cl unit main0 _ st' t hk h
      (hfb.imp id (fun e => by rw [e]; rfl))) p q L hq hid T tab hs

/-- C02 / C01 END TO END, TOKENS (`print_tokens_lift` composed with the two layers below it).  If
    every leaf printer is token-preserving for its item — for every class `c`, position `i`,
    reader item `x` at that position and all-blank tab, the printed line of `L c (absItem dir i x)`
    tokenises to the tokens `itemToks x` of the item — then the token text of `tofortran` of the
    WHOLE tree is the concatenation of the token texts of the items the reader delivers. -/
theorem printed_tokens_are_read_tokens {τ : Type} (tokLine : Str → List τ) (itemToks : Item → List τ)
    (dir : Item → Bool) (d : Nat) (fs : Fs) (o : Bool)
    (cs : List Chunk) (r : Rd) (hcs : ChunkSource o cs r)
    (env : Block.Env) (fuel : Nat) (cl : Block.Cls) (st' : Block.St) (t : Block.Tree)
    (h : Block.run env fuel cl (streamOf dir r cs) = (.tree t, st'))
    (hd : Block.D st' = 0) (hall : st'.stream.all = [])
    (L : Block.Cls → Block.Item → Leaf)
    (T : Tbl) (isfix : Bool) (tab : Str) (hs : (ofBlock L t).sane T = true)
    (htab : ∀ ch ∈ tab, ch = ' ')
    (hleaf : ∀ c i x, (readerItems r cs)[i]? = some x → ∀ tb : Str, (∀ ch ∈ tb, ch = ' ') →
      tokLine ((L c (absItem dir i x)).str tb isfix) = itemToks x)
    (hnl : ∀ ln ∈ printTree T tab (ofBlock L t), '\n' ∉ ln.str isfix) :
    Drains (d + 1) fs [r] (evItems (readerItems r cs)) (finOf r cs) ∧
    tokText tokLine (tofortran T isfix tab (ofBlock L t)) = (readerItems r cs).flatMap itemToks :=
  ⟨chunkSource_drains hcs d fs,
   printed_tokens_of_frontier tokLine itemToks dir _ t
     (frontier_of_whole_stream env fuel cl _ st' t h hd hall) L T isfix tab hs htab hleaf hnl⟩

/-- … and for ANY delivery order `xs0` (any reader with `Drains … (evItems xs0) …`: fixed form,
    INCLUDE readers): the token corollary needs nothing of the reader but the list of its items. -/
theorem printed_tokens_are_drained_tokens {τ : Type} (tokLine : Str → List τ) (itemToks : Item → List τ)
    (dir : Item → Bool) (xs0 : List Item)
    (env : Block.Env) (fuel : Nat) (cl : Block.Cls) (st' : Block.St) (t : Block.Tree)
    (h : Block.run env fuel cl (Block.St.init (absItems dir 0 xs0)) = (.tree t, st'))
    (hd : Block.D st' = 0) (hall : st'.stream.all = [])
    (L : Block.Cls → Block.Item → Leaf)
    (T : Tbl) (isfix : Bool) (tab : Str) (hs : (ofBlock L t).sane T = true)
    (htab : ∀ ch ∈ tab, ch = ' ')
    (hleaf : ∀ c i x, xs0[i]? = some x → ∀ tb : Str, (∀ ch ∈ tb, ch = ' ') →
      tokLine ((L c (absItem dir i x)).str tb isfix) = itemToks x)
    (hnl : ∀ ln ∈ printTree T tab (ofBlock L t), '\n' ∉ ln.str isfix) :
    tokText tokLine (tofortran T isfix tab (ofBlock L t)) = xs0.flatMap itemToks :=
  printed_tokens_of_frontier tokLine itemToks dir _ t
    (frontier_of_whole_stream env fuel cl _ st' t h hd hall) L T isfix tab hs htab hleaf hnl

end Fp.EndToEnd

/-! ## non-vacuity: one concrete source through the reader, the matcher and the printer -/

namespace Fp.EndToEnd.Demo
open Fp Fp.Reader Fp.Refine Fp.Print Fp.EndToEnd

/-- the source (comments kept): two statements and a comment line
```
subroutine a
  ! c
end subroutine a
``` -/
def chunks : List Chunk :=
  [stmtChunk "subroutine a".toList "subroutine a".toList none none,
   commentChunk "  ! c".toList " c".toList,
   stmtChunk "end subroutine a".toList "end subroutine a".toList none none]

/-- `FortranStringReader(source, ignore_comments=False)`, free form -/
def rd : Rd := Rd.mk' (srcOf chunks) true false false false []

def x0 : Item := .line "subroutine a".toList none none 1 1
def x1 : Item := .comment "! c".toList 2 2 false
def x2 : Item := .line "end subroutine a".toList none none 3 3

/-- what the reader delivers -/
theorem items : readerItems rd chunks = [x0, x1, x2] := by decide +kernel

theorem chunks_ok : ∀ c ∈ chunks, c.ok false := by
  intro c hc
  simp only [chunks, List.mem_cons, List.not_mem_nil, or_false] at hc
  rcases hc with rfl | rfl | rfl
  · exact stmtChunk_ok false _ "subroutine a".toList _ _ _ (by decide) (fun h => by cases h) (by decide +kernel)
      (by decide +kernel) (by unfold CleanBody NoC; decide) (by decide) (by decide +kernel)
  · exact commentChunk_ok false _ "  ".toList _ (by decide) (by unfold AllSpace; decide)
      (fun h => by cases h) (by decide)
  · exact stmtChunk_ok false _ "end subroutine a".toList _ _ _ (by decide) (fun h => by cases h) (by decide +kernel)
      (by decide +kernel) (by unfold CleanBody NoC; decide) (by decide) (by decide +kernel)

/-- ALL HYPOTHESES OF LAYER (1) hold for this source -/
theorem source : ChunkSource false chunks rd where
  ok := chunks_ok
  omp := rfl
  fifo := rfl
  filo := rfl
  notClosed := rfl
  free := rfl
  src := rfl
  noInc := by
    intro x hx
    have hx' : x ∈ readerItems rd chunks := hx
    rw [items] at hx'
    simp only [List.mem_cons, List.not_mem_nil, or_false] at hx'
    rcases hx' with rfl | rfl | rfl
    · exact Fp.Refine.Demo.noInc_line _ _ _ _ _ (by decide +kernel)
    · exact NoInc.comment _ _ _ _
    · exact Fp.Refine.Demo.noInc_line _ _ _ _ _ (by decide +kernel)

/-- the matcher: the table of `Fp.Block.W` (0 = Program, 2 = the subroutine block, 3 / 4 its opening
    and END statement), the repaired `Program.match`, an oracle that accepts item 0 as
    `subroutine a` and item 2 as `end subroutine a` -/
def env : Block.Env := Block.W.env { programContinues := true } Fp.Print.Props.orcC

/-- how a matcher leaf prints: the text, label and construct name of the READER item at the
    position the leaf carries; statements through `StmtBase.tofortran`, comments and cpp lines
    through `Base.tofortran` -/
def LX : Block.Cls → Block.Item → Leaf := fun c i =>
  match [x0, x1, x2][i.id]? with
  | some (.line t lab nam _ _) => { cls := c, stmt := true, label := lab, name := nam, text := t, item := i.id }
  | some (.synerr t _ _) => { cls := c, stmt := true, text := t, item := i.id }
  | some (.cpp t _ _) => { cls := c, stmt := false, text := t, item := i.id }
  | some (.comment t _ _ _) => { cls := c, stmt := false, text := t, item := i.id }
  | none => { cls := c, stmt := false, text := [], item := i.id }

def dirF : Item → Bool := fun _ => false

/-- the printer table: class 4 is an `EndStmtBase` -/
abbrev TX : Tbl := Fp.Print.Props.TC

def itemText : Item → Str
  | .line t _ _ _ _ => t | .synerr t _ _ => t | .cpp t _ _ => t | .comment t _ _ _ => t

/-- tokens of a line = its non-blank characters -/
def tok (s : Str) : List Char := s.filter (· != ' ')

/-- THE RUN: `Program(reader)` returns a tree, no drop event, the stream is empty, the tree is sane
    for the printer — ALL HYPOTHESES OF LAYERS (2), (3); and, computed directly, what the theorems
    below predict: three lines with the ids 0, 1, 2 and the regenerated text -/
theorem run :
    (match Block.run env 12 0 (streamOf dirF rd chunks) with
      | (.tree t, st') =>
          (ofBlock LX t).sane TX && st'.stream.all.isEmpty && (Block.D st' == 0)
          && ((lineLeaves (printTree TX [] (ofBlock LX t))).map (·.item) == [0, 1, 2])
          && (String.ofList (tofortran TX false [] (ofBlock LX t)) == "subroutine a\n  ! c\nend subroutine a")
          && (printTree TX [] (ofBlock LX t)).all (fun ln => !(ln.str false).contains '\n')
      | _ => false) = true := by
  decide +kernel

/-- the leaf-level hypotheses for `LX`: `q` = "not printed through StmtBase.tofortran" is
    `p` = "is a Comment item" on the reader items; the leaf carries its position; and every leaf
    printer is token-preserving -/
theorem LX_ok (c : Block.Cls) (i : Nat) (x : Item) (hx : (readerItems rd chunks)[i]? = some x) :
    (fun l : Leaf => !l.stmt) (LX c (absItem dirF i x)) = x.isComment ∧
    (LX c (absItem dirF i x)).item = i ∧
    ∀ tb : Str, (∀ ch ∈ tb, ch = ' ') → tok ((LX c (absItem dirF i x)).str tb false) = tok (itemText x) := by
  rw [items] at hx
  have hf : ∀ tb : Str, (∀ ch ∈ tb, ch = ' ') → tb.filter (· != ' ') = [] := fun tb htb => by
    apply List.filter_eq_nil_iff.mpr; intro a ha; simp [htb a ha]
  have hc : ¬ strip ['!', ' ', 'c'] = [] := by decide
  match i, hx with
  | 0, hx =>
    simp only [List.getElem?_cons_zero, Option.some.injEq] at hx; subst hx
    exact ⟨rfl, rfl, fun tb htb => by
      simp [LX, absItem, x0, x1, x2, tok, itemText, Leaf.str, Header.tofortran_nn, List.filter_append, hf tb htb]⟩
  | 1, hx =>
    simp only [List.getElem?_cons_succ, List.getElem?_cons_zero, Option.some.injEq] at hx; subst hx
    exact ⟨rfl, rfl, fun tb htb => by
      simp [LX, absItem, x0, x1, x2, tok, itemText, Leaf.str, baseTofortran, hc, List.filter_append, hf tb htb]⟩
  | 2, hx =>
    simp only [List.getElem?_cons_succ, List.getElem?_cons_zero, Option.some.injEq] at hx; subst hx
    exact ⟨rfl, rfl, fun tb htb => by
      simp [LX, absItem, x0, x1, x2, tok, itemText, Leaf.str, Header.tofortran_nn, List.filter_append, hf tb htb]⟩
  | n + 3, hx => simp at hx

/-- INSTANCE of `printed_statements_are_read_items` / `printed_program_is_read_items`,
    `printed_lines_decode_to_read_items` and `printed_tokens_are_read_tokens`: every hypothesis
    holds for this source; the conclusions are the theorems', their right-hand sides computed by
    `decide`:
    the printed lines carry the ids 0, 1, 2; the comment lines are exactly position 1; the printed
    non-statement lines decode to the reader's Comment item `! c` (line 2); the statement lines to
    the two statements; the token text of `str(tree)` is the concatenation of the items' tokens. -/
example : ∃ t st', Block.run env 12 0 (streamOf dirF rd chunks) = (.tree t, st') ∧
    (∃ fin, Drains 1 [] [rd] (evItems [x0, x1, x2]) fin) ∧
    (∃ fin rd', Abs dirF 0 [] [rd] [x0, x1, x2] fin rd' st'.stream) ∧
    (lineLeaves (printTree TX [] (ofBlock LX t))).map (·.item) = [0, 1, 2] ∧
    ((lineLeaves (printTree TX [] (ofBlock LX t))).filter (fun l => !l.stmt)).map (·.item) = [1] ∧
    ((lineLeaves (printTree TX [] (ofBlock LX t))).filter (fun l => !l.stmt)).map
      (fun l => [x0, x1, x2][l.item]?) = [some x1] ∧
    ((lineLeaves (printTree TX [] (ofBlock LX t))).filter (fun l => l.stmt)).map
      (fun l => [x0, x1, x2][l.item]?) = [some x0, some x2] ∧
    tokText tok (tofortran TX false [] (ofBlock LX t)) = "subroutinea!cendsubroutinea".toList := by
  have hrun := run
  cases hr : Block.run env 12 0 (streamOf dirF rd chunks) with
  | mk out st' =>
    rw [hr] at hrun
    cases out with
    | none => cases hrun
    | raise e => cases hrun
    | tree t =>
      simp only [Bool.and_eq_true, beq_iff_eq, List.isEmpty_iff, List.all_eq_true,
        Bool.not_eq_eq_eq_not, Bool.not_true] at hrun
      obtain ⟨⟨⟨⟨⟨hs, hall⟩, hD⟩, _⟩, _⟩, hnl⟩ := hrun
      have hnl' : ∀ ln ∈ printTree TX [] (ofBlock LX t), '\n' ∉ ln.str false := fun ln hln => by
        have := hnl ln hln
        simpa using this
      -- the capstone, `Program` form (fuel 12 = 11 + 1), `p` = "is a comment item"
      obtain ⟨hdr, ⟨rd', hrd'⟩, hflt, hids⟩ := printed_program_is_read_items dirF 0 [] false chunks rd source
        env 11 0 1 7 st' t rfl (Or.inl rfl) hr hD (fun a => a.kind == .comment) (fun l => !l.stmt) LX
        (fun c i x hx => by
          refine ((LX_ok c i x hx).1).trans ?_
          have hx' := hx
          rw [items] at hx'
          match i, hx' with
          | 0, h => simp only [List.getElem?_cons_zero, Option.some.injEq] at h; subst h; rfl
          | 1, h => simp only [List.getElem?_cons_succ, List.getElem?_cons_zero, Option.some.injEq] at h; subst h; rfl
          | 2, h => simp only [List.getElem?_cons_succ, List.getElem?_cons_zero, Option.some.injEq] at h; subst h; rfl
          | n + 3, h => simp at h)
        (fun c i x hx => (LX_ok c i x hx).2.1) TX [] hs
      have hdec1 := (printed_lines_decode_to_read_items dirF 0 [] false chunks rd source env 12 0 st' t hr hD hall
        (fun x => x.isComment) (fun l => !l.stmt) LX (fun c i x hx => (LX_ok c i x hx).1)
        (fun c i x hx => (LX_ok c i x hx).2.1) TX [] hs).2
      have hdec2 := (printed_lines_decode_to_read_items dirF 0 [] false chunks rd source env 12 0 st' t hr hD hall
        (fun x => !x.isComment) (fun l => l.stmt) LX
        (fun c i x hx => by have := (LX_ok c i x hx).1; simp only at this; rw [← this]; simp)
        (fun c i x hx => (LX_ok c i x hx).2.1) TX [] hs).2
      have htok := (printed_tokens_are_read_tokens tok (fun x => tok (itemText x)) dirF 0 [] false chunks rd source
        env 12 0 st' t hr hD hall LX TX false [] hs (fun _ h => by cases h)
        (fun c i x hx => (LX_ok c i x hx).2.2) hnl').2
      rw [items] at hdr hrd' hflt hids hdec1 hdec2 htok
      exact ⟨t, st', rfl, ⟨_, hdr⟩, ⟨_, rd', hrd'⟩, hids.trans (by decide), hflt.trans (by decide),
        hdec1.trans (by decide), hdec2.trans (by decide), htok.trans (by decide)⟩

/-- INSTANCE of `tree_frontier_is_read_items` and `printed_lines_are_consumed_items` on the same run -/
example : ∃ t st', Block.run env 12 0 (streamOf dirF rd chunks) = (.tree t, st') ∧
    t.frontier.map (decode [x0, x1, x2]) = [some x0, some x1, some x2] ∧
    (lineLeaves (printTree TX [] (ofBlock LX t))).map (·.item) ++ st'.stream.all.map (·.id) = [0, 1, 2] := by
  have hrun := run
  cases hr : Block.run env 12 0 (streamOf dirF rd chunks) with
  | mk out st' =>
    rw [hr] at hrun
    cases out with
    | none => cases hrun
    | raise e => cases hrun
    | tree t =>
      simp only [Bool.and_eq_true, beq_iff_eq, List.isEmpty_iff] at hrun
      obtain ⟨⟨⟨⟨⟨hs, hall⟩, hD⟩, _⟩, _⟩, _⟩ := hrun
      have h1 := (tree_frontier_is_read_items dirF 0 [] false chunks rd source env 12 0 st' t hr hD hall).2.2.2.2
      have h2 := printed_lines_are_consumed_items LX (fun c i => by unfold LX; split <;> rfl) env 12 0 _ st' t hr
        (by rw [hD]; rfl) TX [] hs
      rw [items] at h1
      refine ⟨t, st', rfl, h1, ?_⟩
      rw [← h2]
      show (absItems dirF 0 (readerItems rd chunks)).map (·.id) = [0, 1, 2]
      rw [items]; rfl

/-- INSTANCE of the two general forms `printed_statements_are_drained_items` /
    `printed_tokens_are_drained_tokens` (interface of `reader_refines_stream`: any chain with
    `Drains`): the same run, the delivery order given as the list `[x0, x1, x2]` -/
example : ∃ t st', Block.run env 12 0 (Block.St.init (absItems dirF 0 [x0, x1, x2])) = (.tree t, st') ∧
    (∃ fin rd', Abs dirF 0 [] [rd] [x0, x1, x2] fin rd' st'.stream) ∧
    (lineLeaves (printTree TX [] (ofBlock LX t))).map (·.item) = [0, 1, 2] ∧
    tokText tok (tofortran TX false [] (ofBlock LX t)) = "subroutinea!cendsubroutinea".toList := by
  have hrun := run
  cases hr : Block.run env 12 0 (streamOf dirF rd chunks) with
  | mk out st' =>
    rw [hr] at hrun
    cases out with
    | none => cases hrun
    | raise e => cases hrun
    | tree t =>
      simp only [Bool.and_eq_true, beq_iff_eq, List.isEmpty_iff, List.all_eq_true,
        Bool.not_eq_eq_eq_not, Bool.not_true] at hrun
      obtain ⟨⟨⟨⟨⟨hs, hall⟩, hD⟩, _⟩, _⟩, hnl⟩ := hrun
      have hnl' : ∀ ln ∈ printTree TX [] (ofBlock LX t), '\n' ∉ ln.str false := fun ln hln => by
        have := hnl ln hln
        simpa using this
      have hr' : Block.run env 12 0 (Block.St.init (absItems dirF 0 [x0, x1, x2])) = (.tree t, st') := by
        rw [← items]; exact hr
      have hdr := chunkSource_drains source 0 []
      have hret := chunk_returnable 0 [] false chunks rd source.ok source.omp source.fifo source.filo
        source.notClosed source.free source.src source.noInc
      have hretF := chunkSource_returnable_fin source []
      have hok : ∀ c i x, [x0, x1, x2][i]? = some x →
          (LX c (absItem dirF i x)).item = i ∧ ∀ tb : Str, (∀ ch ∈ tb, ch = ' ') →
            tok ((LX c (absItem dirF i x)).str tb false) = tok (itemText x) := fun c i x hx =>
        (LX_ok c i x (by rw [items]; exact hx)).2
      have hi : chunkItems rd.ignoreComments rd.linecount chunks = [x0, x1, x2] := items
      rw [hi] at hret
      rw [items] at hdr hretF
      obtain ⟨_, ⟨rd', hrd'⟩, _, hids⟩ := printed_statements_are_drained_items dirF 0 [] [rd] [x0, x1, x2] _
        hdr (by simp) hret hretF env 12 0 st' t hr' hD hall (fun _ => true) (fun _ => true) LX
        (fun _ _ _ _ => rfl) (fun c i x hx => (hok c i x hx).1) TX [] hs
      have htok := printed_tokens_are_drained_tokens tok (fun x => tok (itemText x)) dirF [x0, x1, x2]
        env 12 0 st' t hr' hD hall LX TX false [] hs (fun _ h => by cases h)
        (fun c i x hx => (hok c i x hx).2) hnl'
      exact ⟨t, st', hr', ⟨_, rd', hrd'⟩, hids.trans (by decide), htok.trans (by decide)⟩

end Fp.EndToEnd.Demo

#print axioms Fp.EndToEnd.tree_frontier_is_read_items
#print axioms Fp.EndToEnd.printed_lines_are_consumed_items
#print axioms Fp.EndToEnd.printed_statements_are_drained_items
#print axioms Fp.EndToEnd.printed_statements_are_read_items
#print axioms Fp.EndToEnd.printed_lines_decode_to_read_items
#print axioms Fp.EndToEnd.printed_program_is_read_items
#print axioms Fp.EndToEnd.printed_tokens_are_read_tokens
#print axioms Fp.EndToEnd.printed_tokens_are_drained_tokens
#print axioms Fp.EndToEnd.Demo.source
#print axioms Fp.EndToEnd.Demo.run
