import FparserModel.Proofs.Reader3Inc

/-!
# Reader3IncChunks — INCLUDE transparency for clean chunk sources, any nesting depth (C13)

`IncSrc fs ic dirs d src flat lc xs`: the free-form source `src` is a list of clean chunks, some
of which are INCLUDE lines that resolve (through `fs`, directories `dirs`) to free-form files of
the same kind (nesting depth ≤ `d`); `flat` is the source with every INCLUDE line replaced by
the lines of its file, recursively; `xs` the expected items.
* `incSrc_drains`  : draining `src` (budget `d + 1`) delivers exactly `xs`
* `incSrc_flat`    : `flat` is a clean chunk source whose items have the same cores as `xs`
-/
namespace Fp.Reader
open Fp

/-! ### cores: an item without its span -/

inductive Core where
  | line (t : Str) (l : Option Nat) (n : Option Str)
  | synerr (t : Str)
  | cpp (t : Str)
  | comment (t : Str) (inline : Bool)
deriving DecidableEq, Repr

def Item.core : Item → Core
  | .line t l n _ _ => .line t l n
  | .synerr t _ _ => .synerr t
  | .cpp t _ _ => .cpp t
  | .comment t _ _ b => .comment t b

def Core.isComment : Core → Bool
  | .comment .. => true
  | _ => false

def keepC (ic : Bool) (c : Core) : Bool := !(c.isComment && ic)

theorem keepC_core (ic : Bool) (x : Item) : keepC ic x.core = keep ic x := by
  cases x <;> rfl

theorem map_core_filter_keep (ic : Bool) (l : List Item) :
    (l.filter (keep ic)).map Item.core = (l.map Item.core).filter (keepC ic) := by
  rw [List.filter_map]
  congr 1
  apply List.filter_congr
  intro x _
  simp [Function.comp, keepC_core]

theorem isComment_of_lineView {x : Item} {v} (h : x.lineView = some v) : x.isComment = false := by
  cases x <;> simp [Item.lineView, Item.isComment] at h ⊢

/-! ### `_next` steps seen at `get_item` level, with INCLUDE expansion -/

/-- successive `_next` calls of one reader; an item that is an INCLUDE line which resolves is
    replaced by the (non-empty, `None`-free) drain `ys` of its include reader (budget `d`) -/
inductive StepsX (d : Nat) (fs : Fs) : Rd → List Item → Rd → Prop where
  | nil (r : Rd) : StepsX d fs r [] r
  | plain {r r1 r' : Rd} {x : Item} {xs : List Item} :
      next1 r = (.ok x, r1) → NoInc x → StepsX d fs r1 xs r' → StepsX d fs r (x :: xs) r'
  | incl {r r1 r' nr : Rd} {x : Item} {text : Str} {l : Option Nat} {n : Option Str} {s e : Nat}
      {ys xs : List Item} {finI : List Rd} :
      next1 r = (.ok x, r1) → x.lineView = some (text, l, n, s, e) →
      (includeRe text).isSome = true → resolveInclude fs r1 text = .reader nr →
      Drains d fs [nr] (evItems ys) finI → ys ≠ [] →
      StepsX d fs r1 xs r' → StepsX d fs r (ys ++ xs) r'

theorem evItems_append (a b : List Item) : evItems (a ++ b) = evItems a ++ evItems b := by
  simp [evItems]

theorem drains_of_stepsX (d : Nat) (fs : Fs) {r rm : Rd} {xs : List Item} (rf : Rd)
    (hs : StepsX d fs r xs rm) (hstop : next1 rm = (.stop, rf))
    (hex : exhausted [rf] = true) : Drains (d + 1) fs [r] (evItems xs) [rf] := by
  induction hs with
  | nil r =>
    refine ⟨1, ?_⟩
    unfold drainEv getItem next nextChain nextMain
    simp only [hstop, errToStop, hex, if_true, evItems, List.map_nil]
  | plain h hn _ ih => exact Drains_cons (getItem_of_next1 d fs _ _ _ h hn) (ih hstop)
  | incl h hv hinc hres hI hne _ ih =>
    rw [evItems_append]
    exact Drains_include d fs _ _ _ _ _ _ _ _ _ _ _ _ _ h hv hinc hres hI hne (ih hstop)

def RunsX (d : Nat) (fs : Fs) (r : Rd) (xs : List Item) (p : Res Item × Rd) : Prop :=
  ∃ r_mid k, StepsX d fs r xs r_mid ∧ After r_mid k p ∧ k ≤ nextRawFuel r_mid

theorem drains_of_runsX (d : Nat) (fs : Fs) {r rf : Rd} {xs : List Item}
    (h : RunsX d fs r xs (.stop, rf)) (hex : exhausted [rf] = true) :
    Drains (d + 1) fs [r] (evItems xs) [rf] := by
  obtain ⟨rm, k, hsteps, ha, hk⟩ := h
  have hstop : next1 rm = (.stop, rf) := by
    have hraw := ha (nextRawFuel rm) hk
    rw [next1_of_nextRaw_other rm (fun it => by rw [hraw]; simp)]
    exact hraw
  exact drains_of_stepsX d fs rf hsteps hstop hex

theorem RunsX.deliver {d : Nat} {fs : Fs} {r r1 : Rd} {x : Item} {xs : List Item} {p : Res Item × Rd}
    (h : next1 r = (.ok x, r1)) (hn : NoInc x) (hr : RunsX d fs r1 xs p) : RunsX d fs r (x :: xs) p := by
  obtain ⟨rm, k, hs, ha, hk⟩ := hr
  exact ⟨rm, k, StepsX.plain h hn hs, ha, hk⟩

theorem RunsX.deliverInc {d : Nat} {fs : Fs} {r r1 nr : Rd} {x : Item} {text : Str} {l : Option Nat}
    {n : Option Str} {s e : Nat} {ys xs : List Item} {finI : List Rd} {p : Res Item × Rd}
    (h : next1 r = (.ok x, r1)) (hv : x.lineView = some (text, l, n, s, e))
    (hinc : (includeRe text).isSome = true) (hres : resolveInclude fs r1 text = .reader nr)
    (hI : Drains d fs [nr] (evItems ys) finI) (hne : ys ≠ [])
    (hr : RunsX d fs r1 xs p) : RunsX d fs r (ys ++ xs) p := by
  obtain ⟨rm, k, hs, ha, hk⟩ := hr
  exact ⟨rm, k, StepsX.incl h hv hinc hres hI hne hs, ha, hk⟩

/-- one silent round of the comment-skipping loop in front of a run -/
theorem RunsX.skip {d : Nat} {fs : Fs} {r r1 : Rd} {xs : List Item} {p : Res Item × Rd}
    (hstep : ∀ n, nextRaw (n + 1) r = nextRaw n r1) (hfuel : nextRawFuel r1 < nextRawFuel r)
    (htr : ∀ x r'', next1 r1 = (.ok x, r'') → next1 r = (.ok x, r''))
    (hr : RunsX d fs r1 xs p) : RunsX d fs r xs p := by
  obtain ⟨rm, k, hs, ha, hk⟩ := hr
  cases hs with
  | nil =>
    refine ⟨r, k + 1, StepsX.nil r, ?_, by omega⟩
    intro n hn
    obtain ⟨m, rfl⟩ : ∃ m, n = m + 1 := ⟨n - 1, by omega⟩
    rw [hstep m]; exact ha m (by omega)
  | plain hn hni hs' => exact ⟨rm, k, StepsX.plain (htr _ _ hn) hni hs', ha, hk⟩
  | incl hn hv hinc hres hI hne hs' =>
    exact ⟨rm, k, StepsX.incl (htr _ _ hn) hv hinc hres hI hne hs', ha, hk⟩

theorem RunsX.skipSource {d : Nat} {fs : Fs} {r r1 : Rd} {it : Item} {xs : List Item}
    {p : Res Item × Rd} (hfifo : r.fifo = []) (hg : getSourceItem r = (.ok it, r1))
    (hc : (it.isComment && r1.ignoreComments) = true) (hfuel : nextRawFuel r1 < nextRawFuel r)
    (hr : RunsX d fs r1 xs p) : RunsX d fs r xs p := by
  refine RunsX.skip ?_ hfuel (fun x r'' hn => next1_skip r r1 r'' it x hfifo hg hc hfuel hn) hr
  intro m
  conv => lhs; unfold nextRaw popOrRead
  simp only [hfifo, hg, hc, if_true]

theorem RunsX.skipPop {d : Nat} {fs : Fs} {r : Rd} {it : Item} {f xs : List Item} {p : Res Item × Rd}
    (hfifo : r.fifo = it :: f) (hc : (it.isComment && r.ignoreComments) = true)
    (hr : RunsX d fs { r with fifo := f } xs p) : RunsX d fs r xs p := by
  refine RunsX.skip ?_ ?_ (fun x r'' hn => next1_skip_pop r r'' it x f hfifo hc hn) hr
  · intro m
    conv => lhs; unfold nextRaw popOrRead
    simp only [hfifo, hc, if_true]
  · simp only [nextRawFuel, hfifo, List.length_cons]; omega

theorem RunsX.fifo {d : Nat} {fs : Fs} (ic : Bool) : ∀ (f : List Item) (r : Rd) (xs : List Item)
    (p : Res Item × Rd), r.ignoreComments = ic → r.fifo = f → (∀ x ∈ f, x.isComment = true) →
    RunsX d fs { r with fifo := [] } xs p → RunsX d fs r (f.filter (keep ic) ++ xs) p
  | [], r, xs, p, _, hf, _, hr => by
    have : ({ r with fifo := [] } : Rd) = r := by cases r; simp only [] at hf; subst hf; rfl
    rw [this] at hr; simpa using hr
  | x :: f, r, xs, p, hic, hf, hc, hr => by
    have ih := RunsX.fifo ic f { r with fifo := f } xs p hic rfl
      (fun y hy => hc y (List.mem_cons_of_mem _ hy)) hr
    have hx := hc x List.mem_cons_self
    obtain ⟨t, s, e, b, rfl⟩ : ∃ t s e b, x = .comment t s e b := by
      cases x <;> simp [Item.isComment] at hx
      exact ⟨_, _, _, _, rfl⟩
    cases ic with
    | true =>
      have hk : keep true (.comment t s e b) = false := rfl
      simp only [List.filter_cons, hk, Bool.false_eq_true, if_false]
      exact RunsX.skipPop hf (by simp [Item.isComment, hic]) ih
    | false =>
      have hk : keep false (.comment t s e b) = true := rfl
      simp only [List.filter_cons, hk, if_true, List.cons_append]
      exact RunsX.deliver
        (next1_pop r _ f hf (by simp [Item.isComment, hic]) (NoSemi.comment _ _ _ _))
        (NoInc.comment _ _ _ _) ih

/-- one ordinary chunk: its item, then its buffered comments -/
theorem RunsX.chunk {d : Nat} {fs : Fs} (c : Chunk) (hok : c.ok false) (r : Rd) (rest : List Str)
    (xs : List Item) (p : Res Item × Rd) (h0 : r.omp = false) (hfifo : r.fifo = []) (h1 : r.filo = [])
    (h2 : r.closed = false) (h3 : r.isFree = true) (hsrc : r.src = c.lines ++ rest)
    (hni : NoInc (c.item r.linecount))
    (hr : RunsX d fs (afterChunk r c rest) xs p) :
    RunsX d fs r ((c.item r.linecount :: c.comments r.linecount).filter (keep r.ignoreComments) ++ xs) p := by
  have hg := hok.read r rest h0 hfifo h1 h2 h3 hsrc
  have hf := RunsX.fifo (d := d) (fs := fs) r.ignoreComments (c.comments r.linecount)
    { afterChunk r c rest with fifo := c.comments r.linecount }
    xs p rfl rfl (hok.comments r.linecount) hr
  by_cases hk : keep r.ignoreComments (c.item r.linecount) = true
  · simp only [List.filter_cons, hk, if_true, List.cons_append]
    refine RunsX.deliver (next1_of_getSourceItem r _ _ hfifo hg ?_ (hok.nosemi _)) hni hf
    show ((c.item r.linecount).isComment && r.ignoreComments) = false
    simp only [keep, Bool.not_eq_true'] at hk; exact hk
  · simp only [List.filter_cons, hk, Bool.false_eq_true, if_false]
    refine RunsX.skipSource hfifo hg ?_ ?_ hf
    · show ((c.item r.linecount).isComment && r.ignoreComments) = true
      simp only [keep, Bool.not_eq_true', Bool.not_eq_false] at hk; exact hk
    · have := hok.few r.linecount
      simp only [nextRawFuel, afterChunk, hfifo, h1, hsrc, List.length_append, List.length_nil]
      omega

/-! ### sources with INCLUDE lines -/

/-- see the header of this file; `lc` = `linecount` before the source -/
inductive IncSrc (fs : Fs) (ic : Bool) (dirs : List Str) :
    Nat → List Str → List Str → Nat → List Item → Prop where
  | nil (d lc : Nat) : IncSrc fs ic dirs d [] [] lc []
  | chunk (d : Nat) (c : Chunk) (rest flat : List Str) (lc : Nat) (xs : List Item) :
      c.ok false → (∀ lc', ∀ x ∈ c.item lc' :: c.comments lc', NoInc x) →
      (∀ lc', (c.item lc').core = (c.item lc).core ∧
        (c.comments lc').map Item.core = (c.comments lc).map Item.core) →
      IncSrc fs ic dirs d rest flat (lc + c.lines.length) xs →
      IncSrc fs ic dirs d (c.lines ++ rest) (c.lines ++ flat) lc
        ((c.item lc :: c.comments lc).filter (keep ic) ++ xs)
  | incl (d : Nat) (c : Chunk) (text : Str) (lab : Option Nat) (nam : Option Str) (s e : Nat)
      (lines flatI : List Str) (ys : List Item) (rest flat : List Str) (lc : Nat) (xs : List Item) :
      c.ok false → c.comments lc = [] → (c.item lc).lineView = some (text, lab, nam, s, e) →
      (includeRe text).isSome = true →
      fs.get (searchPath fs (includeFilename text) dirs (includeFilename text))
        = some (.file true false lines) →
      IncSrc fs ic dirs d lines flatI 0 ys → ys ≠ [] →
      IncSrc fs ic dirs (d + 1) rest flat (lc + c.lines.length) xs →
      IncSrc fs ic dirs (d + 1) (c.lines ++ rest) (flatI ++ flat) lc (ys ++ xs)

/-- the state of a reader after its whole source `src` has been read -/
def finalOf (r : Rd) (src : List Str) : Rd :=
  { r with src := [], linecount := r.linecount + src.length,
           linesRev := (src.map cook).reverse ++ r.linesRev, closed := true }

theorem finalOf_afterChunk (r : Rd) (c : Chunk) (rest : List Str) (hfifo : r.fifo = []) :
    finalOf (afterChunk r c rest) rest = finalOf r (c.lines ++ rest) := by
  simp [finalOf, afterChunk, hfifo, Nat.add_assoc]

theorem incSrc_runs (fs : Fs) (ic : Bool) (dirs : List Str) {d : Nat} {src flat : List Str} {lc : Nat}
    {xs : List Item} (h : IncSrc fs ic dirs d src flat lc xs) :
    ∀ r : Rd, r.src = src → r.linecount = lc → r.fifo = [] → r.filo = [] → r.closed = false →
      r.isFree = true → r.omp = false → r.ignoreComments = ic → r.includeDirs = dirs →
      RunsX d fs r xs (.stop, finalOf r src) := by
  induction h with
  | nil d lc =>
    intro r hsrc hlc hfifo h1 h2 h3 h0 hic hdirs
    have hfin : finalOf r [] = { r with closed := true } := by
      cases r; simp only [] at hsrc; subst hsrc; simp [finalOf]
    rw [hfin]
    exact ⟨r, 1, StepsX.nil r, After_eof r hfifo h1 h2 hsrc, by simp [nextRawFuel]⟩
  | chunk d c rest flat lc xs hok hni hcs _ ih =>
    intro r hsrc hlc hfifo h1 h2 h3 h0 hic hdirs
    subst hlc
    have ih' := ih (afterChunk r c rest) rfl rfl rfl h1 h2 h3 h0 hic hdirs
    rw [finalOf_afterChunk r c rest hfifo] at ih'
    have := RunsX.chunk c hok r rest xs _ h0 hfifo h1 h2 h3 hsrc
      (hni r.linecount _ List.mem_cons_self) ih'
    rw [hic] at this
    exact this
  | incl d c text lab nam s e lines flatI ys rest flat lc xs hok hcom hv hinc hfile _ hne _ ihI ihM =>
    intro r hsrc hlc hfifo h1 h2 h3 h0 hic hdirs
    subst hlc
    have hg := hok.read r rest h0 hfifo h1 h2 h3 hsrc
    rw [hcom] at hg
    have hnext : next1 r = (.ok (c.item r.linecount), afterChunk r c rest) :=
      next1_of_getSourceItem r _ _ hfifo hg (by rw [isComment_of_lineView hv]; rfl) (hok.nosemi _)
    have hres : resolveInclude fs (afterChunk r c rest) text =
        .reader (Rd.mk' lines true ic false false dirs) := by
      unfold resolveInclude
      have e1 : (afterChunk r c rest).includeDirs = dirs := hdirs
      have e2 : (afterChunk r c rest).ignoreComments = ic := hic
      simp only [e1, e2, hfile, Bool.false_eq_true, if_false]
    have hI := ihI (Rd.mk' lines true ic false false dirs) rfl rfl rfl rfl rfl rfl rfl
      (by simp [Rd.mk']) rfl
    have hID := drains_of_runsX d fs hI (by simp [exhausted, finalOf, Rd.mk'])
    have ihM' := ihM (afterChunk r c rest) rfl rfl rfl h1 h2 h3 h0 hic hdirs
    rw [finalOf_afterChunk r c rest hfifo] at ihM'
    exact RunsX.deliverInc hnext hv hinc hres hID hne ihM'

/-- C13: draining a source with (nested) INCLUDE lines delivers exactly `xs` -/
theorem incSrc_drains (fs : Fs) (ic : Bool) (dirs : List Str) {d : Nat} {src flat : List Str}
    {xs : List Item} (r : Rd) (h : IncSrc fs ic dirs d src flat r.linecount xs)
    (hsrc : r.src = src) (hfifo : r.fifo = []) (h1 : r.filo = []) (h2 : r.closed = false)
    (h3 : r.isFree = true) (h0 : r.omp = false) (hic : r.ignoreComments = ic)
    (hdirs : r.includeDirs = dirs) :
    Drains (d + 1) fs [r] (evItems xs) [finalOf r src] :=
  drains_of_runsX d fs (incSrc_runs fs ic dirs h r hsrc rfl hfifo h1 h2 h3 h0 hic hdirs)
    (by simp [exhausted, finalOf, h1, hfifo])

/-- the budget can always be raised -/
theorem IncSrc.weaken {fs : Fs} {ic : Bool} {dirs : List Str} {d : Nat} {src flat : List Str} {lc : Nat}
    {xs : List Item} (h : IncSrc fs ic dirs d src flat lc xs) : IncSrc fs ic dirs (d + 1) src flat lc xs := by
  induction h with
  | nil d lc => exact IncSrc.nil _ _
  | chunk d c rest flat lc xs hok hni hcs _ ih => exact IncSrc.chunk _ c rest flat lc xs hok hni hcs ih
  | incl d c text lab nam s e lines flatI ys rest flat lc xs hok hcom hv hinc hfile _ hne _ ihI ihM =>
    exact IncSrc.incl _ c text lab nam s e lines flatI ys rest flat lc xs hok hcom hv hinc hfile ihI hne ihM

/-! ### the flattened source -/

theorem chunkItems_append (ic : Bool) : ∀ (a b : List Chunk) (lc : Nat),
    chunkItems ic lc (a ++ b) = chunkItems ic lc a ++ chunkItems ic (lc + totalLines a) b
  | [], b, lc => by simp [chunkItems, totalLines]
  | c :: a, b, lc => by
    simp only [List.cons_append, chunkItems, totalLines, chunkItems_append ic a b, List.append_assoc,
      Nat.add_assoc]

theorem srcOf_append : ∀ (a b : List Chunk), srcOf (a ++ b) = srcOf a ++ srcOf b
  | [], b => rfl
  | c :: a, b => by simp [srcOf, srcOf_append a b]

/-- `flat` is a clean chunk source without INCLUDE lines; read from ANY `linecount` its items have
    the cores of `xs` (same kinds, texts, labels, names, in the same order) -/
theorem incSrc_flat (fs : Fs) (ic : Bool) (dirs : List Str) {d : Nat} {src flat : List Str} {lc : Nat}
    {xs : List Item} (h : IncSrc fs ic dirs d src flat lc xs) :
    ∃ cs : List Chunk, (∀ c ∈ cs, c.ok false) ∧ srcOf cs = flat ∧
      (∀ lc', (chunkItems ic lc' cs).map Item.core = xs.map Item.core) ∧
      (∀ lc', ∀ x ∈ chunkItems ic lc' cs, NoInc x) := by
  induction h with
  | nil d lc => exact ⟨[], by simp, rfl, fun _ => rfl, fun _ x hx => by cases hx⟩
  | chunk d c rest flat lc xs hok hni hcs _ ih =>
    obtain ⟨cs, h1, h2, h3, h4⟩ := ih
    refine ⟨c :: cs, ?_, by simp [srcOf, h2], ?_, ?_⟩
    · intro c' hc'
      rcases List.mem_cons.mp hc' with rfl | hc'
      · exact hok
      · exact h1 c' hc'
    · intro lc'
      simp only [chunkItems, List.map_append, h3, map_core_filter_keep, List.map_cons, (hcs lc').1,
        (hcs lc').2]
    · intro lc' x hx
      simp only [chunkItems, List.mem_append, List.mem_filter] at hx
      rcases hx with ⟨hx, _⟩ | hx
      · exact hni lc' x hx
      · exact h4 _ x hx
  | incl d c text lab nam s e lines flatI ys rest flat lc xs hok hcom hv hinc hfile _ hne _ ihI ihM =>
    obtain ⟨csI, a1, a2, a3, a4⟩ := ihI
    obtain ⟨csM, b1, b2, b3, b4⟩ := ihM
    refine ⟨csI ++ csM, ?_, by rw [srcOf_append, a2, b2], ?_, ?_⟩
    · intro c' hc'
      rcases List.mem_append.mp hc' with hc' | hc'
      · exact a1 c' hc'
      · exact b1 c' hc'
    · intro lc'
      rw [chunkItems_append, List.map_append, List.map_append, a3, b3]
    · intro lc' x hx
      rw [chunkItems_append, List.mem_append] at hx
      rcases hx with hx | hx
      · exact a4 _ x hx
      · exact b4 _ x hx

end Fp.Reader
