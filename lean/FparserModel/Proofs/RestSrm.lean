import FparserModel.Proofs.RestPlain
import FparserModel.Proofs.IoStmtLayoutCombi
/-!
Token theorems of the Rest classes that go through `string_replace_map` (`tok`):
Allocate_Shape_Spec / Explicit_Shape_Spec, Io_Implied_Do_Control, Io_Implied_Do, Assumed_Size_Spec,
Type_Param_Def_Stmt, Cray_Pointer_Decl, Cray_Pointer_Stmt, Target_Entity_Decl.

Each needs `SrmOK <the text handed to tok>` (the two decidable hypotheses of `srm_roundtrip_partial`).
-/
namespace Fp.Rest
open Fp Fp.Splitline Fp.IoStmt
open Fp.Combi (noBlank)

variable {Node : Type}

/-! ## Allocate_Shape_Spec / Explicit_Shape_Spec -/

/-- `[lower :] upper`: printed with the tokens of the input (without a `:` the ORIGINAL text goes to
    the upper-bound class) -/
theorem shapeSpec_tostr_match_tokens (lowerC upperC : ClassId) (o : Oracle Node) (ho : OracleTok o)
    (s : Str) (items : List (Item Node))
    (hm : (planShapeSpec lowerC upperC s).bind (runSlots o) = .ok items) (hs : SrmOK s) :
    ∃ t, tostrShapeSpec o items = .ok t ∧ toks t = toks s ∧
      ((∀ i ∈ items, net (i.text o) = 0) → net t = 0) := by
  obtain ⟨slots, hp, hr⟩ := Res.bind_eq_ok hm
  unfold planShapeSpec at hp
  obtain ⟨r, htok, hp⟩ := Res.bind_eq_ok hp
  have htk := tok_ok htok
  obtain ⟨hseg, hexp⟩ := seg_of_tokenise hs htk
  have hS : toks s = toks (applyMap r.map r.text) := (toks_of_noBlank hexp).symm
  split at hp
  · cases hp
    obtain ⟨i, j, rfl, hi, hj⟩ := run2 hr
    have := runSlot_none_ok hi; subst this
    have hj' := child_toks ho hj
    obtain ⟨n, rfl, _⟩ := runSlot_child_ok hj
    exact ⟨o.str n, rfl, hj', fun hb => hb (.node n) (by simp)⟩
  · rename_i lo up hcut
    obtain ⟨htext, _⟩ := Combi.cutFirst_spec _ _ _ hcut
    rw [htext] at hseg hS
    obtain ⟨hsegL, hsegU, happ⟩ := Seg.sep isWord_colon hseg
    have hA : toks (applyMap r.map (rstrip lo)) = toks (applyMap r.map lo) :=
      toks_of_noBlank (Seg.rstrip hsegL).2
    have hB : toks (applyMap r.map (lstrip up)) = toks (applyMap r.map up) :=
      toks_of_noBlank (Seg.lstrip hsegU).2
    dsimp only at hp
    split at hp
    · cases hp
    split at hp
    · cases hp
    cases hp
    obtain ⟨i, j, rfl, hi, hj⟩ := run2 hr
    have hi' := child_toks ho hi
    have hj' := child_toks ho hj
    obtain ⟨n, rfl, _⟩ := runSlot_child_ok hi
    obtain ⟨n2, rfl, _⟩ := runSlot_child_ok hj
    have k1 : toks " :".toList = toks ":".toList := by decide
    refine ⟨o.str n ++ " :".toList ++ (" ".toList ++ o.str n2), rfl, ?_, ?_⟩
    · have a1 : toks (o.str n) = toks (applyMap r.map (rstrip lo)) := hi'
      have a2 : toks (o.str n2) = toks (applyMap r.map (lstrip up)) := hj'
      rw [hS, happ, consK]
      simp only [toks_append, k1, toks_sp, a1, a2, hA, hB, List.append_assoc, List.nil_append]
    · intro hb
      have h1 : net (o.str n) = 0 := hb (.node n) (by simp)
      have h2 : net (o.str n2) = 0 := hb (.node n2) (by simp)
      simp only [net_append, h1, h2]; decide

/-! ## Io_Implied_Do_Control -/

/-- `v = e1, e2 [, e3]` -/
theorem ioImpliedDoControl_tostr_match_tokens (o : Oracle Node) (ho : OracleTok o) (s : Str)
    (items : List (Item Node)) (hm : (planIoImpliedDoControl s).bind (runSlots o) = .ok items)
    (hs : SrmOK s) :
    ∃ t, tostrIoImpliedDoControl o items = .ok t ∧ toks t = toks s ∧
      ((∀ i ∈ items, net (i.text o) = 0) → net t = 0) := by
  obtain ⟨slots, hp, hr⟩ := Res.bind_eq_ok hm
  unfold planIoImpliedDoControl at hp
  obtain ⟨r, htok, hp⟩ := Res.bind_eq_ok hp
  have htk := tok_ok htok
  obtain ⟨hseg, hexp⟩ := seg_of_tokenise hs htk
  have hS : toks s = toks (applyMap r.map r.text) := (toks_of_noBlank hexp).symm
  split at hp
  · cases hp
  rename_i pre post hcut
  obtain ⟨htext, _⟩ := Combi.cutFirst_spec _ _ _ hcut
  rw [htext] at hseg hS
  obtain ⟨hsegPre, hsegPost, happ⟩ := Seg.sep isWord_eq hseg
  obtain ⟨hsegL, hL⟩ := Seg.lstrip hsegPost
  obtain ⟨hpieces, hjoin⟩ := Seg.splitC isWord_comma hsegL
  have hA : toks (applyMap r.map (rstrip pre)) = toks (applyMap r.map pre) :=
    toks_of_noBlank (Seg.rstrip hsegPre).2
  have hS' : toks s = toks (applyMap r.map pre) ++ toks "=".toList ++
      toks (Combi.joinStr [','] ((splitC ',' (lstrip post)).map (applyMap r.map))) := by
    rw [hS, happ, consE, ← hjoin]
    simp only [toks_append, toks_of_noBlank hL, List.append_assoc]
  have k1 : toks " = ".toList = toks "=".toList := by decide
  have k2 : toks ", ".toList = toks ",".toList := by decide
  have k3 : toks [','] = toks ",".toList := rfl
  dsimp only at hp
  generalize splitC ',' (lstrip post) = es at hp hpieces hS'
  rcases es with _ | ⟨p, _ | ⟨q, _ | ⟨u, _ | ⟨x, xs⟩⟩⟩⟩
  · simp at hp; subst hp
    obtain ⟨i, j, rfl, _, hj⟩ := run2 hr
    exact absurd hj (runSlot_fail o j)
  · simp at hp; subst hp
    obtain ⟨i, j, rfl, _, hj⟩ := run2 hr
    exact absurd hj (runSlot_fail o j)
  · simp at hp; subst hp
    have hP : toks (applyMap r.map (strip p)) = toks (applyMap r.map p) :=
      toks_of_noBlank (Seg.strip (hpieces p (by simp))).2
    have hQ : toks (applyMap r.map (strip q)) = toks (applyMap r.map q) :=
      toks_of_noBlank (Seg.strip (hpieces q (by simp))).2
    obtain ⟨i, j, k, l, rfl, hi, hj, hk, hl⟩ := run4 hr
    have hi' := child_toks ho hi
    have hj' := child_toks ho hj
    have hk' := child_toks ho hk
    have := runSlot_none_ok hl; subst this
    obtain ⟨n1, rfl, _⟩ := runSlot_child_ok hi
    obtain ⟨n2, rfl, _⟩ := runSlot_child_ok hj
    obtain ⟨n3, rfl, _⟩ := runSlot_child_ok hk
    refine ⟨o.str n1 ++ " = ".toList ++ o.str n2 ++ ", ".toList ++ o.str n3, rfl, ?_, ?_⟩
    · have a1 : toks (o.str n1) = toks (applyMap r.map (rstrip pre)) := hi'
      have a2 : toks (o.str n2) = toks (applyMap r.map (strip p)) := hj'
      have a3 : toks (o.str n3) = toks (applyMap r.map (strip q)) := hk'
      rw [hS']
      simp only [List.map_cons, List.map_nil, Combi.joinStr, toks_append, k1, k2, k3, a1, a2, a3,
        hA, hP, hQ, List.append_assoc]
    · intro hb
      have h1 : net (o.str n1) = 0 := hb (.node n1) (by simp)
      have h2 : net (o.str n2) = 0 := hb (.node n2) (by simp)
      have h3 : net (o.str n3) = 0 := hb (.node n3) (by simp)
      simp only [net_append, h1, h2, h3]; decide
  · simp at hp; subst hp
    have hP : toks (applyMap r.map (strip p)) = toks (applyMap r.map p) :=
      toks_of_noBlank (Seg.strip (hpieces p (by simp))).2
    have hQ : toks (applyMap r.map (strip q)) = toks (applyMap r.map q) :=
      toks_of_noBlank (Seg.strip (hpieces q (by simp))).2
    have hU : toks (applyMap r.map (strip u)) = toks (applyMap r.map u) :=
      toks_of_noBlank (Seg.strip (hpieces u (by simp))).2
    obtain ⟨i, j, k, l, rfl, hi, hj, hk, hl⟩ := run4 hr
    have hi' := child_toks ho hi
    have hj' := child_toks ho hj
    have hk' := child_toks ho hk
    have hl' := child_toks ho hl
    obtain ⟨n1, rfl, _⟩ := runSlot_child_ok hi
    obtain ⟨n2, rfl, _⟩ := runSlot_child_ok hj
    obtain ⟨n3, rfl, _⟩ := runSlot_child_ok hk
    obtain ⟨n4, rfl, _⟩ := runSlot_child_ok hl
    refine ⟨o.str n1 ++ " = ".toList ++ o.str n2 ++ ", ".toList ++ o.str n3 ++ ", ".toList ++ o.str n4,
      rfl, ?_, ?_⟩
    · have a1 : toks (o.str n1) = toks (applyMap r.map (rstrip pre)) := hi'
      have a2 : toks (o.str n2) = toks (applyMap r.map (strip p)) := hj'
      have a3 : toks (o.str n3) = toks (applyMap r.map (strip q)) := hk'
      have a4 : toks (o.str n4) = toks (applyMap r.map (strip u)) := hl'
      rw [hS']
      simp only [List.map_cons, List.map_nil, Combi.joinStr, toks_append, k1, k2, k3, a1, a2, a3, a4,
        hA, hP, hQ, hU, List.append_assoc]
    · intro hb
      have h1 : net (o.str n1) = 0 := hb (.node n1) (by simp)
      have h2 : net (o.str n2) = 0 := hb (.node n2) (by simp)
      have h3 : net (o.str n3) = 0 := hb (.node n3) (by simp)
      have h4 : net (o.str n4) = 0 := hb (.node n4) (by simp)
      simp only [net_append, h1, h2, h3, h4]; decide
  · simp at hp; subst hp
    obtain ⟨i, j, rfl, _, hj⟩ := run2 hr
    exact absurd hj (runSlot_fail o j)

/-! ## Io_Implied_Do -/

/-- `(object-list, control)`: cut at the last `,` before the last `=` -/
theorem ioImpliedDo_tostr_match_tokens (o : Oracle Node) (ho : OracleTok o) (s : Str)
    (items : List (Item Node)) (hm : (planIoImpliedDo s).bind (runSlots o) = .ok items)
    (hs : SrmOK (strip (inner s))) :
    ∃ t, tostrIoImpliedDo o items = .ok t ∧ toks t = toks s ∧
      ((∀ i ∈ items, net (i.text o) = 0) → net t = 0) := by
  obtain ⟨slots, hp, hr⟩ := Res.bind_eq_ok hm
  unfold planIoImpliedDo at hp
  split at hp
  · cases hp
  rename_i hc
  have hc' : startsC '(' s = true ∧ endsC ')' s = true := by
    simp only [Bool.or_eq_true, Bool.not_eq_true', not_or, Bool.not_eq_false] at hc
    exact ⟨hc.1.2, hc.2⟩
  have e1 := toks_paren_inner hc'.1 hc'.2
  obtain ⟨r, htok, hp⟩ := Res.bind_eq_ok hp
  have htk := tok_ok htok
  obtain ⟨hseg, hexp⟩ := seg_of_tokenise hs htk
  have e2 : toks (strip (inner s)) = toks (applyMap r.map r.text) := (toks_of_noBlank hexp).symm
  split at hp
  · cases hp
  rename_i pre post hcut
  obtain ⟨htext, _⟩ := Combi.cutLast_spec _ _ _ hcut
  split at hp
  · cases hp
  rename_i a b hcut2
  obtain ⟨htext2, _⟩ := Combi.cutLast_spec _ _ _ hcut2
  have htext' : r.text = a ++ ',' :: (b ++ '=' :: post) := by rw [htext, htext2]; simp
  rw [htext'] at hseg e2
  obtain ⟨hsegA, hsegB, happ⟩ := Seg.sep isWord_comma hseg
  have hA : toks (applyMap r.map (rstrip a)) = toks (applyMap r.map a) :=
    toks_of_noBlank (Seg.rstrip hsegA).2
  have hB : toks (applyMap r.map (lstrip (b ++ '=' :: post))) = toks (applyMap r.map (b ++ '=' :: post)) :=
    toks_of_noBlank (Seg.lstrip hsegB).2
  cases hp
  obtain ⟨i, j, rfl, hi, hj⟩ := run2 hr
  have hi' := child_toks ho hi
  have hj' := child_toks ho hj
  have k2 : toks ", ".toList = toks ",".toList := by decide
  refine ⟨_, rfl, ?_, ?_⟩
  · rw [e1, e2, happ, consC]
    simp only [toks_append, k2, hi', hj', hA, hB, List.append_assoc]
  · intro hb
    have h1 := hb i (by simp)
    have h2 := hb j (by simp)
    simp only [net_append, h1, h2]; decide

/-! ## Assumed_Size_Spec -/

/-- `[explicit-shape-spec-list ,] [lower-bound :] *`; the tokeniser is used only in the `:` form -/
theorem assumedSize_tostr_match_tokens (o : Oracle Node) (ho : OracleTok o) (s : Str)
    (items : List (Item Node)) (hm : (planAssumedSize s).bind (runSlots o) = .ok items)
    (hs : endsC ':' (rstrip s.dropLast) = true → SrmOK (rstrip ((rstrip s.dropLast).dropLast))) :
    ∃ t, tostrAssumedSize o items = .ok t ∧ toks t = toks s ∧
      ((∀ i ∈ items, net (i.text o) = 0) → net t = 0) := by
  obtain ⟨slots, hp, hr⟩ := Res.bind_eq_ok hm
  unfold planAssumedSize at hp
  split at hp
  · cases hp
  rename_i hstar
  obtain ⟨p, hp0⟩ := endsC_snoc (c := '*') (s := s) (by simpa using hstar)
  subst hp0
  simp only [List.dropLast_concat] at hp hs
  have e0 : toks (p ++ ['*']) = toks (rstrip p) ++ toks "*".toList := by
    rw [toks_append, toks_rstrip]; rfl
  generalize rstrip p = line at hp hs e0
  have k1 : toks " : ".toList = toks ":".toList := by decide
  have k2 : toks ", ".toList = toks ",".toList := by decide
  split at hp
  · rename_i hemp
    cases hp
    obtain ⟨i, j, rfl, hi, hj⟩ := run2 hr
    have := runSlot_none_ok hi; subst this
    have := runSlot_none_ok hj; subst this
    refine ⟨[] ++ [] ++ "*".toList, rfl, ?_, fun _ => by decide⟩
    rw [e0, toks_isEmpty' hemp]; rfl
  split at hp
  · rename_i hcol
    have hs' := hs hcol
    obtain ⟨q, rfl⟩ := endsC_snoc hcol
    simp only [List.dropLast_concat] at hp hs'
    have e1 : toks (q ++ [':']) = toks (rstrip q) ++ toks ":".toList := by
      rw [toks_append, toks_rstrip]; rfl
    obtain ⟨r, htok, hp⟩ := Res.bind_eq_ok hp
    have htk := tok_ok htok
    obtain ⟨hseg, hexp⟩ := seg_of_tokenise hs' htk
    have e2 : toks (rstrip q) = toks (applyMap r.map r.text) := (toks_of_noBlank hexp).symm
    split at hp
    · cases hp
      obtain ⟨i, j, rfl, hi, hj⟩ := run2 hr
      have := runSlot_none_ok hi; subst this
      have hj' := child_toks ho hj
      obtain ⟨n, rfl, _⟩ := runSlot_child_ok hj
      refine ⟨[] ++ (o.str n ++ " : ".toList) ++ "*".toList, rfl, ?_, ?_⟩
      · have a1 : toks (o.str n) = toks (applyMap r.map r.text) := hj'
        rw [e0, e1, e2]
        simp only [toks_append, k1, a1, List.nil_append, List.append_assoc]
      · intro hb
        have h1 : net (o.str n) = 0 := hb (.node n) (by simp)
        simp only [net_append, h1]; decide
    · rename_i a b hcut
      obtain ⟨htext, _⟩ := Combi.cutLast_spec _ _ _ hcut
      rw [htext] at hseg e2
      obtain ⟨hsegA, hsegB, happ⟩ := Seg.sep isWord_comma hseg
      have hA : toks (applyMap r.map (rstrip a)) = toks (applyMap r.map a) :=
        toks_of_noBlank (Seg.rstrip hsegA).2
      have hB : toks (applyMap r.map (lstrip b)) = toks (applyMap r.map b) :=
        toks_of_noBlank (Seg.lstrip hsegB).2
      cases hp
      obtain ⟨i, j, rfl, hi, hj⟩ := run2 hr
      have hi' := child_toks ho hi
      have hj' := child_toks ho hj
      obtain ⟨n, rfl, _⟩ := runSlot_child_ok hi
      obtain ⟨n2, rfl, _⟩ := runSlot_child_ok hj
      refine ⟨(o.str n ++ ", ".toList) ++ (o.str n2 ++ " : ".toList) ++ "*".toList, rfl, ?_, ?_⟩
      · have a1 : toks (o.str n) = toks (applyMap r.map (rstrip a)) := hi'
        have a2 : toks (o.str n2) = toks (applyMap r.map (lstrip b)) := hj'
        rw [e0, e1, e2, happ, consC]
        simp only [toks_append, k1, k2, a1, a2, hA, hB, List.append_assoc]
      · intro hb
        have h1 : net (o.str n) = 0 := hb (.node n) (by simp)
        have h2 : net (o.str n2) = 0 := hb (.node n2) (by simp)
        simp only [net_append, h1, h2]; decide
  split at hp
  · cases hp
  rename_i hcom
  obtain ⟨q, rfl⟩ := endsC_snoc (c := ',') (s := line) (by simpa using hcom)
  simp only [List.dropLast_concat] at hp
  cases hp
  obtain ⟨i, j, rfl, hi, hj⟩ := run2 hr
  have hi' := child_toks ho hi
  have := runSlot_none_ok hj; subst this
  obtain ⟨n, rfl, _⟩ := runSlot_child_ok hi
  refine ⟨(o.str n ++ ", ".toList) ++ [] ++ "*".toList, rfl, ?_, ?_⟩
  · have a1 : toks (o.str n) = toks (rstrip q) := hi'
    have e1 : toks (q ++ [',']) = toks q ++ toks ",".toList := by rw [toks_append]; rfl
    rw [e0, e1]
    simp only [toks_append, k2, a1, toks_rstrip, List.append_nil, List.append_assoc]
  · intro hb
    have h1 : net (o.str n) = 0 := hb (.node n) (by simp)
    simp only [net_append, h1]; decide

/-! ## Type_Param_Def_Stmt -/

/-- `INTEGER [kind-selector] , attr :: decl-list` (the `::` is looked for in the EXPANDED second half) -/
theorem typeParamDef_tostr_match_tokens (o : Oracle Node) (ho : OracleTok o) (s : Str)
    (items : List (Item Node)) (hm : (planTypeParamDef s).bind (runSlots o) = .ok items)
    (hs : SrmOK (lstrip (s.drop 7))) :
    ∃ t, tostrTypeParamDef o items = .ok t ∧ toks t = toks s ∧
      ((∀ i ∈ items, net (i.text o) = 0) → net t = 0) := by
  obtain ⟨slots, hp, hr⟩ := Res.bind_eq_ok hm
  unfold planTypeParamDef at hp
  split at hp
  · cases hp
  rename_i hkw
  have hkw' : kwIs "INTEGER".toList s = true := by simpa using hkw
  obtain ⟨r, htok, hp⟩ := Res.bind_eq_ok hp
  have htk := tok_ok htok
  obtain ⟨hseg, hexp⟩ := seg_of_tokenise hs htk
  have hS : toks s = toks "INTEGER".toList ++ toks (applyMap r.map r.text) := by
    rw [toks_of_kwIs hkw', toks_of_noBlank hexp, toks_lstrip]; rfl
  split at hp
  · cases hp
  split at hp
  · cases hp
  rename_i a b hcut
  obtain ⟨htext, _⟩ := Combi.cutFirst_spec _ _ _ hcut
  rw [htext] at hseg hS
  obtain ⟨hsegA, hsegB, happ⟩ := Seg.sep isWord_comma hseg
  have hA : toks (applyMap r.map (rstrip a)) = toks (applyMap r.map a) :=
    toks_of_noBlank (Seg.rstrip hsegA).2
  have hB : toks (applyMap r.map (lstrip b)) = toks (applyMap r.map b) :=
    toks_of_noBlank (Seg.lstrip hsegB).2
  dsimp only at hp
  split at hp
  · cases hp
  rename_i x y hcs
  have hline := cutSub2_spec _ _ _ hcs
  have e5 : toks (applyMap r.map b) = toks x ++ (toks "::".toList ++ toks y) := by
    rw [← hB, hline]
    have : x ++ ':' :: ':' :: y = x ++ ("::".toList ++ y) := rfl
    rw [this]; simp only [toks_append]
  split at hp
  · cases hp
  cases hp
  obtain ⟨i, j, k, rfl, hi, hj, hk⟩ := run3 hr
  have hj' := child_toks ho hj
  have hk' := child_toks ho hk
  obtain ⟨n2, rfl, _⟩ := runSlot_child_ok hj
  obtain ⟨n3, rfl, _⟩ := runSlot_child_ok hk
  have a2 : toks (o.str n2) = toks (rstrip x) := hj'
  have a3 : toks (o.str n3) = toks (lstrip y) := hk'
  have k1 : toks "INTEGER, ".toList = toks "INTEGER".toList ++ toks ",".toList := by decide
  have k2 : toks ", ".toList = toks ",".toList := by decide
  have k3 : toks " :: ".toList = toks "::".toList := by decide
  split at hi
  · rename_i hemp
    have := runSlot_none_ok hi; subst this
    refine ⟨"INTEGER, ".toList ++ o.str n2 ++ " :: ".toList ++ o.str n3, rfl, ?_, ?_⟩
    · have hz : toks (applyMap r.map a) = [] := by rw [← hA]; exact toks_isEmpty' hemp
      rw [hS, happ, consC]
      simp only [toks_append, k1, k3, a2, a3, hz, e5, toks_rstrip, toks_lstrip, List.nil_append,
        List.append_assoc]
    · intro hb
      have h2 : net (o.str n2) = 0 := hb (.node n2) (by simp)
      have h3 : net (o.str n3) = 0 := hb (.node n3) (by simp)
      simp only [net_append, h2, h3]; decide
  · have hi' := child_toks ho hi
    obtain ⟨n1, rfl, _⟩ := runSlot_child_ok hi
    have a1 : toks (o.str n1) = toks (applyMap r.map (rstrip a)) := hi'
    refine ⟨"INTEGER".toList ++ o.str n1 ++ ", ".toList ++ o.str n2 ++ " :: ".toList ++ o.str n3,
      rfl, ?_, ?_⟩
    · rw [hS, happ, consC]
      simp only [toks_append, k2, k3, a1, a2, a3, hA, e5, toks_rstrip, toks_lstrip, List.append_assoc]
    · intro hb
      have h1 : net (o.str n1) = 0 := hb (.node n1) (by simp)
      have h2 : net (o.str n2) = 0 := hb (.node n2) (by simp)
      have h3 : net (o.str n3) = 0 := hb (.node n3) (by simp)
      simp only [net_append, h1, h2, h3]; decide

/-! ## Cray_Pointer_Decl -/

/-- `(pointer, pointee)`; the pointee is a declaration when it ends with `)` and a name otherwise -/
theorem crayPointerDecl_tostr_match_tokens (o : Oracle Node) (ho : OracleTok o) (s : Str)
    (items : List (Item Node)) (hm : (planCrayPointerDecl s).bind (runSlots o) = .ok items)
    (hs : SrmOK (strip (inner (strip s)))) :
    ∃ t, tostrCrayPointerDecl o items = .ok t ∧ toks t = toks s ∧
      ((∀ i ∈ items, net (i.text o) = 0) → net t = 0) := by
  obtain ⟨slots, hp, hr⟩ := Res.bind_eq_ok hm
  unfold planCrayPointerDecl at hp
  split at hp
  · cases hp
  dsimp only at hp
  have e0 : toks s = toks (strip s) := (toks_strip s).symm
  generalize strip s = ss at hp hs e0
  split at hp
  · cases hp
  split at hp
  · cases hp
  rename_i h1
  split at hp
  · cases hp
  rename_i h2
  have e1 := toks_paren_inner (l := ss) (by simpa using h1) (by simpa using h2)
  obtain ⟨r, htok, hp⟩ := Res.bind_eq_ok hp
  have htk := tok_ok htok
  obtain ⟨hseg, hexp⟩ := seg_of_tokenise hs htk
  have e2 : toks (strip (inner ss)) = toks (applyMap r.map r.text) := (toks_of_noBlank hexp).symm
  obtain ⟨_, hjoin⟩ := Seg.splitC isWord_comma hseg
  have k2 : toks ", ".toList = toks ",".toList := by decide
  have k3 : toks [','] = toks ",".toList := rfl
  split at hp
  · rename_i a b hsp
    rw [hsp] at hjoin
    have e3 : toks (applyMap r.map r.text) =
        toks (applyMap r.map a) ++ (toks ",".toList ++ toks (applyMap r.map b)) := by
      rw [hjoin]
      simp only [List.map_cons, List.map_nil, Combi.joinStr, toks_append, k3, List.append_assoc]
    split at hp
    · cases hp
    -- both remaining branches have the same shape
    have fin : ∀ c : ClassId,
        runSlots o [.child R.Cray_Pointer_Name (strip (applyMap r.map a)),
                    .child c (strip (applyMap r.map b))] = .ok items →
        ∃ t, tostrCrayPointerDecl o items = .ok t ∧ toks t = toks s ∧
          ((∀ i ∈ items, net (i.text o) = 0) → net t = 0) := by
      intro c hr
      obtain ⟨i, j, rfl, hi, hj⟩ := run2 hr
      have hi' := child_toks ho hi
      have hj' := child_toks ho hj
      obtain ⟨n, rfl, _⟩ := runSlot_child_ok hi
      obtain ⟨n2, rfl, _⟩ := runSlot_child_ok hj
      have a1 : toks (o.str n) = toks (strip (applyMap r.map a)) := hi'
      have a2 : toks (o.str n2) = toks (strip (applyMap r.map b)) := hj'
      refine ⟨"(".toList ++ o.str n ++ ", ".toList ++ o.str n2 ++ ")".toList, rfl, ?_, ?_⟩
      · rw [e0, e1, e2, e3]
        simp only [toks_append, k2, a1, a2, toks_strip, List.append_assoc]
      · intro hb
        have h1 : net (o.str n) = 0 := hb (.node n) (by simp)
        have h2 : net (o.str n2) = 0 := hb (.node n2) (by simp)
        simp only [net_append, h1, h2]; decide
    split at hp
    · cases hp; exact fin _ hr
    · cases hp; exact fin _ hr
  · cases hp

/-! ## Cray_Pointer_Stmt -/

/-- `tostrOf` prints with `specWordPlain`: the same `WORDClsBase.tostr` -/
theorem combiStr_wordPlain (o : Oracle Node) (items : List (Item Node)) :
    combiStr o specWordPlain items = combiStr o specCrayPointerStmt items := rfl

/-- `POINTER cray-pointer-decl-list` (a `WORDClsBase` instance) -/
theorem crayPointerStmt_tostr_match_tokens (o : Oracle Node) (ho : OracleTok o) (s : Str)
    (items : List (Item Node)) (hm : (planCrayPointerStmt s).bind (runSlots o) = .ok items) :
    ∃ t, combiStr o specWordPlain items = .ok t ∧ toks t = toks s ∧
      ((∀ i ∈ items, net (i.text o) = 0) → net t = 0) := by
  have hm' : (combiPlan specCrayPointerStmt s).bind (runSlots o) = .ok items := hm
  obtain ⟨t, h1, h2, h3⟩ :=
    word_tostr_match_tokens o ho "POINTER".toList (some R.Cray_Pointer_Decl_List) true s items
      (by decide) hm'
  exact ⟨t, h1, h2, fun hb => h3 (bal_of_all hb)⟩

/-! ## Target_Entity_Decl -/

theorem nameMatch_spec {s nm rest : Str} (h : nameMatch s = some (nm, rest)) : s = nm ++ rest := by
  unfold nameMatch at h
  split at h
  · split at h
    · cases h; simp [List.takeWhile_append_dropWhile]
    · cases h
  · cases h

/-- `name [(array-spec)]` (`Entity_Decl.match(string, target=True)`).  The tokeniser hypothesis is
    needed only when an array spec follows the name. -/
theorem targetEntityDecl_tostr_match_tokens (o : Oracle Node) (ho : OracleTok o) (s : Str)
    (items : List (Item Node)) (hm : (planTargetEntityDecl s).bind (runSlots o) = .ok items)
    (hs : ∀ nm rest, nameMatch s = some (nm, rest) → startsC '(' (lstrip rest) = true →
      SrmOK (lstrip rest)) :
    ∃ t, tostrEntityDecl o items = .ok t ∧ toks t = toks s ∧
      ((∀ i ∈ items, net (i.text o) = 0) → net t = 0) := by
  obtain ⟨slots, hp, hr⟩ := Res.bind_eq_ok hm
  unfold planTargetEntityDecl at hp
  split at hp
  · cases hp
  rename_i nm rest hnm
  have e0 : toks s = toks nm ++ toks (lstrip rest) := by
    rw [toks_lstrip, ← toks_append, ← nameMatch_spec hnm]
  have hs' := hs nm rest hnm
  dsimp only at hp
  generalize lstrip rest = nl at hp hs' e0
  split at hp
  · rename_i hemp
    cases hp
    obtain ⟨i, j, k, l, rfl, hi, hj, hk, hl⟩ := run4 hr
    have hi' := child_toks ho hi
    have := runSlot_none_ok hj; subst this
    have := runSlot_none_ok hk; subst this
    have := runSlot_none_ok hl; subst this
    obtain ⟨n, rfl, _⟩ := runSlot_child_ok hi
    refine ⟨o.str n ++ [] ++ [] ++ [], rfl, ?_, ?_⟩
    · have a1 : toks (o.str n) = toks nm := hi'
      rw [e0, toks_isEmpty' hemp]
      simp only [List.append_nil, a1]
    · intro hb
      have h1 : net (o.str n) = 0 := hb (.node n) (by simp)
      simp only [List.append_nil, h1]
  split at hp
  · rename_i hst
    have hs'' := hs' hst
    unfold tokAfter at hp
    split at hp
    · rename_i r htok
      have htk := tok_ok htok
      obtain ⟨hseg, hexp⟩ := seg_of_tokenise hs'' htk
      have e2 : toks nl = toks (applyMap r.map r.text) := (toks_of_noBlank hexp).symm
      have hhead : r.text.head? = some '(' :=
        srm_head htk (by decide) (by decide) (by simpa [startsC] using hst)
      dsimp only at hp
      split at hp
      · cases hp
        obtain ⟨i, j, rfl, _, hj⟩ := run2 hr
        exact absurd hj (runSlot_fail o j)
      rename_i a b hcut
      obtain ⟨htext, _⟩ := Combi.cutFirst_spec _ _ _ hcut
      have hpre : ∃ a', a = '(' :: a' := by
        cases a with
        | nil => rw [htext] at hhead; simp at hhead
        | cons d a' => rw [htext] at hhead; simp at hhead; exact ⟨a', by rw [hhead]⟩
      obtain ⟨a', rfl⟩ := hpre
      rw [htext] at hseg e2
      obtain ⟨hsegA, hsegB, happ⟩ := Seg.sep isWord_rparen hseg
      obtain ⟨hsegA', happ1⟩ := Seg.drop1 isWord_lparen hsegA
      have hA : toks (applyMap r.map (strip a')) = toks (applyMap r.map a') :=
        toks_of_noBlank (Seg.strip hsegA').2
      have hB : toks (applyMap r.map (lstrip b)) = toks (applyMap r.map b) :=
        toks_of_noBlank (Seg.lstrip hsegB).2
      simp only [List.drop_succ_cons, List.drop_zero] at hp
      split at hp
      · cases hp
        obtain ⟨i, j, k, rfl, _, _, hk⟩ := run3 hr
        exact absurd hk (runSlot_fail o k)
      rename_i hemp
      have hemp' : (applyMap r.map (lstrip b)).isEmpty = true := by simpa using hemp
      cases hp
      obtain ⟨i, j, k, l, rfl, hi, hj, hk, hl⟩ := run4 hr
      have hi' := child_toks ho hi
      have hj' := child_toks ho hj
      have := runSlot_none_ok hk; subst this
      have := runSlot_none_ok hl; subst this
      obtain ⟨n, rfl, _⟩ := runSlot_child_ok hi
      obtain ⟨n2, rfl, _⟩ := runSlot_child_ok hj
      refine ⟨o.str n ++ ("(".toList ++ o.str n2 ++ ")".toList) ++ [] ++ [], rfl, ?_, ?_⟩
      · have a1 : toks (o.str n) = toks nm := hi'
        have a2 : toks (o.str n2) = toks (applyMap r.map (strip a')) := hj'
        have hz : toks (applyMap r.map b) = [] := by rw [← hB]; exact toks_isEmpty' hemp'
        rw [e0, e2, happ, happ1, consL, consR]
        simp only [toks_append, a1, a2, hA, hz, List.append_nil, List.append_assoc]
      · intro hb
        have h1 : net (o.str n) = 0 := hb (.node n) (by simp)
        have h2 : net (o.str n2) = 0 := hb (.node n2) (by simp)
        simp only [net_append, h1, h2]; decide
    · cases hp
    · cases hp
      obtain ⟨i, j, rfl, _, hj⟩ := run2 hr
      exact absurd hj (runSlot_raise o _ j)
  · cases hp
    obtain ⟨i, j, rfl, _, hj⟩ := run2 hr
    exact absurd hj (runSlot_fail o j)

/-! ## the hypotheses are satisfiable (echo oracle: every child accepts and prints its text) -/

example : SrmOK "lb(1) : n".toList ∧
    (planShapeSpec R.Lower_Bound R.Upper_Bound "lb(1) : n".toList).bind (runSlots echoOracle)
      = .ok [.node "lb(1)".toList, .node "n".toList] ∧
    tostrShapeSpec echoOracle [.node "lb(1)".toList, .node "n".toList] = .ok "lb(1) : n".toList := by
  decide

example : SrmOK "n".toList ∧
    (planShapeSpec R.Lower_Bound R.Upper_Bound "n".toList).bind (runSlots echoOracle)
      = .ok [.none, .node "n".toList] := by decide

example : SrmOK "i = 1, n(2), 3".toList ∧
    (planIoImpliedDoControl "i = 1, n(2), 3".toList).bind (runSlots echoOracle)
      = .ok [.node "i".toList, .node "1".toList, .node "n(2)".toList, .node "3".toList] := by decide

example : SrmOK (strip (inner "(a(i), b, i = 1, n)".toList)) ∧
    (planIoImpliedDo "(a(i), b, i = 1, n)".toList).bind (runSlots echoOracle)
      = .ok [.node "a(i), b".toList, .node "i = 1, n".toList] := by decide

example : endsC ':' (rstrip "n, 0 : *".toList.dropLast) = true ∧
    SrmOK (rstrip ((rstrip "n, 0 : *".toList.dropLast).dropLast)) ∧
    (planAssumedSize "n, 0 : *".toList).bind (runSlots echoOracle)
      = .ok [.node "n".toList, .node "0".toList] := by decide

example : SrmOK (lstrip ("integer(4), kind :: k = 1".toList.drop 7)) ∧
    (planTypeParamDef "integer(4), kind :: k = 1".toList).bind (runSlots echoOracle)
      = .ok [.node "(4)".toList, .node "kind".toList, .node "k = 1".toList] := by decide

example : SrmOK (strip (inner (strip "(p, a(n))".toList))) ∧
    (planCrayPointerDecl "(p, a(n))".toList).bind (runSlots echoOracle)
      = .ok [.node "p".toList, .node "a(n)".toList] := by decide

example : (planCrayPointerStmt "pointer (p, a)".toList).bind (runSlots echoOracle)
      = .ok [.str "POINTER".toList, .node "(p, a)".toList] := by decide

example : nameMatch "a (n, 2)".toList = some ("a".toList, " (n, 2)".toList) ∧
    SrmOK (lstrip " (n, 2)".toList) ∧
    (planTargetEntityDecl "a (n, 2)".toList).bind (runSlots echoOracle)
      = .ok [.node "a".toList, .node "n, 2".toList, .none, .none] := by decide

end Fp.Rest

#print axioms Fp.Rest.shapeSpec_tostr_match_tokens
#print axioms Fp.Rest.ioImpliedDoControl_tostr_match_tokens
#print axioms Fp.Rest.ioImpliedDo_tostr_match_tokens
#print axioms Fp.Rest.assumedSize_tostr_match_tokens
#print axioms Fp.Rest.typeParamDef_tostr_match_tokens
#print axioms Fp.Rest.crayPointerDecl_tostr_match_tokens
#print axioms Fp.Rest.crayPointerStmt_tostr_match_tokens
#print axioms Fp.Rest.targetEntityDecl_tostr_match_tokens
