import FparserModel.Py
import FparserModel.Splitline
import FparserModel.Combi
import FparserModel.IoStmt
import FparserModel.SymTab
import FparserModel.SymGlue
import FparserModel.Generated.Classes2003
import FparserModel.Generated.Classes2008
/-!
# Primary — executable mirror of the OPERAND layer of `fparser/two/Fortran2003.py`
# (everything below `Level_1_Expr`) and of the assignment statements

Two levels.

**Level A (one class, children = oracle)** — `planX : Str → Res (List Slot)` / `tostrX` for every
class of the layer that has a `match`, branch for branch:

    Name  Int_/Signed_Int_/Real_/Signed_Real_/Logical_Literal_Constant (NumberBase + the regexes of
    pattern_tools.py as hand scanners)  Complex_Literal_Constant  Char_Literal_Constant
    Binary_/Octal_/Hex_Constant (STRINGBase)  Parenthesis  Array_Constructor  Ac_Spec  Ac_Value_List
    Ac_Implied_Do  Ac_Implied_Do_Control  Structure_Constructor  Derived_Type_Spec  Type_Name
    Component_Spec(_List)  Function_Reference  Procedure_Designator  Actual_Arg_Spec(_List)
    Intrinsic_Function_Reference  Intrinsic_Name  Type_Param_Inquiry  Proc_Component_Ref
    Data_Ref  Part_Ref  Array_Section  Substring  Substring_Range  Section_Subscript_List
    Subscript_Triplet  Alt_Return_Spec  Assignment_Stmt  Pointer_Assignment_Stmt
    Data_Pointer_Object  Bounds_Spec(_List)  Bounds_Remapping(_List)

The outcome / slot / item / oracle types are those of `FparserModel/IoStmt.lean` (`Res`, `Slot`,
`Item`, `Oracle`, `runSlots`), so that the combinator theorems proved there apply verbatim.
A class whose `match` has a `try … except NoMatchError` around a whole tuple of child calls
(`Array_Constructor`, `Pointer_Assignment_Stmt`) is a `Plan` with a second attempt.

**Level B (`Base.__new__`)** — `new`: the dispatch of `utils.Base.__new__` over the REAL
`Base.subclasses` table (read from `Generated/Classes2003.lean` / `Classes2008.lean`): `match`,
then the loop over the subclasses with the shared, growing `parent_cls` list, counting every
`Base.__new__` call.  Classes outside the layer (`Expr`, `Int_Expr`, `Type_Spec`, …) are an
external function `Ext` that returns its own count.

ASCII domain as in `Py.lean`.  No Mathlib.
-/
namespace Fp.Primary
open Fp Fp.Splitline
open Fp.IoStmt (Res Exc Slot Item Oracle Std runSlots runSlot tok combiPlan combiStr specList inner
  startsC endsC splitC)

abbrev ClassId := Nat

/-! ## class ids (index into `clsNames`; `Generated/PrimaryTables.lean` ties every name to the live
    modules and to the ids of `Generated/Classes2003.lean`) -/

def clsNames : List String := [
  -- 0..: classes of the layer WITH a `match`
  "Name", "Int_Literal_Constant", "Signed_Int_Literal_Constant", "Real_Literal_Constant",
  "Signed_Real_Literal_Constant", "Complex_Literal_Constant", "Logical_Literal_Constant",
  "Char_Literal_Constant", "Binary_Constant", "Octal_Constant", "Hex_Constant", "Parenthesis",
  "Array_Constructor", "Ac_Spec", "Ac_Value_List", "Ac_Implied_Do", "Ac_Implied_Do_Control",
  "Structure_Constructor", "Derived_Type_Spec", "Type_Name", "Component_Spec", "Component_Spec_List",
  "Function_Reference", "Procedure_Designator", "Actual_Arg_Spec", "Actual_Arg_Spec_List",
  "Intrinsic_Function_Reference", "Intrinsic_Name", "Type_Param_Inquiry", "Proc_Component_Ref",
  "Data_Ref", "Part_Ref", "Array_Section", "Substring", "Substring_Range", "Section_Subscript_List",
  "Subscript_Triplet", "Alt_Return_Spec", "Assignment_Stmt", "Pointer_Assignment_Stmt",
  "Data_Pointer_Object", "Bounds_Spec", "Bounds_Spec_List", "Bounds_Remapping", "Bounds_Remapping_List",
  -- 45..: classes of the layer WITHOUT a `match` (only the subclass loop)
  "Primary", "Constant", "Literal_Constant", "Named_Constant", "Boz_Literal_Constant", "Designator",
  "Object_Name", "Array_Element", "Structure_Component", "Parent_String", "Variable", "Variable_Name",
  "Real_Part", "Imag_Part", "Section_Subscript", "Subscript", "Stride", "Vector_Subscript", "Ac_Value",
  "Ac_Do_Variable", "Scalar_Int_Variable", "Actual_Arg", "Component_Data_Source", "Keyword",
  "Part_Name", "Procedure_Name", "Binding_Name", "Type_Param_Name", "Scalar_Variable_Name",
  "Scalar_Structure_Component", "Scalar_Constant", "Data_Target", "Proc_Target", "Proc_Pointer_Object",
  "Proc_Pointer_Name", "Procedure_Component_Name", "Data_Pointer_Component_Name", "Lower_Bound_Expr",
  "Upper_Bound_Expr", "Scalar_Int_Expr",
  -- 85..: EXTERNAL classes (answered by the oracle / `Ext`)
  "Expr", "Int_Expr", "Type_Spec", "Type_Param_Spec_List", "Label", "Level_1_Expr"]

namespace C
def Name : ClassId := 0
def Int_Literal_Constant : ClassId := 1
def Signed_Int_Literal_Constant : ClassId := 2
def Real_Literal_Constant : ClassId := 3
def Signed_Real_Literal_Constant : ClassId := 4
def Complex_Literal_Constant : ClassId := 5
def Logical_Literal_Constant : ClassId := 6
def Char_Literal_Constant : ClassId := 7
def Binary_Constant : ClassId := 8
def Octal_Constant : ClassId := 9
def Hex_Constant : ClassId := 10
def Parenthesis : ClassId := 11
def Array_Constructor : ClassId := 12
def Ac_Spec : ClassId := 13
def Ac_Value_List : ClassId := 14
def Ac_Implied_Do : ClassId := 15
def Ac_Implied_Do_Control : ClassId := 16
def Structure_Constructor : ClassId := 17
def Derived_Type_Spec : ClassId := 18
def Type_Name : ClassId := 19
def Component_Spec : ClassId := 20
def Component_Spec_List : ClassId := 21
def Function_Reference : ClassId := 22
def Procedure_Designator : ClassId := 23
def Actual_Arg_Spec : ClassId := 24
def Actual_Arg_Spec_List : ClassId := 25
def Intrinsic_Function_Reference : ClassId := 26
def Intrinsic_Name : ClassId := 27
def Type_Param_Inquiry : ClassId := 28
def Proc_Component_Ref : ClassId := 29
def Data_Ref : ClassId := 30
def Part_Ref : ClassId := 31
def Array_Section : ClassId := 32
def Substring : ClassId := 33
def Substring_Range : ClassId := 34
def Section_Subscript_List : ClassId := 35
def Subscript_Triplet : ClassId := 36
def Alt_Return_Spec : ClassId := 37
def Assignment_Stmt : ClassId := 38
def Pointer_Assignment_Stmt : ClassId := 39
def Data_Pointer_Object : ClassId := 40
def Bounds_Spec : ClassId := 41
def Bounds_Spec_List : ClassId := 42
def Bounds_Remapping : ClassId := 43
def Bounds_Remapping_List : ClassId := 44
def Primary : ClassId := 45
def Constant : ClassId := 46
def Literal_Constant : ClassId := 47
def Named_Constant : ClassId := 48
def Boz_Literal_Constant : ClassId := 49
def Designator : ClassId := 50
def Object_Name : ClassId := 51
def Array_Element : ClassId := 52
def Structure_Component : ClassId := 53
def Parent_String : ClassId := 54
def Variable : ClassId := 55
def Variable_Name : ClassId := 56
def Real_Part : ClassId := 57
def Imag_Part : ClassId := 58
def Section_Subscript : ClassId := 59
def Subscript : ClassId := 60
def Stride : ClassId := 61
def Vector_Subscript : ClassId := 62
def Ac_Value : ClassId := 63
def Ac_Do_Variable : ClassId := 64
def Scalar_Int_Variable : ClassId := 65
def Actual_Arg : ClassId := 66
def Component_Data_Source : ClassId := 67
def Keyword : ClassId := 68
def Part_Name : ClassId := 69
def Procedure_Name : ClassId := 70
def Binding_Name : ClassId := 71
def Type_Param_Name : ClassId := 72
def Scalar_Variable_Name : ClassId := 73
def Scalar_Structure_Component : ClassId := 74
def Scalar_Constant : ClassId := 75
def Data_Target : ClassId := 76
def Proc_Target : ClassId := 77
def Proc_Pointer_Object : ClassId := 78
def Proc_Pointer_Name : ClassId := 79
def Procedure_Component_Name : ClassId := 80
def Data_Pointer_Component_Name : ClassId := 81
def Lower_Bound_Expr : ClassId := 82
def Upper_Bound_Expr : ClassId := 83
def Scalar_Int_Expr : ClassId := 84
def Expr : ClassId := 85
def Int_Expr : ClassId := 86
def Type_Spec : ClassId := 87
def Type_Param_Spec_List : ClassId := 88
def Label : ClassId := 89
def Level_1_Expr : ClassId := 90
end C

/-- first external id -/
def firstExternal : ClassId := 85
def isExternal (c : ClassId) : Bool := c ≥ firstExternal

/-! ## the regexes of pattern_tools.py as hand scanners

Every scanner is tied to the live compiled pattern by a behaviour table in
`Generated/PrimaryTables.lean` (the real regex is run on a fixed probe list by the translator,
the kernel checks that the scanner gives the same groups). -/

/-- `\s*` -/
def skipWs (s : Str) : Str := s.dropWhile isSpace

/-- `[\w$]` -/
def isNameChar (c : Char) : Bool := isWord c || c == '$'

/-- `\A[A-Z][\w$]*\Z` (IGNORECASE): `pattern.abs_name` -/
def isName : Str → Bool
  | [] => false
  | c :: cs => isAlpha c && cs.all isNameChar

/-- `\A(\d+|[A-Z][\w$]*)\Z` : a whole-string `kind_param` -/
def isKindParam : Str → Bool
  | [] => false
  | c :: cs => if isDigit c then cs.all isDigit else isAlpha c && cs.all isNameChar

/-- `\s*(_\s*(?P<kind_param>(\d+|[A-Z][\w$]*)))?\Z` : `some none` = no kind, `some (some k)`,
    `none` = the tail does not match -/
def kindTail (s : Str) : Option (Option Str) :=
  match skipWs s with
  | [] => some none
  | '_' :: r => let k := skipWs r; if isKindParam k then some (some k) else none
  | _ => none

/-- the prefix of `s` that was consumed when `rest` is what remains -/
def takePre (s rest : Str) : Str := s.take (s.length - rest.length)

/-- `\d+` at the start: the remainder -/
def digits1 (s : Str) : Option Str :=
  match s with
  | c :: _ => if isDigit c then some (s.dropWhile isDigit) else none
  | [] => none

/-- `([+-])?` at the start: the remainder -/
def optSign : Str → Str
  | '+' :: r => r
  | '-' :: r => r
  | s => s

/-- `[ED]\s*([+-])?\s*\d+` at the start (IGNORECASE): the remainder -/
def expPart : Str → Option Str
  | c :: r =>
    if upperC c == 'E' || upperC c == 'D' then digits1 (skipWs (optSign (skipWs r))) else none
  | [] => none

/-- `(\d+\s*[.]\s*(\d+)?|[.]\s*\d+)` at the start: the remainder -/
def significand (s : Str) : Option Str :=
  match s with
  | '.' :: r => digits1 (skipWs r)
  | _ =>
    match digits1 s with
    | none => none
    | some r1 =>
      match skipWs r1 with
      | '.' :: r2 =>
        let r3 := skipWs r2
        match digits1 r3 with
        | some r4 => some r4
        | none => some r2          -- `\s*(\d+)?` : the blanks are given back when no digits follow
      | _ => none

/-- the value part of `real_literal_constant`:
    `(significand)\s*(exponent)?  |  \d+\s*[ED]\s*([+-])?\s*\d+` : the remainder -/
def realValue (s : Str) : Option Str :=
  match significand s with
  | some r =>
    -- `\s*` is inside the value group; then the optional exponent
    let r' := skipWs r
    match expPart r' with
    | some r'' => some r''
    | none => some r'
  | none =>
    match digits1 s with
    | some r1 => expPart (skipWs r1)
    | none => none

/-- `groupdict()` of `abs_int_literal_constant_named` : `(value, kind_param)` -/
def scanInt (s : Str) : Option (Str × Option Str) :=
  match digits1 s with
  | none => none
  | some r => (kindTail r).map fun k => (takePre s r, k)

/-- `abs_signed_int_literal_constant_named` : value = `([+-])?\s*\d+` -/
def scanSignedInt (s : Str) : Option (Str × Option Str) :=
  match digits1 (skipWs (optSign s)) with
  | none => none
  | some r => (kindTail r).map fun k => (takePre s r, k)

/-- `abs_real_literal_constant_named` -/
def scanReal (s : Str) : Option (Str × Option Str) :=
  match realValue s with
  | none => none
  | some r => (kindTail r).map fun k => (takePre s r, k)

/-- `abs_signed_real_literal_constant_named` : value = `([+-])?\s*<real value>` -/
def scanSignedReal (s : Str) : Option (Str × Option Str) :=
  match realValue (skipWs (optSign s)) with
  | none => none
  | some r => (kindTail r).map fun k => (takePre s r, k)

/-- `[.]\s*(TRUE|FALSE)\s*[.]` at the start (IGNORECASE): the remainder -/
def logicalValue : Str → Option Str
  | '.' :: r =>
    let r1 := skipWs r
    let w := r1.takeWhile isAlpha
    if upper w == "TRUE".toList || upper w == "FALSE".toList then
      match skipWs (r1.drop w.length) with
      | '.' :: r2 => some r2
      | _ => none
    else none
  | _ => none

/-- `abs_logical_literal_constant_named` -/
def scanLogical (s : Str) : Option (Str × Option Str) :=
  match logicalValue s with
  | none => none
  | some r => (kindTail r).map fun k => (takePre s r, k)

/-- `(q\s*(\w)*\s*q)+\Z` -/
def quotedRun (q : Char) : Nat → Str → Bool
  | 0, _ => false
  | fuel+1, s =>
    match s with
    | c :: r =>
      if c != q then false else
      match skipWs ((skipWs r).dropWhile isWord) with
      | c2 :: r2 => if c2 != q then false else (r2.isEmpty || quotedRun q fuel r2)
      | [] => false
    | [] => false

/-- `abs_a_n_char_literal_constant_named1/2` (quote `q`) on the TOKENISED text:
    `\A((?P<kind_param>(\d+|[A-Z][\w$]*))\s*_)?\s*(?P<value>(q\s*(\w)*\s*q)+)\Z` → `(value, kind)` -/
def scanCharLit (q : Char) (line : Str) : Option (Str × Option Str) :=
  let pre := line.takeWhile (· != q)
  let value := line.drop pre.length
  if !quotedRun q (value.length + 1) value then none else
  let p := rstrip pre
  if p.isEmpty then some (value, none) else       -- `\s*` before the value is outside the optional kind group
  if p.getLast? != some '_' then none else
  let k := rstrip p.dropLast
  if isKindParam k then some (value, some k) else none

/-- `\A<L>\s*('[ds]+'|"[ds]+")\Z` on the upper-cased string (`abs_binary/octal/hex_constant`) -/
def scanBoz (letter : Char) (digitOk : Char → Bool) (s : Str) : Bool :=
  match s with
  | c :: r =>
    if c != letter then false else
    match skipWs r with
    | q :: r1 =>
      if q != '\'' && q != '"' then false else
      let ds := r1.takeWhile digitOk
      !ds.isEmpty && r1.drop ds.length == [q]
    | [] => false
  | [] => false

def isBinDigit (c : Char) : Bool := c == '0' || c == '1'
def isOctDigit (c : Char) : Bool := '0' ≤ c && c ≤ '7'
def isHexDigitU (c : Char) : Bool := isDigit c || ('A' ≤ c && c ≤ 'F')

/-- `abs_intrinsic_type_name` (IGNORECASE):
    `\A(INTEGER|REAL|COMPLEX|LOGICAL|CHARACTER|DOUBLE\s*COMPLEX|DOUBLE\s*PRECISION|BYTE)\Z` -/
def isIntrinsicTypeName (s : Str) : Bool :=
  let u := upper s
  u == "INTEGER".toList || u == "REAL".toList || u == "COMPLEX".toList || u == "LOGICAL".toList ||
  u == "CHARACTER".toList || u == "BYTE".toList ||
  (startsWith u "DOUBLE".toList &&
    (let r := skipWs (u.drop 6); r == "COMPLEX".toList || r == "PRECISION".toList))

/-- `abs_complex_literal_constant` : `\(\s*part\s*,\s*part\s*\)` with
    `part = signed-int | signed-real | name` (no named groups; only match / no match is used).
    `\s*` follows every alternative of `part`, the kind tail of the numeric alternatives has no
    `\Z`: the part must be followed by `\s*` and the delimiter -/
def complexPart (s : Str) : Bool :=
  -- `s` = the text between the delimiters; the regex allows blanks around it
  let t := strip s
  (scanSignedInt t).isSome || (scanSignedReal t).isSome || isName t

def scanComplex (s : Str) : Bool :=
  match s with
  | '(' :: r =>
    if r.getLast? != some ')' then false else
    match splitC ',' r.dropLast with
    | [a, b] => complexPart a && complexPart b
    | _ => false
  | _ => false

/-! ## plans -/

/-- a `match`: slots in EVALUATION order; `second` = the attempt made when the first one ended in
    "no match" (`try: … except NoMatchError:` around a whole tuple / `if obj is None:`) -/
structure Plan where
  first : Res (List Slot)
  second : Option (Res (List Slot)) := none
deriving Repr, DecidableEq

def Plan.one (r : Res (List Slot)) : Plan := { first := r }

variable {Node : Type}

/-- run a plan against a pure oracle -/
def Plan.run (o : Oracle Node) (p : Plan) : Res (List (Item Node)) :=
  match p.first.bind (runSlots o) with
  | .noMatch =>
    match p.second with
    | some q => q.bind (runSlots o)
    | none => .noMatch
  | r => r

/-! ### NumberBase / StringBase / STRINGBase -/

/-- `NumberBase.match(pattern, string)` : `d["value"].upper(), d.get("kind_param")` -/
def planNumber (scan : Str → Option (Str × Option Str)) (s : Str) : Res (List Slot) :=
  match scan (Combi.noSpaces s) with
  | none => .noMatch
  | some (v, none) => .ok [.str (upper v), .none]
  | some (v, some k) => .ok [.str (upper v), .str k]

/-- `NumberBase.tostr` -/
def tostrNumber (o : Oracle Node) : List (Item Node) → Res Str
  | [v, .none] => .ok (v.text o)
  | [v, k] => .ok (v.text o ++ '_' :: k.text o)
  | _ => .raises .indexError

def planIntLit : Str → Res (List Slot) := planNumber scanInt
def planSignedIntLit : Str → Res (List Slot) := planNumber scanSignedInt
def planRealLit : Str → Res (List Slot) := planNumber scanReal
def planSignedRealLit : Str → Res (List Slot) := planNumber scanSignedReal
def planLogicalLit : Str → Res (List Slot) := planNumber scanLogical

/-- `Name.match` : `StringBase.match(pattern.abs_name, string.strip())` -/
def planName (s : Str) : Res (List Slot) :=
  let t := strip s
  if isName t then .ok [.str t] else .noMatch

/-- `Type_Name.match` -/
def planTypeName (s : Str) : Res (List Slot) :=
  if isIntrinsicTypeName s then .noMatch else planName s

/-- `STRINGBase.match(pattern, string)` for the BOZ constants -/
def planBoz (letter : Char) (digitOk : Char → Bool) (s : Str) : Res (List Slot) :=
  let u := upper s
  if scanBoz letter digitOk u then .ok [.str u] else .noMatch

def planBinary : Str → Res (List Slot) := planBoz 'B' isBinDigit
def planOctal : Str → Res (List Slot) := planBoz 'O' isOctDigit
def planHex : Str → Res (List Slot) := planBoz 'Z' isHexDigitU

/-- `Intrinsic_Name.match` : `STRINGBase.match(cls.function_names, string)` -/
def planIntrinsicName (std : Std) (s : Str) : Res (List Slot) :=
  let u := upper s
  let it := SymGlue.itOf (match std with | .f2003 => .f2003 | .f2008 => .f2008)
  if it.names.contains u then .ok [.str u] else .noMatch

/-- `StringBase.tostr` -/
def tostrString (o : Oracle Node) : List (Item Node) → Res Str
  | [v] => .ok (v.text o)
  | _ => .raises .indexError

/-! ### Complex_Literal_Constant / Char_Literal_Constant -/

/-- `Complex_Literal_Constant.match` -/
def planComplex (s : Str) : Res (List Slot) :=
  if s.isEmpty then .noMatch else
  if !(startsC '(' s && endsC ')' s) then .noMatch else
  if !scanComplex s then .noMatch else
  match splitC ',' (inner s) with
  | [r, i] => .ok [.child C.Real_Part (strip r), .child C.Imag_Part (strip i)]
  | _ => .raises .valueError        -- `r, i = ….split(",")` (excluded by the regex)

/-- `"(%s, %s)" % tuple(self.items)` -/
def tostrPair (o : Oracle Node) : List (Item Node) → Res Str
  | [a, b] => .ok ("(".toList ++ a.text o ++ ", ".toList ++ b.text o ++ ")".toList)
  | _ => .raises .typeError

/-- `Char_Literal_Constant.match` -/
def planCharLit (s : Str) : Res (List Slot) :=
  if s.isEmpty then .noMatch else
  let ss := strip s
  match ss.getLast? with
  | none => .noMatch
  | some q =>
    if q != '"' && q != '\'' then .noMatch else
    (tok ss).bind fun r =>
    match scanCharLit q r.text with
    | none => .noMatch
    | some (v, none) => .ok [.str (applyMap r.map v), .none]
    | some (v, some k) => .ok [.str (applyMap r.map v), .str k]

/-- `Char_Literal_Constant.tostr` -/
def tostrCharLit (o : Oracle Node) : List (Item Node) → Res Str
  | [.none, _] => .raises .internalError
  | [v, k] =>
    if (v.text o).isEmpty then .raises .internalError else
    match k with
    | .none => .ok (v.text o)
    | _ => if (k.text o).isEmpty then .ok (v.text o) else .ok (k.text o ++ '_' :: v.text o)
  | _ => .raises .internalError

/-! ### the generic-combinator instances -/

def specParenthesis : Combi.Spec := .bracket "()".toList (some C.Expr) true
def specArrayCtor1 : Combi.Spec := .bracket "(//)".toList (some C.Ac_Spec) true
def specArrayCtor2 : Combi.Spec := .bracket "[]".toList (some C.Ac_Spec) true
def specStructureConstructor : Combi.Spec := .call (.cls C.Derived_Type_Spec) (.cls C.Component_Spec_List) false false
def specDerivedTypeSpec : Combi.Spec := .call (.cls C.Type_Name) (.cls C.Type_Param_Spec_List) false false
def specFunctionReference : Combi.Spec := .call (.cls C.Procedure_Designator) (.cls C.Actual_Arg_Spec_List) false false
def specIntrinsicCall : Combi.Spec := .call (.cls C.Intrinsic_Name) (.cls C.Actual_Arg_Spec_List) false false
def specPartRef : Combi.Spec := .call (.cls C.Part_Name) (.cls C.Section_Subscript_List) false true
def specArraySection : Combi.Spec := .call (.cls C.Data_Ref) (.cls C.Substring_Range) false true
def specSubstring : Combi.Spec := .call (.cls C.Parent_String) (.cls C.Substring_Range) false true
def specSubstringRange : Combi.Spec := .sep (some C.Scalar_Int_Expr) (some C.Scalar_Int_Expr) false false
def specBoundsSpec : Combi.Spec := .sep (some C.Lower_Bound_Expr) none true false
def specBoundsRemapping : Combi.Spec := .sep (some C.Lower_Bound_Expr) (some C.Upper_Bound_Expr) true true
def specComponentSpec : Combi.Spec := .kv (.cls C.Keyword) C.Component_Data_Source true false
def specActualArgSpec : Combi.Spec := .kv (.cls C.Keyword) C.Actual_Arg true false
def specDataRefSeq : Combi.Spec := .seq "%".toList C.Part_Ref

/-- `Array_Constructor.match` : `(/ … /)` first, `[ … ]` when that gave nothing -/
def planArrayConstructor (s : Str) : Plan :=
  { first := combiPlan specArrayCtor1 s, second := some (combiPlan specArrayCtor2 s) }

/-- `Data_Ref.match` BEFORE /repo 2a636f5 : `SequenceBase.match("%", Part_Ref, string)`, then `None`
    when there is only one entry (AFTER the child call was made: the single part-ref was parsed and
    thrown away, and the subclass `Part_Ref` then parsed it again: finding F-C20-1).  Since 2a636f5
    this is the tail of `planDataRef`, reached only when the tokenised text contains a `%`. -/
def planDataRefOld (s : Str) : Res (List Slot) :=
  (combiPlan specDataRefSeq s).bind fun slots =>
    if slots.length > 1 then .ok slots else .ok (slots ++ [.fail])

/-- `Data_Ref.match` (as of /repo 2a636f5): `line, _ = string_replace_map(string)`;
    `if "%" not in line: return None` — a text without a top-level `%` is left to the subclass
    `Part_Ref` at once, no child call is made; otherwise as before (`SequenceBase.match` calls
    `string_replace_map` once more: memoised, and not a `Base.__new__` call). -/
def planDataRef (s : Str) : Res (List Slot) :=
  (tok s).bind fun r =>
    if !r.text.contains '%' then .noMatch else planDataRefOld s

/-- number of entries `SequenceBase.match(",", …)` makes of `s` (`len(function_args.items)`) -/
def seqCount (s : Str) : Nat :=
  match Combi.seqSplit ",".toList 0 s with
  | some slots => slots.length
  | none => 0

/-- `Intrinsic_Function_Reference.match` : `CallBase.match(Intrinsic_Name, Actual_Arg_Spec_List,
    string)`, then the table decision `iv name nargs` (symbol table + argument-count table:
    `Fp.SymTab.intrinsicDecision`, the interface shared with `FparserModel/SymGlue.lean`).  The
    decision is taken AFTER both child calls. -/
def planIntrinsic (iv : Str → Nat → SymTab.IntrRes) (s : Str) : Res (List Slot) :=
  (combiPlan specIntrinsicCall s).bind fun slots =>
    match slots with
    | [.child _ name, rhs] =>
      let nargs := match rhs with
        | .child _ args => seqCount args
        | _ => 0
      match iv name nargs with
      | .isIntrinsic => .ok slots
      | .noMatch => .ok (slots ++ [.fail])
      | .syntaxError => .ok (slots ++ [.raise (.child "InternalSyntaxError".toList)])
      | .keyErrorEscapes => .ok (slots ++ [.raise .keyError])
    | _ => .ok slots

/-- the decision with no scoping region (`SYMBOL_TABLES.current_scope is None`) -/
def ivNoScope (std : Std) : Str → Nat → SymTab.IntrRes :=
  SymTab.intrinsicDecision (SymGlue.itOf (match std with | .f2003 => .f2003 | .f2008 => .f2008)) none

/-! ### BinaryOpBase -/

/-- `BinaryOpBase.match(lhs_cls, "<op>", rhs_cls, string, right)` for a STRING operator:
    slots in evaluation order (`right` → rhs first). `items = (lhs, op, rhs)` → `arrangeBin`. -/
def planBinStr (lhsC : ClassId) (op : Str) (rhsC : ClassId) (right : Bool) (s : Str) : Res (List Slot) :=
  (tok s).bind fun r =>
  let parts := Combi.splitGo op 0 r.text
  if parts.length < 2 then .noMatch else
  let (l0, r0) :=
    if right then (Combi.joinStr op parts.dropLast, parts.getLast?.getD [])
    else (parts.headD [], Combi.joinStr op (parts.drop 1))
  let lhs := rstrip l0
  let rhs := lstrip r0
  if lhs.isEmpty || rhs.isEmpty then .noMatch else
  if right then .ok [.child rhsC (applyMap r.map rhs), .child lhsC (applyMap r.map lhs), .str op]
  else .ok [.child lhsC (applyMap r.map lhs), .child rhsC (applyMap r.map rhs), .str op]

/-- `BinaryOpBase.match(lhs_cls, pattern.percent_op.named(), rhs_cls, string)` : the operator is
    a compiled pattern, `Pattern.rsplit` (`re.split` with one group; `"" in t[1:-1]` → `None`;
    lhs / rhs STRIPPED on both sides) -/
def planBinPercent (lhsC rhsC : ClassId) (s : Str) : Res (List Slot) :=
  (tok s).bind fun r =>
  let parts := splitC '%' r.text
  if parts.length < 2 then .noMatch else
  -- t = [p0, "%", p1, "%", …, pn] ; `"" in t[1:-1]` = some INNER piece p1..p(n-1) is empty
  if (parts.drop 1).dropLast.any (·.isEmpty) then .noMatch else
  let lhs := rstrip (strip (Combi.joinStr "%".toList parts.dropLast))
  let rhs := lstrip (strip (parts.getLast?.getD []))
  if lhs.isEmpty || rhs.isEmpty then .noMatch else
  .ok [.child rhsC (applyMap r.map rhs), .child lhsC (applyMap r.map lhs), .str "%".toList]

/-- call order → `(lhs, op, rhs)` -/
def arrangeBin (right : Bool) : List (Item Node) → List (Item Node)
  | [a, b, op] => if right then [b, op, a] else [a, op, b]
  | l => l

/-- `BinaryOpBase.tostr` -/
def tostrBin (o : Oracle Node) : List (Item Node) → Res Str
  | [a, op, b] => .ok (a.text o ++ ' ' :: op.text o ++ ' ' :: b.text o)
  | _ => .raises .indexError

def planAssignment : Str → Res (List Slot) := planBinStr C.Variable "=".toList C.Expr false
def planTypeParamInquiry : Str → Res (List Slot) := planBinPercent C.Designator C.Type_Param_Name
def planProcComponentRef : Str → Res (List Slot) :=
  planBinStr C.Variable "%".toList C.Procedure_Component_Name true
def planDataPointerObject : Str → Res (List Slot) :=
  planBinStr C.Variable "%".toList C.Data_Pointer_Component_Name true
def planProcedureDesignator : Str → Res (List Slot) := planBinPercent C.Data_Ref C.Binding_Name

/-! ### Subscript_Triplet -/

/-- `Subscript_Triplet.match` : call order stride, lhs, rhs; absent parts are `None`s.
    Slots: `[stride, lhs, rhs]` → `arrangeTriplet` -/
def planSubscriptTriplet (s : Str) : Res (List Slot) :=
  (tok s).bind fun r =>
  let mk (c : ClassId) (t : Str) : Slot := if t.isEmpty then .none else .child c (applyMap r.map t)
  match splitC ':' r.text with
  | [a, b] => .ok [.none, mk C.Subscript (rstrip a), mk C.Subscript (lstrip b)]
  | [a, b, c] => .ok [mk C.Stride (lstrip c), mk C.Subscript (rstrip a), mk C.Subscript (strip b)]
  | _ => .noMatch

def arrangeTriplet : List (Item Node) → List (Item Node)
  | [st, l, r] => [l, r, st]
  | x => x

/-- `Subscript_Triplet.tostr` -/
def tostrSubscriptTriplet (o : Oracle Node) : List (Item Node) → Res Str
  | [l, r, st] =>
    let s0 := match l with | .none => ":".toList | _ => l.text o ++ " :".toList
    let s1 := match r with | .none => s0 | _ => s0 ++ ' ' :: r.text o
    let s2 := match st with | .none => s1 | _ => s1 ++ " : ".toList ++ st.text o
    .ok s2
  | _ => .raises .indexError

/-! ### Ac_Spec / Ac_Implied_Do / Ac_Implied_Do_Control -/

/-- `Ac_Spec.match` -/
def planAcSpec (s : Str) : Res (List Slot) :=
  if endsWith s "::".toList then .ok [.child C.Type_Spec (rstrip (s.take (s.length - 2))), .none] else
  (tok s).bind fun r =>
  match IoStmt.cutSub2 ':' ':' r.text with
  | none => .noMatch
  | some (pre, post) =>
    .ok [.child C.Type_Spec (applyMap r.map (rstrip pre)),
         .child C.Ac_Value_List (applyMap r.map (lstrip post))]

/-- `Ac_Spec.tostr` -/
def tostrAcSpec (o : Oracle Node) : List (Item Node) → Res Str
  | [.none, b] => .ok (b.text o)
  | [a, .none] => .ok (a.text o ++ " ::".toList)
  | [a, b] => .ok (a.text o ++ " :: ".toList ++ b.text o)
  | _ => .raises .indexError

/-- `Ac_Implied_Do.match` -/
def planAcImpliedDo (s : Str) : Res (List Slot) :=
  if s.isEmpty then .noMatch else
  if !(startsC '(' s && endsC ')' s) then .noMatch else
  (tok (strip (inner s))).bind fun r =>
  match Combi.cutLast '=' r.text with
  | none => .noMatch
  | some (pre, post) =>
    if pre.getLast? == some '=' then .noMatch else      -- `i > 0 and line[i-1] == "="`
    match Combi.cutLast ',' pre with
    | none => .noMatch
    | some (vals, var) =>
      -- `line[j+1:]` = var ++ "=" ++ post
      .ok [.child C.Ac_Value_List (applyMap r.map (rstrip vals)),
           .child C.Ac_Implied_Do_Control (applyMap r.map (lstrip (var ++ '=' :: post)))]

/-- `Ac_Implied_Do_Control.match` : the expressions are built BEFORE the do-variable;
    slots `exprs… ++ [var]` → `arrangeAcControl` -/
def planAcImpliedDoControl (s : Str) : Res (List Slot) :=
  match Combi.cutFirst '=' s with
  | none => .noMatch
  | some (pre, post) =>
    (tok (lstrip post)).bind fun r =>
    let es := splitC ',' r.text
    if !(2 ≤ es.length && es.length ≤ 3) then .noMatch else
    .ok (es.map (fun e => Slot.child C.Scalar_Int_Expr (applyMap r.map (strip e)))
          ++ [.child C.Ac_Do_Variable (rstrip pre)])

/-- `[e1, …, var]` → `(var, [e1, …])` -/
def arrangeAcControl (items : List (Item Node)) : List (Item Node) :=
  match items.getLast? with
  | some v => [v, .nodes (items.dropLast.filterMap fun i => match i with | .node n => some n | _ => none)]
  | none => items

/-- `"%s = %s" % (self.items[0], ", ".join(map(str, self.items[1])))` -/
def tostrAcControl (o : Oracle Node) : List (Item Node) → Res Str
  | [v, es] => .ok (v.text o ++ " = ".toList ++ es.text o)
  | _ => .raises .indexError

/-! ### Alt_Return_Spec -/

def planAltReturnSpec (s : Str) : Res (List Slot) :=
  if !startsC '*' s then .noMatch else
  let line := lstrip (s.drop 1)
  if line.isEmpty then .noMatch else .ok [.child C.Label line]

def tostrAltReturnSpec (o : Oracle Node) : List (Item Node) → Res Str
  | [l] => .ok ('*' :: l.text o)
  | _ => .raises .indexError

/-! ### Pointer_Assignment_Stmt -/

/-- `Pointer_Assignment_Stmt.match` -/
def planPointerAssignment (s : Str) : Plan :=
  match tok s with
  | .raises e => .one (.raises e)
  | .noMatch => .one .noMatch
  | .ok r =>
    match IoStmt.cutSub2 '=' '>' r.text with
    | none => .one .noMatch
    | some (pre, post) =>
      let lhs := rstrip pre
      let rhs := applyMap r.map (lstrip post)
      if endsC ')' lhs then
        match Combi.cutLast '(' lhs with
        | none => .one .noMatch
        | some (obj, rest) =>
          let o := applyMap r.map (rstrip obj)
          let tmp := applyMap r.map (strip rest.dropLast)
          { first := .ok [.child C.Data_Pointer_Object o, .child C.Bounds_Spec_List tmp, .child C.Data_Target rhs],
            second := some (.ok [.child C.Data_Pointer_Object o, .child C.Bounds_Remapping_List tmp,
                                 .child C.Data_Target rhs]) }
      else
        let l := applyMap r.map lhs
        { first := .ok [.child C.Data_Pointer_Object l, .none, .child C.Data_Target rhs],
          second := some (.ok [.child C.Proc_Pointer_Object l, .none, .child C.Proc_Target rhs]) }

/-- `Pointer_Assignment_Stmt.tostr` -/
def tostrPointerAssignment (o : Oracle Node) : List (Item Node) → Res Str
  | [a, .none, c] => .ok (a.text o ++ " => ".toList ++ c.text o)
  | [a, b, c] => .ok (a.text o ++ "(".toList ++ b.text o ++ ") => ".toList ++ c.text o)
  | _ => .raises .typeError

/-! ## the class table of the layer -/

/-- `cls.match(string)` as a plan; `none` = the class has no `match` (or is external) -/
def planOf (std : Std) (iv : Str → Nat → SymTab.IntrRes) (c : ClassId) (s : Str) : Option Plan :=
  if c == C.Name then some (.one (planName s))
  else if c == C.Int_Literal_Constant then some (.one (planIntLit s))
  else if c == C.Signed_Int_Literal_Constant then some (.one (planSignedIntLit s))
  else if c == C.Real_Literal_Constant then some (.one (planRealLit s))
  else if c == C.Signed_Real_Literal_Constant then some (.one (planSignedRealLit s))
  else if c == C.Complex_Literal_Constant then some (.one (planComplex s))
  else if c == C.Logical_Literal_Constant then some (.one (planLogicalLit s))
  else if c == C.Char_Literal_Constant then some (.one (planCharLit s))
  else if c == C.Binary_Constant then some (.one (planBinary s))
  else if c == C.Octal_Constant then some (.one (planOctal s))
  else if c == C.Hex_Constant then some (.one (planHex s))
  else if c == C.Parenthesis then some (.one (combiPlan specParenthesis s))
  else if c == C.Array_Constructor then some (planArrayConstructor s)
  else if c == C.Ac_Spec then some (.one (planAcSpec s))
  else if c == C.Ac_Value_List then some (.one (combiPlan (specList C.Ac_Value) s))
  else if c == C.Ac_Implied_Do then some (.one (planAcImpliedDo s))
  else if c == C.Ac_Implied_Do_Control then some (.one (planAcImpliedDoControl s))
  else if c == C.Structure_Constructor then some (.one (combiPlan specStructureConstructor s))
  else if c == C.Derived_Type_Spec then some (.one (combiPlan specDerivedTypeSpec s))
  else if c == C.Type_Name then some (.one (planTypeName s))
  else if c == C.Component_Spec then some (.one (combiPlan specComponentSpec s))
  else if c == C.Component_Spec_List then some (.one (combiPlan (specList C.Component_Spec) s))
  else if c == C.Function_Reference then some (.one (combiPlan specFunctionReference s))
  else if c == C.Procedure_Designator then some (.one (planProcedureDesignator s))
  else if c == C.Actual_Arg_Spec then some (.one (combiPlan specActualArgSpec s))
  else if c == C.Actual_Arg_Spec_List then some (.one (combiPlan (specList C.Actual_Arg_Spec) s))
  else if c == C.Intrinsic_Function_Reference then some (.one (planIntrinsic iv s))
  else if c == C.Intrinsic_Name then some (.one (planIntrinsicName std s))
  else if c == C.Type_Param_Inquiry then some (.one (planTypeParamInquiry s))
  else if c == C.Proc_Component_Ref then some (.one (planProcComponentRef s))
  else if c == C.Data_Ref then some (.one (planDataRef s))
  else if c == C.Part_Ref then some (.one (combiPlan specPartRef s))
  else if c == C.Array_Section then some (.one (combiPlan specArraySection s))
  else if c == C.Substring then some (.one (combiPlan specSubstring s))
  else if c == C.Substring_Range then some (.one (combiPlan specSubstringRange s))
  else if c == C.Section_Subscript_List then some (.one (combiPlan (specList C.Section_Subscript) s))
  else if c == C.Subscript_Triplet then some (.one (planSubscriptTriplet s))
  else if c == C.Alt_Return_Spec then some (.one (planAltReturnSpec s))
  else if c == C.Assignment_Stmt then some (.one (planAssignment s))
  else if c == C.Pointer_Assignment_Stmt then some (planPointerAssignment s)
  else if c == C.Data_Pointer_Object then some (.one (planDataPointerObject s))
  else if c == C.Bounds_Spec then some (.one (combiPlan specBoundsSpec s))
  else if c == C.Bounds_Spec_List then some (.one (combiPlan (specList C.Bounds_Spec) s))
  else if c == C.Bounds_Remapping then some (.one (combiPlan specBoundsRemapping s))
  else if c == C.Bounds_Remapping_List then some (.one (combiPlan (specList C.Bounds_Remapping) s))
  else none

/-- call order → tuple order (`self.items`); for `SequenceBase` classes `items` are the entries
    (the separator is a constant of the class) -/
def arrangeOf (c : ClassId) (items : List (Item Node)) : List (Item Node) :=
  if c == C.Assignment_Stmt then arrangeBin false items
  else if c == C.Type_Param_Inquiry || c == C.Proc_Component_Ref || c == C.Data_Pointer_Object
       || c == C.Procedure_Designator then arrangeBin true items
  else if c == C.Subscript_Triplet then arrangeTriplet items
  else if c == C.Ac_Implied_Do_Control then arrangeAcControl items
  else items

/-- the combinator a class prints with (inherited `tostr`), if any -/
def specOf (c : ClassId) : Option Combi.Spec :=
  if c == C.Parenthesis then some specParenthesis
  else if c == C.Array_Constructor then some specArrayCtor1       -- BracketBase.tostr: brackets are items
  else if c == C.Structure_Constructor then some specStructureConstructor
  else if c == C.Derived_Type_Spec then some specDerivedTypeSpec
  else if c == C.Function_Reference then some specFunctionReference
  else if c == C.Intrinsic_Function_Reference then some specIntrinsicCall
  else if c == C.Part_Ref then some specPartRef
  else if c == C.Array_Section then some specArraySection
  else if c == C.Substring then some specSubstring
  else if c == C.Substring_Range then some specSubstringRange
  else if c == C.Bounds_Spec then some specBoundsSpec
  else if c == C.Bounds_Remapping then some specBoundsRemapping
  else if c == C.Component_Spec then some specComponentSpec
  else if c == C.Actual_Arg_Spec then some specActualArgSpec
  else if c == C.Data_Ref then some specDataRefSeq
  else if c == C.Ac_Value_List then some (specList C.Ac_Value)
  else if c == C.Component_Spec_List then some (specList C.Component_Spec)
  else if c == C.Actual_Arg_Spec_List then some (specList C.Actual_Arg_Spec)
  else if c == C.Section_Subscript_List then some (specList C.Section_Subscript)
  else if c == C.Bounds_Spec_List then some (specList C.Bounds_Spec)
  else if c == C.Bounds_Remapping_List then some (specList C.Bounds_Remapping)
  else none

/-- `str(node)` of a node of class `c` with `self.items = items` -/
def tostrOf (o : Oracle Node) (c : ClassId) (items : List (Item Node)) : Res Str :=
  match specOf c with
  | some sp => combiStr o sp items
  | none =>
    if c == C.Name || c == C.Type_Name || c == C.Binary_Constant || c == C.Octal_Constant
       || c == C.Hex_Constant || c == C.Intrinsic_Name then tostrString o items
    else if c == C.Int_Literal_Constant || c == C.Signed_Int_Literal_Constant
       || c == C.Real_Literal_Constant || c == C.Signed_Real_Literal_Constant
       || c == C.Logical_Literal_Constant then tostrNumber o items
    else if c == C.Complex_Literal_Constant || c == C.Ac_Implied_Do then tostrPair o items
    else if c == C.Char_Literal_Constant then tostrCharLit o items
    else if c == C.Ac_Spec then tostrAcSpec o items
    else if c == C.Ac_Implied_Do_Control then tostrAcControl o items
    else if c == C.Subscript_Triplet then tostrSubscriptTriplet o items
    else if c == C.Alt_Return_Spec then tostrAltReturnSpec o items
    else if c == C.Pointer_Assignment_Stmt then tostrPointerAssignment o items
    else if c == C.Assignment_Stmt || c == C.Type_Param_Inquiry || c == C.Proc_Component_Ref
       || c == C.Data_Pointer_Object || c == C.Procedure_Designator then tostrBin o items
    else .raises .internalError

/-- `cls.match(string)` with the children answered by `o` (level A) -/
def matchOf (std : Std) (iv : Str → Nat → SymTab.IntrRes) (o : Oracle Node) (c : ClassId) (s : Str) :
    Option (Res (List (Item Node))) :=
  (planOf std iv c s).map fun p => (p.run o).map (arrangeOf c)

/-! ## the real `Base.subclasses` table -/

/-- local id → subclasses (local ids), in the order of `Base.subclasses[cls.__name__]` -/
structure Table where
  subs : ClassId → List ClassId

/-- the table obtained from a `Base.subclasses` dump (`real2003` / `real2008` of
    `Generated/Classes20xx.lean`: rule-name id ↦ class-object ids), the class facts
    (`allClasses`: class-object id ↦ name id) and the name ids of the local classes
    (`Generated/PrimaryTables.lean: nameIds`, checked there against `Generated.names`).
    A subclass that is not a class of this slice is dropped (never happens for the classes of the
    layer: obligation `subclasses_closed` in the generated file). -/
def tableOf (real : List (Nat × List Nat)) (classes : List Registry.ClassFacts) (nameIds : List Nat) :
    Table :=
  { subs := fun c =>
      match nameIds[c]? with
      | none => []
      | some g =>
        ((Registry.nGet real g).getD []).filterMap fun cid =>
          match classes[cid]? with
          | none => none
          | some f =>
            let i := nameIds.idxOf f.name
            if i < nameIds.length then some i else none }

def realOf : Std → List (Nat × List Nat)
  | .f2003 => Generated.real2003
  | .f2008 => Generated.real2008

/-! ## Level B : `Base.__new__` with call counting -/

/-- a built object, flattened: its class, `str(obj)`, and a structural rendering
    `Cls(item, …)` (≈ `repr`) -/
structure PNode where
  cls : ClassId
  text : Str
  shape : Str
deriving Repr, DecidableEq

/-- `cls(string, parent_cls)` for a class outside the layer: the result and the number of
    `Base.__new__` calls it made (itself included).  The flag is `parent_cls is None` (a child call
    made by a `match`) as opposed to a call from a subclass loop (the classes already in
    `parent_cls` are skipped inside the external class too, so its count can be smaller). -/
abbrev Ext := ClassId → Bool → Str → Res PNode × Nat

def pOracle (call : ClassId → Str → Res PNode) : Oracle PNode :=
  { call := call, str := (·.text), head := fun _ => none, rhsStr := (·.text),
    heads := fun _ => [], isDataEdit := fun _ => false }

def clsName (c : ClassId) : Str := (clsNames.getD c "?").toList

def itemShape : Item PNode → Str
  | .none => "None".toList
  | .str s => '\'' :: s ++ ['\'']
  | .node n => n.shape
  | .bare n => n.shape
  | .nodes ns => '[' :: Combi.joinStr ", ".toList (ns.map (·.shape)) ++ [']']

def mkNode (c : ClassId) (items : List (Item PNode)) : PNode :=
  { cls := c,
    text := match tostrOf (pOracle fun _ _ => .noMatch) c items with
      | .ok t => t
      | _ => "<tostr raises>".toList,
    shape := clsName c ++ '(' :: Combi.joinStr ", ".toList (items.map itemShape) ++ [')'] }

/-- run slots with a counting child function, fail-fast like `runSlots` -/
def runSlotsC (call : ClassId → Str → Res PNode × Nat) : List Slot → Res (List (Item PNode)) × Nat
  | [] => (.ok [], 0)
  | sl :: ss =>
    let (r, n) : Res (Item PNode) × Nat :=
      match sl with
      | .none => (.ok .none, 0)
      | .str s => (.ok (.str s), 0)
      | .child c s => let (r, n) := call c s; (r.map .node, n)
      | .fail => (.noMatch, 0)
      | .raise e => (.raises e, 0)
    match r with
    | .ok i =>
      let (rs, m) := runSlotsC call ss
      (rs.map (i :: ·), n + m)
    | .noMatch => (.noMatch, n)
    | .raises e => (.raises e, n)

def runPlanC (call : ClassId → Str → Res PNode × Nat) (p : Plan) : Res (List (Item PNode)) × Nat :=
  match p.first with
  | .raises e => (.raises e, 0)
  | first =>
    let (r, n) : Res (List (Item PNode)) × Nat :=
      match first with
      | .ok slots => runSlotsC call slots
      | _ => (.noMatch, 0)
    match r, p.second with
    | .noMatch, some (.ok slots2) => let (r2, m) := runSlotsC call slots2; (r2, n + m)
    | .noMatch, some (.raises e) => (.raises e, n)
    | r, _ => (r, n)

/-- result of `Base.__new__` : outcome, calls made (this one included), `parent_cls` afterwards -/
structure Out where
  res : Res PNode
  calls : Nat
  parents : List ClassId
deriving Repr, DecidableEq

/-- `for subcls in Base.subclasses.get(cls.__name__, []): …` -/
def subLoop (f : ClassId → List ClassId → Str → Out) (s : Str) :
    List ClassId → List ClassId → Nat → Out
  | [], ps, n => { res := .noMatch, calls := n, parents := ps }
  | sub :: rest, ps, n =>
    if ps.contains sub then subLoop f s rest ps n        -- avoid recursion 2
    else
      let r := f sub ps s
      match r.res with
      | .noMatch => subLoop f s rest r.parents (n + r.calls)
      | _ => { res := r.res, calls := n + r.calls, parents := r.parents }

/-- the external classes that descend the expression chain down to the alternatives of `Primary` -/
def isExprClass (c : ClassId) : Bool := c == C.Expr || c == C.Int_Expr || c == C.Level_1_Expr

structure Cfg where
  std : Std
  iv : Str → Nat → SymTab.IntrRes
  table : Table
  ext : Ext

/-- `Base.__new__(cls, string, parent_cls)`; `ps = []` stands for `parent_cls=None`.
    An external class is answered by `cfg.ext` (its own subclass loop and count included).  What
    it appends to the shared `parent_cls`: itself, and — for the expression classes `Expr`,
    `Int_Expr`, `Level_1_Expr`, when they end in "no match" — every alternative of `Primary`
    (the failed descent through the expression chain has tried or skipped each of them, and each
    `Base.__new__` appends its class): the later siblings of the caller's loop that are among them
    are therefore SKIPPED (e.g. `Actual_Arg`: after `Expr` failed, `Name`, `Data_Ref`,
    `Array_Section`, `Substring` are not tried again). -/
def new (cfg : Cfg) : Nat → ClassId → List ClassId → Str → Out
  | 0, _, ps, _ => { res := .raises (.child "fuel".toList), calls := 1, parents := ps }
  | fuel+1, c, ps0, s =>
    if isExternal c then
      let (r, n) := cfg.ext c ps0.isEmpty s
      let ps1 := if ps0.contains c then ps0 else ps0 ++ [c]
      let ps2 := match r with
        | .noMatch =>
          if isExprClass c then ps1 ++ (cfg.table.subs C.Primary).filter (fun a => !ps1.contains a) else ps1
        | _ => ps1
      { res := r, calls := n, parents := ps2 }
    else
    let ps := if ps0.contains c then ps0 else ps0 ++ [c]
    let child : ClassId → Str → Res PNode × Nat := fun c' s' =>
      let r := new cfg fuel c' [] s'
      (r.res, r.calls)
    let (mres, n) : Res (List (Item PNode)) × Nat :=
      match planOf cfg.std cfg.iv c s with
      | some p => runPlanC child p
      | none => (.noMatch, 0)
    match mres with
    | .ok items => { res := .ok (mkNode c (arrangeOf c items)), calls := n + 1, parents := ps }
    | .raises e => { res := .raises e, calls := n + 1, parents := ps }
    | .noMatch => subLoop (new cfg fuel) s (cfg.table.subs c) ps (n + 1)

/-- enough fuel: every level of the recursion either shortens the text (child call) or adds a
    class to `parent_cls` (subclass loop, at most `clsNames.length` deep) -/
def need (s : Str) : Nat := (clsNames.length + 2) * (s.length + 2)

def construct (cfg : Cfg) (c : ClassId) (s : Str) : Out := new cfg (need s) c [] s

/-- number of `Base.__new__` calls made by `Primary(s)` -/
def primaryCalls (cfg : Cfg) (s : Str) : Nat := (construct cfg C.Primary s).calls

/-! ### the counter-factual: `Base.__new__` over the code BEFORE /repo 2a636f5

`newOld` is `new` with `Data_Ref.match` as it was (`planDataRefOld`: the single part-ref is parsed
inside `match`, discarded, and parsed again by the subclass loop).  Kept so that the repaired bound
can be read next to what the repair removed (Proofs/PrimaryCost.lean: `refCallsOld_*`,
`primaryCallsOld_nest_*`); the co-simulation has a negative control that reverts the commit
in-process and must find the real parser on THIS side. -/

def planOfOld (std : Std) (iv : Str → Nat → SymTab.IntrRes) (c : ClassId) (s : Str) : Option Plan :=
  if c == C.Data_Ref then some (.one (planDataRefOld s)) else planOf std iv c s

def newOld (cfg : Cfg) : Nat → ClassId → List ClassId → Str → Out
  | 0, _, ps, _ => { res := .raises (.child "fuel".toList), calls := 1, parents := ps }
  | fuel+1, c, ps0, s =>
    if isExternal c then
      let (r, n) := cfg.ext c ps0.isEmpty s
      let ps1 := if ps0.contains c then ps0 else ps0 ++ [c]
      let ps2 := match r with
        | .noMatch =>
          if isExprClass c then ps1 ++ (cfg.table.subs C.Primary).filter (fun a => !ps1.contains a) else ps1
        | _ => ps1
      { res := r, calls := n, parents := ps2 }
    else
    let ps := if ps0.contains c then ps0 else ps0 ++ [c]
    let child : ClassId → Str → Res PNode × Nat := fun c' s' =>
      let r := newOld cfg fuel c' [] s'
      (r.res, r.calls)
    let (mres, n) : Res (List (Item PNode)) × Nat :=
      match planOfOld cfg.std cfg.iv c s with
      | some p => runPlanC child p
      | none => (.noMatch, 0)
    match mres with
    | .ok items => { res := .ok (mkNode c (arrangeOf c items)), calls := n + 1, parents := ps }
    | .raises e => { res := .raises e, calls := n + 1, parents := ps }
    | .noMatch => subLoop (newOld cfg fuel) s (cfg.table.subs c) ps (n + 1)

def constructOld (cfg : Cfg) (c : ClassId) (s : Str) : Out := newOld cfg (need s) c [] s

/-- number of `Base.__new__` calls `Primary(s)` made before /repo 2a636f5 -/
def primaryCallsOld (cfg : Cfg) (s : Str) : Nat := (constructOld cfg C.Primary s).calls

/-- the alternatives of `Primary` in the order `Base.__new__` tries them -/
def primaryAlternatives (t : Table) : List ClassId := t.subs C.Primary

/-! ## the expression chain above the layer, for operands without operators

`Int_Expr(t)` / `Expr(t)` for a text without operators walk down the chain
`Int_Expr → Expr → Level_5_Expr → Equiv_Operand → Or_Operand → And_Operand → Level_4_Expr →
Level_3_Expr → Level_2_Expr → Level_2_Unary_Expr → Add_Operand → Mult_Operand → Level_1_Expr`
(every `match` fails without a child call) and then run the loop over the flattened
alternatives of `Primary` (`Base.subclasses["Level_1_Expr"]` = those of `Primary`), with a
`parent_cls` that contains chain classes only. -/

def chainLen (c : ClassId) : Nat :=
  if c == C.Int_Expr then 13 else if c == C.Expr then 12 else if c == C.Level_1_Expr then 1 else 0

/-- `excluded` of `Int_Expr.match` -/
def intExprExcluded (c : ClassId) : Bool :=
  c == C.Binary_Constant || c == C.Octal_Constant || c == C.Hex_Constant || c == C.Signed_Real_Literal_Constant ||
  c == C.Real_Literal_Constant || c == C.Complex_Literal_Constant || c == C.Char_Literal_Constant ||
  c == C.Logical_Literal_Constant

/-- the external function "the real expression chain on operator-free text": level `n` answers
    through `new` with the level-`n-1` function as ITS external function -/
def chainExt (std : Std) (iv : Str → Nat → SymTab.IntrRes) (table : Table) : Nat → Ext
  | 0 => fun _ _ _ => (.noMatch, 1)
  | n+1 => fun c _ s =>
    if c == C.Int_Expr || c == C.Expr || c == C.Level_1_Expr then
      let cfg : Cfg := { std := std, iv := iv, table := table, ext := chainExt std iv table n }
      let r := subLoop (new cfg (need s)) s (table.subs C.Primary) [] 0
      -- `Int_Expr.match`: a literal constant of the wrong type is `None` (C708)
      let res := match r.res with
        | .ok n => if c == C.Int_Expr && intExprExcluded n.cls then .noMatch else .ok n
        | x => x
      (res, r.calls + chainLen c)
    else (.noMatch, 1)

/-- `chainExt` over the code before /repo 2a636f5 (`newOld`) -/
def chainExtOld (std : Std) (iv : Str → Nat → SymTab.IntrRes) (table : Table) : Nat → Ext
  | 0 => fun _ _ _ => (.noMatch, 1)
  | n+1 => fun c _ s =>
    if c == C.Int_Expr || c == C.Expr || c == C.Level_1_Expr then
      let cfg : Cfg := { std := std, iv := iv, table := table, ext := chainExtOld std iv table n }
      let r := subLoop (newOld cfg (need s)) s (table.subs C.Primary) [] 0
      let res := match r.res with
        | .ok n => if c == C.Int_Expr && intExprExcluded n.cls then .noMatch else .ok n
        | x => x
      (res, r.calls + chainLen c)
    else (.noMatch, 1)

/-! ## the shape-level cost model (closed recurrences)

`Ref` = a reference `name(arg, …)` whose arguments are again references or plain names.
`refCalls` is the number of `Base.__new__` calls of `Primary(text)`; the constants are those of
the alternative list (`10` failing alternatives before `Data_Ref`, …); tied to `new` / `newOld` by
kernel evaluation on the first levels (Proofs/PrimaryCost.lean) and by the co-simulation. -/

inductive Ref where
  | name
  | call (args : List Ref)

/-- calls of `Level_1_Expr`'s alternative loop (= `Primary(text)` minus the `Primary` call
    itself) on the text of `r`, AS OF /repo 2a636f5 -/
def altCalls : Ref → Nat
  | .name => 10
  | .call args =>
    -- Intrinsic_Function_Reference (2: itself + Intrinsic_Name) + 8 literals + Name = 11,
    -- Data_Ref (1: its `match` returns None without a child call) + ONE Part_Ref (its subclass),
    -- Part_Ref = 1 + Part_Name (2) + Section_Subscript_List (1) + Σ args
    12 + (4 + argsCalls args)
where
  /-- `Section_Subscript(arg)` per argument: itself, Subscript_Triplet, then `Int_Expr` (13 chain
      calls) and the alternative loop -/
  argsCalls : List Ref → Nat
    | [] => 0
    | a :: rest => (2 + 13 + altCalls a) + argsCalls rest

def refCalls (r : Ref) : Nat := 1 + altCalls r

/-- the same BEFORE /repo 2a636f5: `Data_Ref` (1) + TWO × `Part_Ref` (once inside `Data_Ref.match`,
    once as its subclass) -/
def altCallsOld : Ref → Nat
  | .name => 10
  | .call args => 12 + 2 * (4 + argsCallsOld args)
where
  argsCallsOld : List Ref → Nat
    | [] => 0
    | a :: rest => (2 + 13 + altCallsOld a) + argsCallsOld rest

def refCallsOld (r : Ref) : Nat := 1 + altCallsOld r

/-- `x`, `f1(x)`, `f2(f1(x))`, … -/
def nestRef : Nat → Ref
  | 0 => .name
  | d+1 => .call [nestRef d]

def nestStr : Nat → Str
  | 0 => "x".toList
  | d+1 => 'f' :: natToStr (d+1) ++ '(' :: nestStr d ++ [')']

/-- `f(x, x, …, x)` with `n` plain arguments -/
def flatRef (n : Nat) : Ref := .call (List.replicate n .name)

end Fp.Primary
