import re, json, os, sys
ROOT = sys.argv[1] if len(sys.argv) > 1 else "/tmp/lw/primary"   # the lean project dir
TOOLS = os.path.dirname(os.path.abspath(__file__))
P = os.path.join(ROOT, "FparserModel", "Proofs")
FILES = sorted(f[:-5] for f in os.listdir(P) if f.startswith("Primary") and f.endswith(".lean"))
src = {f: open(os.path.join(P, f + ".lean"), encoding="utf-8").read() for f in FILES}

def find_stmt(name):
    """-> (file, binders text, conclusion text)"""
    for f, text in src.items():
        m = re.search(r"^theorem %s\b" % re.escape(name), text, re.M)
        if not m:
            continue
        i = m.end()
        # scan to the top-level ':=' that ends the statement
        depth = 0
        j = i
        colon = None
        while j < len(text):
            ch = text[j]
            if ch == "'" and j + 2 < len(text) and text[j + 2] == "'":
                j += 3
                continue
            if ch == '"':
                j = text.index('"', j + 1) + 1
                continue
            if ch in "([{⟨":
                depth += 1
            elif ch in ")]}⟩":
                depth -= 1
            elif depth == 0 and text.startswith(":=", j):
                break
            elif depth == 0 and ch == ":" and colon is None and not text.startswith(":=", j):
                colon = j
            j += 1
        binders = text[i:colon].strip()
        concl = text[colon + 1:j].strip()
        return f, binders, concl
    raise KeyError(name)

def binder_names(binders):
    names = []
    depth = 0
    cur = ""
    groups = []
    binders = re.sub(r"'[()\[\]{}:]'", "'x'", binders)
    binders = re.sub(r'"[^"]*"', '"x"', binders)
    for ch in binders:
        if ch in "({[":
            if depth == 0:
                cur = ch
            else:
                cur += ch
            depth += 1
        elif ch in ")}]":
            depth -= 1
            cur += ch
            if depth == 0:
                groups.append(cur)
                cur = ""
        elif depth > 0:
            cur += ch
    for g in groups:
        if g[0] != "(":
            continue
        body = g[1:-1]
        # names before the first top-level ':'
        d = 0
        for k, ch in enumerate(body):
            if ch in "([{":
                d += 1
            elif ch in ")]}":
                d -= 1
            elif ch == ":" and d == 0:
                names += body[:k].split()
                break
    return names


# (proof name, props name, serves, strength, note) : read from tools/props_table_primary.py
T = []
def add(proof, props, serves, strength, note):
    T.append((proof, props, serves, strength, note))
exec(open(os.path.join(TOOLS, "props_table_primary.py"), encoding="utf-8").read())

out = []
out.append("import FparserModel.Generated.PrimaryTables\n" + "".join("import FparserModel.Proofs.%s\n" % f for f in FILES))
out.append(open(os.path.join(TOOLS, "props_header_primary.txt"), encoding="utf-8").read())
entries = []
axioms = []
missing = []
for proof, props, serves, strength, note in T:
    try:
        f, binders, concl = find_stmt(proof)
    except KeyError:
        missing.append(proof)
        continue
    if proof.startswith("subLoop_"):
        # stated inside `section Loop` with `variable (f …) (s : Str)`
        binders = "(f : ClassId → List ClassId → Str → Out) (s : Str) " + binders
    names = binder_names(binders)
    out.append("theorem %s %s :\n    %s :=\n  _root_.Fp.Primary.%s %s\n" % (props, binders, concl, proof, " ".join(names)))
    stmt = re.sub(r"\s+", " ", (binders + " : " + concl)).strip()
    entries.append({"name": "Fp.Primary.Props." + props, "file": "FparserModel/Props/Primary.lean", "statement": stmt,
                    "serves": serves, "strength": strength, "note": note})
    axioms.append(props)
# (d) rejects_unbalanced corollaries of every token theorem
out.append("/-! ## `X_rejects_unbalanced` (C08): a text that is matched and whose children print balanced texts IS balanced -\n"
           "    no parenthesis of the input is silently discarded or absorbed by the shape layer.  Corollaries of the token\n"
           "    theorems (`net` is a function of `toks`). -/\n")
out.append("theorem balanced_of_tokens {t s : Str} (h : toks t = toks s) (hb : net t = 0) : net s = 0 := by\n"
           "  rw [← net_eq_of_toks h]; exact hb\n")
ITEMWISE = "(∀ i ∈ items, net (i.text o) = 0)"
NODEWISE = "(∀ n, Item.node n ∈ items → net (o.str n) = 0)"
for proof, props, serves, strength, note in T:
    if "_tostr_match_tokens" not in props or strength == "witness":
        continue
    try:
        f, binders, concl = find_stmt(proof)
    except KeyError:
        continue
    flat = re.sub(r"\s+", " ", concl)
    if "toks t = toks s" not in flat:
        continue
    if ITEMWISE in flat:
        hyp = "(hbal : ∀ i ∈ items, net (i.text o) = 0)"
    elif NODEWISE in flat:
        hyp = "(hbal : ∀ n, Item.node n ∈ items → net (o.str n) = 0)"
    else:
        continue
    names = binder_names(binders)
    nm = props.replace("_tostr_match_tokens_partial", "").replace("_tostr_match_tokens", "") + "_rejects_unbalanced"
    if nm in axioms:
        continue
    out.append("theorem %s %s\n    %s : net s = 0 := by\n  have h := _root_.Fp.Primary.%s %s\n  first\n"
               "    | (obtain ⟨t, _, h1, h2⟩ := h; exact balanced_of_tokens h1 (h2 hbal))\n"
               "    | (obtain ⟨t, _, h1, h2, _⟩ := h; exact balanced_of_tokens h1 (h2 hbal))\n"
               "    | (obtain ⟨t, _, h1, _, h2, _⟩ := h; exact balanced_of_tokens h1 (h2 hbal))\n"
               % (nm, binders, hyp, proof, " ".join(names)))
    stmt = re.sub(r"\s+", " ", binders + " " + hyp + " : net s = 0")
    entries.append({"name": "Fp.Primary.Props." + nm, "file": "FparserModel/Props/Primary.lean", "statement": stmt,
                    "serves": ["C08"], "strength": "partial" if ("SrmOK" in binders or "CallEndOK" in binders or "TripletStrideOK" in binders) else "full",
                    "note": "the matched text is balanced whenever the children's printed texts are: no parenthesis is discarded or absorbed by the class itself (net counts `(` and `)` over the whole text, literals included)"})
    axioms.append(nm)
out.append(open(os.path.join(TOOLS, "props_footer_primary.txt"), encoding="utf-8").read())
out.append("end Fp.Primary.Props\n")
for n_ in axioms:
    out.append("#print axioms Fp.Primary.Props.%s" % n_)
open(os.path.join(ROOT, "FparserModel", "Props", "Primary.lean"), "w", encoding="utf-8").write("\n".join(out) + "\n")
json.dump(entries, open(os.path.join(ROOT, "theorems", "Primary.json"), "w", encoding="utf-8"), indent=1, ensure_ascii=False)
print(len(entries), "theorems;", "MISSING:", missing)
