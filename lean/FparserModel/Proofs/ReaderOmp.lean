import FparserModel.Proofs.ReaderStep

/-!
# ReaderOmp — OpenMP conditional-compilation sentinels (property C15)

Single-line facts about `replace_omp_sentinels` with the three regular expressions, the
free-form comment-line lemma (a sentinel line is an ordinary comment when the flag is off, an
`!$omp` directive is one whatever the flag), and the flag-on equivalences.
-/
namespace Fp.Reader
open Fp

/-! ### list helpers -/

theorem takeWhile_blanks_cons (sp rest : Str) (c : Char) (hsp : Blanks sp) (hc : c ≠ ' ') :
    (sp ++ c :: rest).takeWhile (· == ' ') = sp := by
  induction sp with
  | nil => simp [List.takeWhile_cons, hc]
  | cons a sp ih =>
    have ha : a = ' ' := hsp a List.mem_cons_self
    subst ha
    simp only [List.cons_append, List.takeWhile_cons, beq_self_eq_true, if_true]
    rw [ih (fun y hy => hsp y (List.mem_cons_of_mem _ hy))]

theorem takeWhile_blanks_nil (sp : Str) (hsp : Blanks sp) : sp.takeWhile (· == ' ') = sp := by
  induction sp with
  | nil => rfl
  | cons a sp ih =>
    have ha : a = ' ' := hsp a List.mem_cons_self
    subst ha
    simp only [List.takeWhile_cons, beq_self_eq_true, if_true]
    rw [ih (fun y hy => hsp y (List.mem_cons_of_mem _ hy))]

theorem dropWhile_all (p : Char → Bool) : ∀ l : Str, (∀ x ∈ l, p x = true) → l.dropWhile p = []
  | [], _ => rfl
  | a :: l, h => by
    rw [List.dropWhile_cons, if_pos (h a List.mem_cons_self)]
    exact dropWhile_all p l (fun x hx => h x (List.mem_cons_of_mem _ hx))

def AllSpace (s : Str) : Prop := ∀ c ∈ s, isSpace c = true

theorem Blanks.allSpace {s : Str} (h : Blanks s) : AllSpace s := fun c hc => by
  rw [h c hc]; decide

theorem strip_allSpace {s : Str} (h : AllSpace s) : strip s = [] := by
  unfold strip lstrip rstrip
  have : List.dropWhile isSpace s.reverse = [] :=
    dropWhile_all _ _ (fun x hx => h x (List.mem_reverse.mp hx))
  rw [this]; rfl

theorem lstrip_ws_cons (ws rest : Str) (c : Char) (h : AllSpace ws) (hc : isSpace c = false) :
    lstrip (ws ++ c :: rest) = c :: rest := by
  unfold lstrip
  induction ws with
  | nil => simp [List.dropWhile_cons, hc]
  | cons a ws ih =>
    simp only [List.cons_append, List.dropWhile_cons, h a List.mem_cons_self, if_true]
    exact ih (fun y hy => h y (List.mem_cons_of_mem _ hy))

theorem AllSpace.noC {s : Str} {c : Char} (h : AllSpace s) (hc : isSpace c = false) : NoC c s :=
  fun x hx e => by subst e; rw [h x hx] at hc; cases hc

/-! ### the three sentinel regexes, one line -/

/-- free form, initial line: `sp!$ rest` becomes `sp   rest` (same columns) -/
theorem replaceSentinelFree_sentinel (sp rest : Str) (hsp : Blanks sp) :
    replaceSentinelFree (sp ++ '!' :: '$' :: ' ' :: rest) = (sp ++ ' ' :: ' ' :: ' ' :: rest, true) := by
  unfold replaceSentinelFree
  simp only [takeWhile_blanks_cons sp _ '!' hsp (by decide), List.drop_left]

/-- `omp_directive_untouched`: `!$` not followed by a blank (`!$omp parallel`) is not a
    conditional-compilation sentinel -/
theorem replaceSentinelFree_directive (sp rest : Str) (c : Char) (hsp : Blanks sp) (hc : c ≠ ' ') :
    replaceSentinelFree (sp ++ '!' :: '$' :: c :: rest) = (sp ++ '!' :: '$' :: c :: rest, false) := by
  unfold replaceSentinelFree
  simp only [takeWhile_blanks_cons sp _ '!' hsp (by decide), List.drop_left]
  split
  · rename_i h; simp only [List.cons.injEq, true_and] at h; exact absurd h.1 hc
  · rfl

/-- a line whose first non-blank character is not `!` is untouched -/
theorem replaceSentinelFree_other (sp rest : Str) (c : Char) (hsp : Blanks sp) (hc : c ≠ ' ')
    (hc2 : c ≠ '!') :
    replaceSentinelFree (sp ++ c :: rest) = (sp ++ c :: rest, false) := by
  unfold replaceSentinelFree
  simp only [takeWhile_blanks_cons sp _ c hsp hc, List.drop_left]
  split
  · rename_i h; simp only [List.cons.injEq] at h; exact absurd h.1 hc2
  · rfl

/-- nothing but the sentinel is ever changed: no match, no change -/
theorem replaceSentinelFree_nomatch (line : Str) (h : (replaceSentinelFree line).2 = false) :
    (replaceSentinelFree line).1 = line := by
  unfold replaceSentinelFree at h ⊢
  simp only [] at h ⊢
  split
  · rename_i h2; rw [h2] at h; cases h
  · rfl

/-- the replacement keeps every column where it was -/
theorem replaceSentinelFree_length (line : Str) : (replaceSentinelFree line).1.length = line.length := by
  unfold replaceSentinelFree
  simp only []
  split
  · rename_i rest h
    have := congrArg List.length (List.take_append_drop (List.takeWhile (· == ' ') line).length line)
    rw [h] at this
    simp only [List.length_append, List.length_cons, List.length_take] at this ⊢
    have h2 : (List.takeWhile (· == ' ') line).length ≤ line.length :=
      (List.takeWhile_sublist _).length_le
    omega
  · rfl

/-- free form, continuation line (only used after a sentinel line): `sp!$rest` becomes `sp  rest` -/
theorem replaceSentinelFreeCont_sentinel (sp rest : Str) (hsp : Blanks sp) :
    replaceSentinelFreeCont (sp ++ '!' :: '$' :: rest) = (sp ++ ' ' :: ' ' :: rest, true) := by
  unfold replaceSentinelFreeCont
  simp only [takeWhile_blanks_cons sp _ '!' hsp (by decide), List.drop_left]

theorem replaceSentinelFreeCont_other (sp rest : Str) (c : Char) (hsp : Blanks sp) (hc : c ≠ ' ')
    (hc2 : c ≠ '!') :
    replaceSentinelFreeCont (sp ++ c :: rest) = (sp ++ c :: rest, false) := by
  unfold replaceSentinelFreeCont
  simp only [takeWhile_blanks_cons sp _ c hsp hc, List.drop_left]
  split
  · rename_i h; simp only [List.cons.injEq] at h; exact absurd h.1 hc2
  · rfl

/-- a comment line that is not a sentinel (`! text`) stays a comment line after a sentinel line -/
theorem replaceSentinelFreeCont_comment (sp rest : Str) (c : Char) (hsp : Blanks sp) (hc : c ≠ '$') :
    replaceSentinelFreeCont (sp ++ '!' :: c :: rest) = (sp ++ '!' :: c :: rest, false) := by
  unfold replaceSentinelFreeCont
  simp only [takeWhile_blanks_cons sp _ '!' hsp (by decide), List.drop_left]
  split
  · rename_i h; simp only [List.cons.injEq, true_and] at h; exact absurd h.1 hc
  · rfl

theorem replaceSentinelFreeCont_blank (sp : Str) (hsp : Blanks sp) :
    replaceSentinelFreeCont sp = (sp, false) := by
  unfold replaceSentinelFreeCont
  simp only [takeWhile_blanks_nil sp hsp, List.drop_length]

/-- fixed form: the sentinel (`!$`, `c$`, `C$`, `*$` in columns 1-2, then a valid label field and
    a blank or `0` in column 6, or three blanks and a continuation mark in column 6) is blanked -/
theorem replaceSentinelFixed_match (line : Str) (h : sentinelFixedMatch line = true) :
    replaceSentinelFixed line = (' ' :: ' ' :: line.drop 2, true) := by
  unfold replaceSentinelFixed; rw [if_pos h]

theorem replaceSentinelFixed_nomatch (line : Str) (h : sentinelFixedMatch line = false) :
    replaceSentinelFixed line = (line, false) := by
  unfold replaceSentinelFixed; rw [h]; rfl

/-- `omp_directive_untouched`, fixed form: a non-blank non-digit in column 3 (`!$omp`, `c$omp`) -/
theorem sentinelFixedMatch_directive (a b c2 : Char) (rest : Str) (h1 : c2 ≠ ' ')
    (h2 : isDigit c2 = false) : sentinelFixedMatch (a :: b :: c2 :: rest) = false := by
  unfold sentinelFixedMatch
  match rest with
  | [] => rfl
  | [_] => rfl
  | [_, _] => rfl
  | c3 :: c4 :: c5 :: _ =>
    have e : (c2 == ' ') = false := by simpa using h1
    simp only [h2, Bool.or_false, e, Bool.false_and, Bool.and_false, Bool.or_self]

/-- column-6 rule: an initial line needs a blank or `0` in column 6 … -/
theorem sentinelFixedMatch_init (a : Char) (c2 c3 c4 c5 : Char) (rest : Str)
    (ha : a = '!' ∨ a = '*' ∨ a = 'c' ∨ a = 'C')
    (h2 : c2 = ' ' ∨ isDigit c2 = true) (h3 : c3 = ' ' ∨ isDigit c3 = true)
    (h4 : c4 = ' ' ∨ isDigit c4 = true) (h5 : c5 = ' ' ∨ c5 = '0') :
    sentinelFixedMatch (a :: '$' :: c2 :: c3 :: c4 :: c5 :: rest) = true := by
  unfold sentinelFixedMatch
  have ea : (a == '!' || a == '*' || a == 'c' || a == 'C') = true := by
    rcases ha with rfl | rfl | rfl | rfl <;> decide
  have e2 : (c2 == ' ' || isDigit c2) = true := by rcases h2 with rfl | h <;> simp [*]
  have e3 : (c3 == ' ' || isDigit c3) = true := by rcases h3 with rfl | h <;> simp [*]
  have e4 : (c4 == ' ' || isDigit c4) = true := by rcases h4 with rfl | h <;> simp [*]
  have e5 : (c5 == ' ' || c5 == '0') = true := by rcases h5 with rfl | rfl <;> decide
  simp only [ea, e2, e3, e4, e5, beq_self_eq_true, Bool.and_self, Bool.true_or]

/-- … and a continuation line three blanks and any other character in column 6 -/
theorem sentinelFixedMatch_cont (a : Char) (c5 : Char) (rest : Str)
    (ha : a = '!' ∨ a = '*' ∨ a = 'c' ∨ a = 'C') (h5 : c5 ≠ ' ') (h6 : c5 ≠ '0') :
    sentinelFixedMatch (a :: '$' :: ' ' :: ' ' :: ' ' :: c5 :: rest) = true := by
  unfold sentinelFixedMatch
  have ea : (a == '!' || a == '*' || a == 'c' || a == 'C') = true := by
    rcases ha with rfl | rfl | rfl | rfl <;> decide
  simp [ea, h5, h6]

/-- … anything else in the label field / column 6 leaves the line a comment line -/
theorem sentinelFixedMatch_badcol6 (a b c2 c3 c4 c5 : Char) (rest : Str)
    (h : ¬ (c2 = ' ' ∧ c3 = ' ' ∧ c4 = ' ')) (h5 : c5 ≠ ' ') (h6 : c5 ≠ '0') :
    sentinelFixedMatch (a :: b :: c2 :: c3 :: c4 :: c5 :: rest) = false := by
  unfold sentinelFixedMatch
  have e5 : (c5 == ' ' || c5 == '0') = false := by simp [h5, h6]
  have e234 : (c2 == ' ' && c3 == ' ' && c4 == ' ') = false := by
    by_cases e2 : c2 = ' '
    · by_cases e3 : c3 = ' '
      · by_cases e4 : c4 = ' '
        · exact absurd ⟨e2, e3, e4⟩ h
        · simp [e4]
      · simp [e3]
    · simp [e2]
  simp only [e5, Bool.and_false, e234, Bool.false_and, Bool.or_self]

/-! ### comment lines in free form -/

theorem hic_comment_line (ws body : Str) (n : Nat) (hws : AllSpace ws)
    (hf2py : startsWith ('!' :: body) kF2py = false) :
    handleInlineComment (ws ++ '!' :: body) n none =
      ⟨ws, none, true, [.comment ('!' :: body) n n false]⟩ := by
  have hfind : find (ws ++ '!' :: body) '!' = some ws.length := find_hit (hws.noC (by decide))
  have hq1 : ws.contains '"' = false := contains_false (hws.noC (by decide))
  have hq2 : ws.contains '\'' = false := contains_false (hws.noC (by decide))
  have hl : lstrip (ws ++ '!' :: body) = '!' :: body := lstrip_ws_cons ws body '!' hws (by decide)
  have hc : (ws ++ '!' :: body).contains '!' = true := by simp
  unfold handleInlineComment
  simp only [hc, Bool.not_true, Bool.and_false, Bool.false_and, Bool.false_eq_true, if_false]
  unfold hicQuick
  simp only [hfind, List.take_left', List.drop_left', hq1, hq2, hf2py, hl, Bool.not_false,
    Bool.and_self, if_true, beq_self_eq_true, Bool.not_true]

theorem freeStep_comment_line (ws body : Str) (n : Nat) (hws : AllSpace ws)
    (hf2py : startsWith ('!' :: body) kF2py = false) :
    freeStep false (ws ++ '!' :: body) n none none none =
      ⟨none, none, ⟨ws, none, true, [.comment ('!' :: body) n n false]⟩, ws, false⟩ := by
  have hl : lstrip (ws ++ '!' :: body) = '!' :: body := lstrip_ws_cons ws body '!' hws (by decide)
  have hlab : extractLabel (ws ++ '!' :: body) = (none, ws ++ '!' :: body) := by
    unfold extractLabel labelRe
    simp only [hl]
    have : List.takeWhile isDigit ('!' :: body) = [] := by
      rw [List.takeWhile_cons]; rw [if_neg]; decide
    simp only [this, if_true]
  have hnam : extractName (ws ++ '!' :: body) = (none, ws ++ '!' :: body) := by
    unfold extractName nameRe
    simp only [hl]
    have : List.takeWhile isWord ('!' :: body) = [] := by
      rw [List.takeWhile_cons]; rw [if_neg]; decide
    simp only [this, if_true]
  have hr : rfind ws '&' = none := rfind_none (hws.noC (by decide))
  unfold freeStep
  simp only [Bool.false_eq_true, if_false, hlab, hnam, hic_comment_line ws body n hws hf2py, hr,
    Bool.not_true, Bool.not_false, if_true]

/-- free form: a line whose first non-blank character is `!`, that is not replaced as a sentinel
    and is not an `!f2py` line, is delivered as ONE Comment item spanning that line; only that
    line is consumed -/
theorem getSourceItem_comment_free (r : Rd) (l : Str) (rest : List Str) (ws body : Str)
    (hfifo : r.fifo = []) (h1 : r.filo = []) (h2 : r.closed = false) (h3 : r.isFree = true)
    (hsrc : r.src = l :: rest) (hck : cook l = ws ++ '!' :: body) (hws : AllSpace ws)
    (hom : r.omp = true → (replaceSentinelFree (cook l)).2 = false)
    (hf2py : startsWith ('!' :: body) kF2py = false) :
    getSourceItem r = (.ok (.comment ('!' :: body) (r.linecount + 1) (r.linecount + 1) false),
      { r with src := rest, linecount := r.linecount + 1, linesRev := cook l :: r.linesRev }) := by
  have hl : lstrip (ws ++ '!' :: body) = '!' :: body := lstrip_ws_cons ws body '!' hws (by decide)
  have hom' : (if (r.isFree && r.omp) = true then replaceSentinelFree (cook l) else (cook l, false))
      = (cook l, false) := by
    by_cases ho : r.omp = true
    · simp only [h3, ho, Bool.and_self, if_true]
      exact Prod.ext (replaceSentinelFree_nomatch _ (hom ho)) (hom ho)
    · simp only [ho, Bool.and_false, Bool.false_eq_true, if_false]
  obtain ⟨src, closed, filo, fifo, lc, linesRev, isFree, ic, omp, dirs⟩ := r
  simp only [] at hfifo h1 h2 h3 hsrc hom'
  subst hfifo h1 h2 h3 hsrc
  unfold getSourceItem
  rw [getSingleLine_free _ l rest rfl rfl rfl rfl]
  have hcpp : startsWith (lstrip (cook l)) ['#'] = false := by
    rw [hck, hl]; simp [startsWith]
  simp only [hcpp, Bool.and_false, Bool.false_eq_true, if_false, Bool.not_true, hom']
  unfold freeItem
  simp only []
  obtain ⟨n, hn⟩ : ∃ n, rest.length + ([] : List Str).length + 2 = n + 1 := ⟨_, rfl⟩
  rw [hn]
  unfold freeLoop
  simp only [Bool.false_eq_true, if_false, Bool.false_and, hck,
    freeStep_comment_line ws body (lc + 1) hws hf2py, List.nil_append,
    strip_allSpace hws, bne_self_eq_false, Option.isSome_none]

/-! ### single-line statements: `freeItem` in closed form -/

/-- the result of `get_source_item` for a free-form line without continuation, as a function of
    what `freeStep` extracted from it -/
def singleOut (stp : FreeStep) (s : Nat) (r : Rd) : Res Item × Rd :=
  let r1 := { r with fifo := r.fifo ++ stp.h.comments }
  let content := strip stp.piece
  if content != [] then (.ok (.line content stp.label stp.name s r.linecount), r1)
  else if stp.label.isSome && warnRaises r1 then (.err, r1)
  else if stp.name.isSome then (if warnRaises r1 then .err else .exit, r1)
  else match r1.fifo with
    | it :: rest => (.ok it, { r1 with fifo := rest })
    | [] => (.ok (.comment [] s r.linecount false), r1)

theorem freeItem_single (r : Rd) (line : Str) (b : Bool) (s : Nat)
    (hb : b = true → (replaceSentinelFreeCont line).1 = line)
    (hm : (freeStep false line r.linecount none none none).more = false) :
    freeItem r line b s = singleOut (freeStep false line r.linecount none none none) s r := by
  have hline : (if b = true then (replaceSentinelFreeCont line).1 else line) = line := by
    cases b with
    | false => rfl
    | true => simp only [if_true]; exact hb rfl
  unfold freeItem
  simp only []
  obtain ⟨n, hn⟩ : ∃ n, r.src.length + r.filo.length + 2 = n + 1 := ⟨_, rfl⟩
  rw [hn]
  unfold freeLoop
  simp only [hline, Bool.false_and, Bool.false_eq_true, if_false, hm, List.nil_append]
  rfl

/-- `singleOut` neither reads nor writes the `omp` flag and only looks at the length of
    `source_lines` -/
theorem singleOut_flags (stp : FreeStep) (s : Nat) (r : Rd) (o : Bool) (ls : List Str)
    (hlen : ls.length = r.linesRev.length) :
    singleOut stp s { r with omp := o, linesRev := ls } =
      ((singleOut stp s r).1, { (singleOut stp s r).2 with omp := o, linesRev := ls }) := by
  unfold singleOut warnRaises
  simp only [hlen]
  split
  · rfl
  · split
    · rfl
    · split
      · rfl
      · split <;> rfl

/-- flag on, free form: a sentinel line is read as `freeItem` of the line with the sentinel
    blanked, remembering that a sentinel was seen -/
theorem getSourceItem_omp_free (r : Rd) (l : Str) (tail : List Str) (sp x : Str)
    (h1 : r.filo = []) (h2 : r.closed = false) (h3 : r.isFree = true) (h4 : r.omp = true)
    (hsrc : r.src = l :: tail) (hck : cook l = sp ++ '!' :: '$' :: ' ' :: x) (hsp : Blanks sp) :
    getSourceItem r =
      freeItem { r with src := tail, linecount := r.linecount + 1, linesRev := cook l :: r.linesRev }
        (sp ++ ' ' :: ' ' :: ' ' :: x) true (r.linecount + 1) := by
  unfold getSourceItem
  rw [getSingleLine_free r l tail h1 h2 h3 hsrc]
  have hl : lstrip (cook l) = '!' :: '$' :: ' ' :: x := by
    rw [hck]; exact lstrip_ws_cons sp _ '!' hsp.allSpace (by decide)
  have hcpp : startsWith (lstrip (cook l)) ['#'] = false := by rw [hl]; simp [startsWith]
  simp only [hcpp, Bool.and_false, Bool.false_eq_true, if_false, h3, h4, Bool.and_self, if_true,
    Bool.not_true]
  rw [hck, replaceSentinelFree_sentinel sp x hsp]

/-- flag off (or no sentinel), free form, not a preprocessor line -/
theorem getSourceItem_plain_free (r : Rd) (l : Str) (tail : List Str)
    (h1 : r.filo = []) (h2 : r.closed = false) (h3 : r.isFree = true)
    (hsrc : r.src = l :: tail) (hcpp : startsWith (lstrip (cook l)) ['#'] = false)
    (hom : r.omp = true → (replaceSentinelFree (cook l)).2 = false) :
    getSourceItem r =
      freeItem { r with src := tail, linecount := r.linecount + 1, linesRev := cook l :: r.linesRev }
        (cook l) false (r.linecount + 1) := by
  have hom' : (if (r.isFree && r.omp) = true then replaceSentinelFree (cook l) else (cook l, false))
      = (cook l, false) := by
    by_cases ho : r.omp = true
    · simp only [h3, ho, Bool.and_self, if_true]
      exact Prod.ext (replaceSentinelFree_nomatch _ (hom ho)) (hom ho)
    · simp only [ho, Bool.and_false, Bool.false_eq_true, if_false]
  unfold getSourceItem
  rw [getSingleLine_free r l tail h1 h2 h3 hsrc]
  simp only [hcpp, Bool.and_false, Bool.false_eq_true, if_false, h3, Bool.not_true]
  simp only [h3] at hom'
  rw [hom']

/-- `omp_enabled`, free form, statement on one line: with the flag on, `sp!$ x` is read exactly
    like the line `sp   x` is read with the flag off (same item: text, label, name, span, buffered
    inline comment); the two final states differ only in the flag and in the recorded text of
    that source line. -/
theorem getSourceItem_omp_single (r : Rd) (l l' : Str) (tail : List Str) (sp x : Str)
    (h1 : r.filo = []) (h2 : r.closed = false) (h3 : r.isFree = true) (h4 : r.omp = true)
    (hsrc : r.src = l :: tail) (hck : cook l = sp ++ '!' :: '$' :: ' ' :: x) (hsp : Blanks sp)
    (hck' : cook l' = sp ++ ' ' :: ' ' :: ' ' :: x)
    (hcpp : startsWith (lstrip (sp ++ ' ' :: ' ' :: ' ' :: x)) ['#'] = false)
    (hcont : (replaceSentinelFreeCont (sp ++ ' ' :: ' ' :: ' ' :: x)).1 = sp ++ ' ' :: ' ' :: ' ' :: x)
    (hsingle : (freeStep false (sp ++ ' ' :: ' ' :: ' ' :: x) (r.linecount + 1) none none none).more = false) :
    getSourceItem r =
      ((getSourceItem { r with omp := false, src := l' :: tail }).1,
       { (getSourceItem { r with omp := false, src := l' :: tail }).2 with
           omp := true, linesRev := cook l :: r.linesRev }) := by
  rw [getSourceItem_omp_free r l tail sp x h1 h2 h3 h4 hsrc hck hsp]
  rw [getSourceItem_plain_free { r with omp := false, src := l' :: tail } l' tail h1 h2 h3 rfl
    (by rw [hck']; exact hcpp) (fun h => by cases h)]
  rw [hck']
  have e1 := freeItem_single
    { r with src := tail, linecount := r.linecount + 1, linesRev := cook l :: r.linesRev }
    (sp ++ ' ' :: ' ' :: ' ' :: x) true (r.linecount + 1) (fun _ => hcont) hsingle
  have e2 := freeItem_single
    { r with omp := false, src := tail, linecount := r.linecount + 1,
             linesRev := (sp ++ ' ' :: ' ' :: ' ' :: x) :: r.linesRev }
    (sp ++ ' ' :: ' ' :: ' ' :: x) false (r.linecount + 1) (fun h => by cases h) hsingle
  have e3 := singleOut_flags (freeStep false (sp ++ ' ' :: ' ' :: ' ' :: x) (r.linecount + 1) none none none)
    (r.linecount + 1)
    { r with omp := false, src := tail, linecount := r.linecount + 1,
             linesRev := (sp ++ ' ' :: ' ' :: ' ' :: x) :: r.linesRev }
    true (cook l :: r.linesRev) (by simp)
  refine e1.trans ?_
  refine Eq.trans ?_ (e3.trans ?_)
  · simp only [h4]
  · rw [← e2]

end Fp.Reader
