import FparserModel.Proofs.Reader3TermNext
import FparserModel.Proofs.ReaderDrain

/-!
# Reader3TermDrain — `drain` terminates (property C06, reader part)

* (H1) `NoFiles fs`: no path of the abstract file system is a regular file, so no INCLUDE line
  resolves and the chain of readers stays a singleton: `getItem_single_noFiles`.
* (H2) `NoSplit r` (see `Reader3TermNext`).

`drain_noFiles_aux`: with `weight + 1` calls of `get_item` the drain is complete.
-/
namespace Fp.Reader
open Fp

/-- (H1) nothing in the file system is a regular file: no INCLUDE line can resolve -/
def NoFiles (fs : Fs) : Prop := ∀ p a b ls, fs.get p ≠ some (.file a b ls)

theorem NoFiles.nil : NoFiles [] := fun p a b ls h => by simp [Fs.get] at h

/-- under (H1) `get_item` on a reader without include reader is `_next` with `Exception → None`,
    and no include reader is ever started -/
theorem getItem_single_noFiles (d : Nat) (fs : Fs) (r : Rd) (h : NoFiles fs) :
    getItem (d + 1) fs [r] = (errToStop (next1 r).1, [(next1 r).2]) := by
  unfold getItem next nextChain nextMain
  simp only []
  cases h1 : (next1 r).1 with
  | ok it =>
    simp only [errToStop]
    cases hv : it.lineView with
    | none => rfl
    | some v =>
      obtain ⟨text, l, n, s, e⟩ := v
      simp only []
      rw [resolveInclude_missing fs (next1 r).2 text (fun a b ls => h _ a b ls)]
      simp
  | stop => rfl
  | err => rfl
  | exit => rfl
  | unsup => rfl

theorem getLast?_cons_of_some {α} (a : α) (l : List α) (e : α) (h : l.getLast? = some e) :
    (a :: l).getLast? = some e := by
  cases l with
  | nil => simp at h
  | cons b t => rw [List.getLast?_cons_cons]; exact h

theorem drain_noFiles_aux (d : Nat) (fs : Fs) (hfs : NoFiles fs) : ∀ (fuel : Nat) (r : Rd),
    NoSplit r → r.weight + 1 ≤ fuel →
    ∃ evs fin, drainEv (d + 1) fs fuel [r] = some (evs, [fin]) ∧ evs.length ≤ r.weight ∧
      Ev.unsup ∉ evs ∧ (exhausted [fin] = true ∨ evs.getLast? = some .exit)
  | 0, r, _, h => absurd h (by omega)
  | f + 1, r, hns, hf => by
    have hg := getItem_single_noFiles d fs r hfs
    have hp := hns.prog
    have hns' : NoSplit (next1 r).2 := hns.step
    cases hn : next1 r with
    | mk res r' =>
      rw [hn] at hg hp hns'
      simp only [] at hg hns'
      have ih := drain_noFiles_aux d fs hfs f r' hns'
      have hrec : r'.weight < r.weight →
          ∃ evs fin, drainEv (d + 1) fs f [r'] = some (evs, [fin]) ∧ evs.length + 1 ≤ r.weight ∧
            Ev.unsup ∉ evs ∧ (exhausted [fin] = true ∨ evs.getLast? = some .exit) := fun hlt => by
        obtain ⟨evs, fin, h1, h2, h3, h4⟩ := ih (by omega)
        exact ⟨evs, fin, h1, by omega, h3, h4⟩
      unfold drainEv
      simp only [hg]
      cases res with
      | ok x =>
        simp only [errToStop]
        obtain ⟨evs, fin, h1, h2, h3, h4⟩ := hrec (hp.lt (by simp))
        refine ⟨.item x :: evs, fin, by simp [h1], by simpa using h2, by simp [h3], ?_⟩
        exact h4.imp id (getLast?_cons_of_some _ _ _)
      | stop =>
        simp only [errToStop]
        by_cases hex : exhausted [r'] = true
        · simp only [hex, if_true]
          exact ⟨[], r', rfl, by simp, by simp, Or.inl hex⟩
        · simp only [hex]
          have hlt : r'.weight < r.weight := (hp.stop rfl).resolve_left hex
          obtain ⟨evs, fin, h1, h2, h3, h4⟩ := hrec hlt
          refine ⟨.none :: evs, fin, by simp [h1], by simpa using h2, by simp [h3], ?_⟩
          exact h4.imp id (getLast?_cons_of_some _ _ _)
      | err =>
        simp only [errToStop]
        by_cases hex : exhausted [r'] = true
        · simp only [hex, if_true]
          exact ⟨[], r', rfl, by simp, by simp, Or.inl hex⟩
        · simp only [hex]
          obtain ⟨evs, fin, h1, h2, h3, h4⟩ := hrec (hp.lt (by simp))
          refine ⟨.none :: evs, fin, by simp [h1], by simpa using h2, by simp [h3], ?_⟩
          exact h4.imp id (getLast?_cons_of_some _ _ _)
      | exit =>
        simp only [errToStop]
        have hlt : r'.weight < r.weight := hp.lt (by simp)
        exact ⟨[.exit], r', rfl, by simp; omega, by simp, Or.inr rfl⟩
      | unsup => exact absurd rfl hp.sup

end Fp.Reader
