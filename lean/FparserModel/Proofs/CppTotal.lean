import FparserModel.Proofs.CppFix

/-! # Cpp slice: which directive-shaped lines are classified -/
namespace Fp.Cpp
open Fp

theorem classify_eq_of_expected {l : Str} {c : Cls} (he : expected l = some c) :
    classify l = matchCls c l := by
  cases h : matchCls c l with
  | some n => exact classify_of_match h
  | none => exact classify_none_of_expected he h

theorem lstrip_ne_of_strip {s : Str} (h : strip s ≠ []) : lstrip s ≠ [] := by
  intro h0; exact h (strip_allSp (lstrip_eq_nil h0))

/-- a keyword-driven class on a line of known shape: accepted or not -/
theorem word_isSome {c : Cls} {l w rest : Str} (hs : shape l = some (w, rest)) (hw : w ∈ kwsOf c) :
    (matchCls c l).isSome =
      (if strip rest = [] then !requireCls c
       else if identArg w then absMacroName (strip rest) else true) := by
  have hb := (shape_elim hs).choose_spec.choose_spec.2.2.2.1
  rw [matchCls_word_eval hs hw]
  by_cases hr : strip rest = []
  · rw [if_pos hr]
    have hsp := strip_eq_nil hr
    cases hq : requireCls c with
    | true => rw [wordTail_reject (Or.inl ⟨hsp, rfl⟩)]; rfl
    | false => rw [wordTail_noarg hb hsp]; rfl
  · rw [if_neg hr]
    have hl := lstrip_ne_of_strip hr
    by_cases hi : identArg w = true
    · rw [if_pos hi]
      cases ha : absMacroName (strip rest) with
      | true =>
        have := argOf_intro (w := w) (l := lstrip rest) (by rw [strip_lstrip]; exact hr)
          (by intro _; rw [strip_lstrip]; exact ha)
        rw [wordTail_arg hb hl this]; rfl
      | false =>
        have : argOf w (lstrip rest) = none := by
          rw [argOf_ident hi]; simp [macroIdent, strip_lstrip, ha]
        rw [wordTail_reject (Or.inr ⟨hl, this⟩)]; rfl
    · rw [if_neg hi]
      have := argOf_intro (w := w) (l := lstrip rest) (by rw [strip_lstrip]; exact hr)
        (by intro h; exact absurd h hi)
      rw [wordTail_arg hb hl this]; rfl

theorem include_isSome {l rest : Str} (hs : shape l = some (kInclude, rest)) :
    (matchCls .includeStmt l).isSome = (includeArg (strip rest)).isSome := by
  obtain ⟨rest', h1, h2⟩ := shape_hashKw_strip KW_include hs
  rw [matchInclude_eq l (shape_ne_nil hs), h1]
  simp only [h2]
  cases includeArg (strip rest) <;> rfl

theorem macro_isSome {l rest : Str} (hs : shape l = some (kDefine, rest)) :
    (matchCls .macroStmt l).isSome = (macroArg (strip rest)).isSome := by
  obtain ⟨rest', h1, h2⟩ := shape_hashKw_strip KW_define hs
  rw [matchMacro_eq l (shape_ne_nil hs), h1]
  simp only [h2]

theorem kwTable_cases {w : Str} {c : Cls} (h : kwClass w = some c) :
    (w ∈ kwsOf c) ∨ (w = kElse ∧ c = .elseStmt) ∨ (w = kEndif ∧ c = .endifStmt) ∨
      (w = kInclude ∧ c = .includeStmt) ∨ (w = kDefine ∧ c = .macroStmt) := by
  have := lookup_mem h
  simp only [kwTable, List.mem_cons, Prod.mk.injEq, List.not_mem_nil, or_false] at this
  rcases this with ⟨rfl, rfl⟩ | ⟨rfl, rfl⟩ | ⟨rfl, rfl⟩ | ⟨rfl, rfl⟩ | ⟨rfl, rfl⟩ | ⟨rfl, rfl⟩ |
    ⟨rfl, rfl⟩ | ⟨rfl, rfl⟩ | ⟨rfl, rfl⟩ | ⟨rfl, rfl⟩ | ⟨rfl, rfl⟩ | ⟨rfl, rfl⟩ <;> simp [kwsOf]

/-- (c) a line `# w rest` whose word `w` is a known keyword of class `c` is classified exactly
when its payload is acceptable, and then by class `c` -/
theorem classify_shaped' {l w rest : Str} {c : Cls} (hs : shape l = some (w, rest))
    (hk : kwClass w = some c) :
    classify l = matchCls c l ∧ (matchCls c l).isSome = payloadOK c w rest := by
  refine ⟨classify_eq_of_expected (expected_of_shape hs hk), ?_⟩
  rcases kwTable_cases hk with hw | ⟨rfl, rfl⟩ | ⟨rfl, rfl⟩ | ⟨rfl, rfl⟩ | ⟨rfl, rfl⟩
  · rw [word_isSome hs hw]
    cases c <;> simp only [kwsOf, List.not_mem_nil] at hw
    case errorStmt | warningStmt =>
      have hi : identArg w = false := by
        simp only [List.mem_cons, List.not_mem_nil, or_false] at hw; subst hw; decide
      simp [payloadOK, requireCls, hi]
    all_goals
      simp only [payloadOK, requireCls]
      by_cases hr : strip rest = []
      · simp [hr, absMacroName]
      · cases hi : identArg w
        · simp [hr]
        · simp [hr]
  · rw [matchElse_intro hs]; rfl
  · rw [matchEndif_intro hs]; rfl
  · exact include_isSome hs
  · exact macro_isSome hs

end Fp.Cpp
