SRM = ("hypothesis SrmOK (decidable; = the two hypotheses of srm_roundtrip_partial: no F2PY in the text handed to "
       "string_replace_map, no exponent constant ending in _/F/F2/F2P) - outside it string_replace_map itself loses text")
CALL = ("FULL STATEMENT FALSE for CallBase: it tests string.rstrip()[-1]==')' on the ORIGINAL text but cuts at rfind(')') of the "
        "TOKENISED text; hypotheses SrmOK and CallEndOK (both decidable); witnesses CALLBase_drops_text / CallBase_drops_text of Props/IoStmt.lean")
a = ["C02", "C08"]
# ---- combinator instances (Proofs/PrimaryCombi.lean)
for c in ["Part_Ref", "Function_Reference", "Structure_Constructor", "Derived_Type_Spec", "Array_Section", "Substring"]:
    add(c + "_tostr_match_tokens_partial", c + "_tostr_match_tokens_partial", a, "partial", "instance of CallBase: lhs(rhs) printed as `lhs(rhs)`; " + CALL)
add("Intrinsic_Function_Reference_tostr_match_tokens_partial", "Intrinsic_Function_Reference_tostr_match_tokens_partial", a, "partial",
    "for ANY table decision iv (symbol table / argument-count table): when the match is accepted the tokens are those of the input; the name is upper-cased by Intrinsic_Name (toks folds case); " + CALL)
add("callcls_rejects_unbalanced", "CallBase_rejects_unbalanced", ["C08"], "partial",
    "a CallBase class that accepts a text with net parenthesis excess != 0 has handed an unbalanced text to a child: the shape layer never absorbs a parenthesis; " + CALL)
add("Part_Ref_rejects_unbalanced", "Part_Ref_rejects_unbalanced", ["C08"], "partial", "echo children: some child TEXT is unbalanced (catches a Part_Ref.match that swallows a trailing `)`)")
add("Part_Ref_rejects_unbalanced_any", "Part_Ref_rejects_unbalanced_any", ["C08"], "partial", "the same for every OracleTok oracle")
add("Part_Ref_stray_paren_witness", "Part_Ref_stray_paren_witness", ["C08"], "witness", "Part_Ref.match('a(1))') = (Part_Name 'a', Section_Subscript_List '1)') : the stray parenthesis is handed on (the child rejects it); replayed on the real CallBase.match")
add("Part_Ref_stray_paren_blank_witness", "Part_Ref_stray_paren_blank_witness", ["C08"], "witness", "the same for 'a(1)) '")
add("Parenthesis_tostr_match_tokens", "Parenthesis_tostr_match_tokens", a, "full", "( expr ) : instance of BracketBase")
add("bracketAny_tostr_match_tokens", "BracketBase_any_tostr_match_tokens", a, "full", "BracketBase for ANY balanced bracket pair (`()`, `(//)`, `[]`): exact printed form left ++ child ++ right, the text starts / ends with the brackets")
add("Array_Constructor_tostr_match_tokens", "Array_Constructor_tostr_match_tokens", a, "full",
    "both spellings, the try/except of Array_Constructor.match included: `(/ x /)` prints `(/x/)`, `[ x ]` prints `[x]` - the brackets printed are the ones read (a change that prints `(/ /)` for `[ ]` or drops the type-spec falsifies this); no tokeniser: no hypothesis")
for c in ["Substring_Range", "Bounds_Remapping", "Bounds_Spec"]:
    add(c + "_tostr_match_tokens_partial", c + "_tostr_match_tokens_partial", a, "partial", "instance of SeparatorBase (`lhs : rhs`); " + SRM)
add("sepNoRhs_tostr_match_tokens", "SeparatorBase_noRhs_tostr_match_tokens", a, "partial", "SeparatorBase with rhs_cls=None (Bounds_Spec): the second item is None; " + SRM)
add("Component_Spec_tostr_match_tokens", "Component_Spec_tostr_match_tokens", a, "full", "[keyword =] value: split at the FIRST `=`")
add("Actual_Arg_Spec_tostr_match_tokens", "Actual_Arg_Spec_tostr_match_tokens", a, "full", "[keyword =] actual-arg: split at the FIRST `=`")
add("List_tostr_match_tokens_partial", "List_tostr_match_tokens_partial", a, "partial", "every generated *_List class; " + SRM)
for c in ["Ac_Value_List", "Component_Spec_List", "Actual_Arg_Spec_List", "Section_Subscript_List", "Bounds_Spec_List", "Bounds_Remapping_List"]:
    add(c + "_tostr_match_tokens_partial", c + "_tostr_match_tokens_partial", a, "partial", "instance of SequenceBase(','); " + SRM)
add("seqChar_tostr_match_tokens", "SequenceBase_char_tostr_match_tokens", a, "partial", "SequenceBase for any one-character non-word separator: printed with ` sep `; " + SRM)
add("Data_Ref_tostr_match_tokens_partial", "Data_Ref_tostr_match_tokens_partial", a, "partial",
    "a % b % c (as of /repo 2a636f5: `None` at once when the tokenised text has no `%`): more than one part (a single part is `None`: the subclass Part_Ref takes it), printed with ` % ` between the parts; " + SRM)
# ---- literal constants, names (Proofs/PrimaryLit.lean)
add("planNumber_exact", "NumberBase_exact", ["C02", "C03"], "full", "EXACT: NumberBase.match(pattern, s) = (value.upper(), kind) of the scanner run on s.replace(' ', ''), and tostr prints upper(value)[_kind]")
add("number_kind_case_kept", "NumberBase_kind_case_kept", ["C02"], "full", "the kind suffix is printed exactly as written (case kept), only the value is upper-cased")
for c in ["Int_Literal_Constant", "Signed_Int_Literal_Constant", "Real_Literal_Constant", "Signed_Real_Literal_Constant", "Logical_Literal_Constant"]:
    add(c + "_tostr_match_tokens", c + "_tostr_match_tokens", a, "full", "no hypothesis: the printed literal has the tokens of the input (toks deletes blanks: `1 2` prints `12` - witness intLit_drops_inner_blank - and folds case: `.true.` prints `.TRUE.`, `1e3` prints `1E3`)")
add("number_case_witness", "NumberBase_case_witness", ["C02"], "witness", "`.true._k` prints `.TRUE._k`, `1.0e-3_wp` prints `1.0E-3_wp`")
add("intLit_drops_inner_blank", "Int_Literal_Constant_drops_inner_blank", ["C02"], "witness", "DEFECT: Int_Literal_Constant('1 2') = ('12', None): a blank inside a literal is dropped (free form: `x = 1 2` is accepted and regenerated as `x = 12`; replayed)")
add("Name_tostr_exact", "Name_tostr_exact", ["C02"], "full", "Name prints string.strip() exactly (case kept)")
add("Name_tostr_match_tokens", "Name_tostr_match_tokens", a, "full", "")
add("Type_Name_tostr_match_tokens", "Type_Name_tostr_match_tokens", a, "full", "")
add("Boz_tostr_exact", "Boz_tostr_exact", ["C02"], "full", "BOZ constants print the upper-cased input exactly")
for c in ["Binary_Constant", "Octal_Constant", "Hex_Constant"]:
    add(c + "_tostr_match_tokens", c + "_tostr_match_tokens", a, "full", "")
# ---- hand-written matchers (Proofs/PrimaryHand.lean, PrimaryHandMore.lean)
add("Subscript_Triplet_tostr_match_tokens_partial", "Subscript_Triplet_tostr_match_tokens_partial", a, "partial",
    "FULL STATEMENT FALSE: `1:2:` prints `1 : 2` (witness Subscript_Triplet_drops_colon); hypothesis TripletStrideOK (decidable: with two colons the stride text is not empty) and SrmOK")
add("subscriptTriplet_drops_colon", "Subscript_Triplet_drops_colon", ["C02"], "witness", "DEFECT: Subscript_Triplet('1:2:') is accepted and prints `1 : 2` (replayed: `x = a(1:2:)` regenerated as `x = a(1 : 2)`)")
add("Alt_Return_Spec_tostr_match_tokens", "Alt_Return_Spec_tostr_match_tokens", a, "full", "")
add("Complex_Literal_Constant_tostr_match_tokens", "Complex_Literal_Constant_tostr_match_tokens", a, "full", "(re, im): the parts are children (Real_Part / Imag_Part)")
add("Ac_Spec_tostr_match_tokens", "Ac_Spec_tostr_match_tokens", a, "partial", "type-spec :: [values]: the type-spec is never dropped; " + SRM)
add("Ac_Implied_Do_tostr_match_tokens", "Ac_Implied_Do_tostr_match_tokens", a, "partial", "(values, control) split at the last `,` before the last `=`; " + SRM)
add("Ac_Implied_Do_Control_tostr_match_tokens", "Ac_Implied_Do_Control_tostr_match_tokens", a, "partial", "var = e1, e2 [, e3]; " + SRM)
add("binStr_tostr_match_tokens", "BinaryOpBase_str_tostr_match_tokens", a, "partial", "BinaryOpBase with a string operator, both split directions; " + SRM)
add("binPercent_tostr_match_tokens", "BinaryOpBase_percent_tostr_match_tokens", a, "partial", "BinaryOpBase with the compiled `%` pattern (Pattern.rsplit); " + SRM)
for c in ["Assignment_Stmt", "Proc_Component_Ref", "Data_Pointer_Object", "Type_Param_Inquiry", "Procedure_Designator"]:
    add(c + "_tostr_match_tokens", c + "_tostr_match_tokens", a, "partial", "instance of BinaryOpBase; " + SRM)
add("Pointer_Assignment_Stmt_tostr_match_tokens", "Pointer_Assignment_Stmt_tostr_match_tokens", a, "partial", "all four forms (the two try/except attempts included); " + SRM)
add("charLit_canonical", "Char_Literal_Constant_canonical", ["C02"], "witness", "`k _ 'pre'` prints `k_'pre'`")
add("charLit_prints_placeholder", "Char_Literal_Constant_prints_placeholder", ["C02"], "witness",
    "DEFECT: Char_Literal_Constant(\"1.5e3_'a'\") is accepted and prints F2PY_REAL_CONSTANT_1__'a' (the kind is taken from the tokenised line and never mapped back); replayed: `x = 1.5e3_'a'` is regenerated as `x = F2PY_REAL_CONSTANT_1__'a'`")
# ---- (c) totality (Proofs/PrimaryTotal.lean)
c6 = ["C06"]
add("match_total", "match_total", c6, "full", "ALL 45 classes with a match, both standards, any table decision, any oracle: an exception escaping from `match` is string_replace_map's KeyError, the InternalSyntaxError of Intrinsic_Function_Reference (only when the table decision says so), or was raised inside a child call; NO ValueError/TypeError/IndexError/AssertionError/InternalError originates in the layer")
add("match_total_intrinsic", "Intrinsic_Function_Reference_match_total", c6, "full", "sharp form for the intrinsic class")
add("match_total_closed", "match_total_closed", c6, "full", "children that raise nothing + a table that never says syntaxError: only KeyError is left")
add("planComplex_no_valueError", "Complex_Literal_Constant_no_ValueError", c6, "full", "the unpacking `r, i = …split(',')` cannot fail: the regex guarantees exactly one comma")
add("tostrOf_total", "tostr_total", c6, "partial", "str(node) of a freshly matched node does not raise, every class except Char_Literal_Constant (its InternalError needs the value to be non-empty after repmap: not proved)")
# ---- (b) fixpoints (Proofs/PrimaryFix.lean)
c1 = ["C02", "C03"]
add("Name_match_tostr_fixpoint", "Name_match_tostr_fixpoint", c1, "full", "parse → print → parse gives the same node")
add("Type_Name_match_tostr_fixpoint_partial", "Type_Name_match_tostr_fixpoint_partial", c1, "partial", "hypothesis: the stripped text is not an intrinsic type name (witness Type_Name_fixpoint_fails)")
add("Type_Name_fixpoint_fails", "Type_Name_fixpoint_fails", c1, "witness", "DEFECT: Type_Name(' integer') is accepted (the intrinsic-type test runs on the UNSTRIPPED text) and prints `integer`, which Type_Name rejects")
add("planBoz_match_tostr_fixpoint", "Boz_match_tostr_fixpoint", c1, "full", "")
for c in ["Binary_Constant", "Octal_Constant", "Hex_Constant", "Int_Literal_Constant"]:
    add(c + "_match_tostr_fixpoint", c + "_match_tostr_fixpoint", c1, "full", "unconditional")
add("Alt_Return_Spec_match_tostr_fixpoint", "Alt_Return_Spec_match_tostr_fixpoint", c1, "partial", "under a re-match hypothesis on the label child")
# ---- remaining literal fixpoints (Proofs/PrimaryFix2.lean)
for c in ["Signed_Int_Literal_Constant", "Real_Literal_Constant", "Signed_Real_Literal_Constant", "Logical_Literal_Constant"]:
    add(c + "_match_tostr_fixpoint", c + "_match_tostr_fixpoint", c1, "full", "unconditional (tabs inside the value are kept by match and skipped again by the re-scan: witness real_tab_witness)")
add("number_fixpoint", "NumberBase_fixpoint", c1, "full", "generic: any scanner of the shape `value scanner, then kind tail` whose value scanner is prefix-stable and case-blind")
# ---- Char_Literal_Constant (Proofs/PrimaryChar.lean)
add("Char_Literal_Constant_tostr_match_tokens_partial", "Char_Literal_Constant_tostr_match_tokens_partial", a, "partial",
    "FULL STATEMENT FALSE even under SrmOK (witness Char_Literal_Constant_kind_plain_necessary): hypotheses SrmOK (strip s) and CharKindPlain s (decidable: the tokenised text before the first quote contains no placeholder); the InternalError branch of tostr is proved unreachable")
add("Char_Literal_Constant_tostr_exact_partial", "Char_Literal_Constant_tostr_exact_partial", ["C02"], "partial",
    "EXACT canonical form kind ++ \"_\" ++ value, equal to the input after deleting blanks (no case folding)")
add("charKindPlain_necessary", "Char_Literal_Constant_kind_plain_necessary", ["C02"], "witness", "1.5e3_'a': SrmOK holds, CharKindPlain fails, the printed text is F2PY_REAL_CONSTANT_1__'a'")
# ---- (e) order / ambiguity (Proofs/PrimaryChoice.lean)
c3 = ["C03"]
add("primaryAlternatives_f2003", "primaryAlternatives_f2003", c3, "full", "the REAL flattened Base.subclasses['Primary'] (read from Generated/Classes2003.lean): 18 classes in this order; a reordering in /repo falsifies this by kernel evaluation")
add("primaryAlternatives_f2008", "primaryAlternatives_f2008", c3, "full", "the same list under f2008")
add("realTable_f2008_eq_f2003", "realTable_f2008_eq_f2003", c3, "full", "for every class of the slice the subclass lists of the two standards coincide")
for n_ in ["subs_Designator", "subs_Variable", "subs_Data_Ref", "subs_Part_Ref", "subs_Array_Section", "subs_Constant", "subs_Section_Subscript",
           "subs_Actual_Arg", "subs_Component_Data_Source", "subs_Parent_String", "subs_Procedure_Designator", "subs_Level_1_Expr"]:
    add(n_, n_, c3, "full", "real subclass list (both standards)")
add("subLoop_first_ok", "subLoop_first_ok", c3, "full", "the subclass loop returns the FIRST alternative (not already in parent_cls) that does not end in `no match`; the count is the sum over the tried ones")
add("subLoop_raises_wins", "subLoop_raises_wins", ["C03", "C06"], "full", "an exception of an earlier alternative hides later accepting ones (Primary('sin()') raises although Structure_Constructor accepts)")
add("subLoop_noMatch_iff", "subLoop_noMatch_iff", c3, "full", "")
add("subLoop_answer_iff", "subLoop_answer_iff", c3, "full", "")
add("new_Data_Ref", "new_Data_Ref", ["C03", "C20"], "full", "Base.__new__(Data_Ref, s) = the first of Data_Ref.match, Part_Ref.match (its subclass) that answers; Part_Ref's own subclass Name is skipped (already in parent_cls). Since /repo 2a636f5 Data_Ref.match makes no child call for a single part, so Part_Ref runs ONCE (before: twice)")
add("primary_choice", "primary_choice", c3, "full",
    "DECISION TABLE, for every text, table decision, external function and fuel: Primary(s) is the answer (object or escaping exception) of the first class of choiceOrder = [Intrinsic_Function_Reference, Int_, Real_, Complex_, Logical_, Char_Literal_Constant, Binary_, Octal_, Hex_Constant, Name, Data_Ref, Part_Ref, Array_Section, Substring, Array_Constructor, Structure_Constructor, Function_Reference, Type_Param_Inquiry, Parenthesis] whose `match` is not None")
add("primary_choice_construct", "primary_choice_construct", c3, "full", "the same for `construct` (fuel = need s)")
add("primary_choice_winner", "primary_choice_winner", c3, "full", "")
add("primary_noMatch_iff", "primary_noMatch_iff", c3, "full", "Primary(s) is `no match` iff every class of choiceOrder refuses")
add("primary_choice_reference", "primary_choice_reference", c3, "full", "for `name ( args )`: once the intrinsic, the literals and Name refuse, the winner is the first of Data_Ref, Part_Ref, Array_Section, Substring, Array_Constructor, Structure_Constructor, Function_Reference, Type_Param_Inquiry, Parenthesis that accepts")
add("primary_choice_function_reference", "primary_choice_function_reference", c3, "full", "Function_Reference wins exactly when everything before it refuses")
for n_, txt in [("inst_part_ref", "f(x) → Part_Ref"), ("inst_real_arg_is_structure_constructor", "f(1.0) → Structure_Constructor (as the real parser)"),
                ("inst_no_arg_is_structure_constructor", "f() → Structure_Constructor"), ("inst_keyword_arg_is_structure_constructor", "t(1, x = 2) → Structure_Constructor"),
                ("inst_function_reference", "f(*10) → Function_Reference"), ("inst_array_section", "a(1)(2:3) → Array_Section"),
                ("inst_substring", "'abc'(1:2) → Substring"), ("inst_intrinsic", "sin(x) → Intrinsic_Function_Reference"),
                ("inst_intrinsic_exception_wins", "sin() raises InternalSyntaxError"), ("inst_data_ref", "a%b → Data_Ref"), ("inst_parenthesis", "(x) → Parenthesis")]:
    add(n_, "primary_choice_" + n_, c3, "witness", txt + " (kernel evaluation of the whole Base.__new__ model with the real table; compared with the real parser)")
# ---- (f) cost (Proofs/PrimaryCost.lean) - as of /repo 2a636f5 (F-C20-1 repaired), and the counter-factual
c20 = ["C20"]
add("refCalls_nest_succ", "refCalls_nest_succ", c20, "full", "CURRENT code (2a636f5): T(d+1) = T(d) + 31 for f(d+1)(fd(…f1(x)…)): Data_Ref.match returns None at once for a text without a top-level `%`, Part_Ref parses it ONCE")
add("refCalls_nest_closed", "refCalls_nest_closed", c20, "full", "T(d) = 11 + 31·d")
add("refCalls_nest_linear", "refCalls_nest_linear", c20, "full", "the POLYNOMIAL (linear) bound for nested references")
add("refCalls_nest_values", "refCalls_nest_values", c20, "witness", "11, 42, 73, 104, 135, 166, 197, 228 = the counts measured on the real parser at 2a636f5")
add("refCalls_linear_in_size", "refCalls_linear_in_size", c20, "full", "GENERAL polynomial bound: EVERY reference (any nesting, any number of arguments) costs at most 31 calls per name/call node: linear in the size of the text")
add("refCalls_ge_size", "refCalls_ge_size", c20, "full", "and at least 10 per node: the linear bound is tight up to the constant")
add("refCalls_flat", "refCalls_flat", c20, "full", "f(x, …, x) with n ≥ 1 plain arguments: 17 + 25·n calls")
add("refCalls_flat_linear", "refCalls_flat_linear", c20, "full", "")
add("refCalls_shallow_linear", "refCalls_shallow_linear", c20, "full", "non-nested argument lists: at most 25·(nargs + 1)")
for d in range(5):
    add("primaryCalls_nest_%d" % d, "primaryCalls_nest_%d" % d, c20, "witness",
        "TIE of the shape-level recurrence to the string-level Base.__new__ model (real table, real intrinsic table, chainExt): kernel evaluation at depth %d" % d)
add("primaryCalls_nest_values", "primaryCalls_nest_values", c20, "witness", "x, f1(x), f2(f1(x)), f3(f2(f1(x))): 11, 42, 73, 104 calls in the string-level model")
for n_ in ["primaryCalls_flat_1", "primaryCalls_flat_2", "primaryCalls_flat_3"]:
    add(n_, n_, c20, "witness", "the same tie for flat argument lists")
add("primaryCalls_flat_0_differs", "primaryCalls_flat_0_differs", c20, "witness", "f() is NOT flatRef 0: Part_Ref refuses an empty list, f() is a Structure_Constructor and costs 27 calls (as the real parser; 33 before 2a636f5)")
add("construct_nest_2_shape", "construct_nest_2_shape", ["C20", "C03"], "witness", "the repair does not change the tree: the old and the new model build the same Part_Ref tree for f2(f1(x))")
add("Data_Ref_single_part_no_call", "Data_Ref_single_part_no_call", ["C20"], "witness", "REGRESSION for 2a636f5: Data_Ref.match('f(g(x))') is None WITHOUT a child call (the old matcher built Part_Ref('f(g(x))') and then failed); also for a `%` that is only inside brackets")
# counter-factual: the code before 2a636f5 (model variant newOld / refCallsOld)
OLD = "COUNTER-FACTUAL (the code BEFORE /repo 2a636f5, model variant newOld / refCallsOld): "
add("refCallsOld_nest_succ", "refCallsOld_nest_succ", c20, "full", OLD + "T_old(d+1) = 2·T_old(d) + 49 - what the repair removed (finding F-C20-1)")
add("refCallsOld_nest_closed", "refCallsOld_nest_closed", c20, "full", OLD + "T_old(d) = 60·2^d − 49")
add("refCallsOld_nest_doubles", "refCallsOld_nest_doubles", c20, "full", OLD + "the doubling")
add("refCallsOld_nest_not_polynomial", "refCallsOld_nest_not_polynomial", c20, "full", OLD + "for every k there is a depth d with more than d^k calls")
add("refCallsOld_ge_two_pow_depth", "refCallsOld_ge_two_pow_depth", c20, "full", OLD + "any reference of nesting depth d cost at least 2^d calls")
add("refCallsOld_nest_values", "refCallsOld_nest_values", c20, "witness", OLD + "11, 71, 191, 431, 911, 1871, 3791, 7631 (measured at the parent of 2a636f5)")
add("refCallsOld_gt_refCalls", "refCallsOld_gt_refCalls", c20, "full", "from depth 1 on the old code made strictly more calls than the repaired one")
add("refCalls_le_refCallsOld", "refCalls_le_refCallsOld", c20, "full", "for EVERY reference the repaired code is at most as expensive as the old one")
for d in range(4):
    add("primaryCallsOld_nest_%d" % d, "primaryCallsOld_nest_%d" % d, c20, "witness", OLD + "tie of refCallsOld to the string-level model newOld at depth %d (the co-simulation checks newOld against the real code with 2a636f5 reverted in-process)" % d)
add("primaryCallsOld_nest_values", "primaryCallsOld_nest_values", c20, "witness", OLD + "11, 71, 191, 431 in the string-level model")
