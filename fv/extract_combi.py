"""Translator for the combinator slice (lean/FparserModel/Combi.lean).

`generate(outdir)` imports the real fparser2 and, for EVERY rule class of both standards
(`fparser.two.Fortran2003`, the `fparser.two.Fortran2008` package, `C99Preprocessor`), decides
whether its `match` is *generic*:

* shape   - the body of `match` (doc string aside) is exactly one statement
            `return <Base>.match(<args>, string)` with `<Base>` one of the combinators of
            `fparser.two.utils`, every `<arg>` a constant / class name / attribute chain / list of
            those / keyword flag, and the string argument `string`, `string.strip()` or
            `string.upper()`; decided on the `ast` of `inspect.getsource`.  The classes created by
            `exec` at the end of the modules (`X_List`) have no source: their code object is
            checked instead (`dis`: one call of `SequenceBase.match`, loads only, one return);
* values  - the argument VALUES are obtained by calling the class's `match` with `<Base>.match`
            intercepted (so `cls.attributes`, `pattern.abs_name`, `cls.loop_control_cls()` … are
            whatever they evaluate to in the live tree);
* print   - `tostr` and `init` resolve to the combinator's own (so `str(node)` is the modelled one).

Output (deterministic, rewritten only on change):
  <outdir>/Combi.lean   `Fp.Combi.Generated.classNames / regexNames / specs / handWritten`
  <outdir>/combi.json   twin for the harness (fv/cosim_combi.py)
and the coverage counts on stdout when run as a script.
"""
import ast
import dis
import inspect
import json
import os
import re
import sys
import textwrap

from fv import repo
from fv.common import write_if_changed

BASES = ["SequenceBase", "BracketBase", "CallBase", "CALLBase", "KeywordValueBase",
         "WORDClsBase", "EndStmtBase", "SeparatorBase", "StringBase", "STRINGBase", "NumberBase"]
# modelled at token level elsewhere / block level: reported, not covered here
OTHER_BASES = ["BinaryOpBase", "UnaryOpBase", "BlockBase", "Type_Declaration_StmtBase"]

PROBE = " \tpR0be Xy\t "


def _resolved(cls, attr):
    for k in cls.__mro__:
        if attr in k.__dict__:
            return k, k.__dict__[attr]
    return None, None


def _unwrap(f):
    f = getattr(f, "__func__", f)
    return getattr(f, "__wrapped__", f)


def all_classes():
    """[(key, cls)] for every rule class; key = name for Fortran2003/C99, name@2008 for the
    Fortran2008 package; sorted."""
    from fparser.two import Fortran2003, Fortran2008, C99Preprocessor
    from fparser.two.utils import Base
    out = {}
    for mod in (Fortran2003, C99Preprocessor, Fortran2008):
        for _, c in inspect.getmembers(mod, inspect.isclass):
            if not issubclass(c, Base):
                continue
            if c.__module__.startswith("fparser.two.Fortran2008"):
                key = c.__name__ + "@2008"
            elif c.__module__ == "fparser.two.utils":
                continue
            else:
                key = c.__name__
            out[key] = c
    return sorted(out.items())


# ------------------------------------------------------------------------------- shape

_ALLOWED_ARG = (ast.Constant, ast.Name, ast.Attribute, ast.List, ast.Tuple, ast.Load)


def _arg_ok(node):
    """constants, names, attribute chains, lists/tuples of those, and argument-less method calls
    on such (`pattern.not_op.named()`, `cls.loop_control_cls()`)"""
    if isinstance(node, ast.Call):
        return (not node.args and not node.keywords and isinstance(node.func, ast.Attribute)
                and _arg_ok(node.func.value))
    if isinstance(node, (ast.List, ast.Tuple)):
        return all(_arg_ok(e) for e in node.elts)
    if isinstance(node, ast.Attribute):
        return _arg_ok(node.value)
    return isinstance(node, (ast.Constant, ast.Name))


def _string_arg(node):
    if isinstance(node, ast.Name) and node.id in ("string", "reader", "fstring"):
        return "id"
    if (isinstance(node, ast.Call) and not node.args and not node.keywords
            and isinstance(node.func, ast.Attribute) and isinstance(node.func.value, ast.Name)
            and node.func.value.id == "string" and node.func.attr in ("strip", "upper")):
        return node.func.attr
    return None


def shape_of(func):
    """-> (base name, how) when the function body is exactly `return <Base>.match(...)`;
    how = 'ast' | 'dis'.  None otherwise."""
    f = _unwrap(func)
    try:
        src = textwrap.dedent(inspect.getsource(f))
        tree = ast.parse(src).body[0]
    except (OSError, TypeError, SyntaxError, IndexError):
        return _shape_dis(f)
    if not isinstance(tree, ast.FunctionDef):
        return None
    body = [s for s in tree.body
            if not (isinstance(s, ast.Expr) and isinstance(s.value, ast.Constant))]
    if len(body) != 1 or not isinstance(body[0], ast.Return):
        return None
    call = body[0].value
    if not (isinstance(call, ast.Call) and isinstance(call.func, ast.Attribute)
            and call.func.attr == "match" and isinstance(call.func.value, ast.Name)):
        return None
    base = call.func.value.id
    if not call.args or _string_arg(call.args[-1]) is None:
        return None
    if not all(_arg_ok(a) for a in call.args[:-1]):
        return None
    if not all(k.arg and _arg_ok(k.value) for k in call.keywords):
        return None
    return base, "ast"


def _shape_dis(f):
    code = getattr(f, "__code__", None)
    if code is None:
        return None
    ins = [i for i in dis.get_instructions(code)
           if i.opname not in ("RESUME", "NOP", "CACHE", "PUSH_NULL", "PRECALL", "COPY_FREE_VARS")]
    names = [i.opname for i in ins]
    calls = [n for n in names if n.startswith("CALL")]
    loads_ok = all(n.startswith("LOAD_") or n.startswith("CALL") or n.startswith("RETURN")
                   for n in names)
    if len(calls) != 1 or not loads_ok or not names[-1].startswith("RETURN"):
        return None
    if "match" not in code.co_names or len(code.co_names) < 2:
        return None
    base = code.co_names[0]
    if code.co_argcount != 1 or code.co_varnames[:1] != ("string",):
        return None
    return base, "dis"


# ------------------------------------------------------------------------------- values

class _Probe(Exception):
    pass


def intercept_args(cls, base_name):
    """call `cls.match(PROBE)` with `<base>.match` replaced by a recorder; -> (args, kwargs,
    string handed over) or None"""
    from fparser.two import utils as U
    base = getattr(U, base_name, None)
    if base is None:
        return None
    orig = base.__dict__["match"]
    got = []

    def rec(*a, **kw):
        got.append((a, kw))
        raise _Probe()

    base.match = staticmethod(rec)
    try:
        try:
            cls.match(PROBE)
        except _Probe:
            pass
        except Exception as e:  # noqa: BLE001
            return "raises %s: %s" % (type(e).__name__, e)
    finally:
        base.match = orig
    if len(got) != 1:
        return None
    return got[0]


def _pre_of(s):
    if s == PROBE:
        return "id"
    if s == PROBE.strip():
        return "strip"
    if s == PROBE.upper():
        return "upper"
    return None


class Ctx:
    def __init__(self, classes):
        self.ids = {c: i for i, (_, c) in enumerate(classes)}
        self.regex = []          # [(label, object)]
        self._rid = {}

    def cls_id(self, c):
        return self.ids.get(c)

    def regex_id(self, p, label):
        k = id(p)
        if k not in self._rid:
            self._rid[k] = len(self.regex)
            self.regex.append((label, p))
        return self._rid[k]


def _is_regex(x):
    from fparser.two import pattern_tools
    return isinstance(x, (pattern_tools.Pattern, re.Pattern))


def _regex_label(owner_key, x):
    lab = getattr(x, "label", None) or getattr(x, "pattern", None) or "re"
    return "%s:%s" % (owner_key, lab)


def _is_rule_class(x):
    from fparser.two.utils import Base
    return inspect.isclass(x) and issubclass(x, Base)


def _arg(ctx, x):
    """str | class | other  ->  ["kw", s] | ["cls", id] | ["bad"]"""
    if isinstance(x, str):
        return ["kw", x]
    if _is_rule_class(x) and ctx.cls_id(x) is not None:
        return ["cls", ctx.cls_id(x)]
    return ["bad"]


def _optcls(ctx, x):
    if x is None:
        return True, None
    if _is_rule_class(x) and ctx.cls_id(x) is not None:
        return True, ctx.cls_id(x)
    return False, None


def _flatten_pattern(ctx, key, p, out):
    if isinstance(p, (list, tuple)):
        return all(_flatten_pattern(ctx, key, q, out) for q in p)
    if isinstance(p, str):
        out.append(["lit", p])
        return True
    if _is_regex(p):
        out.append(["re", ctx.regex_id(p, _regex_label(key, p))])
        return True
    return False


def _bind(base_name, a, kw):
    """positional/keyword arguments of the base match -> dict by parameter name (string excluded)"""
    from fparser.two import utils as U
    f = _unwrap(getattr(U, base_name).__dict__["match"])
    sig = inspect.signature(f)
    b = sig.bind(*a, **kw)
    b.apply_defaults()
    return dict(b.arguments)


def spec_of(ctx, key, cls, base_name):
    """-> (spec dict, None) or (None, reason)"""
    got = intercept_args(cls, base_name)
    if got is None:
        return None, "interception failed"
    if isinstance(got, str):
        return None, got
    try:
        d = _bind(base_name, *got)
    except TypeError as e:
        return None, "bad call: %s" % e
    pre = _pre_of(d.get("string"))
    if pre is None:
        return None, "string argument transformed"
    if base_name not in ("StringBase", "STRINGBase", "NumberBase") and pre != "id":
        return None, "string argument transformed"
    if base_name == "SequenceBase":
        ok, c = _optcls(ctx, d["subcls"])
        if not (isinstance(d["separator"], str) and ok and c is not None):
            return None, "unsupported arguments"
        return {"base": "seq", "sep": d["separator"], "cls": c}, None
    if base_name == "BracketBase":
        ok, c = _optcls(ctx, d["cls"])
        if not (isinstance(d["brackets"], str) and ok):
            return None, "unsupported arguments"
        return {"base": "bracket", "brackets": d["brackets"], "cls": c,
                "require_cls": bool(d["require_cls"])}, None
    if base_name in ("CallBase", "CALLBase"):
        upper = True if base_name == "CALLBase" else bool(d["upper_lhs"])
        return {"base": "call", "lhs": _arg(ctx, d["lhs_cls"]), "rhs": _arg(ctx, d["rhs_cls"]),
                "upper_lhs": upper, "require_rhs": bool(d["require_rhs"])}, None
    if base_name == "KeywordValueBase":
        if isinstance(d["lhs_cls"], (list, tuple)):
            return None, "list lhs_cls"
        ok, c = _optcls(ctx, d["rhs_cls"])
        if not ok or c is None:
            return None, "unsupported arguments"
        return {"base": "kv", "lhs": _arg(ctx, d["lhs_cls"]), "rhs": c,
                "require_lhs": bool(d["require_lhs"]), "upper_lhs": bool(d["upper_lhs"])}, None
    if base_name == "WORDClsBase":
        k = d["keyword"]
        ok, c = _optcls(ctx, d["cls"])
        if not ok:
            return None, "unsupported arguments"
        if isinstance(k, str):
            kws, is_list = [k], False
        elif isinstance(k, (list, tuple)) and all(isinstance(x, str) for x in k):
            kws, is_list = list(k), True
        else:
            return None, "pattern keyword"
        return {"base": "word", "kws": kws, "is_list": is_list, "cls": c,
                "colons": bool(d["colons"]), "require_cls": bool(d["require_cls"])}, None
    if base_name == "EndStmtBase":
        ok, c = _optcls(ctx, d["stmt_name"])
        if not (isinstance(d["stmt_type"], str) and ok):
            return None, "unsupported arguments"
        return {"base": "endStmt", "ty": d["stmt_type"], "name": c,
                "require_type": bool(d["require_stmt_type"])}, None
    if base_name == "SeparatorBase":
        ok1, l = _optcls(ctx, d["lhs_cls"])
        ok2, r = _optcls(ctx, d["rhs_cls"])
        if not (ok1 and ok2):
            return None, "unsupported arguments"
        return {"base": "sep", "lhs": l, "rhs": r, "require_lhs": bool(d["require_lhs"]),
                "require_rhs": bool(d["require_rhs"])}, None
    if base_name in ("StringBase", "STRINGBase"):
        atoms = []
        p = d["pattern"] if base_name == "StringBase" else d["my_pattern"]
        if not _flatten_pattern(ctx, key, p, atoms):
            return None, "unsupported pattern"
        return {"base": "string", "upper": base_name == "STRINGBase", "pre": pre,
                "atoms": atoms}, None
    if base_name == "NumberBase":
        p = d["number_pattern"]
        if not _is_regex(p):
            return None, "unsupported pattern"
        return {"base": "number", "pre": pre, "re": ctx.regex_id(p, _regex_label(key, p))}, None
    return None, "not a modelled base"


def classify(ctx, key, cls):
    """-> dict(kind=generic|other_base|hand|nomatch|inherits, ...)"""
    from fparser.two import utils as U
    owner, func = _resolved(cls, "match")
    if owner is None:
        return {"kind": "nomatch"}
    if owner.__module__ == "fparser.two.utils":
        return {"kind": "inherits", "base": owner.__name__}
    sh = shape_of(func)
    if sh is None:
        return {"kind": "hand", "why": "match body is not a single return <Base>.match(...)"}
    base_name, how = sh
    if base_name in OTHER_BASES:
        return {"kind": "other_base", "base": base_name}
    if base_name not in BASES:
        return {"kind": "hand", "why": "delegates to %s" % base_name}
    base = getattr(U, base_name)
    if not issubclass(cls, base) and not (base_name in ("CallBase",) and issubclass(cls, U.CallBase)):
        return {"kind": "hand", "why": "calls %s.match but is not a %s" % (base_name, base_name)}
    towner, tfunc = _resolved(cls, "tostr")
    iowner, _ = _resolved(cls, "init")
    print_a = False
    if base_name == "WORDClsBase" and tfunc is U.WORDClsBase.__dict__["tostr_a"]:
        # `tostr = WORDClsBase.tostr_a` in the class body
        print_a = True
        towner = U.WORDClsBase
    if towner is None or towner.__module__ != "fparser.two.utils" or not issubclass(base, towner):
        return {"kind": "hand", "why": "generic match (%s) but own tostr" % base_name,
                "generic_match": base_name}
    if iowner is None or iowner.__module__ != "fparser.two.utils":
        return {"kind": "hand", "why": "generic match (%s) but own init" % base_name,
                "generic_match": base_name}
    spec, why = spec_of(ctx, key, cls, base_name)
    if spec is None:
        return {"kind": "hand", "why": "generic match (%s): %s" % (base_name, why),
                "generic_match": base_name}
    spec["pybase"] = base_name
    if print_a:
        spec["print_a"] = True
    spec["how"] = how
    return {"kind": "generic", "spec": spec}


def extract():
    repo.activate()
    from fparser.two.parser import ParserFactory
    ParserFactory().create(std="f2008")
    classes = all_classes()
    ctx = Ctx(classes)
    rows = []
    for i, (key, cls) in enumerate(classes):
        r = classify(ctx, key, cls)
        r.update(id=i, key=key, name=cls.__name__, module=cls.__module__,
                 std="f2008" if key.endswith("@2008") else "f2003")
        rows.append(r)
    ParserFactory().create(std="f2003")
    return rows, [lab for lab, _ in ctx.regex], ctx


# ------------------------------------------------------------------------------- Lean

def _s(x):
    out = []
    for ch in x:
        if ch == "\\":
            out.append("\\\\")
        elif ch == '"':
            out.append('\\"')
        elif ch == "\n":
            out.append("\\n")
        elif ch == "\t":
            out.append("\\t")
        elif 32 <= ord(ch) < 127:
            out.append(ch)
        else:
            out.append("\\u{%x}" % ord(ch))
    return '"' + "".join(out) + '"'


def _str(x):
    return "%s.toList" % _s(x)


def _b(x):
    return "true" if x else "false"


def _oc(x):
    return "none" if x is None else "(some %d)" % x


def _a(x):
    if x[0] == "kw":
        return "(.kw %s)" % _str(x[1])
    if x[0] == "cls":
        return "(.cls %d)" % x[1]
    return ".bad"


def lean_spec(sp):
    b = sp["base"]
    if b == "seq":
        return ".seq %s %d" % (_str(sp["sep"]), sp["cls"])
    if b == "bracket":
        return ".bracket %s %s %s" % (_str(sp["brackets"]), _oc(sp["cls"]), _b(sp["require_cls"]))
    if b == "call":
        return ".call %s %s %s %s" % (_a(sp["lhs"]), _a(sp["rhs"]), _b(sp["upper_lhs"]),
                                      _b(sp["require_rhs"]))
    if b == "kv":
        return ".kv %s %d %s %s" % (_a(sp["lhs"]), sp["rhs"], _b(sp["require_lhs"]),
                                    _b(sp["upper_lhs"]))
    if b == "word":
        return ".word [%s] %s %s %s %s %s" % (", ".join(_str(k) for k in sp["kws"]),
                                              _b(sp["is_list"]), _oc(sp["cls"]), _b(sp["colons"]),
                                              _b(sp["require_cls"]), _b(sp.get("print_a", False)))
    if b == "endStmt":
        return ".endStmt %s %s %s" % (_str(sp["ty"]), _oc(sp["name"]), _b(sp["require_type"]))
    if b == "sep":
        return ".sep %s %s %s %s" % (_oc(sp["lhs"]), _oc(sp["rhs"]), _b(sp["require_lhs"]),
                                     _b(sp["require_rhs"]))
    if b == "string":
        atoms = ", ".join(".lit %s" % _str(a[1]) if a[0] == "lit" else ".re %d" % a[1]
                          for a in sp["atoms"])
        return ".string %s .%s [%s]" % (_b(sp["upper"]), sp["pre"], atoms)
    if b == "number":
        return ".number .%s %d" % (sp["pre"], sp["re"])
    raise ValueError(b)


def counts(rows):
    per = {}
    for r in rows:
        if r["kind"] == "generic":
            per[r["spec"]["pybase"]] = per.get(r["spec"]["pybase"], 0) + 1
    kinds = {}
    for r in rows:
        kinds[r["kind"]] = kinds.get(r["kind"], 0) + 1
    return per, kinds


def render_lean(rows, regex):
    per, kinds = counts(rows)
    L = ["import FparserModel.Combi",
         "/-! GENERATED by fv/extract_combi.py from the fparser working tree - do not edit.",
         "",
         "rule classes: %d;  generic (match = `return <Base>.match(consts, string)`, inherited tostr/init): %d"
         % (len(rows), kinds.get("generic", 0))]
    for b in BASES:
        L.append("  %-18s %d" % (b, per.get(b, 0)))
    L.append("other generic bases (modelled elsewhere): %d;  no own match: %d;  hand-written match: %d"
             % (kinds.get("other_base", 0), kinds.get("nomatch", 0) + kinds.get("inherits", 0),
                kinds.get("hand", 0)))
    L += ["-/", "namespace Fp.Combi.Generated", "open Fp.Combi", ""]
    L.append("/-- class id = index; `X@2008` = the class of that name in the Fortran2008 package -/")
    L.append("def classNames : List String := [")
    L.append(",\n".join("  " + _s(r["key"]) for r in rows))
    L.append("]")
    L.append("")
    L.append("def regexNames : List String := [")
    L.append(",\n".join("  " + _s(x) for x in regex))
    L.append("]")
    L.append("")
    L.append("/-- (class id, the arguments of its `return <Base>.match(...)`) -/")
    L.append("def specs : List (ClassId × Spec) := [")
    L.append(",\n".join("  (%d, %s)  /- %s -/" % (r["id"], lean_spec(r["spec"]), r["key"])
                        if False else "  (%d, %s)" % (r["id"], lean_spec(r["spec"]))
                        for r in rows if r["kind"] == "generic"))
    L.append("]")
    L.append("")
    L.append("/-- classes with a hand-written `match` (or own `tostr`/`init`): outside the combinator lemmas -/")
    L.append("def handWritten : List ClassId := [%s]"
             % ", ".join(str(r["id"]) for r in rows if r["kind"] == "hand"))
    L.append("")
    L.append("def specOf (c : ClassId) : Option Spec := (specs.find? (·.1 == c)).map (·.2)")
    L.append("")
    L.append("/-- every class id mentioned in a spec is a class of the table -/")
    L.append("def Spec.classes : Spec → List ClassId")
    L.append("  | .seq _ c => [c]")
    L.append("  | .bracket _ c _ => c.toList")
    L.append("  | .call l r _ _ => (match l with | .cls c => [c] | _ => []) ++ (match r with | .cls c => [c] | _ => [])")
    L.append("  | .kv l r _ _ => (match l with | .cls c => [c] | _ => []) ++ [r]")
    L.append("  | .word _ _ c _ _ _ => c.toList")
    L.append("  | .endStmt _ c _ => c.toList")
    L.append("  | .sep l r _ _ => l.toList ++ r.toList")
    L.append("  | _ => []")
    L.append("")
    L.append("theorem specs_closed : specs.all (fun p => p.1 < classNames.length && "
             "(Spec.classes p.2).all (· < classNames.length)) = true := by decide +kernel")
    L.append("")
    L.append("theorem specs_count : specs.length = %d := by decide +kernel" % kinds.get("generic", 0))
    L.append("")
    bad = [r["id"] for r in rows if r["kind"] == "generic" and r["spec"]["base"] in ("call", "kv")
           and r["spec"]["lhs"][0] == "bad"]
    L.append("/-- the argument-side hypotheses of the round-trip lemmas (`Spec.argsOk`: separator `,`,")
    L.append("    well-formed brackets, upper-case keywords/types without leading blank, `tostr_a` only")
    L.append("    with `colons`) hold for every generic class, EXCEPT the classes that pass a")
    L.append("    non-callable, non-`str` object where a class is expected (`TypeError` on every input")
    L.append("    that reaches the call): %s -/" % ", ".join(rows[i]["key"] for i in bad))
    L.append("theorem specs_args_ok : (specs.filter fun p => !p.2.argsOk).map (·.1) = [%s] := by decide +kernel"
             % ", ".join(str(i) for i in bad))
    L.append("")
    L.append("end Fp.Combi.Generated")
    return "\n".join(L) + "\n"


def generate(outdir):
    rows, regex, _ = extract()
    os.makedirs(outdir, exist_ok=True)
    write_if_changed(os.path.join(outdir, "Combi.lean"), render_lean(rows, regex))
    write_if_changed(os.path.join(outdir, "combi.json"),
                     json.dumps({"classes": rows, "regex": regex}, indent=1, sort_keys=True) + "\n")
    return rows, regex


def summary(rows):
    per, kinds = counts(rows)
    lines = ["rule classes: %d" % len(rows)]
    for b in BASES:
        lines.append("  generic via %-18s %4d" % (b, per.get(b, 0)))
    lines.append("  generic total                  %4d" % kinds.get("generic", 0))
    lines.append("  other generic bases (Binary/Unary/Block/TypeDecl, modelled elsewhere) %d"
                 % kinds.get("other_base", 0))
    lines.append("  no own match (pure alternation classes) %d"
                 % (kinds.get("nomatch", 0) + kinds.get("inherits", 0)))
    lines.append("  hand-written match remaining   %4d" % kinds.get("hand", 0))
    near = [r for r in rows if r["kind"] == "hand" and r.get("generic_match")]
    if near:
        lines.append("  of which generic-shaped but not covered:")
        for r in near:
            lines.append("     %-40s %s" % (r["key"], r["why"]))
    return "\n".join(lines)


if __name__ == "__main__":
    out = sys.argv[1] if len(sys.argv) > 1 else os.path.join(
        os.path.dirname(os.path.dirname(os.path.abspath(__file__))), "lean", "FparserModel", "Generated")
    rows_, _ = generate(out)
    print(summary(rows_))
