import FparserModel.Proofs.SplitlineSrm2Found
import FparserModel.Proofs.CombiBasic
import FparserModel.IoStmt
/-!
The tokeniser seen from the statement matchers: the tokenised text of a line is a well-formed
TOKEN TEXT (chunks and placeholder keys bound in the final map), and `repmap` applied to a PIECE of
it — cut at a character that cannot be inside a key — is the piece's expansion.  This is what makes
`repmap(line[1:i])`, `repmap(line[i+1:].lstrip())` … add up to the line again.

`srm_toks_io` re-runs the assembly of `srm_roundtrip''` (Proofs/SplitlineSrm2*) keeping the token
list that the published statement hides.
-/
namespace Fp.Splitline
open Fp

/-- `srm_core` with the token list of the final text exposed -/
theorem srm_core_toks (d : Discipline) (hd : d.lookupTrimmed = true) (hs : d.separateParenMap = true)
    (hf : d.foreignKeyRaises = false) (st2 : SrmState) (ts2 : List Tok) (hM : M2OK st2)
    (hw : WF st2.map ts2) (hc : Closed ts2) :
    ∃ mF tsOut, unnest d (phase3 d st2 (splitparen (rawJoin ts2))).1.map
        ((phase3 d st2 (splitparen (rawJoin ts2))).1.exprKeys ++
          (phase3 d st2 (splitparen (rawJoin ts2))).1.constKeys) = some mF ∧
      (phase3 d st2 (splitparen (rawJoin ts2))).2 = rawJoin tsOut ∧ WF mF tsOut ∧
      squeeze (valJoin tsOut) = squeeze (valJoin ts2) := by
  have inv0 : P3Inv st2.map st2 := by
    refine ⟨MapExt.refl _, fun k v h => .inl h, ?_, ?_, ?_⟩
    · intro t k h; rw [hM.revParen] at h; simp [Map.get?] at h
    · intro j v h; exact absurd rfl (closed_ne_expr (hM.closedKeys _ v h) j)
    · intro k hk; rw [hM.exprKeys] at hk; simp at hk
  obtain ⟨tsOut, ps, h1, h2, h3, h4, h5, h6, h7, h8, h9⟩ :=
    phase3_toks d hd hs st2.map hM.closedKeys (splitparen (rawJoin ts2)) st2 [] ts2 inv0
      (by simp [splitparen_join']) hw hc (fun s hs' => splitparen_shape _ s hs')
  generalize phase3 d st2 (splitparen (rawJoin ts2)) = r3 at *
  have hent : ∀ k v, r3.1.map.get? k = some v →
      st2.map.get? k = some v ∨ (∃ j, k = exprKey j ∧ HasToks st2.map v) := by
    intro k v h
    rcases h5.entries k v h with h | ⟨j, _, hj, ht⟩
    · exact .inl h
    · exact .inr ⟨j, hj, ht⟩
  have hinv : UInv st2.map r3.1.map r3.1.map := ⟨h5.base, fun k v h => .inl h⟩
  have hkeys : ∀ k ∈ r3.1.exprKeys ++ r3.1.constKeys, ∃ v, r3.1.map.get? k = some v := by
    intro k hk
    rcases List.mem_append.mp hk with hk | hk
    · exact h5.inMap k hk
    · rw [h7] at hk
      obtain ⟨v, hv⟩ := hM.constKeys k hk
      exact ⟨v, h6 k v hv⟩
  obtain ⟨mF, g1, g2, g3⟩ := unnest_spec d hf st2.map r3.1.map hM.closedKeys hM.valsFree hent
    _ r3.1.map hinv hkeys
  have hgood : GoodFinal st2.map r3.1.map mF := by
    refine ⟨g2.1, ?_⟩
    intro j raw hraw
    exact g3 (exprKey j) (.inl (List.mem_append_left _ (h5.listed j raw hraw))) j raw rfl hraw
  have hwF : WF mF tsOut := ⟨h8 mF hgood, h9⟩
  simp only [List.nil_append] at h1
  refine ⟨mF, tsOut, g1, h1, hwF, ?_⟩
  rw [← h3, ← h2]
  exact squeeze_pieces_nil ps h4

/-- `srm_from_phase2` with the token list exposed -/
theorem srm_from_phase2_toks (d : Discipline) (hd : d.lookupTrimmed = true)
    (hs : d.separateParenMap = true) (hf : d.foreignKeyRaises = false) (l : Str) (lower : Bool)
    (ts2 : List Tok)
    (h2 : phase2 (phase1 d {} (splitquote l none lower).1).1 (phase1 d {} (splitquote l none lower).1).2
      = ((phase2 (phase1 d {} (splitquote l none lower).1).1
            (phase1 d {} (splitquote l none lower).1).2).1, rawJoin ts2))
    (hM : M2OK (phase2 (phase1 d {} (splitquote l none lower).1).1
            (phase1 d {} (splitquote l none lower).1).2).1)
    (hw : WF (phase2 (phase1 d {} (splitquote l none lower).1).1
            (phase1 d {} (splitquote l none lower).1).2).1.map ts2)
    (hc : Closed ts2) (hv : valJoin ts2 = foldOutsideLiterals lower l) :
    ∃ r ts, stringReplaceMapWith d l lower = some r ∧ r.text = rawJoin ts ∧ WF r.map ts ∧
      squeeze (valJoin ts) = squeeze (foldOutsideLiterals lower l) := by
  unfold stringReplaceMapWith
  simp only
  generalize phase2 (phase1 d {} (splitquote l none lower).1).1
    (phase1 d {} (splitquote l none lower).1).2 = r2 at *
  obtain ⟨st2, t2⟩ := r2
  simp only at h2 hM hw
  cases h2
  obtain ⟨mF, tsOut, g1, g2, g3, g4⟩ := srm_core_toks d hd hs hf st2 ts2 hM hw hc
  simp only
  rw [g1]
  exact ⟨_, tsOut, rfl, g2, g3, by rw [← hv]; exact g4⟩

/-- **srm_toks_io**: under the two hypotheses of `srm_roundtrip_partial`, the tokenised text is a
    well-formed token text over the returned map whose expansion is the line (modulo the blanks
    just inside brackets) -/
theorem srm_toks_io (l : Str) (hF : Free l)
    (hE : FoundsEndOK (expConsts (phase1Text discipline l false))) :
    ∃ r ts, stringReplaceMap l false = some r ∧ r.text = rawJoin ts ∧ WF r.map ts ∧
      squeeze (valJoin ts) = squeeze l := by
  have hd : discipline.lookupTrimmed = true := rfl
  have hs : discipline.separateParenMap = true := rfl
  have hf : discipline.foreignKeyRaises = false := rfl
  have hF' : Free (foldOutsideLiterals false l) := by
    have : foldOutsideLiterals false l = l := splitquote_join' l none
    rw [this]; exact hF
  have hE' : FoundsOK (expConsts (phase1Text discipline l false)) :=
    fun f hfm => ⟨founds_free discipline hd l false hF' f hfm, hE f hfm⟩
  obtain ⟨ts, h1, h2, h3, h4, h5, _⟩ := phase1_M2OK discipline hd (splitquote l none false).1 hF'
  have hinv := P2Inv_of_phase1 discipline hd (splitquote l none false).1 hF'
  unfold phase1Text at hE'
  rw [h1] at hE'
  obtain ⟨ts', g1, g2, g3, g4, g5, _, g7, g8, _⟩ :=
    phase2_spec (phase1 discipline {} (splitquote l none false).1).1 ts hinv h3 h4 hE'
  rw [← h1] at g1 g3 g5 g7 g8
  have := srm_from_phase2_toks discipline hd hs hf l false ts'
    (by rw [← g1]) (phase2_M2OK _ g5 (by rw [g7]; exact h5.exprKeys) (by rw [g8]; exact h5.revParen))
    g3 g4 (by rw [g2]; exact h2)
  obtain ⟨r, tsF, a1, a2, a3, a4⟩ := this
  have hfl : foldOutsideLiterals false l = l := splitquote_join' l none
  rw [hfl] at a4
  exact ⟨r, tsF, a1, a2, a3, a4⟩

end Fp.Splitline
