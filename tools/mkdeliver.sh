#!/bin/sh
# assemble /tmp/lw/primary/DELIVER from the private copy
set -e
R=/tmp/lw/primary
D=$R/DELIVER
rm -rf $D
mkdir -p $D/lean/FparserModel/Proofs $D/lean/FparserModel/Props $D/lean/FparserModel/Generated $D/lean/FpDriver $D/lean/theorems $D/fv $D/tools
cp $R/FparserModel/Primary.lean $D/lean/FparserModel/
[ -f $R/FparserModel/PrimaryPins.lean ] && cp $R/FparserModel/PrimaryPins.lean $D/lean/FparserModel/
cp $R/FparserModel/Generated/PrimaryTables.lean $D/lean/FparserModel/Generated/
cp $R/FparserModel/Proofs/Primary*.lean $D/lean/FparserModel/Proofs/
cp $R/FparserModel/Props/Primary.lean $D/lean/FparserModel/Props/
cp $R/FpDriver/Primary.lean $D/lean/FpDriver/
cp $R/theorems/Primary.json $D/lean/theorems/
cp $R/py/extract_primary.py $R/py/cosim_primary.py $D/fv/
cp $R/tools/gen_props_primary.py $R/tools/props_table_primary.py $R/tools/props_header_primary.txt $R/tools/props_footer_primary.txt $D/tools/
cp $R/tools/mknotes.py $R/tools/mkdeliver.sh $R/tools/notes_head_primary.md $R/tools/notes_tail_primary.md $R/tools/notes_translator.md $D/tools/
python3 $R/tools/mknotes.py
ls -R $D | head -60
