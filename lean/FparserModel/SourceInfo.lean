import FparserModel.Py
/-!
# SourceInfo — executable mirror of `sourceinfo.get_source_info_str`  (model M-B0)

`detect src = true` ⇔ `get_source_info_str(src).is_free` (with `ignore_encoding=True`, or with
`ignore_encoding=False` on sources whose first line carries no `-*- … -*-` header: the f2py /
pyf header lines are modelled as "not present").  The returned `is_strict` is always `False`
on this path.  ASCII domain: `str.splitlines` breaks at `\n \r \r\n \v \f \x1c \x1d \x1e`,
`str.rstrip`/regex `\s` use the ASCII whitespace set of `Fp.isSpace`.
-/
namespace Fp.SourceInfo
open Fp

/-- the ASCII line boundaries of `str.splitlines` -/
def isLineBreak (c : Char) : Bool :=
  c == '\n' || c == '\r' || c == '\x0b' || c == '\x0c' || c == '\x1c' || c == '\x1d' || c == '\x1e'

/-- `str.splitlines()` (keepends = False); `cur` is the current line reversed, `afterCR` says
    that the previous character was a `\r` (so a `\n` here belongs to the same boundary) -/
def splitlinesAux : Bool → Str → Str → List Str
  | _, cur, [] => if cur.isEmpty then [] else [cur.reverse]
  | afterCR, cur, c :: rest =>
    if afterCR && c == '\n' then splitlinesAux false cur rest
    else if isLineBreak c then cur.reverse :: splitlinesAux (c == '\r') [] rest
    else splitlinesAux false (c :: cur) rest

def splitlines (s : Str) : List Str := splitlinesAux false [] s

/-- `_FREE_FORMAT_START = re.compile(r"[^c*!]\s*[^\s\d\t]", re.I).match` -/
def freeStart (w : Str) : Bool :=
  match w with
  | [] => false
  | c :: rest =>
    if c == 'c' || c == 'C' || c == '*' || c == '!' then false
    else match rest.dropWhile isSpace with
      | [] => false
      | d :: _ => !isSpace d && !isDigit d && d != '\t'

/-- `line[-1:] == "&"` -/
def endsAmp (line : Str) : Bool := line.getLast? == some '&'

/-- the test `line[0] != "\t" and _FREE_FORMAT_START(line[:5]) or line[-1:] == "&"` on a
    right-stripped, non-empty, non-`!` line -/
def freeLine (line : Str) : Bool :=
  (line.head? != some '\t' && freeStart (line.take 5)) || endsAmp line

/-- the `while line_tally > 0 and lines` loop -/
def detectLoop : List Str → Nat → Bool
  | [], _ => false
  | l :: ls, tally =>
    match tally with
    | 0 => false
    | t+1 =>
      let line := rstrip l
      match line with
      | [] => detectLoop ls (t+1)
      | c :: _ =>
        if c != '!' then
          if freeLine line then true else detectLoop ls t
        else detectLoop ls (t+1)

def lineTally : Nat := 10000

/-- `get_source_info_str(src).is_free` -/
def detect (src : Str) : Bool := detectLoop (splitlines src) lineTally

end Fp.SourceInfo
