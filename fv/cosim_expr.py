"""Co-simulation of Lean model M-C (expression precedence chain, lean/FparserModel/Expr.lean)
against the real `fparser.two.Fortran2003.Expr`, and the direct oracle for property C03.

A *case* is a dict
    text     Fortran text handed to the real parser
    words    the same expression as the model's token words (see lean/FpDriver/Expr.lean)
    atoms    {normalised operand text: id}  (operands are opaque `@id` for the model)
    tree     the generated tree WITH its (minimal + a few redundant) parentheses, or None
             for the malformed stream.  Tree nodes:
               ('atom', text) | ('paren', e) | ('un', op, e) | ('bin', op, l, r)
    stream   'enum' | 'spelling' | 'random' | 'malformed'
    depth    operator nesting depth of the tree
    classes  sorted tuple of operator classes used

Two comparisons per case (check_case):
  correspondence   real tree (fully parenthesised S-expression) == model reply
  oracle           real tree == S-expression of the generated tree (precedence/associativity
                   as required by the Fortran standard, R701-R722)
`in_known_boundary(case)` is the negation of the hypothesis of the Lean theorem
`parse_render_partial` (NoDottedRightOfDefinedBinary ∧ GlueFree): oracle failures inside it are
the known finding F-C03-1 (+ its white-space variant), anything else is a new alarm.

Run:  timeout 900 /venv/bin/python -m fv.cosim_expr --seed 0 --n 5000
"""
import argparse
import collections
import itertools
import os
import random
import sys
import time

from fv import repo
from fv import model as fvmodel

# ----------------------------------------------------------------------------------------
# operator classes (specification side: the Fortran standard)
# ----------------------------------------------------------------------------------------

# loosest ... tightest; a child fits without parentheses iff its level is at least as tight
# as the level required by the production (R701-R722)
LEVELS = ["expr", "l5", "equiv", "or", "and", "l4", "l3", "l2", "add", "mult", "l1", "prim"]
RANK = {k: i for i, k in enumerate(LEVELS)}

# constructor -> (own level, required child levels)
PROD = {
    "defbin": ("expr", ("expr", "l5")),     # R722 expr is [ expr defined-binary-op ] level-5-expr
    "equiv": ("l5", ("l5", "equiv")),       # R717
    "or": ("equiv", ("equiv", "or")),       # R716
    "and": ("or", ("or", "and")),           # R715
    "not": ("and", ("l4",)),                # R714
    "rel": ("l4", ("l3", "l3")),            # R712 (non-associative)
    "concat": ("l3", ("l3", "l2")),         # R710
    "add": ("l2", ("l2", "add")),           # R706
    "sign": ("l2", ("add",)),               # R706 [ add-op ] add-operand
    "mult": ("add", ("add", "mult")),       # R705
    "pow": ("mult", ("l1", "mult")),        # R704 (right-associative)
    "defun": ("l1", ("prim",)),             # R702
}
BINARY = ["defbin", "equiv", "or", "and", "rel", "concat", "add", "mult", "pow"]
UNARY = ["not", "sign", "defun"]

SPELL = {
    "defbin": [".x.", ".myop.", ".Foo.", ".AB.", ".inv."],
    "defun": [".x.", ".my.", ".Neg.", ".U."],
    "equiv": [".eqv.", ".neqv.", ".EQV.", ".Neqv."],
    "or": [".or.", ".OR."],
    "and": [".and.", ".AND.", ".And."],
    "not": [".not.", ".NOT."],
    "rel": [".eq.", ".ne.", ".lt.", ".le.", ".gt.", ".ge.", "==", "/=", "<", "<=", ">", ">=",
            ".EQ.", ".Le."],
    "concat": ["//"],
    "add": ["+", "-"],
    "sign": ["+", "-"],
    "mult": ["*", "/"],
    "pow": ["**"],
}
REL_DOTTED = {".eq.", ".ne.", ".lt.", ".le.", ".gt.", ".ge."}
INTRINSIC_DOTTED = REL_DOTTED | {".not.", ".and.", ".or.", ".eqv.", ".neqv."}

ATOMS = {
    "name": ["a", "b", "c", "x", "y", "z1", "i_j", "Var", "e", "d", "E1"],
    "int": ["1", "2", "42"],
    "real": ["1.5", "0.25"],
    "exp": ["1.0e-3", "2.5d+2", "1e-3", "3.E+4", "6.0E-10_8"],
    "elem": ["a(i)", "b(i,j)", "c(i+1)", "d(2*i-1, j)"],
    "call": ["f(x,y)", "g(a*b)", "h()", "sin(x)", "max(a, b+c)"],
    "comp": ["s%t", "s%u(i)", "p%q%r"],
    "logical": [".true.", ".false.", ".TRUE."],
    "char": ["'x'", '"it"', "'a+b'", "'('", "'.and.'"],
}


def op_class(op):
    """class of an operator spelling *as a binary/unary token* (token level, like the model)"""
    o = op.lower()
    if o in (".eqv.", ".neqv."):
        return "equiv"
    if o == ".or.":
        return "or"
    if o == ".and.":
        return "and"
    if o == ".not.":
        return "not"
    if o in REL_DOTTED or o in ("==", "/=", "<", "<=", ">", ">="):
        return "rel"
    if o == "//":
        return "concat"
    if o in "+-":
        return "add"
    if o in "*/":
        return "mult"
    if o == "**":
        return "pow"
    return "def"


def is_dotted(tok):
    return tok.startswith(".") and tok.endswith(".") and len(tok) > 2 and tok[1:-1].isalpha()


def norm(text):
    return text.replace(" ", "").lower()


# ----------------------------------------------------------------------------------------
# trees
# ----------------------------------------------------------------------------------------

def node_level(ab):
    """level of an abstract node ('atom', text) | (ctor, op, child…)"""
    return "prim" if ab[0] in ("atom", "paren") else PROD[ab[0]][0]


def parenthesize(ab, rng=None, redundant=0.0):
    """abstract tree (ctor, op, children…) -> concrete tree with the parentheses the standard
    requires (and, with probability `redundant`, some it does not)."""
    if ab[0] == "atom":
        return ab
    if ab[0] == "paren":
        return ("paren", parenthesize(ab[1], rng, redundant))
    ctor, op = ab[0], ab[1]
    req = PROD[ctor][1]
    kids = []
    for need, kid in zip(req, ab[2:]):
        c = parenthesize(kid, rng, redundant)
        if RANK[node_level(kid)] < RANK[need] or (rng is not None and rng.random() < redundant):
            c = ("paren", c)
        kids.append(c)
    return ("un", op, kids[0]) if len(kids) == 1 else ("bin", op, kids[0], kids[1])


def tokens_of(t):
    """concrete tree -> list of token texts, in order"""
    if t[0] == "atom":
        return [t[1]]
    if t[0] == "paren":
        return ["("] + tokens_of(t[1]) + [")"]
    if t[0] == "un":
        return [t[1]] + tokens_of(t[2])
    return tokens_of(t[2]) + [t[1]] + tokens_of(t[3])


def tree_depth(t):
    if t[0] == "atom":
        return 0
    if t[0] == "paren":
        return tree_depth(t[1])
    if t[0] == "un":
        return 1 + tree_depth(t[2])
    return 1 + max(tree_depth(t[2]), tree_depth(t[3]))


def tree_classes(t, acc=None, unary=False):
    acc = set() if acc is None else acc
    if t[0] == "paren":
        acc.add("paren")
        tree_classes(t[1], acc)
    elif t[0] == "un":
        c = op_class(t[1])
        acc.add({"add": "sign", "def": "defun"}.get(c, c))
        tree_classes(t[2], acc)
    elif t[0] == "bin":
        c = op_class(t[1])
        acc.add({"def": "defbin"}.get(c, c))
        tree_classes(t[2], acc)
        tree_classes(t[3], acc)
    return acc


def sexp_of_tree(t, atoms):
    if t[0] == "atom":
        return atom_word(t[1], atoms)
    if t[0] == "paren":
        return "(paren %s)" % sexp_of_tree(t[1], atoms)
    if t[0] == "un":
        return "(un %s %s)" % (t[1].upper(), sexp_of_tree(t[2], atoms))
    return "(bin %s %s %s)" % (t[1].upper(), sexp_of_tree(t[2], atoms), sexp_of_tree(t[3], atoms))


def atom_word(text, atoms):
    key = norm(text)
    if key not in atoms:
        atoms[key] = len(atoms) + 1
    return ("@." if key in (".true.", ".false.") else "@") + str(atoms[key])


def is_atom_text(tok):
    return tok not in ("(", ")") and (not is_dotted(tok) or tok.lower() in (".true.", ".false.")) \
        and tok not in ("**", "*", "/", "//", "+", "-", "==", "/=", "<", "<=", ">", ">=")


def words_of(tokens, glue, atoms):
    """token texts + glue flags -> model words"""
    out = []
    for tok, g in zip(tokens, glue):
        w = atom_word(tok, atoms) if is_atom_text(tok) else tok
        out.append(("~" if g else "") + w)
    return out


def join_text(tokens, glue, rng=None):
    s = ""
    for i, (tok, g) in enumerate(zip(tokens, glue)):
        if i and not g:
            s += " " if rng is None or rng.random() < 0.8 else "  "
        s += tok
    return s


def make_case(tree, tokens, glue, stream, rng=None):
    atoms = {}
    words = words_of(tokens, glue, atoms)
    case = {
        "text": join_text(tokens, glue, rng),
        "words": words,
        "atoms": atoms,
        "tree": tree,
        "glue": list(glue),
        "tokens": list(tokens),
        "stream": stream,
        "depth": tree_depth(tree) if tree is not None else None,
        "classes": tuple(sorted(tree_classes(tree))) if tree is not None else (),
    }
    return case


# ----------------------------------------------------------------------------------------
# generators
# ----------------------------------------------------------------------------------------

def rand_atom(rng):
    kind = rng.choice(["name"] * 4 + ["int", "real", "exp", "exp", "elem", "call", "comp",
                                     "logical", "logical", "char"])
    return ("atom", rng.choice(ATOMS[kind]))


def gen_abstract(rng, depth):
    if depth <= 0 or rng.random() < 0.18:
        return rand_atom(rng)
    ctor = rng.choice(BINARY * 2 + UNARY)
    op = rng.choice(SPELL[ctor])
    n = len(PROD[ctor][1])
    if n == 1:
        return (ctor, op, gen_abstract(rng, depth - 1))
    # bias one side deep to get long chains as well as bushy trees
    dl = depth - 1 if rng.random() < 0.7 else rng.randrange(depth)
    dr = depth - 1 if rng.random() < 0.7 else rng.randrange(depth)
    return (ctor, op, gen_abstract(rng, dl), gen_abstract(rng, dr))


def rand_glue(rng, tokens, p):
    """glue[i] = no white space before token i. Never glue where the *lexer* (not the parser)
    would read a different token sequence."""
    glue = [False] * len(tokens)
    for i in range(1, len(tokens)):
        a, b = tokens[i - 1], tokens[i]
        if rng.random() >= p:
            continue
        if a.endswith("/") and b.startswith("/"):      # a/ /b  would become //
            continue
        if a.endswith("*") and b.startswith("*"):
            continue
        if a in ("/", "<", ">", "=") and b.startswith("="):
            continue
        if (a[-1].isalnum() or a[-1] in "_'\"") and (b[0].isalnum() or b[0] in "_'\""):
            continue                                     # two operands / name( …
        if (a[-1].isalnum() or a[-1] == ")") and b == "(":
            continue                                     # f (x) is one operand
        glue[i] = True
    return glue


def gen_cases(rng, n, depth):
    """n random valid expressions (standard grammar), random spellings/operands/spacing"""
    out = []
    for _ in range(n):
        d = rng.randint(1, depth)
        ab = gen_abstract(rng, d)
        tree = parenthesize(ab, rng, redundant=0.05)
        toks = tokens_of(tree)
        glue = rand_glue(rng, toks, rng.choice([0.0, 0.3, 0.7, 1.0]))
        out.append(make_case(tree, toks, glue, "random", rng))
    return out


def enum_abstract(depth, counter):
    """all abstract trees of operator depth <= depth over the 12 constructors (one spelling
    each, fresh operand names)"""
    if depth == 0:
        return [None]
    smaller = enum_abstract(depth - 1, counter)
    out = [None]
    for ctor in BINARY + UNARY:
        n = len(PROD[ctor][1])
        for kids in itertools.product(smaller, repeat=n):
            out.append((ctor, SPELL[ctor][0]) + tuple(kids))
    return out


def _name_leaves(ab, names):
    if ab is None:
        return ("atom", next(names))
    return ab[:2] + tuple(_name_leaves(k, names) for k in ab[2:])


def enum_cases(depth):
    """bounded-exhaustive: every tree of operator depth <= depth over the operator classes
    (13 trees at depth 1, 1 561 at depth 2), spaced and fully glued; plus every spelling of
    every operator at depth 1."""
    out = []
    for ab in enum_abstract(depth, None):
        names = iter(["a", "b", "c", "d", "e", "f", "g", "h"] + ["v%d" % i for i in range(64)])
        tree = parenthesize(_name_leaves(ab, names))
        toks = tokens_of(tree)
        out.append(make_case(tree, toks, [False] * len(toks), "enum"))
        glue = rand_glue(random.Random(0), toks, 1.0)
        if any(glue):
            out.append(make_case(tree, toks, glue, "enum"))
    for ctor in BINARY + UNARY:
        for op in SPELL[ctor]:
            for variant in (op, op.upper(), op.lower()):
                kids = [("atom", x) for x in ("p", "q")][: len(PROD[ctor][1])]
                tree = parenthesize((ctor, variant) + tuple(kids))
                toks = tokens_of(tree)
                for g in (False, True):
                    glue = rand_glue(random.Random(0), toks, 1.0) if g else [False] * len(toks)
                    out.append(make_case(tree, toks, glue, "spelling"))
    return out


_T2 = []


def enum3_cases(rng, n):
    """depth 3 is 2.2e7 trees (9 binary constructors x 1 561^2): not enumerable.  Every top
    constructor in turn over operands drawn uniformly from the COMPLETE depth-<=2 set, at
    least one operand of depth exactly 2; spaced and fully glued."""
    if not _T2:
        _T2.extend(enum_abstract(2, None))
    deep = [t for t in _T2 if t is not None and any(k is not None for k in t[2:])]
    out = []
    ctors = BINARY + UNARY
    for i in range(n):
        ctor = ctors[i % len(ctors)]
        ar = len(PROD[ctor][1])
        kids = [rng.choice(_T2) for _ in range(ar)]
        kids[rng.randrange(ar)] = rng.choice(deep)
        ab = (ctor, rng.choice(SPELL[ctor])) + tuple(kids)
        names = iter(["a", "b", "c", "d", "e", "f", "g", "h"] + ["v%d" % i for i in range(64)])
        tree = parenthesize(_name_leaves(ab, names))
        toks = tokens_of(tree)
        out.append(make_case(tree, toks, [False] * len(toks), "enum"))
        glue = rand_glue(rng, toks, 1.0)
        if any(glue):
            out.append(make_case(tree, toks, glue, "enum"))
    return out


MAL_TOKENS = ["a", "b", ".true.", "1.0e-3", "(", ")", "(", ")", "+", "-", "*", "/", "**", "//",
              "==", ".eq.", "<", ".not.", ".and.", ".or.", ".eqv.", ".neqv.", ".x.", ".my."]


def gen_malformed(rng, n, maxlen=7):
    """random token soup: dangling operators, empty parentheses, unbalanced parentheses,
    doubled operators - and, by chance, valid expressions"""
    out = []
    while len(out) < n:
        k = rng.randint(0, maxlen)
        toks = [rng.choice(MAL_TOKENS) for _ in range(k)]
        ok = True
        for a, b in zip(toks, toks[1:]):
            # token sequences whose *text* is lexed differently are not token soup
            if is_atom_text(a) and (is_atom_text(b) or b == "("):
                ok = False
            if a == ")" and (b == "(" or is_atom_text(b)):
                ok = False
            if a.endswith("/") and b.startswith("/"):
                ok = False
            if a.endswith("*") and b.startswith("*"):
                ok = False
        if not ok:
            continue
        glue = [False] * len(toks)
        for i in range(1, len(toks)):
            a, b = toks[i - 1], toks[i]
            same = (is_dotted(a) and is_dotted(b)) or (a in "+-" and b in "+-")
            if same and rng.random() < 0.4:
                glue[i] = True
        out.append(make_case(None, toks, glue, "malformed"))
    return out


# ----------------------------------------------------------------------------------------
# the boundary of the Lean theorem `parse_render_partial`
# ----------------------------------------------------------------------------------------

def top_tokens(t):
    """tokens of the rendered tree at parenthesis depth 0"""
    if t[0] == "atom":
        return [t[1]]
    if t[0] == "paren":
        return []
    if t[0] == "un":
        return [t[1]] + top_tokens(t[2])
    return top_tokens(t[2]) + [t[1]] + top_tokens(t[3])


def is_defined_op(op):
    return is_dotted(op) and op.lower() not in INTRINSIC_DOTTED and \
        op.lower() not in (".true.", ".false.")


def no_dotted_right_of_defined_binary(t):
    """Lean: NoDottedRightOfDefinedBinary"""
    if t[0] == "atom":
        return True
    if t[0] == "paren":
        return no_dotted_right_of_defined_binary(t[1])
    if t[0] == "un":
        return no_dotted_right_of_defined_binary(t[2])
    if is_defined_op(t[1]) and any(is_dotted(x) for x in top_tokens(t[3])):
        return False
    return no_dotted_right_of_defined_binary(t[2]) and no_dotted_right_of_defined_binary(t[3])


def same_split_class(a, b):
    if is_dotted(a) and is_dotted(b):
        return True
    ca, cb = op_class(a), op_class(b)
    return ca == cb and ca in ("rel", "concat", "add", "mult") and not is_atom_text(a) \
        and not is_atom_text(b)


def glue_free(tokens, glue):
    """Lean: GlueFree (render e) - no two touching tokens that one `rsplit` pattern matches"""
    for i in range(1, len(tokens)):
        if glue[i] and same_split_class(tokens[i - 1], tokens[i]):
            return False
    return True


def in_known_boundary(case):
    """negation of the hypothesis of `parse_render_partial` (valid cases only)"""
    if case["tree"] is None:
        return False
    return not (no_dotted_right_of_defined_binary(case["tree"])
                and glue_free(case["tokens"], case["glue"]))


def in_lexing_boundary(case):
    """The token abstraction itself is not faithful here (finding F-C03-2, a defect of
    `string_replace_map`, below the token level of model M-C): an exponent literal with a
    signed exponent written directly after a dotted word (`a+.x.1.0e-3`) is not protected
    (the regex `exponential_constant` wants a preceding character that is not `.`), so its
    sign is visible to `Level_2_Expr` as an add-op."""
    toks, glue = case["tokens"], case["glue"]
    for i in range(1, len(toks)):
        t = toks[i].lower()
        if glue[i] and toks[i - 1].endswith(".") and t[0].isdigit() and \
                ("e+" in t or "e-" in t or "d+" in t or "d-" in t):
            return True
    return False


def predicted_reject(case):
    """sharper, untrusted prediction used only for the statistics: the real parser fails iff
    some defined-binary node has a depth-0 dotted token to its right, or two touching
    dotted tokens at depth 0 to its left (operator included)."""
    tree, glue = case["tree"], case["glue"]

    def walk(t, pos):
        # returns (bad, npos, toplist) ; toplist = [(token, index)] at depth 0 of t
        if t[0] == "atom":
            return False, pos + 1, [(t[1], pos)]
        if t[0] == "paren":
            bad, p, _ = walk(t[1], pos + 1)
            return bad, p + 1, []
        if t[0] == "un":
            bad, p, top = walk(t[2], pos + 1)
            return bad, p, [(t[1], pos)] + top
        bl, p, tl = walk(t[2], pos)
        opi = p
        br, p2, tr = walk(t[3], p + 1)
        bad = bl or br
        if is_defined_op(t[1]):
            if any(is_dotted(x) for x, _ in tr):
                bad = True
            seq = tl + [(t[1], opi)]
            for (x, i), (y, j) in zip(seq, seq[1:]):
                if j == i + 1 and glue[j] and is_dotted(x) and is_dotted(y):
                    bad = True
        return bad, p2, tl + [(t[1], opi)] + tr

    return walk(tree, 0)[0]


# ----------------------------------------------------------------------------------------
# the real parser
# ----------------------------------------------------------------------------------------

_real = {}
BIN_CLASSES = {"Expr", "Level_5_Expr", "Equiv_Operand", "Or_Operand", "Level_4_Expr",
               "Level_3_Expr", "Level_2_Expr", "Add_Operand", "Mult_Operand"}
UN_CLASSES = {"And_Operand", "Level_2_Unary_Expr", "Level_1_Expr"}


def real_setup(std="f2008"):
    if _real.get("std") != std:
        repo.activate()
        from fparser.two.parser import ParserFactory
        ParserFactory().create(std=std)
        from fparser.two import Fortran2003
        from fparser.two.utils import NoMatchError
        _real.update(std=std, F=Fortran2003, NoMatchError=NoMatchError)
    return _real


def real_sexp(node, atoms):
    name = type(node).__name__
    if name in BIN_CLASSES:
        lhs, op, rhs = node.items
        return "(bin %s %s %s)" % (op.replace(" ", ""), real_sexp(lhs, atoms), real_sexp(rhs, atoms))
    if name in UN_CLASSES:
        op, rhs = node.items
        op = op.replace(" ", "")
        if op in (".TRUE.", ".FALSE."):      # Level_1_Expr takes any dotted word as operator
            op = atom_word(op, atoms)
        return "(un %s %s)" % (op, real_sexp(rhs, atoms))
    if name == "Parenthesis":
        return "(paren %s)" % real_sexp(node.items[1], atoms)
    key = norm(str(node))
    if key in atoms:
        return atom_word(key, atoms)
    return "@?" + key


def real_parse(text, atoms, std="f2008"):
    r = real_setup(std)
    try:
        node = r["F"].Expr(text)
    except r["NoMatchError"]:
        return "reject"
    except Exception as exc:  # pylint: disable=broad-except
        return "exception %s: %s" % (type(exc).__name__, exc)
    return real_sexp(node, atoms)


# ----------------------------------------------------------------------------------------
# checking
# ----------------------------------------------------------------------------------------

def model_reply(model, case):
    return model.ask("expr", " ".join(case["words"]))[0]


def check_case(model, case, std="f2008", model_out=None):
    """None when (i) the real parser and the model agree and (ii) the real parser groups the
    expression as generated; otherwise a dict describing the disagreement(s):
      correspondence : bool   real != model
      oracle         : bool   real != expected grouping     (valid cases only)
      known          : bool   in_known_boundary(case)  -> label KNOWN-FINDING F-C03-1
      lexing         : bool   in_lexing_boundary(case) -> label KNOWN-FINDING F-C03-2 (the text is
                              mis-tokenised below the level of the model; both comparisons excused)
    """
    atoms = dict(case["atoms"])
    real = real_parse(case["text"], atoms, std)
    mod = model_out if model_out is not None else model_reply(model, case)
    bad_corr = real != mod
    bad_oracle = False
    expected = None
    if case["tree"] is not None:
        expected = sexp_of_tree(case["tree"], atoms)
        bad_oracle = real != expected
    if not bad_corr and not bad_oracle:
        return None
    return {
        "correspondence": bad_corr,
        "oracle": bad_oracle,
        "known": in_known_boundary(case),
        "lexing": in_lexing_boundary(case),
        "text": case["text"],
        "words": " ".join(case["words"]),
        "real": real,
        "model": mod,
        "expected": expected,
        "stream": case["stream"],
    }


def run_cases(model, cases, std="f2008"):
    replies = model.ask_many([("expr", " ".join(c["words"])) for c in cases]) if cases else []
    results = []
    for case, rep in zip(cases, replies):
        results.append(check_case(model, case, std, model_out=rep[0]))
    return results


def levels_tie(model):
    """the model's level table (driver command `exprlevels`) against the table extracted from
    the repository for both standards"""
    from fv import extract_expr
    got = model.ask("exprlevels")[0]
    bad = []
    for std in ("f2003", "f2008"):
        want = extract_expr.table_text(extract_expr.extract(std))
        if want != got:
            bad.append((std, want, got))
    return bad


def _short(s, n=90):
    s = repr(s)
    return s if len(s) <= n else s[: n - 3] + "..."


def main(argv=None):
    ap = argparse.ArgumentParser(description=__doc__.split("\n")[0])
    ap.add_argument("--seed", type=int, default=0)
    ap.add_argument("--n", type=int, default=5000, help="number of random valid expressions")
    ap.add_argument("--depth", type=int, default=6)
    ap.add_argument("--enum-depth", type=int, default=2)
    ap.add_argument("--std", default="f2008")
    ap.add_argument("--exe", default=os.environ.get("FV_MODEL_EXE"))
    ap.add_argument("--show", type=int, default=8, help="examples to print per category")
    args = ap.parse_args(argv)

    t0 = time.time()
    rng = random.Random(args.seed)
    model = fvmodel.Model(args.exe) if args.exe else fvmodel.get_model()

    tie = levels_tie(model)
    print("level table (repo, f2003+f2008) == model table:", "OK" if not tie else "MISMATCH")
    for std, want, got in tie:
        print("  ", std, "\n    repo :", want, "\n    model:", got)

    cases = enum_cases(args.enum_depth)
    cases += gen_cases(rng, args.n, args.depth)
    cases += gen_malformed(rng, max(args.n // 4, 200))
    results = run_cases(model, cases, args.std)

    per_stream = collections.Counter(c["stream"] for c in cases)
    depth_hist = collections.Counter(c["depth"] for c in cases if c["tree"] is not None)
    class_hist = collections.Counter(k for c in cases for k in c["classes"])
    corr_bad, oracle_known, oracle_new, lexing = [], [], [], []
    inb = inb_fail = pred_ok = pred_bad = 0
    accepted = collections.Counter()
    for case, res in zip(cases, results):
        valid = case["tree"] is not None
        if valid and in_known_boundary(case):
            inb += 1
        if res is None:
            accepted[case["stream"]] += 1
        if valid:
            failed = res is not None and res["oracle"]
            if in_known_boundary(case) and failed:
                inb_fail += 1
            if predicted_reject(case) == failed or in_lexing_boundary(case):
                pred_ok += 1
            else:
                pred_bad += 1
        if res is None:
            continue
        if res["lexing"] and res["correspondence"]:
            lexing.append(res)
            continue
        if res["correspondence"]:
            corr_bad.append(res)
        if res["oracle"]:
            (oracle_known if res["known"] else oracle_new).append(res)
    mal = [(c, r) for c, r in zip(cases, results) if c["stream"] == "malformed"]

    print("cases:", len(cases), dict(per_stream), "seed", args.seed, "std", args.std,
          "%.1fs" % (time.time() - t0))
    print("depth histogram (valid):", dict(sorted(depth_hist.items())))
    print("operator-class histogram:", dict(sorted(class_hist.items())))
    print("token-count max:", max(len(c["tokens"]) for c in cases))
    nm = len(mal)
    print("malformed stream: %d cases, model==real on %d" % (nm, sum(1 for _, r in mal if r is None)))
    print("correspondence (real vs model) disagreements:", len(corr_bad))
    for r in corr_bad[: args.show]:
        print("   ", repr(r["text"]), "| words:", r["words"], "| real:", r["real"], "| model:", r["model"])
    print("oracle (real vs standard grouping) failures: %d  = %d KNOWN-FINDING (inside the "
          "boundary of parse_render_partial) + %d NEW"
          % (len(oracle_known) + len(oracle_new), len(oracle_known), len(oracle_new)))
    for r in oracle_known[: args.show]:
        print("    KNOWN-FINDING F-C03-1", _short(r["text"]), "->", _short(r["real"]), "| expected", _short(r["expected"]))
    for r in oracle_new[: args.show]:
        print("    NEW", repr(r["text"]), "->", r["real"], "| expected", r["expected"])
    print("KNOWN-FINDING F-C03-2 (exponent literal glued to a dotted word, lexing level):", len(lexing))
    for r in lexing[: args.show]:
        print("    KNOWN-FINDING F-C03-2", _short(r["text"]), "->", _short(r["real"]), "| model", _short(r["model"]))
    print("valid cases inside the boundary: %d, of which the real parser fails: %d" % (inb, inb_fail))
    print("sharp prediction (predicted_reject) right on %d valid cases, wrong on %d" % (pred_ok, pred_bad))
    ok = not corr_bad and not oracle_new and not tie
    print("RESULT:", "PASS" if ok else "FAIL")
    model.close()
    return 0 if ok else 1


if __name__ == "__main__":
    sys.exit(main())
