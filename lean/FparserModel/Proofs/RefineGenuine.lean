import FparserModel.Proofs.BlockStream

/-!
# RefineGenuine — the block matcher only ever puts back (and builds trees from) items it got

For an arbitrary predicate `P` on items: if every item of the stream satisfies `P` when a class
is called, then every item of the stream afterwards and every leaf of the returned tree does —
for every table, oracle, fuel, class, state and outcome.  (With `P` = "is the image of a reader
item at its position" this is what lets the reader FOLLOW every run of the block model.)
-/
namespace Fp.Block

section
variable {P : Item → Prop}

/-- every item of the stream (put back or still to come) satisfies `P` -/
def SIn (P : Item → Prop) (s : St) : Prop := ∀ x ∈ s.stream.all, P x
def TIn (P : Item → Prop) (t : Tree) : Prop := ∀ x ∈ t.frontier, P x
def LIn (P : Item → Prop) (ts : List Tree) : Prop := ∀ t ∈ ts, TIn P t
def OIn (P : Item → Prop) : Outcome → Prop
  | .tree t => TIn P t
  | _ => True
def MIn (P : Item → Prop) : MRes → Prop
  | .tuple c => LIn P c
  | _ => True

theorem SIn.mono {s s' : St} (h : SIn P s) (he : s'.stream = s.stream) : SIn P s' := by
  unfold SIn at *; rw [he]; exact h

theorem SIn.put {s : St} (h : SIn P s) {x : Item} (hx : P x) : SIn P (s.put x) := by
  intro y hy
  have : y ∈ x :: s.stream.all := by simpa [Stream.put, Stream.all] using hy
  rcases List.mem_cons.mp this with rfl | hy
  · exact hx
  · exact h y hy

theorem SIn.get_eq {s s1 : St} {o : Option Item} (hg : s.get = (o, s1)) (h : SIn P s) :
    SIn P s1 ∧ ∀ it, o = some it → P it := by
  cases o with
  | none =>
    have := (St.get_none_all hg).2
    exact ⟨fun x hx => by rw [show s1.stream.all = [] from this] at hx; exact absurd hx (by simp), fun it e => by cases e⟩
  | some x =>
    have := St.get_some_all hg
    refine ⟨fun y hy => h y ?_, fun it e => ?_⟩
    · rw [show s.stream.all = x :: s1.stream.all from this]; exact List.mem_cons_of_mem _ hy
    · cases e; exact h x (by rw [show s.stream.all = x :: s1.stream.all from this]; exact List.mem_cons_self)

theorem SIn.exit {s : St} (h : SIn P s) : SIn P s.exit.2 := h.mono (St.exit_stream s)
theorem SIn.remove {s : St} (h : SIn P s) (n : Name) : SIn P (s.remove n).2 := h.mono (St.remove_stream s n)

theorem mem_frontierL {x : Item} : ∀ {ts : List Tree}, x ∈ frontierL ts ↔ ∃ t ∈ ts, x ∈ t.frontier
  | [] => by simp [frontierL]
  | t :: ts => by
    simp only [frontierL, List.mem_append, List.mem_cons, exists_eq_or_imp, mem_frontierL (ts := ts)]

theorem LIn.mem_frontier {ts : List Tree} (h : LIn P ts) : ∀ x ∈ frontierL ts, P x := by
  intro x hx
  obtain ⟨t, ht, hxt⟩ := mem_frontierL.mp hx
  exact h t ht x hxt

theorem LIn.of_mem_frontier {ts : List Tree} (h : ∀ x ∈ frontierL ts, P x) : LIn P ts :=
  fun t ht x hx => h x (mem_frontierL.mpr ⟨t, ht, hx⟩)

theorem LIn.nil : LIn P [] := fun t ht => by cases ht
theorem LIn.cons {t : Tree} {ts : List Tree} (ht : TIn P t) (h : LIn P ts) : LIn P (t :: ts) := by
  intro u hu
  rcases List.mem_cons.mp hu with rfl | hu
  · exact ht
  · exact h u hu
theorem LIn.append {a b : List Tree} (ha : LIn P a) (hb : LIn P b) : LIn P (a ++ b) := by
  intro u hu
  rcases List.mem_append.mp hu with hu | hu
  · exact ha u hu
  · exact hb u hu
theorem LIn.reverse {a : List Tree} (ha : LIn P a) : LIn P a.reverse :=
  fun u hu => ha u (List.mem_reverse.mp hu)
theorem LIn.head {t : Tree} {ts : List Tree} (h : LIn P (t :: ts)) : TIn P t := h t List.mem_cons_self
theorem LIn.tail {t : Tree} {ts : List Tree} (h : LIn P (t :: ts)) : LIn P ts :=
  fun u hu => h u (List.mem_cons_of_mem _ hu)

theorem TIn.leaf {c : Cls} {it : Item} {info : NodeInfo} (h : P it) : TIn P (.leaf c it info) := by
  intro x hx
  simp only [Tree.frontier, List.mem_singleton] at hx
  rw [hx]; exact h

theorem TIn.node {c : Cls} {ks : List Tree} (h : LIn P ks) : TIn P (.node c ks) := by
  intro x hx
  simp only [Tree.frontier] at hx
  exact h.mem_frontier x hx

theorem SIn.restore {s : St} (h : SIn P s) {t : Tree} (ht : TIn P t) : SIn P (restore t s) := by
  intro x hx
  have := (restore_all t s).1
  rw [show (Fp.Block.restore t s).stream.all = t.frontier ++ s.stream.all from this] at hx
  rcases List.mem_append.mp hx with hx | hx
  · exact ht x hx
  · exact h x hx

theorem SIn.restoreRc {s : St} (h : SIn P s) {rc : List Tree} (hrc : LIn P rc) :
    SIn P (restoreRc rc s) := by
  intro x hx
  have := (restoreRc_all rc s).1
  rw [show (Fp.Block.restoreRc rc s).stream.all = frontierL rc.reverse ++ s.stream.all from this] at hx
  rcases List.mem_append.mp hx with hx | hx
  · exact hrc.reverse.mem_frontier x hx
  · exact h x hx

theorem SIn.ghostIf {s : St} (h : SIn P s) (b : Bool) (g : Ghost) : SIn P (ghostIf b g s) := by
  unfold Fp.Block.ghostIf; split
  · exact h.mono rfl
  · exact h

/-! ### the leaf-level constructors -/

variable (env : Env)

theorem leafNew_in (c : Cls) (pc : List Cls) (s : St) (h : SIn P s) :
    SIn P (leafNew env c pc s).2.2 ∧ OIn P (leafNew env c pc s).1 := by
  unfold leafNew
  split
  · rename_i s1 heq; exact ⟨(h.get_eq heq).1, trivial⟩
  · rename_i it s1 heq
    obtain ⟨h1, hp⟩ := h.get_eq heq
    have hit := hp it rfl
    split
    · exact ⟨h1.put hit, trivial⟩
    · simp only
      split
      · split
        · exact ⟨h1.mono rfl, TIn.leaf hit⟩
        · exact ⟨(h1.mono rfl).put hit, trivial⟩
      · split
        · exact ⟨h1.mono rfl, TIn.leaf hit⟩
        · exact ⟨(h1.mono rfl).put hit, trivial⟩
        · exact ⟨(h1.mono rfl).put hit, trivial⟩
        · exact ⟨h1.mono rfl, trivial⟩

theorem leafFresh_in (c : Cls) (s : St) (h : SIn P s) :
    SIn P (leafFresh env c s).2 ∧ OIn P (leafFresh env c s).1 := by
  unfold leafFresh; exact leafNew_in env c [c] s h

theorem commentNew_in (s : St) (h : SIn P s) :
    SIn P (commentNew env s).2 ∧ OIn P (commentNew env s).1 := by
  unfold commentNew
  split
  · rename_i s1 heq; exact ⟨(h.get_eq heq).1, trivial⟩
  · rename_i it s1 heq
    obtain ⟨h1, hp⟩ := h.get_eq heq
    have hit := hp it rfl
    split
    · exact ⟨h1, TIn.leaf hit⟩
    · exact ⟨h1.put hit, trivial⟩

theorem directiveNew_in (s : St) (h : SIn P s) :
    SIn P (directiveNew env s).2 ∧ OIn P (directiveNew env s).1 := by
  unfold directiveNew
  split
  · rename_i s1 heq; exact ⟨(h.get_eq heq).1, trivial⟩
  · rename_i it s1 heq
    obtain ⟨h1, hp⟩ := h.get_eq heq
    have hit := hp it rfl
    split
    · split
      · exact ⟨h1, TIn.leaf hit⟩
      · exact ⟨h1.put hit, trivial⟩
    · exact ⟨h1.put hit, trivial⟩

theorem firstLeaf_in (cs : List Cls) (s : St) (h : SIn P s) :
    SIn P (firstLeaf env cs s).2 ∧ OIn P (firstLeaf env cs s).1 := by
  induction cs generalizing s with
  | nil => simp only [firstLeaf]; exact ⟨h, trivial⟩
  | cons c cs ih =>
    simp only [firstLeaf]
    have h1 := leafFresh_in env c s h
    split
    · rename_i s1 heq; rw [heq] at h1; exact ih s1 h1.1
    · exact h1

theorem cppNew_in (cs : List Cls) (s : St) (h : SIn P s) :
    SIn P (cppNew env cs s).2 ∧ OIn P (cppNew env cs s).1 := by
  unfold cppNew
  split
  · rename_i s1 heq; exact ⟨(h.get_eq heq).1, trivial⟩
  · rename_i it s1 heq
    obtain ⟨h1, hp⟩ := h.get_eq heq
    have hput : SIn P (s1.put it) := h1.put (hp it rfl)
    simp only
    split
    · exact firstLeaf_in env cs _ hput
    · exact ⟨hput, trivial⟩

theorem cidRest_in (s : St) (h : SIn P s) :
    SIn P (cidRest env s).2 ∧ OIn P (cidRest env s).1 := by
  unfold cidRest
  have h2 := commentNew_in env s h
  split
  · rename_i s2 heq2
    rw [heq2] at h2
    have h3 := leafFresh_in env env.tbl.includeStmt s2 h2.1
    split
    · rename_i s3 heq3
      rw [heq3] at h3
      exact cppNew_in env _ s3 h3.1
    · exact h3
  · exact h2

theorem cidOne_in (s : St) (h : SIn P s) :
    SIn P (cidOne env s).2 ∧ OIn P (cidOne env s).1 := by
  unfold cidOne
  split
  · have h1 := directiveNew_in env s h
    split
    · rename_i s1 heq; rw [heq] at h1; exact cidRest_in env s1 h1.1
    · exact h1
  · exact cidRest_in env s h

/-- content lists inside an `Except` -/
def EIn (P : Item → Prop) : Except Exc (List Tree) → Prop
  | .ok rc => LIn P rc
  | .error _ => True

theorem addCID_in (k : Nat) (rc : List Tree) (s : St) (h : SIn P s) (hrc : LIn P rc) :
    SIn P (addCID env k rc s).2 ∧ EIn P (addCID env k rc s).1 := by
  induction k generalizing rc s with
  | zero => simp only [addCID]; exact ⟨h, trivial⟩
  | succ k ih =>
    simp only [addCID]
    have h1 := cidOne_in env s h
    split
    · rename_i t s1 heq; rw [heq] at h1; exact ih _ _ h1.1 (LIn.cons h1.2 hrc)
    · rename_i s1 heq; rw [heq] at h1; exact ⟨h1.1, hrc⟩
    · rename_i e s1 heq; rw [heq] at h1; exact ⟨h1.1, trivial⟩

/-! ### `BlockBase.match` -/

/-- the recursive call keeps `P` -/
def FIn (P : Item → Prop) (f : F) : Prop := ∀ c s, SIn P s → SIn P (f c s).2 ∧ OIn P (f c s).1
def GIn (P : Item → Prop) (g : G) : Prop :=
  ∀ c pc s, SIn P s → SIn P (g c pc s).2.2 ∧ OIn P (g c pc s).1

theorem fresh_in {g : G} (hg : GIn P g) : FIn P (fresh g) := by
  intro c s h; unfold fresh; exact hg _ _ _ h

theorem callCatch_in {f : F} (hf : FIn P f) (c : Cls) (s : St) (h : SIn P s) :
    SIn P (callCatch f c s).2 ∧ OIn P (callCatch f c s).1 := by
  unfold callCatch
  have h1 := hf c s h
  split
  · rename_i s1 heq; rw [heq] at h1; exact ⟨h1.1, trivial⟩
  · exact h1

theorem hookLead_in (fuel : Nat) (s : St) (h : SIn P s) :
    SIn P (hookLead env fuel s).2 ∧ EIn P (hookLead env fuel s).1 := by
  unfold hookLead; split
  · exact addCID_in env fuel [] s h LIn.nil
  · exact ⟨h, LIn.nil⟩

def HIn (P : Item → Prop) : HookRes → Prop
  | .append ts => LIn P ts
  | _ => True

theorem doHook_in {f : F} (hf : FIn P f) (fuel : Nat) (cfg : Cfg) (v : LoopVars) (s : St)
    (h : SIn P s) : SIn P (doHook env f fuel cfg v s).2 ∧ HIn P (doHook env f fuel cfg v s).1 := by
  unfold doHook
  split
  · have h0 := hookLead_in env fuel s h
    split
    · rename_i e s0 heq; rw [heq] at h0; exact ⟨h0.1, trivial⟩
    · rename_i lead s0 heq
      rw [heq] at h0
      have hl : LIn P lead := h0.2
      split
      · exact ⟨h0.1, trivial⟩
      · rename_i sc _
        have h1 := hf sc s0 h0.1
        split
        · rename_i e s1 heq1; rw [heq1] at h1; exact ⟨h1.1, trivial⟩
        · rename_i s1 heq1; rw [heq1] at h1; exact ⟨h1.1.restoreRc hl, trivial⟩
        · rename_i t s1 heq1
          rw [heq1] at h1
          have ht : TIn P t := h1.2
          split
          · split
            · exact ⟨h1.1, trivial⟩
            · split
              · exact ⟨h1.1, LIn.cons ht hl⟩
              · exact ⟨(h1.1.restore ht).restoreRc hl, trivial⟩
          · exact ⟨(SIn.mono (s' := s1.ev (.ghost .hookDrop)) h1.1 rfl).restoreRc hl, trivial⟩
  · exact ⟨h, trivial⟩

def StepIn (P : Item → Prop) : Step → Prop
  | .done v => LIn P v.rc
  | .again _ v => LIn P v.rc
  | _ => True

theorem matchedStep_in (cfg : Cfg) (startT : Option Tree) (sn : Option (Option Name))
    (i : Nat) (v : LoopVars) (t : Tree) (s : St) (h : SIn P s) (hv : LIn P v.rc) (ht : TIn P t) :
    SIn P (matchedStep env cfg startT sn i v t s).2 ∧
    StepIn P (matchedStep env cfg startT sn i v t s).1 := by
  have hv1 : LIn P (t :: v.rc) := LIn.cons ht hv
  unfold matchedStep
  simp only
  split
  · exact ⟨h, trivial⟩
  · exact ⟨(h.restore ht).restoreRc hv, trivial⟩
  · split
    · exact ⟨h, trivial⟩
    · split
      · split
        · exact ⟨h, trivial⟩
        · rename_i v2 heq
          split
          · exact ⟨(h.restore ht).restoreRc hv, trivial⟩
          · exact ⟨h, by show LIn P v2.rc; rw [endLabelCheck_rc heq]; exact hv1⟩
        · rename_i v2 heq
          split
          · exact ⟨h, trivial⟩
          · exact ⟨h, by show LIn P v2.rc; rw [endLabelCheck_rc heq]; exact hv1⟩
      · exact ⟨h, hv1⟩

def LoopIn (P : Item → Prop) : LoopRes → Prop
  | .done v _ => LIn P v.rc
  | _ => True

theorem blockLoop_in {f : F} (hf : FIn P f) (cfg : Cfg) (classes : List Cls)
    (startT : Option Tree) (sn : Option (Option Name)) (k i : Nat) (v : LoopVars) (s : St)
    (h : SIn P s) (hv : LIn P v.rc) :
    SIn P (blockLoop env f cfg classes startT sn k i v s).2 ∧
    LoopIn P (blockLoop env f cfg classes startT sn k i v s).1 := by
  induction k generalizing i v s with
  | zero => simp only [blockLoop]; exact ⟨h, trivial⟩
  | succ k ih =>
    simp only [blockLoop]
    split
    · exact ⟨h, hv⟩
    · rename_i cls _
      have h1 := doHook_in env hf k cfg v s h
      split
      · rename_i e s1 heq; rw [heq] at h1; exact ⟨h1.1, trivial⟩
      · rename_i ts s1 heq
        rw [heq] at h1
        exact ih _ _ _ h1.1 (LIn.append h1.2 hv)
      · rename_i s0 heq
        rw [heq] at h1
        have h2 := callCatch_in hf cls s0 h1.1
        split
        · rename_i e s1 heq2; rw [heq2] at h2; exact ⟨h2.1, trivial⟩
        · rename_i s1 heq2; rw [heq2] at h2; exact ih _ _ _ h2.1 hv
        · rename_i t s1 heq2
          rw [heq2] at h2
          have h3 := matchedStep_in env cfg startT sn i v t s1 h2.1 hv h2.2
          split
          · rename_i e s2 heq3; rw [heq3] at h3; exact ⟨h3.1, trivial⟩
          · rename_i s2 heq3; rw [heq3] at h3; exact ⟨h3.1, trivial⟩
          · rename_i v2 s2 heq3; rw [heq3] at h3; exact ⟨h3.1, h3.2⟩
          · rename_i i2 v2 s2 heq3; rw [heq3] at h3; exact ih _ _ _ h3.1 h3.2

theorem enterState_stream (tn : Option Name) (s : St) : (enterState tn s).stream = s.stream := by
  cases tn with
  | none => rfl
  | some n =>
    simp only [enterState, Fp.Block.ghostIf]
    split <;> split <;> rfl

def StartIn (P : Item → Prop) : StartRes → Prop
  | .ret r => MIn P r
  | .go rc _ _ _ _ => LIn P rc

theorem blockStart_in {f : F} (hf : FIn P f) (fuel : Nat) (cfg : Cfg) (s : St) (h : SIn P s) :
    SIn P (blockStart env f fuel cfg s).2 ∧ StartIn P (blockStart env f fuel cfg s).1 := by
  unfold blockStart
  split
  · exact ⟨h, LIn.nil⟩
  · rename_i sc _
    have h1 := addCID_in env fuel [] s h LIn.nil
    split
    · rename_i e sa heq1; rw [heq1] at h1; exact ⟨h1.1, trivial⟩
    · rename_i rc0 sa heq1
      rw [heq1] at h1
      have hrc0 : LIn P rc0 := h1.2
      have h2 := callCatch_in hf sc sa h1.1
      split
      · rename_i e s2 heq2; rw [heq2] at h2; exact ⟨h2.1, trivial⟩
      · rename_i s2 heq2; rw [heq2] at h2; exact ⟨h2.1.restoreRc hrc0, trivial⟩
      · rename_i t s2 heq2
        rw [heq2] at h2
        split
        · exact ⟨h2.1, trivial⟩
        · split
          · exact ⟨((h2.1.mono (enterState_stream _ s2)).ghostIf _ _), trivial⟩
          · exact ⟨h2.1.mono (enterState_stream _ s2), LIn.cons h2.2 hrc0⟩

theorem condExit_in (b : Bool) (s : St) (h : SIn P s) : SIn P (condExit b s).2 := by
  unfold condExit; split
  · exact h.exit
  · exact h

theorem condRemove_in (b : Bool) (n : Option Name) (s : St) (h : SIn P s) :
    SIn P (condRemove b n s).2 := by
  unfold condRemove; split
  · exact h.remove _
  · exact h

theorem blockTail_in (cfg : Cfg) (startT : Option Tree) (tn : Option Name) (v : LoopVars)
    (fe : Bool) (s3 : St) (h : SIn P s3) (hv : LIn P v.rc) :
    SIn P (blockTail env cfg startT tn v fe s3).2 ∧ MIn P (blockTail env cfg startT tn v fe s3).1 := by
  unfold blockTail
  split
  · have hr := condRemove_in (truthy tn) tn s3 h
    split
    · rename_i s4 heq; rw [heq] at hr; exact ⟨hr, trivial⟩
    · rename_i s4 heq; rw [heq] at hr; exact ⟨hr.restoreRc hv, trivial⟩
  · split
    · exact ⟨h, trivial⟩
    · split
      · exact ⟨h, hv.reverse⟩
      · exact ⟨h, trivial⟩
      · split
        · have hr := condRemove_in (truthy tn) tn s3 h
          split
          · rename_i s4 heq; rw [heq] at hr; exact ⟨hr, trivial⟩
          · rename_i s4 heq; rw [heq] at hr; exact ⟨hr, trivial⟩
        · exact ⟨h, trivial⟩
      · split
        · have hr := condRemove_in (truthy tn && env.tbl.quirks.nameMismatchRemoves) tn s3 h
          split
          · rename_i s4 heq; rw [heq] at hr; exact ⟨hr, trivial⟩
          · rename_i s4 heq; rw [heq] at hr; exact ⟨hr, trivial⟩
        · exact ⟨h.mono rfl, trivial⟩

theorem blockFinish_in (cfg : Cfg) (startT : Option Tree) (tn : Option Name) (res : LoopRes)
    (s2 : St) (h : SIn P s2) (hres : LoopIn P res) :
    SIn P (blockFinish env cfg startT tn res s2).2 ∧ MIn P (blockFinish env cfg startT tn res s2).1 := by
  unfold blockFinish
  have hexit := condExit_in (truthy tn) s2 h
  split
  · split
    · unfold blockCleanup
      split
      · rename_i s3 heq; rw [heq] at hexit; exact ⟨hexit, trivial⟩
      · rename_i s3 heq; rw [heq] at hexit
        have hr := condRemove_in (truthy tn) tn s3 hexit
        split
        · rename_i s4 heq2; rw [heq2] at hr; exact ⟨hr, trivial⟩
        · rename_i s4 heq2; rw [heq2] at hr; exact ⟨hr, trivial⟩
    · exact ⟨(h.ghostIf _ _).ghostIf _ _, trivial⟩
  · exact ⟨h.ghostIf _ _, trivial⟩
  · rename_i v fe
    split
    · rename_i s3 heq; rw [heq] at hexit; exact ⟨hexit, trivial⟩
    · rename_i s3 heq; rw [heq] at hexit
      exact blockTail_in env _ _ _ _ _ _ hexit hres

theorem blockMatch_in {f : F} (hf : FIn P f) (fuel : Nat) (cfg : Cfg) (s : St) (h : SIn P s) :
    SIn P (blockMatch env f fuel cfg s).2 ∧ MIn P (blockMatch env f fuel cfg s).1 := by
  unfold blockMatch
  have h1 := blockStart_in env hf fuel cfg s h
  split
  · rename_i r s1 heq; rw [heq] at h1; exact h1
  · rename_i rc0 startT tn sl sn s1 heq
    rw [heq] at h1
    have h2 := blockLoop_in env hf cfg (blockClasses env cfg) startT sn fuel 0 (loopVars0 cfg rc0 sl) s1
      h1.1 h1.2
    exact blockFinish_in env _ _ _ _ _ h2.1 h2.2

/-! ### the other `match` methods, `Base.__new__`, `eval` -/

theorem manyLoop_in {f : F} (hf : FIn P f) (c : Cls) (k : Nat) (rc : List Tree) (s : St)
    (h : SIn P s) (hrc : LIn P rc) :
    SIn P (manyLoop f c k rc s).2 ∧ MIn P (manyLoop f c k rc s).1 := by
  induction k generalizing rc s with
  | zero => simp only [manyLoop]; exact ⟨h, trivial⟩
  | succ k ih =>
    simp only [manyLoop]
    have h1 := callCatch_in hf c s h
    split
    · rename_i e s1 heq; rw [heq] at h1; exact ⟨h1.1, trivial⟩
    · rename_i s1 heq; rw [heq] at h1
      refine ⟨h1.1, ?_⟩
      split
      · trivial
      · exact hrc.reverse
    · rename_i t s1 heq; rw [heq] at h1; exact ih _ _ h1.1 (LIn.cons h1.2 hrc)

theorem seqNR_in {f : F} (hf : FIn P f) (q : Quirks) (cs : List Cls) (rc : List Tree) (s : St)
    (h : SIn P s) (hrc : LIn P rc) :
    SIn P (seqNR q f cs rc s).2 ∧ MIn P (seqNR q f cs rc s).1 := by
  induction cs generalizing rc s with
  | nil => simp only [seqNR]; exact ⟨h, hrc.reverse⟩
  | cons c cs ih =>
    simp only [seqNR]
    split
    · have h1 := callCatch_in hf c s h
      split
      · rename_i e s1 heq; rw [heq] at h1; exact ⟨h1.1, trivial⟩
      · rename_i s1 heq; rw [heq] at h1; exact ⟨h1.1.restoreRc hrc, trivial⟩
      · rename_i t s1 heq; rw [heq] at h1; exact ih _ _ h1.1 (LIn.cons h1.2 hrc)
    · have h1 := hf c s h
      split
      · rename_i e s1 heq; rw [heq] at h1; exact ⟨h1.1.ghostIf _ _, trivial⟩
      · rename_i s1 heq; rw [heq] at h1; exact ⟨h1.1.ghostIf _ _, trivial⟩
      · rename_i t s1 heq; rw [heq] at h1; exact ih _ _ h1.1 (LIn.cons h1.2 hrc)

theorem main0Match_in {f : F} (hf : FIn P f) (fuel : Nat) (cfg : Cfg) (scope : Name) (s : St)
    (h : SIn P s) :
    SIn P (main0Match env f fuel cfg scope s).2 ∧ MIn P (main0Match env f fuel cfg scope s).1 := by
  unfold main0Match
  have hp : SIn P ((Fp.Block.ghostIf (s.sym.clashes scope) Ghost.nameClash s).enter scope) :=
    (h.ghostIf _ _).mono rfl
  have h1 := blockMatch_in env hf fuel cfg _ hp
  generalize blockMatch env f fuel cfg
    ((Fp.Block.ghostIf (s.sym.clashes scope) Ghost.nameClash s).enter scope) = br at h1
  obtain ⟨r, s2⟩ := br
  simp only at h1
  have hexit : SIn P s2.exit.2 := h1.1.exit
  have hleak : SIn P (s2.ev (.ghost .main0Leak)) := h1.1.mono rfl
  cases r with
  | raise e =>
    simp only
    split
    · exact ⟨hleak, trivial⟩
    split
    · generalize s2.exit = ce at hexit
      obtain ⟨b, s3⟩ := ce
      cases b with
      | false => exact ⟨hexit, trivial⟩
      | true =>
        simp only
        have hr : SIn P (s3.remove scope).2 := SIn.remove hexit scope
        generalize s3.remove scope = cr at hr
        obtain ⟨b2, s4⟩ := cr
        cases b2 <;> exact ⟨hr, trivial⟩
    · exact ⟨hleak, trivial⟩
  | none =>
    simp only
    generalize s2.exit = ce at hexit
    obtain ⟨b, s3⟩ := ce
    cases b with
    | false => exact ⟨hexit, trivial⟩
    | true =>
      simp only
      have hr : SIn P (s3.remove scope).2 := SIn.remove hexit scope
      generalize s3.remove scope = cr at hr
      obtain ⟨b2, s4⟩ := cr
      cases b2 <;> exact ⟨hr, trivial⟩
  | tuple content =>
    simp only
    generalize s2.exit = ce at hexit
    obtain ⟨b, s3⟩ := ce
    cases b with
    | false => exact ⟨hexit, trivial⟩
    | true => exact ⟨hexit, h1.2⟩

def PIn (P : Item → Prop) : PRes → Prop
  | .done rc => LIn P rc
  | .fail rc _ => LIn P rc
  | .retNone => True

def UIn (P : Item → Prop) : UnitStep → Prop
  | .go rc => LIn P rc
  | .stop r => PIn P r

theorem pushTree_in {o : Outcome} {rc : List Tree} (ho : OIn P o) (hrc : LIn P rc) :
    LIn P (pushTree o rc) := by
  cases o with
  | tree t => exact LIn.cons ho hrc
  | none => exact hrc
  | raise e => exact hrc

theorem unitStep_in {f : F} (hf : FIn P f) (fuel : Nat) (unit main0 : Cls) (rc : List Tree)
    (s : St) (h : SIn P s) (hrc : LIn P rc) :
    SIn P (unitStep env f fuel unit main0 rc s).2 ∧ UIn P (unitStep env f fuel unit main0 rc s).1 := by
  unfold unitStep
  have h1 := hf unit s h
  split
  · rename_i e s1 heq
    rw [heq] at h1
    split
    · have h2 := blockMatch_in env hf fuel (fallbackCfg main0) (s1.ev (.ghost .fallback)) (h1.1.mono rfl)
      split
      · rename_i c0 s2 heq2; rw [heq2] at h2
        exact ⟨h2.1, LIn.append (LIn.reverse h2.2) hrc⟩
      · rename_i s2 heq2; rw [heq2] at h2; exact ⟨h2.1.ghostIf _ _, trivial⟩
      · rename_i e2 s2 heq2; rw [heq2] at h2; exact ⟨h2.1.ghostIf _ _, hrc⟩
    · exact ⟨h1.1, hrc⟩
  · rename_i o s1 _ heq
    rw [heq] at h1; exact ⟨h1.1, pushTree_in h1.2 hrc⟩

theorem programLoop_in {f : F} (hf : FIn P f) (unit main0 : Cls) (fuel k : Nat)
    (rc : List Tree) (s : St) (h : SIn P s) (hrc : LIn P rc) :
    SIn P (programLoop env f unit main0 fuel k rc s).2 ∧
    PIn P (programLoop env f unit main0 fuel k rc s).1 := by
  induction k generalizing rc s with
  | zero => simp only [programLoop]; exact ⟨h, hrc⟩
  | succ k ih =>
    simp only [programLoop]
    have h1 := unitStep_in env hf fuel unit main0 rc s h hrc
    split
    · rename_i r s1 heq; rw [heq] at h1; exact h1
    · rename_i rc1 s1 heq
      rw [heq] at h1
      have hrc1 : LIn P rc1 := h1.2
      have h2 := addCID_in env fuel rc1 s1 h1.1 hrc1
      split
      · rename_i e s2 heq2; rw [heq2] at h2; exact ⟨h2.1, hrc1⟩
      · rename_i rc2 s2 heq2
        rw [heq2] at h2
        have hrc2 : LIn P rc2 := h2.2
        split
        · rename_i s3 heq3; exact ⟨(h2.1.get_eq heq3).1, hrc2⟩
        · rename_i it s3 heq3
          obtain ⟨h3, hp⟩ := h2.1.get_eq heq3
          exact ih _ _ (h3.put (hp it rfl)) hrc2

theorem programMatch_in {f : F} (hf : FIn P f) (fuel : Nat) (unit main0 : Cls) (s : St)
    (h : SIn P s) :
    SIn P (programMatch env f fuel unit main0 s).2 ∧ MIn P (programMatch env f fuel unit main0 s).1 := by
  unfold programMatch
  have h1 := addCID_in env fuel [] s h LIn.nil
  split
  · rename_i e s1 heq; rw [heq] at h1; exact ⟨h1.1, trivial⟩
  · rename_i rc0 s1 heq
    rw [heq] at h1
    have h2 := programLoop_in env hf unit main0 fuel fuel rc0 s1 h1.1 h1.2
    split
    · rename_i rc s2 heq2; rw [heq2] at h2; exact ⟨h2.1, LIn.reverse h2.2⟩
    · rename_i s2 heq2; rw [heq2] at h2; exact ⟨h2.1, trivial⟩
    · rename_i rc e s2 heq2; rw [heq2] at h2
      split
      · exact blockMatch_in env hf _ _ _ ((SIn.mono (s' := s2.ev (.ghost .fallback)) h2.1 rfl).ghostIf _ _)
      · exact ⟨h2.1, trivial⟩

theorem altLoop_in {g : G} (hg : GIn P g) (ds pc : List Cls) (s : St) (h : SIn P s) :
    SIn P (altLoop env g ds pc s).2.2 ∧ OIn P (altLoop env g ds pc s).1 := by
  induction ds generalizing pc s with
  | nil =>
    simp only [altLoop]
    refine ⟨h, ?_⟩
    unfold blankRule; split <;> trivial
  | cons d ds ih =>
    simp only [altLoop]
    split
    · exact ih _ _ h
    · have h1 := hg d pc s h
      split
      · rename_i t pc1 s1 heq; rw [heq] at h1; exact h1
      · rename_i pc1 s1 heq; rw [heq] at h1; exact ih _ _ h1.1
      · rename_i pc1 s1 heq; rw [heq] at h1; exact ih _ _ h1.1
      · rename_i e pc1 s1 _ heq; rw [heq] at h1; exact ⟨h1.1, trivial⟩

theorem finish_in {g : G} (hg : GIn P g) (c : Cls) (subs : List Cls) (r : MRes × St)
    (pc : List Cls) (hr : SIn P r.2 ∧ MIn P r.1) :
    SIn P (finish env g c subs r pc).2.2 ∧ OIn P (finish env g c subs r pc).1 := by
  unfold finish
  split
  · exact ⟨hr.1, TIn.node hr.2⟩
  · exact altLoop_in env hg _ _ _ hr.1
  · exact altLoop_in env hg _ _ _ hr.1
  · exact ⟨hr.1, trivial⟩

theorem programConvert_in {o : Outcome} (h : OIn P o) : OIn P (programConvert o) := by
  cases o with
  | tree t => exact h
  | none => trivial
  | raise e => cases e <;> trivial

theorem eval_in (fuel : Nat) : GIn P (eval env fuel) := by
  induction fuel with
  | zero => intro c pc s h; simp only [eval]; exact ⟨h, trivial⟩
  | succ fuel ih =>
    intro c pc s h
    have hf : FIn P (fresh (eval env fuel)) := fresh_in ih
    simp only [eval]
    split
    · exact leafNew_in env _ _ _ h
    · exact altLoop_in env ih _ _ _ h
    · exact finish_in env ih _ _ _ _ (blockMatch_in env hf _ _ _ h)
    · exact finish_in env ih _ _ _ _ (manyLoop_in hf _ _ _ _ h LIn.nil)
    · exact finish_in env ih _ _ _ _ (seqNR_in hf _ _ _ _ h LIn.nil)
    · exact finish_in env ih _ _ _ _ (main0Match_in env hf _ _ _ _ h)
    · rename_i unit main0 subs _
      have h1 := finish_in env ih c subs _ [c] (programMatch_in env hf fuel unit main0 s h)
      refine ⟨?_, programConvert_in h1.2⟩
      unfold programExit
      split
      · split
        · exact h1.1.mono rfl
        · exact h1.1
      · exact h1.1
    · exact commentNew_in env _ h
    · exact directiveNew_in env _ h
    · exact cppNew_in env _ _ h

/-- THE MATCHER ONLY HANDLES ITEMS IT GOT: if every item of the stream satisfies `P` before a
    class call, every item of the stream and every leaf of the returned tree does afterwards -/
theorem run_in (fuel : Nat) (c : Cls) (s : St) (h : SIn P s) :
    SIn P (run env fuel c s).2 ∧ OIn P (run env fuel c s).1 := by
  unfold run; exact fresh_in (eval_in env fuel) c s h

end
end Fp.Block
