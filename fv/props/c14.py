"""C14 — preprocessor directives are kept as nodes and do not disturb the Fortran."""
import random
from fv import real, gen, layout, treeutil, engine, findings
from fv.props import util

RULE = ("generated programs (laid out with comments) x insertions D of C-preprocessor lines at statement boundaries (any depth, "
        "before/after units, adjacent to comments): #if/#ifdef/#ifndef/#elif/#else/#endif/#include/#define/#undef/#line/#error/"
        "#warning/null directive/line markers, with backslash continuations and blanks after '#'; oracle: tree with Cpp_* nodes "
        "removed == tree(P); the Cpp_* nodes in tree order print to D in order (content compared modulo blanks); each appears in "
        "str(tree). Both comment settings. non-trivial = >= 4 directives of >= 3 kinds"
        ' Correspondence: Fp.Reader item stream == real reader on every second source with directives, process_directives off and on.')
ASSUMPTIONS = []
TIE_MODULES = ["FparserModel.Reader", "FparserModel.Block", "FparserModel.Cpp", "FparserModel.Generated.CppTables"]

DIRECTIVES = ["#if defined(FOO) && BAR > 1", "#ifdef FOO", "#ifndef _OPENMP", "#elif BAR == 2", "#else", "#endif",
              "#include \"defs.h\"", "#include <stdio.h>", "#define FOO 1", "#define MAX(a,b) ((a)>(b)?(a):(b))", "#define EMPTY",
              "#undef FOO", "#line 42 \"file.F90\"", "#error this is 'bad'", "#warning careful ! not a comment", "#",
              "# 12 \"marker.f90\" 2", "#  define SPACED 2", "  #ifdef INDENTED", "#define LONG 1 + \\\n   2 + \\\n   3",
              "#if A \\\n  && B", "#endif /* FOO */"]


_IDS = ["FOO", "BAR", "_OPENMP", "USE_MPI", "x1", "Mixed_Case"]
_EXPRS = ["defined(FOO) && BAR > 1", "FOO", "!defined(X)", "A || B", "(VER >= 3)", "0", "defined FOO", "BAR == 2", "X+1 > (Y<<2)"]
_TAILS = ["", "", "", " /* FOO */", " /* !MACRO */", " // X", " FOO", "   "]


def gen_directive(rng):
    """one preprocessor line built from keyword x payload shape x decoration (blanks after '#',
    indentation, trailing comment / tokens, backslash continuation)"""
    kw = rng.choice(["if", "ifdef", "ifndef", "elif", "else", "endif", "include", "define", "undef", "line", "error", "warning", "null", "linemarker"])
    pre = rng.choice(["", "", "", " ", "  "]) + "#" + rng.choice(["", "", "", " ", "  "])
    cont = "\\\n"
    if kw in ("if", "elif"):
        e = rng.choice(_EXPRS)
        if rng.random() < 0.15:
            e = e + " " + cont + "  && " + rng.choice(_EXPRS)
            if rng.random() < 0.4:
                e = e + " " + cont + "  || " + rng.choice(_IDS)
        return pre + kw + " " + e + rng.choice(["", "", " /* c */"])
    if kw in ("ifdef", "ifndef", "undef"):
        return pre + kw + " " + rng.choice(_IDS) + rng.choice(["", "", "  "])      # trailing comment: F-C14-3 (probe stream)
    if kw in ("else", "endif"):
        return pre + kw + rng.choice(_TAILS)
    if kw == "include":
        return pre + kw + " " + rng.choice(['"defs.h"', "<stdio.h>", '"sub/dir/x.inc"', '"a b.h"']) + rng.choice(["", "", "  "])
    if kw == "define":
        nm = rng.choice(_IDS)
        r = rng.random()
        if r < 0.2:
            return pre + kw + " " + nm
        if r < 0.5:
            return pre + kw + " " + nm + " " + rng.choice(["1", "(2*3)", "'str ! x'", "a + b", "real(8)"])
        if r < 0.8:
            return pre + kw + " " + nm + rng.choice(["(a,b)", "(a)", "()", "(a, ...)"]) + " " + rng.choice(["((a)>(b)?(a):(b))", "a", "__VA_ARGS__", "call f(a)"])
        return pre + kw + " " + nm + " 1 + " + cont + "   2 + " + cont + "   3"
    if kw == "line":
        return pre + kw + " " + str(rng.randint(1, 999)) + rng.choice(["", ' "file.F90"'])
    if kw in ("error", "warning"):
        return pre + kw + rng.choice([" this is 'bad'", " careful ! not a comment", "", ' "quoted"'])
    if kw == "linemarker":
        return "# " + str(rng.randint(1, 99)) + ' "marker.f90"' + rng.choice(["", " 2", " 1 3"])
    return pre.rstrip() if pre.rstrip() == "#" else "#"


def dnorm(t):
    return "".join(t.replace("\\\n", "").split())


def _has_cpp(x):
    if isinstance(x, tuple):
        if x and isinstance(x[0], str) and x[0].startswith("Cpp_"):
            return True
        return any(_has_cpp(c) for c in x)
    return False


def strip_cpp(s):
    """remove Cpp_* nodes; a wrapper node (Implicit_Part, …) that held nothing but directives
    disappears with them"""
    if isinstance(s, tuple):
        out = []
        for x in s:
            if isinstance(x, tuple) and x and isinstance(x[0], str) and x[0].startswith("Cpp_"):
                continue
            y = strip_cpp(x)
            if isinstance(x, tuple) and len(x) > 1 and isinstance(y, tuple) and len(y) == 1 and isinstance(y[0], str) \
                    and y[0][:1].isupper() and _has_cpp(x):
                continue
            out.append(y)
        return tuple(out)
    return s


# known finding F-C14-3: a comment (or any text) after the identifier of #ifdef/#ifndef/#undef or
# after the file name of #include makes the line match no Cpp class -> syntax error
TRAILING_PROBES = ["#ifdef FOO /* c */", "#ifndef FOO /* c */", "#undef FOO /* c */", '#include "defs.h" /* c */']
TRAILING_OK = ["#endif /* c */", "#else /* c */", "#if FOO /* c */", "#elif FOO /* c */", "#define FOO 1 /* c */", "#ifdef FOO  ", "#undef FOO\t"]


def run_probe(case):
    res = {"key": ["probe"], "counts": {}, "findings": [], "nontrivial": True, "keys": []}
    for std in ("f2003", "f2008"):
        for d in TRAILING_PROBES + TRAILING_OK:
            src = "program p\n  integer :: i\n%s\n  i = 1\n#endif\nend program p\n" % d
            o = real.try_parse(src, std=std, ignore_comments=True, free=True)
            res["keys"].append(std + ":" + d)
            ok = o.kind == "tree" and dnorm(d) in dnorm(str(o.tree))
            if d in TRAILING_PROBES:
                res["findings"].append({"signature": "pred:cpp_trailing_text_after_identifier" if not ok else "probe-now-accepted:" + d.split()[0],
                                        "what": ("directive %r is rejected: %s" % (d, str(o.exc)[:80].replace("\n", " "))) if not ok else
                                                ("directive %r, listed as known finding F-C14-3, is now kept: remove the finding" % d),
                                        "replay": {"case": case, "source": src, "std": std}})
            elif not ok:
                res["findings"].append({"signature": "cpp-reject:probe:" + d.split()[0], "what": "directive %r rejected or not kept: %s" % (d, str(o.exc)[:100]),
                                        "replay": {"case": case, "source": src, "std": std}})
    return res


def run_case(case):
    if case.get("kind") == "probe":
        return run_probe(case)
    p = util.program_case(case)
    std, keep = case["std"], case["keep"]
    rng = random.Random(case["seed"] ^ 0xC14)
    res = {"key": [case["seed"], std, keep], "counts": {}, "findings": [], "nontrivial": False}
    L = layout.render_free(p, case["seed"] ^ 0xC14, layout.FreeOpts(p_cont=0.2, comments=True, p_blank=0.0))
    base = L.text()
    o0 = real.try_parse(base, std=std, ignore_comments=not keep, free=True)
    if o0.kind != "tree":
        return res
    # statement boundaries = physical line indices where a statement (or a comment line between statements) starts
    firsts = sorted(set(f for f, _ in L.spans.values()))
    inside = set()
    for f, l in L.spans.values():
        inside.update(range(f + 1, l + 1))
    comment_lines = [ln for (ln, t, inl) in L.comments if not inl and ln not in inside]
    bounds = sorted(set(firsts + comment_lines + [len(L.lines) + 1]))
    k = rng.randint(1, min(8, len(bounds)))
    where = sorted(rng.sample(bounds, k))
    if rng.random() < 0.5:
        # several directives in a row at one boundary; the boundary behind the last END included
        where = sorted(where + [rng.choice(where + [bounds[-1]]) for _ in range(rng.randint(1, 3))])
    lines = list(L.lines)
    D = []
    for ln in reversed(where):
        d = rng.choice(DIRECTIVES) if rng.random() < 0.4 else gen_directive(rng)
        lines[ln - 1:ln - 1] = d.split("\n")
        D.insert(0, d)
    src = "\n".join(lines) + "\n"
    kinds = set(d.strip().lstrip("#").split()[0] if d.strip().lstrip("#").split() else "null" for d in D)
    res["nontrivial"] = len(D) >= 4 and len(kinds) >= 3
    for kd in kinds:
        res["counts"]["kind:" + kd] = 1
    res["sample"] = {"seed": case["seed"], "directives": D[:4]}
    o1 = real.try_parse(src, std=std, ignore_comments=not keep, free=True)
    if case["seed"] % 2 == 1:
        res["findings"] += util.reader_cosim(src, "free", ic=(not keep,), pd=False, case=case)
        res["findings"] += util.reader_cosim(src, "free", ic=(not keep,), pd=True, case=case)
        res["counts"]["reader-cosim"] = 1
    rp = {"case": case, "source": src, "base": base, "directives": D}
    ctx = {"std": std, "ignore_comments": not keep}
    if o1.kind != "tree":
        known = findings.classify("C14", src, ctx)
        res["findings"].append({"signature": known or ("cpp-reject:" + util.outcome_signature(o1)),
                                "what": "program with inserted directives rejected: %s" % str(o1.exc)[:200], "replay": rp})
        return res
    if case["seed"] % 2 == 0:
        fs, info = util.block_cosim(src, std=std, ignore_comments=not keep, case=case)
        res["findings"] += fs
        res["counts"]["block-cosim"] = 1
    a, b = treeutil.sig(o0.tree), strip_cpp(treeutil.sig(o1.tree))
    if a != b:
        d = treeutil.first_diff(a, b)
        node = a
        for i in d[0][:-1]:
            node = node[i]
        at_cls = node[0] if isinstance(node, tuple) and node and isinstance(node[0], str) else "?"
        res["findings"].append({"signature": "cpp-disturbs-fortran@" + at_cls, "what": "tree minus directive nodes differs from tree(P) at %s: %s vs %s" % d, "replay": rp})
    nodes = [n for n in treeutil.all_nodes(o1.tree) if type(n).__name__.startswith("Cpp_") and type(n).__name__.endswith("_Stmt")]
    got = [dnorm(str(n)) for n in nodes]
    exp = [dnorm(d) for d in D]
    def angle(e):
        """`#include <f>` is printed as `#include "f"` (known finding F-C14-1)"""
        if e.startswith("#include<") and e.endswith(">"):
            return '#include"' + e[9:-1] + '"'
        return e
    if got != exp:
        if got == [angle(e) for e in exp]:
            res["findings"].append({"signature": "pred:cpp_include_angle_brackets",
                                    "what": "`#include <stdio.h>` is kept as %r" % [g for g, e in zip(got, exp) if g != e][:1], "replay": rp})
        else:
            j = next((i for i, (x, y) in enumerate(zip(got, exp)) if x != angle(y)), min(len(got), len(exp)))
            res["findings"].append({"signature": "cpp-payload:" + (D[j].split()[0] if j < len(D) and D[j].split() else "count"),
                                    "what": "directive %d: tree has %r, source has %r (%d nodes for %d directives)" % (j, got[j:j + 1], exp[j:j + 1], len(got), len(exp)),
                                    "replay": rp})
    # position: with comments dropped every statement prints as one line, so the number of
    # non-directive lines in front of a directive must be the number of statements in front
    # of the boundary it was inserted at
    if not keep:
        plines = [l.strip() for l in str(o1.tree).split("\n") if l.strip()]
        starts = sorted(f for f, _ in L.spans.values())
        want = [sum(1 for f in starts if f < ln) for ln in where]
        gotpos = []
        nstmt = 0
        for l in plines:
            if l.startswith("#"):
                gotpos.append(nstmt)
            else:
                nstmt += 1
        if len(gotpos) == len(want) and gotpos != want:
            j = next(i for i, (x, y) in enumerate(zip(gotpos, want)) if x != y)
            res["findings"].append({"signature": "cpp-position", "what": "directive %r inserted after %d statements appears after %d statements in the regenerated text" % (D[j], want[j], gotpos[j]),
                                    "replay": rp})
    printed = dnorm(str(o1.tree))
    pos = 0
    for d in exp:
        q = printed.find(angle(d), pos)
        if q < 0:
            res["findings"].append({"signature": "cpp-not-in-text", "what": "directive %r missing (or out of order) in regenerated text" % d, "replay": rp})
            break
        pos = q + len(d)
    return res


def cases(tier, seed):
    n = util.tier_n(tier, 150, 1500)
    return [{"kind": "probe", "seed": 0}] + [{"seed": s, "std": "f2008" if i % 3 else "f2003", "keep": i % 2 == 1, "size": 0.8} for i, s in enumerate(util.seeds(seed, n, 14))]


def run(tier, rep, st):
    util.sub_cosim(rep, tier, "cosim_cpp", "Fp.Cpp", 150, 2000)
    engine.run_cases(__name__, cases(tier, rep.seed), rep)
