import FparserModel.Proofs.ExprLex2Ctx

/-! locality of `tokAt` and `matchAt` -/
set_option linter.unusedSimpArgs false
set_option linter.unusedVariables false
namespace Fp.ExprLex
open Fp Fp.Expr

/-! ### `tokAt` -/

def tok2 (c : Char) (d : Option Char) : Option (TK × Nat) :=
  if c = '*' then (if d = some '*' then some (.pow, 2) else some (.mul, 1))
  else if c = '/' then
    (if d = some '/' then some (.concat, 2) else if d = some '=' then some (.ne, 2) else some (.div, 1))
  else if c = '+' then some (.plus, 1)
  else if c = '-' then some (.minus, 1)
  else if c = '=' then (if d = some '=' then some (.eq, 2) else none)
  else if c = '<' then (if d = some '=' then some (.le, 2) else some (.lt, 1))
  else if c = '>' then (if d = some '=' then some (.ge, 2) else some (.gt, 1))
  else none

theorem tokAt_dot (r : Str) :
    tokAt ('.' :: r) = (dotWord ('.' :: r)).map fun wn => (TK.dotted wn.1, wn.2) := rfl

theorem tokAt_cons (c : Char) (r : Str) (hc : c ≠ '.') : tokAt (c :: r) = tok2 c r.head? := by
  cases r with
  | nil => unfold tokAt tok2; split <;> simp_all
  | cons d r' =>
    unfold tokAt tok2
    split <;> (try (rename_i heq; injection heq with h1 h2; subst h1 h2)) <;> simp_all

theorem tokAt_nil : tokAt [] = none := rfl

theorem tok2_short (c : Char) (d : Option Char) (k : TK) (n : Nat) (h : tok2 c d = some (k, n))
    (hn : n ≤ 1) : tok2 c none = some (k, n) := by
  unfold tok2 at *
  repeat' split at h
  all_goals simp_all
  all_goals omega

theorem tok2_none (c : Char) (d : Option Char) (h : tok2 c d = none) : tok2 c none = none := by
  unfold tok2 at *
  repeat' split at h
  all_goals simp_all

theorem tokAt_cut (x y : Str) (k : TK) (n : Nat) (h : tokAt (x ++ y) = some (k, n)) (hn : n ≤ x.length) :
    tokAt x = some (k, n) := by
  have hb := tokAt_bound _ _ _ h
  cases x with
  | nil => simp at hn; omega
  | cons c r =>
    by_cases hc : c = '.'
    · subst hc
      rw [List.cons_append, tokAt_dot] at h
      rw [tokAt_dot]
      cases hd : dotWord ('.' :: (r ++ y)) with
      | none => simp [hd] at h
      | some wn =>
        rw [hd] at h
        simp only [Option.map_some, Option.some.injEq, Prod.mk.injEq] at h
        have := dotWord_cut ('.' :: r) y wn.1 wn.2 hd (by rw [h.2]; exact hn)
        rw [this]; simp [h]
    · rw [List.cons_append, tokAt_cons _ _ hc] at h
      rw [tokAt_cons _ _ hc]
      cases r with
      | nil => exact tok2_short c _ k n h (by simpa using hn)
      | cons d r' => simpa using h

theorem tokAt_none_cut (x y : Str) (h : tokAt (x ++ y) = none) : tokAt x = none := by
  cases x with
  | nil => rfl
  | cons c r =>
    by_cases hc : c = '.'
    · subst hc
      rw [List.cons_append, tokAt_dot] at h
      rw [tokAt_dot]
      cases hd : dotWord ('.' :: r) with
      | none => rfl
      | some wn =>
        have := dotWord_ext ('.' :: r) y wn.1 wn.2 hd
        rw [List.cons_append] at this
        rw [this] at h; simp at h
    · rw [List.cons_append, tokAt_cons _ _ hc] at h
      rw [tokAt_cons _ _ hc]
      cases r with
      | nil => exact tok2_none c _ h
      | cons d r' => simpa using h

/-- a character at which no operator word starts -/
theorem tokAt_none_char (c : Char) (r : Str) (h : tokAt (c :: r) = none) : c ≠ '*' ∧ c ≠ '/' := by
  constructor <;> intro hc <;> subst hc <;> rw [tokAt_cons _ _ (by decide)] at h <;> unfold tok2 at h <;>
    simp only [Char.reduceEq, ↓reduceIte] at h <;> (repeat' split at h) <;> simp at h

end Fp.ExprLex
