import FparserModel.SymGlue
import FparserModel.Proofs.SymTab
/-!
Tree / path lemmas for the SymGlue proofs: how the chain of tables seen from the current scope
changes under `updTable` at the current scope, `enter_scope` and `exit_scope`.  No Mathlib.
-/
namespace Fp.SymGlue
open Fp Fp.SymTab

@[simp] theorem Table.children_mk (l : Local) (c : List Table) : (Table.mk l c).children = c := rfl
@[simp] theorem Table.loc_mk (l : Local) (c : List Table) : (Table.mk l c).loc = l := rfl

/-- apply `g` to the last element -/
def modLast {α} (g : α → α) : List α → List α
  | [] => []
  | [x] => [g x]
  | x :: y :: r => x :: modLast g (y :: r)

theorem modLast_cons {α} (g : α → α) (x : α) (l : List α) (h : l ≠ []) :
    modLast g (x :: l) = x :: modLast g l := by
  cases l with
  | nil => exact absurd rfl h
  | cons y r => rfl

theorem modLast_snoc {α} (g : α → α) (init : List α) (x : α) :
    modLast g (init ++ [x]) = init ++ [g x] := by
  induction init with
  | nil => rfl
  | cons a r ih =>
    have : r ++ [x] ≠ [] := by simp
    simp [modLast_cons g a _ this, ih]

theorem chainFrom_ne_nil : ∀ (rel : Rel) (t : Table) (c : List Local),
    chainFrom t rel = some c → c ≠ [] := by
  intro rel
  induction rel with
  | nil => intro t c h; simp [chainFrom] at h; subst h; simp
  | cons i is ih =>
    intro t c h
    simp only [chainFrom] at h
    cases hc : t.children[i]? with
    | none => simp [hc] at h
    | some ch =>
      simp only [hc, Option.map_eq_some_iff] at h
      obtain ⟨c', _, rfl⟩ := h
      simp

/-- the last element of the chain is the data of the table at the path -/
theorem chainFrom_last : ∀ (rel : Rel) (t : Table) (c : List Local),
    chainFrom t rel = some c → ∃ u init, getAt t rel = some u ∧ c = init ++ [u.loc] := by
  intro rel
  induction rel with
  | nil =>
    intro t c h
    simp [chainFrom] at h; subst h
    exact ⟨t, [], rfl, rfl⟩
  | cons i is ih =>
    intro t c h
    simp only [chainFrom] at h
    cases hc : t.children[i]? with
    | none => simp [hc] at h
    | some ch =>
      simp only [hc, Option.map_eq_some_iff] at h
      obtain ⟨c', hc', rfl⟩ := h
      obtain ⟨u, init, hu, rfl⟩ := ih ch c' hc'
      exact ⟨u, t.loc :: init, by simp [getAt, hc, hu], rfl⟩

/-- changing the data of the table at `rel` changes exactly the last element of its chain -/
theorem chainFrom_updAt_same (f : Table → Table) (g : Local → Local)
    (hf : ∀ u, (f u).loc = g u.loc) :
    ∀ (rel : Rel) (t : Table), chainFrom (updAt f rel t) rel = (chainFrom t rel).map (modLast g) := by
  intro rel
  induction rel with
  | nil => intro t; simp [updAt, chainFrom, hf, modLast]
  | cons i is ih =>
    intro t
    cases t with
    | mk l ch =>
      simp only [updAt, chainFrom, Table.children_mk, Table.loc_mk]
      rw [List.getElem?_modify]
      cases hc : ch[i]? with
      | none => simp
      | some c =>
        simp only [↓reduceIte]
        cases hcc : chainFrom c is with
        | none => simp [ih c, hcc]
        | some cc =>
          have := chainFrom_ne_nil is c cc hcc
          simp [ih c, hcc, modLast_cons g l cc this]

/-- appending a child to the table at `rel` and going into it -/
theorem chainFrom_enter (leaf : Table) :
    ∀ (rel : Rel) (t u : Table), getAt t rel = some u →
      chainFrom (updAt (fun t => .mk t.loc (t.children ++ [leaf])) rel t) (rel ++ [u.children.length])
        = (chainFrom t rel).map (· ++ [leaf.loc]) ∧
      (∃ c, chainFrom t rel = some c) := by
  intro rel
  induction rel with
  | nil =>
    intro t u h
    simp [getAt] at h; subst h
    cases leaf with
    | mk ll lc =>
      simp [updAt, chainFrom]
  | cons i is ih =>
    intro t u h
    cases t with
    | mk l ch =>
      simp only [getAt, Table.children_mk] at h
      cases hc : ch[i]? with
      | none => simp [hc] at h
      | some c =>
        simp only [hc] at h
        obtain ⟨h1, c1, h2⟩ := ih c u h
        constructor
        · simp only [updAt, List.cons_append, chainFrom, Table.children_mk, Table.loc_mk]
          rw [List.getElem?_modify]
          simp only [hc, ↓reduceIte, Option.map_eq_map, Option.map_some, h1, h2]
          simp
        · simp [chainFrom, hc, h2]

/-- leaving the innermost scope: the chain loses its last element -/
theorem chainFrom_exit : ∀ (rel : Rel) (i : Nat) (t : Table) (c : List Local),
    chainFrom t (rel ++ [i]) = some c → chainFrom t rel = some c.dropLast := by
  intro rel
  induction rel with
  | nil =>
    intro i t c h
    simp only [List.nil_append, chainFrom] at h
    cases hc : t.children[i]? with
    | none => simp [hc] at h
    | some ch =>
      simp only [hc, Option.map_some, Option.some.injEq] at h
      subst h
      simp [chainFrom]
  | cons j js ih =>
    intro i t c h
    simp only [List.cons_append, chainFrom] at h
    cases hc : t.children[j]? with
    | none => simp [hc] at h
    | some ch =>
      simp only [hc, Option.map_eq_some_iff] at h
      obtain ⟨c', hc', rfl⟩ := h
      have hne := chainFrom_ne_nil _ _ _ hc'
      have := ih i ch c' hc'
      simp only [chainFrom, hc, this, Option.map_some, Option.some.injEq]
      cases c' with
      | nil => exact absurd rfl hne
      | cons a r => rfl

/-! ## the same facts on `Tables` (chains innermost first) -/

/-- apply `g` to the first element -/
def modHead {α} (g : α → α) : List α → List α
  | [] => []
  | x :: r => g x :: r

theorem reverse_modLast {α} (g : α → α) (l : List α) :
    (modLast g l).reverse = modHead g l.reverse := by
  cases h : l.reverse with
  | nil =>
    have : l = [] := by simpa using h
    subst this; rfl
  | cons x r =>
    have hl : l = r.reverse ++ [x] := by
      have := congrArg List.reverse h
      simpa using this
    subst hl
    simp [modLast_snoc, modHead]

/-- **T1** changing the data of the table at `p` changes exactly the head of the chain of `p` -/
theorem chain_updTable_same (s : Tables) (p : Path) (f : Table → Table) (g : Local → Local)
    (hf : ∀ u, (f u).loc = g u.loc) :
    (s.updTable p f).chain p = (s.chain p).map (modHead g) := by
  unfold Tables.updTable Tables.chain
  cases hq : dGet s.tops p.1 with
  | none => simp [hq]
  | some t =>
    simp only [dGet_dSet_same, chainFrom_updAt_same f g hf]
    cases chainFrom t p.2 with
    | none => rfl
    | some c => simp [reverse_modLast]

theorem updTable_cur (s : Tables) (p : Path) (f : Table → Table) : (s.updTable p f).cur = s.cur := by
  unfold Tables.updTable; cases dGet s.tops p.1 <;> rfl

theorem updTable_checks (s : Tables) (p : Path) (f : Table → Table) :
    (s.updTable p f).checks = s.checks := by
  unfold Tables.updTable; cases dGet s.tops p.1 <;> rfl

theorem updTable_tops_ne (s : Tables) (p : Path) (f : Table → Table) (n : Str) (h : p.1 ≠ n) :
    dGet (s.updTable p f).tops n = dGet s.tops n := by
  unfold Tables.updTable
  cases hq : dGet s.tops p.1 with
  | none => rfl
  | some t => simp [dGet_dSet_ne _ _ _ _ h]

/-- **T0** the head of the chain is the data of the table at `p` -/
theorem tableAt_of_chain (s : Tables) (p : Path) (l : Local) (rest : List Local)
    (h : s.chain p = some (l :: rest)) : ∃ t, s.tableAt p = some t ∧ t.loc = l := by
  unfold Tables.chain at h
  unfold Tables.tableAt
  cases hq : dGet s.tops p.1 with
  | none => simp [hq] at h
  | some t =>
    simp only [hq, Option.map_eq_some_iff] at h
    obtain ⟨c, hc, hrev⟩ := h
    obtain ⟨u, init, hu, rfl⟩ := chainFrom_last _ _ _ hc
    refine ⟨u, hu, ?_⟩
    simp at hrev
    exact hrev.1

theorem chain_ne_nil (s : Tables) (p : Path) (c : List Local) (h : s.chain p = some c) : c ≠ [] := by
  unfold Tables.chain at h
  cases hq : dGet s.tops p.1 with
  | none => simp [hq] at h
  | some t =>
    simp only [hq, Option.map_eq_some_iff] at h
    obtain ⟨c', hc', rfl⟩ := h
    simpa using chainFrom_ne_nil _ _ _ hc'

/-- the chain of a top-level table is that table alone -/
theorem chain_top (s : Tables) (n : Str) (t : Table) (h : dGet s.tops n = some t) :
    s.chain (n, []) = some [t.loc] := by
  simp [Tables.chain, h, chainFrom]

theorem chain_top_inv (s : Tables) (n : Str) (c : List Local) (h : s.chain (n, []) = some c) :
    ∃ t, dGet s.tops n = some t ∧ c = [t.loc] := by
  unfold Tables.chain at h
  cases hq : dGet s.tops n with
  | none => simp [hq] at h
  | some t =>
    simp [hq, chainFrom] at h
    exact ⟨t, rfl, h.symm⟩

/-- **T3** `enter_scope` below the current scope `p` -/
theorem enterScope_nested (s : Tables) (p : Path) (ch : List Local) (n : Str) (sub : Bool)
    (hc : s.cur = some p) (hch : s.chain p = some ch) :
    ∃ q, (s.enterScope n sub).cur = some q ∧ q.1 = p.1
      ∧ (s.enterScope n sub).chain q = some ((Table.leaf (lower n) s.checks sub).loc :: ch)
      ∧ (s.enterScope n sub).checks = s.checks
      ∧ (∀ m, p.1 ≠ m → dGet (s.enterScope n sub).tops m = dGet s.tops m) := by
  obtain ⟨l, rest, rfl⟩ : ∃ l rest, ch = l :: rest := by
    cases ch with
    | nil => exact absurd rfl (chain_ne_nil s p _ hch)
    | cons l rest => exact ⟨l, rest, rfl⟩
  obtain ⟨t, ht, _⟩ := tableAt_of_chain s p l rest hch
  unfold Tables.enterScope
  simp only [hc, ht]
  refine ⟨(p.1, p.2 ++ [t.children.length]), rfl, rfl, ?_, ?_, ?_⟩
  · -- the chain of the new scope
    unfold Tables.tableAt at ht
    unfold Tables.chain at hch
    cases hq : dGet s.tops p.1 with
    | none => simp [hq] at ht
    | some tt =>
      simp only [hq] at ht hch
      have := (chainFrom_enter (Table.leaf (lower n) s.checks sub) p.2 tt t ht).1
      simp only [Tables.chain, Tables.updTable, hq, dGet_dSet_same, this]
      simp only [Option.map_eq_some_iff] at hch
      obtain ⟨c, hcc, hrev⟩ := hch
      simp [hcc, hrev]
  · exact updTable_checks s p _
  · intro m hm
    exact updTable_tops_ne s p _ m hm

/-- **T4** `exit_scope` from a nested scope -/
theorem chain_exit (s : Tables) (top : Str) (rel : Rel) (i : Nat) (l : Local) (ch : List Local)
    (h : s.chain (top, rel ++ [i]) = some (l :: ch)) : s.chain (top, rel) = some ch := by
  unfold Tables.chain at h ⊢
  cases hq : dGet s.tops top with
  | none => simp [hq] at h
  | some t =>
    simp only [hq, Option.map_eq_some_iff] at h ⊢
    obtain ⟨c, hc, hrev⟩ := h
    refine ⟨c.dropLast, chainFrom_exit rel i t c hc, ?_⟩
    have : c = (l :: ch).reverse := by
      have := congrArg List.reverse hrev; simpa using this
    subst this
    simp

end Fp.SymGlue
