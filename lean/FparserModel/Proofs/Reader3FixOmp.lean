import FparserModel.Proofs.Reader3FixLoop

/-!
# Reader3FixOmp — fixed form, `include_omp_conditional_lines = True` as a simulation (C15)

`get_single_line` of a fixed-form reader with the flag on applies `replace_omp_sentinels` to the
cooked line. `OmpSim r r'`: `r` has the flag on, `r'` is the same reader with the flag off and a
source whose lines cook to the blanked lines of `r`. Every operation of the fixed-form branch of
`get_source_item` commutes with this relation.
-/
namespace Fp.Reader
open Fp

/-- `l'` is a raw line that cooks to what `get_single_line` makes of `l` when the flag is on -/
def Blanked (l l' : Str) : Prop := (replaceSentinelFixed (cook l)).1 = cook l'

/-- line-by-line relation of two sources -/
inductive SrcSim : List Str → List Str → Prop where
  | nil : SrcSim [] []
  | cons {l l' : Str} {ls ls' : List Str} : Blanked l l' → SrcSim ls ls' → SrcSim (l :: ls) (l' :: ls')

theorem SrcSim.length_eq {a b : List Str} (h : SrcSim a b) : a.length = b.length := by
  induction h with
  | nil => rfl
  | cons _ _ ih => simp [ih]

/-- the same reader with the flag off and the source `s'` -/
abbrev flagOff (s' : List Str) (r : Rd) : Rd := { r with omp := false, src := s' }

def OmpSim (r r' : Rd) : Prop :=
  ∃ s', SrcSim r.src s' ∧ r' = flagOff s' r ∧ r.omp = true ∧ r.isFree = false

theorem pull_sim (sk : Bool) : ∀ (src src' : List Str) (lc : Nat) (ls : List Str),
    SrcSim src src' →
    (pull false sk src' lc ls).1 = (pull true sk src lc ls).1 ∧
    SrcSim (pull true sk src lc ls).2.1 (pull false sk src' lc ls).2.1 ∧
    (pull false sk src' lc ls).2.2 = (pull true sk src lc ls).2.2
  | [], _, lc, ls, h => by cases h; exact ⟨rfl, SrcSim.nil, rfl⟩
  | l :: rest, _, lc, ls, h => by
    cases h with
    | cons hb hr =>
      rename_i l' rest'
      unfold Blanked at hb
      unfold pull
      simp only [if_true, Bool.false_eq_true, if_false, ← hb]
      by_cases hc : (sk && isFixCommentS (replaceSentinelFixed (cook l)).1) = true
      · simp only [hc, if_true]
        exact pull_sim sk rest rest' _ _ hr
      · simp only [hc, if_false]
        exact ⟨rfl, hr, rfl⟩

theorem getSingleLine_sim (r r' : Rd) (h : OmpSim r r') :
    (getSingleLine r').1 = (getSingleLine r).1 ∧ OmpSim (getSingleLine r).2 (getSingleLine r').2 := by
  obtain ⟨s', hs, rfl, ho, hf⟩ := h
  obtain ⟨src, closed, filo, fifo, lc, linesRev, isFree, ic, omp, dirs⟩ := r
  simp only [] at hs ho hf
  subst ho hf
  unfold getSingleLine
  cases filo with
  | cons l fl => exact ⟨rfl, s', hs, rfl, rfl, rfl⟩
  | nil =>
    simp only []
    cases closed with
    | true => exact ⟨rfl, s', hs, rfl, rfl, rfl⟩
    | false =>
      simp only [Bool.false_eq_true, if_false, Bool.not_false, Bool.and_true, Bool.and_self,
        Bool.false_and]
      obtain ⟨h1, h2, h3⟩ := pull_sim ic src s' lc linesRev hs
      cases hp : pull true ic src lc linesRev with
      | mk o q =>
        obtain ⟨sa, lca, lsa⟩ := q
        cases hp' : pull false ic s' lc linesRev with
        | mk o' q' =>
          obtain ⟨sb, lcb, lsb⟩ := q'
          rw [hp, hp'] at h1 h2 h3
          simp only [Prod.mk.injEq] at h1 h2 h3
          obtain ⟨rfl, rfl⟩ := h3
          subst h1
          cases o' <;> exact ⟨rfl, sb, h2, rfl, rfl, rfl⟩

theorem OmpSim.setFifo {r r' : Rd} (h : OmpSim r r') (f : List Item) :
    OmpSim { r with fifo := f } { r' with fifo := f } := by
  obtain ⟨s', hs, rfl, ho, hf⟩ := h
  exact ⟨s', hs, rfl, ho, hf⟩

theorem OmpSim.fifo {r r' : Rd} (h : OmpSim r r') : r'.fifo = r.fifo := by
  obtain ⟨s', hs, rfl, ho, hf⟩ := h; rfl
theorem OmpSim.lc {r r' : Rd} (h : OmpSim r r') : r'.linecount = r.linecount := by
  obtain ⟨s', hs, rfl, ho, hf⟩ := h; rfl
theorem OmpSim.filo {r r' : Rd} (h : OmpSim r r') : r'.filo = r.filo := by
  obtain ⟨s', hs, rfl, ho, hf⟩ := h; rfl
theorem OmpSim.ic {r r' : Rd} (h : OmpSim r r') : r'.ignoreComments = r.ignoreComments := by
  obtain ⟨s', hs, rfl, ho, hf⟩ := h; rfl
theorem OmpSim.free {r r' : Rd} (h : OmpSim r r') : r'.isFree = false := by
  obtain ⟨s', hs, rfl, ho, hf⟩ := h; exact hf
theorem OmpSim.linesRev {r r' : Rd} (h : OmpSim r r') : r'.linesRev = r.linesRev := by
  obtain ⟨s', hs, rfl, ho, hf⟩ := h; rfl
theorem OmpSim.srclen {r r' : Rd} (h : OmpSim r r') : r'.src.length = r.src.length := by
  obtain ⟨s', hs, rfl, ho, hf⟩ := h; exact hs.length_eq.symm

theorem OmpSim.put {r r' : Rd} (h : OmpSim r r') (l : Str) : OmpSim (putSingleLine r l) (putSingleLine r' l) := by
  obtain ⟨s', hs, rfl, ho, hf⟩ := h
  exact ⟨s', hs, rfl, ho, hf⟩

theorem getNextLine_sim (r r' : Rd) (h : OmpSim r r') :
    (getNextLine r').1 = (getNextLine r).1 ∧ OmpSim (getNextLine r).2 (getNextLine r').2 := by
  obtain ⟨h1, h2⟩ := getSingleLine_sim r r' h
  rw [getNextLine_eq, getNextLine_eq]
  simp only [h1]
  refine ⟨trivial, ?_⟩
  cases (getSingleLine r).1 with
  | none => exact h2
  | some l => exact h2.put l

/-- the continuation loop -/
theorem fixLoop_sim : ∀ (fuel : Nat) (nl nl' : Option Str) (acc : Str) (qc : Option Char) (endl : Nat)
    (r r' : Rd), nl' = nl → OmpSim r r' →
    (fixLoop fuel nl' acc qc endl r').1 = (fixLoop fuel nl acc qc endl r).1 ∧
    (fixLoop fuel nl' acc qc endl r').2.1 = (fixLoop fuel nl acc qc endl r).2.1 ∧
    OmpSim (fixLoop fuel nl acc qc endl r).2.2 (fixLoop fuel nl' acc qc endl r').2.2
  | 0, nl, _, acc, qc, endl, r, r', rfl, h => by
    simp only [fixLoop]; exact ⟨trivial, trivial, h⟩
  | fuel + 1, nl, _, acc, qc, endl, r, r', rfl, h => by
    unfold fixLoop
    by_cases hc : (isFixCont nl || isFixComment nl) = true
    · simp only [hc, if_true]
      have hg := getSingleLine_sim r r' h
      cases hq : getSingleLine r with
      | mk o r1 =>
        cases hq' : getSingleLine r' with
        | mk o' r1' =>
          rw [hq, hq'] at hg
          simp only [] at hg
          obtain ⟨rfl, h1⟩ := hg
          cases o' with
          | none => exact ⟨rfl, rfl, h1⟩
          | some line2 =>
            obtain ⟨s1, hs1, rfl, ho1, hf1⟩ := h1
            simp only []
            by_cases hcm : isFixCommentS line2 = true
            · simp only [hcm, if_true]
              have h2 : OmpSim { r1 with fifo := r1.fifo ++ [Item.comment line2 r1.linecount r1.linecount false] }
                  (flagOff s1 { r1 with fifo := r1.fifo ++ [Item.comment line2 r1.linecount r1.linecount false] }) :=
                ⟨s1, hs1, rfl, ho1, hf1⟩
              have hn := getNextLine_sim _ _ h2
              exact fixLoop_sim fuel _ _ acc qc endl _ _ hn.1 hn.2
            · simp only [hcm, Bool.false_eq_true, if_false]
              have h2 : OmpSim { r1 with fifo := r1.fifo ++ (handleInlineComment (line2.drop 6) r1.linecount qc).comments }
                  (flagOff s1 { r1 with fifo := r1.fifo ++ (handleInlineComment (line2.drop 6) r1.linecount qc).comments }) :=
                ⟨s1, hs1, rfl, ho1, hf1⟩
              have hn := getNextLine_sim _ _ h2
              exact fixLoop_sim fuel _ _ _ _ _ _ _ hn.1 hn.2
    · simp only [hc, Bool.false_eq_true, if_false]
      exact ⟨trivial, trivial, h⟩

theorem OmpSim.warn {r r' : Rd} (h : OmpSim r r') : warnRaises r' = warnRaises r := by
  unfold warnRaises; rw [h.linesRev]

theorem fixedItem_sim (r r' : Rd) (line : Str) (s : Nat) (h : OmpSim r r') :
    (fixedItem r' line s).1 = (fixedItem r line s).1 ∧ OmpSim (fixedItem r line s).2 (fixedItem r' line s).2 := by
  have hw := h.warn
  have hl := h.srclen
  unfold fixedItem
  cases fixedLabel line with
  | none => exact ⟨rfl, h⟩
  | some label =>
    obtain ⟨s', hs, rfl, ho, hf⟩ := h
    simp only [hw]
    split
    · split
      · exact ⟨rfl, s', hs, rfl, ho, hf⟩
      · split
        · exact ⟨rfl, s', hs, rfl, ho, hf⟩
        · exact ⟨rfl, s', hs, rfl, ho, hf⟩
    · have h2 : OmpSim { r with fifo := r.fifo ++ (handleInlineComment ((fixedName line).2.drop 6) s none).comments }
          (flagOff s' { r with fifo := r.fifo ++ (handleInlineComment ((fixedName line).2.drop 6) s none).comments }) :=
        ⟨s', hs, rfl, ho, hf⟩
      have hn := getNextLine_sim _ _ h2
      have hlen : s'.length = r.src.length := hl
      have hl := fixLoop_sim (r.src.length + r.filo.length + 2) _ _
        (handleInlineComment ((fixedName line).2.drop 6) s none).line
        (handleInlineComment ((fixedName line).2.drop 6) s none).q r.linecount _ _ hn.1 hn.2
      simp only [hlen]
      exact ⟨by rw [hl.1, hl.2.1], hl.2.2⟩

theorem cppLoop_sim : ∀ (fuel : Nat) (line acc : Str) (s : Nat) (r r' : Rd), OmpSim r r' →
    (cppLoop fuel line acc s r').1 = (cppLoop fuel line acc s r).1 ∧
    OmpSim (cppLoop fuel line acc s r).2 (cppLoop fuel line acc s r').2
  | 0, _, _, _, r, r', h => by simp only [cppLoop]; exact ⟨trivial, h⟩
  | fuel + 1, line, acc, s, r, r', h => by
    unfold cppLoop
    simp only []
    split
    · have hg := getSingleLine_sim r r' h
      cases hq : getSingleLine r with
      | mk o r1 =>
        cases hq' : getSingleLine r' with
        | mk o' r1' =>
          rw [hq, hq'] at hg
          simp only [] at hg
          obtain ⟨rfl, h1⟩ := hg
          cases o' with
          | none => exact ⟨rfl, h1⟩
          | some l2 => exact cppLoop_sim fuel l2 _ s r1 r1' h1
    · simp only [h.lc]; exact ⟨trivial, h⟩

end Fp.Reader
