import FparserModel.Proofs.ExprLex2Ctx2

/-! locality of `matchAt`: cutting the text behind, forgetting the look-behind character -/
set_option linter.unusedSimpArgs false
set_option linter.unusedVariables false
namespace Fp.ExprLex
open Fp Fp.Expr

theorem headIs_app_ne {x : Str} (y : Str) (c : Char) (h : x ≠ []) : headIs (x ++ y) c = headIs x c := by
  cases x with
  | nil => exact absurd rfl h
  | cons a t => rfl

theorem headIs_nil (c : Char) : headIs [] c = false := rfl

theorem headIs_app_false {x y : Str} {c : Char} (h : headIs (x ++ y) c = false) : headIs x c = false := by
  cases x with
  | nil => rfl
  | cons a t => exact h

/-- the cut is harmless for negative look-ahead: the kept text does not end, and the removed
text begin, with the same `*` or `/` -/
def bndc (ch : Char) (y : Str) : Prop :=
  (ch = '*' → headIs y '*' = false) ∧ (ch = '/' → headIs y '/' = false)

theorem matchAt_dot (q : Pat) (prev : Option Char) (r : Str) (hq : q ≠ .power ∧ q ≠ .mult ∧ q ≠ .add ∧ q ≠ .concat) :
    matchAt q prev ('.' :: r) = dotIn q ('.' :: r) := by
  cases q <;> simp_all [matchAt]

/-! ### cutting: a match inside the kept part stays -/

theorem power_cut (prev : Option Char) (x y : Str) (n : Nat)
    (h : matchAt .power prev (x ++ y) = some n) (hn : n ≤ x.length) : matchAt .power prev x = some n := by
  have hb := matchAt_pos_le _ prev _ n h
  rcases x with _ | ⟨a, _ | ⟨b, x2⟩⟩
  · simp at hn; omega
  · rcases y with _ | ⟨e, y'⟩ <;>
    simp only [matchAt, List.cons_append, List.nil_append, List.append_nil, List.length_cons, List.length_nil] at h hn ⊢
    · exact h
    · split at h <;> simp_all <;> omega
  · simp only [matchAt, List.cons_append] at h ⊢
    split at h
    · rename_i r heq
      injection heq with h1 h2; injection h2 with h2 h3; subst h1 h2 h3
      simp only
      split at h
      · cases h
      · rename_i hc
        simp only [Bool.or_eq_true, not_or, Bool.not_eq_true] at hc
        simp [hc.1, headIs_app_false hc.2, h]
    · cases h

theorem mult_cut (prev : Option Char) (x y : Str) (n : Nat)
    (h : matchAt .mult prev (x ++ y) = some n) (hn : n ≤ x.length) : matchAt .mult prev x = some n := by
  have hb := matchAt_pos_le _ prev _ n h
  rcases x with _ | ⟨a, x1⟩
  · simp at hn; omega
  · simp only [matchAt, List.cons_append] at h ⊢
    split at h
    · rename_i r heq
      injection heq with h1 h2; subst h1 h2
      simp only
      split at h
      · cases h
      · rename_i hc
        simp only [Bool.or_eq_true, not_or, Bool.not_eq_true] at hc
        simp [hc.1, headIs_app_false hc.2, h]
    · rename_i r heq
      injection heq with h1 h2; subst h1 h2
      simp only
      split at h
      · cases h
      · rename_i hc
        simp only [Bool.or_eq_true, not_or, Bool.not_eq_true] at hc
        simp [hc.1, headIs_app_false hc.2, h]
    · cases h

theorem add_cut (prev : Option Char) (x y : Str) (n : Nat)
    (h : matchAt .add prev (x ++ y) = some n) (hn : n ≤ x.length) : matchAt .add prev x = some n := by
  have hb := matchAt_pos_le _ prev _ n h
  rcases x with _ | ⟨a, x1⟩
  · simp at hn; omega
  · simpa only [matchAt, List.cons_append] using h

theorem concat_cut (prev : Option Char) (x y : Str) (n : Nat)
    (h : matchAt .concat prev (x ++ y) = some n) (hn : n ≤ x.length) : matchAt .concat prev x = some n := by
  have hb := matchAt_pos_le _ prev _ n h
  rcases x with _ | ⟨a, r⟩
  · simp at hn; omega
  · simp only [matchAt, List.cons_append, dropSp] at h ⊢
    split at h
    · rename_i r0 heq
      injection heq with h1 h2; subst h1 h2
      simp only
      split at h
      · cases h
      · rename_i hp
        simp only [hp, Bool.false_eq_true, ↓reduceIte]
        split at h
        · rename_i r2 hr
          split at h
          · cases h
          · rename_i hh
            have hh' : headIs r2 '/' = false := by simpa using hh
            simp only [Option.some.injEq] at h
            have hne : List.dropWhile isSpace r ≠ [] := by
              intro h0
              have e := dw_app_nil isSpace r y h0
              have hl := dropWhile_length_le isSpace y
              rw [e] at hr h
              rw [hr] at h hl
              simp only [List.length_cons, List.length_append] at h hl hn
              omega
            have e := (dw_app_ne isSpace r y hne).1
            rw [e] at hr h
            cases hd : List.dropWhile isSpace r with
            | nil => exact absurd hd hne
            | cons d r2' =>
              rw [hd] at hr h
              simp only [List.cons_append, List.cons.injEq] at hr
              obtain ⟨rfl, rfl⟩ := hr
              simp only [headIs_app_false hh', Bool.false_eq_true, ↓reduceIte, Option.some.injEq]
              have := dropWhile_length_le isSpace r
              rw [hd] at this
              simp only [List.length_cons, List.length_append] at h this ⊢
              omega
        · cases h
    · cases h

theorem rel_cut (prev : Option Char) (x y : Str) (n : Nat)
    (h : matchAt .rel prev (x ++ y) = some n) (hn : n ≤ x.length) : matchAt .rel prev x = some n := by
  have hb := matchAt_pos_le _ prev _ n h
  rcases x with _ | ⟨a, x1⟩
  · simp at hn; omega
  · by_cases ha : a = '.'
    · subst ha
      rw [List.cons_append, matchAt_dot _ _ _ (by decide)] at h
      rw [matchAt_dot _ _ _ (by decide)]
      exact dotIn_cut _ ('.' :: x1) y n h hn
    · rcases x1 with _ | ⟨b, x2⟩
      · rcases y with _ | ⟨e, y'⟩ <;>
        simp only [matchAt, List.cons_append, List.nil_append, List.append_nil, List.length_cons, List.length_nil] at h hn ⊢
        · exact h
        · split at h <;> simp_all <;> omega
      · simp only [matchAt, List.cons_append] at h ⊢
        split at h <;> (try (rename_i heq; injection heq with h1 h2; subst h1 h2)) <;> simp_all

theorem matchAt_cut (q : Pat) (prev : Option Char) (x y : Str) (n : Nat)
    (h : matchAt q prev (x ++ y) = some n) (hn : n ≤ x.length) : matchAt q prev x = some n := by
  cases q
  case power => exact power_cut prev x y n h hn
  case mult => exact mult_cut prev x y n h hn
  case add => exact add_cut prev x y n h hn
  case concat => exact concat_cut prev x y n h hn
  case rel => exact rel_cut prev x y n h hn
  all_goals exact dotIn_cut _ x y n h hn

/-! ### cutting: no new match appears -/

theorem dw_getLast {α} (p : α → Bool) : ∀ (l : List α), l.dropWhile p ≠ [] →
    l.getLast? = (l.dropWhile p).getLast?
  | [], h => absurd rfl h
  | a :: l, h => by
    by_cases hp : p a = true
    · simp only [List.dropWhile_cons, hp, ↓reduceIte] at h ⊢
      rw [← dw_getLast p l h]
      cases l with
      | nil => simp at h
      | cons b l' => simp [List.getLast?_cons_cons]
    · simp [List.dropWhile_cons, hp]

theorem power_ext (prev : Option Char) (x y : Str) (n : Nat) (ch : Char)
    (h : matchAt .power prev x = some n) (hl : x.getLast? = some ch) (hb : bndc ch y) :
    (matchAt .power prev (x ++ y)).isSome = true := by
  simp only [matchAt] at h
  split at h
  · rename_i r
    split at h
    · cases h
    · rename_i hc
      simp only [Bool.or_eq_true, not_or, Bool.not_eq_true] at hc
      have : headIs (r ++ y) '*' = false := by
        cases r with
        | nil =>
          simp only [List.getLast?_cons_cons, List.getLast?_singleton, Option.some.injEq] at hl
          exact hb.1 hl.symm
        | cons a t => exact hc.2
      simp [matchAt, this, hc.1]
  · cases h

theorem mult_ext (prev : Option Char) (x y : Str) (n : Nat) (ch : Char)
    (h : matchAt .mult prev x = some n) (hl : x.getLast? = some ch) (hb : bndc ch y) :
    (matchAt .mult prev (x ++ y)).isSome = true := by
  simp only [matchAt] at h
  split at h
  · rename_i r
    split at h
    · cases h
    · rename_i hc
      simp only [Bool.or_eq_true, not_or, Bool.not_eq_true] at hc
      have : headIs (r ++ y) '*' = false := by
        cases r with
        | nil =>
          simp only [List.getLast?_singleton, Option.some.injEq] at hl
          exact hb.1 hl.symm
        | cons a t => exact hc.2
      simp [matchAt, this, hc.1]
  · rename_i r
    split at h
    · cases h
    · rename_i hc
      simp only [Bool.or_eq_true, not_or, Bool.not_eq_true] at hc
      have : headIs (r ++ y) '/' = false := by
        cases r with
        | nil =>
          simp only [List.getLast?_singleton, Option.some.injEq] at hl
          exact hb.2 hl.symm
        | cons a t => exact hc.2
      simp [matchAt, this, hc.1]
  · cases h

theorem add_ext (prev : Option Char) (x y : Str) (n : Nat)
    (h : matchAt .add prev x = some n) : (matchAt .add prev (x ++ y)).isSome = true := by
  cases x with
  | nil => simp [matchAt] at h
  | cons a t =>
    simp only [matchAt, List.cons_append] at h ⊢
    split at h
    · rename_i hc; simp [hc]
    · cases h

theorem concat_ext (prev : Option Char) (x y : Str) (n : Nat) (ch : Char)
    (h : matchAt .concat prev x = some n) (hl : x.getLast? = some ch) (hb : bndc ch y) :
    (matchAt .concat prev (x ++ y)).isSome = true := by
  simp only [matchAt, dropSp] at h
  split at h
  · rename_i r
    split at h
    · cases h
    · rename_i hp
      split at h
      · rename_i r2 hr
        split at h
        · cases h
        · rename_i hh
          have hh' : headIs r2 '/' = false := by simpa using hh
          have hne : List.dropWhile isSpace r ≠ [] := by rw [hr]; simp
          have e := (dw_app_ne isSpace r y hne).1
          have : headIs (r2 ++ y) '/' = false := by
            cases r2 with
            | nil =>
              have h1 := dw_getLast isSpace r hne
              rw [hr] at h1
              have h2 : ('/' :: r).getLast? = r.getLast? := by
                cases r with
                | nil => simp at hne
                | cons b t => simp [List.getLast?_cons_cons]
              rw [h2, h1] at hl
              simp only [List.getLast?_singleton, Option.some.injEq] at hl
              exact hb.2 hl.symm
            | cons a t => exact hh'
          simp only [List.cons_append, matchAt, dropSp, hp, Bool.false_eq_true, ↓reduceIte, e, hr, this]
          rfl
      · cases h
  · cases h

theorem rel_ext (prev : Option Char) (x y : Str) (n : Nat)
    (h : matchAt .rel prev x = some n) : (matchAt .rel prev (x ++ y)).isSome = true := by
  rcases x with _ | ⟨a, x1⟩
  · simp [matchAt] at h
  · by_cases ha : a = '.'
    · subst ha
      rw [matchAt_dot _ _ _ (by decide)] at h
      rw [List.cons_append, matchAt_dot _ _ _ (by decide)]
      have := dotIn_ext _ ('.' :: x1) y n h
      rw [List.cons_append] at this
      simp [this]
    · simp only [matchAt, List.cons_append] at h ⊢
      split at h <;> (try (rename_i heq; injection heq with h1 h2; subst h1 h2)) <;> simp_all
      all_goals (split <;> simp_all)

theorem matchAt_ext (q : Pat) (prev : Option Char) (x y : Str) (n : Nat) (ch : Char)
    (h : matchAt q prev x = some n) (hl : x.getLast? = some ch) (hb : bndc ch y) :
    (matchAt q prev (x ++ y)).isSome = true := by
  cases q
  case power => exact power_ext prev x y n ch h hl hb
  case mult => exact mult_ext prev x y n ch h hl hb
  case add => exact add_ext prev x y n h
  case concat => exact concat_ext prev x y n ch h hl hb
  case rel => exact rel_ext prev x y n h
  all_goals (have := dotIn_ext _ x y n h; simp only [matchAt]; rw [this]; rfl)

theorem matchAt_none_cut (q : Pat) (prev : Option Char) (x y : Str) (ch : Char)
    (h : matchAt q prev (x ++ y) = none) (hl : x.getLast? = some ch) (hb : bndc ch y) :
    matchAt q prev x = none := by
  cases hm : matchAt q prev x with
  | none => rfl
  | some n =>
    have := matchAt_ext q prev x y n ch hm hl hb
    rw [h] at this; cases this

/-! ### forgetting the look-behind character -/

theorem matchAt_prev (q : Pat) (c : Char) (x : Str)
    (h1 : c = '*' → headIs x '*' = false) (h2 : c = '/' → headIs x '/' = false) :
    matchAt q (some c) x = matchAt q none x := by
  cases q <;> simp only [matchAt]
  case power =>
    split
    · rename_i r
      by_cases hc : c = '*'
      · have := h1 hc; simp [headIs] at this
      · simp [hc]
    · rfl
  case mult =>
    split
    · by_cases hc : c = '*'
      · have := h1 hc; simp [headIs] at this
      · simp [hc]
    · by_cases hc : c = '/'
      · have := h2 hc; simp [headIs] at this
      · simp [hc]
    · rfl
  case concat =>
    split
    · by_cases hc : c = '/'
      · have := h2 hc; simp [headIs] at this
      · simp [hc]
    · rfl

end Fp.ExprLex
