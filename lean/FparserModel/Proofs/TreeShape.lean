import FparserModel.Proofs.TreeWalk
import Mathlib.Data.List.Induction
/-!
# Well-formed trees in the arena: every node once, reachability, fuel (helper lemmas, C10/C18)
-/
namespace Fp.Tree

/-- `n` is reachable from `r` through child sequences (as `_set_parent` sees them) -/
inductive Reach (a : Arena) (r : Nat) : Nat → Prop where
  | refl : Reach a r r
  | step (c n : Nat) (nd : Node) : Reach a r c → a[c]? = some nd → n ∈ spList nd.children → Reach a r n

theorem Reach.trans {a : Arena} {r m n : Nat} (h1 : Reach a r m) (h2 : Reach a m n) : Reach a r n := by
  induction h2 with
  | refl => exact h1
  | step c n nd _ hc hn ih => exact .step c n nd ih hc hn

/-- the well-formedness predicate of a tree rooted at `root`: the root has no parent, every
    node listed in the child sequence of a reachable node `c` has `parent = c`
    (`parents_consistent`), and no child sequence lists a node twice. -/
structure TreeWF (a : Arena) (root : Nat) : Prop where
  root_parent : parentOf a root = none
  parent_ok : ∀ c nd n, Reach a root c → a[c]? = some nd → n ∈ spList nd.children → parentOf a n = some c
  kids_nodup : ∀ c nd, Reach a root c → a[c]? = some nd → (spList nd.children).Nodup

/-! ## `mapO` elementwise -/

theorem mapO_mem {α β} (f : α → Option β) : ∀ (xs : List α) (ts : List β), mapO f xs = some ts →
    ∀ t ∈ ts, ∃ x ∈ xs, f x = some t := by
  intro xs
  induction xs with
  | nil => intro ts h t ht; simp only [mapO, Option.some.injEq] at h; subst h; simp at ht
  | cons x xs ih =>
    intro ts h t ht
    simp only [mapO] at h
    cases hx : f x with
    | none => simp [hx] at h
    | some t0 =>
      cases hr : mapO f xs with
      | none => simp [hx, hr] at h
      | some tr =>
        simp only [hx, hr, Option.some.injEq] at h
        subst h
        rcases List.mem_cons.1 ht with rfl | ht
        · exact ⟨x, by simp, hx⟩
        · obtain ⟨y, hy, hfy⟩ := ih tr hr t ht
          exact ⟨y, by simp [hy], hfy⟩

theorem mapO_mem' {α β} (f : α → Option β) : ∀ (xs : List α) (ts : List β), mapO f xs = some ts →
    ∀ x ∈ xs, ∃ t ∈ ts, f x = some t := by
  intro xs
  induction xs with
  | nil => intro ts _ x hx; simp at hx
  | cons x xs ih =>
    intro ts h y hy
    simp only [mapO] at h
    cases hx : f x with
    | none => simp [hx] at h
    | some t0 =>
      cases hr : mapO f xs with
      | none => simp [hx, hr] at h
      | some tr =>
        simp only [hx, hr, Option.some.injEq] at h
        subst h
        rcases List.mem_cons.1 hy with rfl | hy
        · exact ⟨t0, by simp, hx⟩
        · obtain ⟨t, ht, hft⟩ := ih tr hr y hy
          exact ⟨t, by simp [ht], hft⟩

theorem mapO_cons_some {α β} (f : α → Option β) (x : α) (xs : List α) (ts : List β)
    (h : mapO f (x :: xs) = some ts) : ∃ t tr, f x = some t ∧ mapO f xs = some tr ∧ ts = t :: tr := by
  simp only [mapO] at h
  cases hx : f x with
  | none => simp [hx] at h
  | some t0 =>
    cases hr : mapO f xs with
    | none => simp [hx, hr] at h
    | some tr =>
      simp only [hx, hr, Option.some.injEq] at h
      exact ⟨t0, tr, rfl, rfl, h.symm⟩

theorem absNode_id (a : Arena) (h n : Nat) (t : RTree) (ht : absNode a h n = some t) : t.id = n := by
  obtain ⟨_, _, _, _, _, _, rfl⟩ := absNode_succ_some a h n t ht
  rfl

theorem mem_preL {n : Nat} : ∀ {ts : List RTree}, n ∈ RTree.preL ts ↔ ∃ t ∈ ts, n ∈ t.pre := by
  intro ts
  induction ts with
  | nil => simp [RTree.preL]
  | cons t ts ih => simp [RTree.preL, ih]

theorem id_mem_pre (t : RTree) : t.id ∈ t.pre := by
  cases t; simp [RTree.pre, RTree.id]

/-! ## membership = reachability -/

theorem pre_reach (a : Arena) : ∀ h r t, absNode a h r = some t → ∀ n ∈ t.pre, Reach a r n := by
  intro h
  induction h with
  | zero => intro r t ht; simp [absNode] at ht
  | succ h ih =>
    intro r t ht n hn
    obtain ⟨h', nd, kids, hh, hr, hk, rfl⟩ := absNode_succ_some a _ r t ht
    have hh : h' = h := by omega
    subst hh
    simp only [RTree.pre, List.mem_cons] at hn
    rcases hn with rfl | hn
    · exact .refl
    · obtain ⟨tk, htk, hnk⟩ := mem_preL.1 hn
      obtain ⟨k, hk1, hk2⟩ := mapO_mem _ _ _ hk tk htk
      exact Reach.trans (.step r k nd .refl hr hk1) (ih k tk hk2 n hnk)

/-- the pre-order is closed under children -/
theorem pre_closed (a : Arena) : ∀ h r t, absNode a h r = some t →
    ∀ c ∈ t.pre, ∀ nd, a[c]? = some nd → ∀ n ∈ spList nd.children, n ∈ t.pre := by
  intro h
  induction h with
  | zero => intro r t ht; simp [absNode] at ht
  | succ h ih =>
    intro r t ht c hc ndc hndc n hn
    obtain ⟨h', nd, kids, hh, hr, hk, rfl⟩ := absNode_succ_some a _ r t ht
    have hh : h' = h := by omega
    subst hh
    simp only [RTree.pre, List.mem_cons] at hc ⊢
    rcases hc with rfl | hc
    · right
      rw [hr] at hndc; cases hndc
      obtain ⟨tk, htk, hfk⟩ := mapO_mem' _ _ _ hk n hn
      exact mem_preL.2 ⟨tk, htk, by have := absNode_id a _ _ _ hfk; rw [← this]; exact id_mem_pre tk⟩
    · right
      obtain ⟨tk, htk, hck⟩ := mem_preL.1 hc
      obtain ⟨k, _, hk2⟩ := mapO_mem _ _ _ hk tk htk
      exact mem_preL.2 ⟨tk, htk, ih k tk hk2 c hck ndc hndc n hn⟩

theorem reach_pre (a : Arena) (h r : Nat) (t : RTree) (ht : absNode a h r = some t) (n : Nat)
    (hn : Reach a r n) : n ∈ t.pre := by
  induction hn with
  | refl => have := absNode_id a h r t ht; rw [← this]; exact id_mem_pre t
  | step c n nd _ hc hn ih => exact pre_closed a h r t ht c ih nd hc n hn

/-- every node of the unfolding is allocated -/
theorem pre_alloc (a : Arena) : ∀ h r t, absNode a h r = some t → ∀ n ∈ t.pre, n < a.length := by
  intro h
  induction h with
  | zero => intro r t ht; simp [absNode] at ht
  | succ h ih =>
    intro r t ht n hn
    obtain ⟨h', nd, kids, hh, hr, hk, rfl⟩ := absNode_succ_some a _ r t ht
    have hh : h' = h := by omega
    subst hh
    simp only [RTree.pre, List.mem_cons] at hn
    rcases hn with rfl | hn
    · by_contra hlt
      have : a[n]? = none := by simp; omega
      rw [this] at hr; cases hr
    · obtain ⟨tk, htk, hnk⟩ := mem_preL.1 hn
      obtain ⟨k, _, hk2⟩ := mapO_mem _ _ _ hk tk htk
      exact ih k tk hk2 n hnk

/-! ## ancestors -/

/-- `k` parent steps up from `n` -/
def anc (a : Arena) : Nat → Nat → Option Nat
  | 0, n => some n
  | k + 1, n => (parentOf a n).bind (anc a k)

theorem anc_add (a : Arena) (i j n : Nat) : anc a (i + j) n = (anc a i n).bind (anc a j) := by
  induction i generalizing n with
  | zero => simp [anc]
  | succ i ih =>
    have : i + 1 + j = (i + j) + 1 := by omega
    rw [this]
    simp only [anc]
    cases parentOf a n with
    | none => rfl
    | some p => simp [ih]

theorem anc_snoc (a : Arena) (k n x y : Nat) (h1 : anc a k n = some x) (h2 : parentOf a x = some y) :
    anc a (k + 1) n = some y := by
  rw [anc_add, h1]; simp [anc, h2]

/-- a parent cycle through `r` is incompatible with a parent chain from `r` to a parentless node -/
theorem no_cycle (a : Arena) (root r j : Nat) (hroot : parentOf a root = none) (hj : 1 ≤ j)
    (hcyc : anc a j r = some r) : ∀ d, anc a d r = some root → False := by
  intro d
  induction d using Nat.strong_induction_on with
  | _ d ih =>
    intro hd
    by_cases hdj : j ≤ d
    · have : d = j + (d - j) := by omega
      rw [this, anc_add, hcyc] at hd
      exact ih (d - j) (by omega) (by simpa using hd)
    · have : j = d + ((j - d - 1) + 1) := by omega
      rw [this, anc_add, hd] at hcyc
      simp [anc, hroot] at hcyc

/-- every node of the sub-tree below `r` reaches `r` by parent steps -/
theorem pre_anc (a : Arena) : ∀ h r t, absNode a h r = some t →
    (∀ c ∈ t.pre, ∀ nd n, a[c]? = some nd → n ∈ spList nd.children → parentOf a n = some c) →
    ∀ m ∈ t.pre, ∃ k, anc a k m = some r := by
  intro h
  induction h with
  | zero => intro r t ht; simp [absNode] at ht
  | succ h ih =>
    intro r t ht pok m hm
    obtain ⟨h', nd, kids, hh, hr, hk, rfl⟩ := absNode_succ_some a _ r t ht
    have hh : h' = h := by omega
    subst hh
    simp only [RTree.pre, List.mem_cons] at hm
    rcases hm with rfl | hm
    · exact ⟨0, rfl⟩
    · obtain ⟨tk, htk, hmk⟩ := mem_preL.1 hm
      obtain ⟨k, hk1, hk2⟩ := mapO_mem _ _ _ hk tk htk
      have pok' : ∀ c ∈ tk.pre, ∀ nd n, a[c]? = some nd → n ∈ spList nd.children → parentOf a n = some c := by
        intro c hc
        exact pok c (by simp only [RTree.pre, List.mem_cons]; right; exact mem_preL.2 ⟨tk, htk, hc⟩)
      obtain ⟨j, hj⟩ := ih k tk hk2 pok' m hmk
      have hpk : parentOf a k = some r := pok r (by simp [RTree.pre]) nd k hr hk1
      exact ⟨j + 1, anc_snoc a j m k r hj hpk⟩

/-- sub-trees of two different nodes with the same parent `r` are disjoint -/
theorem sibling_disjoint (a : Arena) (root r d k1 k2 m p q : Nat) (hroot : parentOf a root = none)
    (hd : anc a d r = some root) (h1 : parentOf a k1 = some r) (h2 : parentOf a k2 = some r)
    (hne : k1 ≠ k2) (hp : anc a p m = some k1) (hq : anc a q m = some k2) (hpq : p ≤ q) : False := by
  have : q = p + (q - p) := by omega
  rw [this, anc_add, hp] at hq
  simp only [Option.bind_some] at hq
  by_cases he : q - p = 0
  · rw [he] at hq; simp [anc] at hq; exact hne hq
  · have : q - p = (q - p - 1) + 1 := by omega
    rw [this] at hq
    simp only [anc, h1, Option.bind_some] at hq
    have hc := anc_snoc a _ r k2 r hq h2
    exact no_cycle a root r _ hroot (by omega) hc d hd

theorem nodup_preL (ts : List RTree)
    (hnd : ∀ t ∈ ts, t.pre.Nodup)
    (hdis : ts.Pairwise (fun t1 t2 => ∀ m, m ∈ t1.pre → m ∈ t2.pre → False)) :
    (RTree.preL ts).Nodup := by
  induction ts with
  | nil => simp [RTree.preL]
  | cons t ts ih =>
    simp only [RTree.preL]
    rw [List.pairwise_cons] at hdis
    refine List.nodup_append.2 ⟨hnd t (by simp), ih (fun t ht => hnd t (by simp [ht])) hdis.2, ?_⟩
    intro x hx y hy hxy
    subst hxy
    obtain ⟨t2, ht2, hx2⟩ := mem_preL.1 hy
    exact hdis.1 t2 ht2 x hx hx2

theorem mapO_map_id (a : Arena) (h : Nat) : ∀ (ks : List Nat) (ts : List RTree),
    mapO (absNode a h) ks = some ts → ts.map RTree.id = ks := by
  intro ks
  induction ks with
  | nil => intro ts h; simp only [mapO, Option.some.injEq] at h; subst h; rfl
  | cons k ks ih =>
    intro ts hm
    obtain ⟨t, tr, h1, h2, rfl⟩ := mapO_cons_some _ _ _ _ hm
    simp [ih tr h2, absNode_id a h k t h1]

theorem pre_nodup (a : Arena) (root : Nat) (hroot : parentOf a root = none) : ∀ h r t d,
    absNode a h r = some t → anc a d r = some root →
    (∀ c ∈ t.pre, ∀ nd n, a[c]? = some nd → n ∈ spList nd.children → parentOf a n = some c) →
    (∀ c ∈ t.pre, ∀ nd, a[c]? = some nd → (spList nd.children).Nodup) →
    t.pre.Nodup := by
  intro h
  induction h with
  | zero => intro r t d ht; simp [absNode] at ht
  | succ h ih =>
    intro r t d ht hd pok knd
    obtain ⟨h', nd, kids, hh, hr, hk, rfl⟩ := absNode_succ_some a _ r t ht
    have hh : h' = h := by omega
    subst hh
    have sub : ∀ tk ∈ kids, ∀ c ∈ tk.pre, c ∈ (RTree.mk r kids).pre := by
      intro tk htk c hc
      simp only [RTree.pre, List.mem_cons]; right; exact mem_preL.2 ⟨tk, htk, hc⟩
    have kid : ∀ tk ∈ kids, ∃ k ∈ spList nd.children, absNode a h' k = some tk ∧ parentOf a k = some r := by
      intro tk htk
      obtain ⟨k, hk1, hk2⟩ := mapO_mem _ _ _ hk tk htk
      exact ⟨k, hk1, hk2, pok r (by simp [RTree.pre]) nd k hr hk1⟩
    simp only [RTree.pre, List.nodup_cons]
    refine ⟨?_, nodup_preL kids ?_ ?_⟩
    · intro hmem
      obtain ⟨tk, htk, hrk⟩ := mem_preL.1 hmem
      obtain ⟨k, _, hk2, hpk⟩ := kid tk htk
      obtain ⟨j, hj⟩ := pre_anc a h' k tk hk2 (fun c hc => pok c (sub tk htk c hc)) r hrk
      exact no_cycle a root r (j + 1) hroot (by omega) (anc_snoc a j r k r hj hpk) d hd
    · intro tk htk
      obtain ⟨k, _, hk2, hpk⟩ := kid tk htk
      refine ih k tk (d + 1) hk2 ?_ (fun c hc => pok c (sub tk htk c hc)) (fun c hc => knd c (sub tk htk c hc))
      simp [anc, hpk, hd]
    · have hids : (kids.map RTree.id).Nodup := by
        rw [mapO_map_id a h' _ _ hk]; exact knd r (by simp [RTree.pre]) nd hr
      have hpw : kids.Pairwise (fun t1 t2 => t1.id ≠ t2.id) := by
        have := List.pairwise_map.1 hids
        exact this
      refine List.Pairwise.imp_of_mem ?_ hpw
      intro t1 t2 ht1 ht2 hne m hm1 hm2
      obtain ⟨k1, _, hk1, hp1⟩ := kid t1 ht1
      obtain ⟨k2, _, hk2, hp2⟩ := kid t2 ht2
      have e1 := absNode_id a _ _ _ hk1
      have e2 := absNode_id a _ _ _ hk2
      have hne' : k1 ≠ k2 := by rw [← e1, ← e2]; exact hne
      obtain ⟨p, hp⟩ := pre_anc a h' k1 t1 hk1 (fun c hc => pok c (sub t1 ht1 c hc)) m hm1
      obtain ⟨q, hq⟩ := pre_anc a h' k2 t2 hk2 (fun c hc => pok c (sub t2 ht2 c hc)) m hm2
      rcases Nat.le_total p q with hpq | hpq
      · exact sibling_disjoint a root r d k1 k2 m p q hroot hd hp1 hp2 hne' hp hq hpq
      · exact sibling_disjoint a root r d k2 k1 m q p hroot hd hp2 hp1 (Ne.symm hne') hq hp hpq

theorem wf_pre_nodup (a : Arena) (root h : Nat) (t : RTree) (wf : TreeWF a root)
    (ht : absNode a h root = some t) : t.pre.Nodup :=
  pre_nodup a root wf.root_parent h root t 0 ht rfl
    (fun c hc nd n hnd hn => wf.parent_ok c nd n (pre_reach a h root t ht c hc) hnd hn)
    (fun c hc nd hnd => wf.kids_nodup c nd (pre_reach a h root t ht c hc) hnd)

/-! ## the fuel is enough (pigeonhole: the nodes of the tree are distinct arena slots) -/

theorem sublist_sum_le {l1 l2 : List Nat} (h : l1.Sublist l2) : l1.sum ≤ l2.sum := by
  induction h with
  | slnil => simp
  | cons x _ ih => simp only [List.sum_cons]; omega
  | cons_cons x _ ih => simp only [List.sum_cons]; omega

theorem sum_le_of_nodup (N : Nat) (w : Nat → Nat) (l : List Nat) (hnd : l.Nodup)
    (hlt : ∀ n ∈ l, n < N) : (l.map w).sum ≤ ((List.range N).map w).sum := by
  have hsub : l ⊆ List.range N := fun n hn => List.mem_range.2 (hlt n hn)
  obtain ⟨l', hperm, hsl⟩ := List.subperm_of_subset hnd hsub
  rw [← (hperm.map w).sum_eq]
  exact sublist_sum_le (hsl.map w)

theorem sum_range_arena (c : Nat) (a : Arena) :
    ((List.range a.length).map (fun n => c + Item.sizeL (kidItems a n))).sum
      = c * a.length + a.foldl (fun n nd => n + Item.sizeL nd.children) 0 := by
  induction a using List.reverseRecOn with
  | nil => simp
  | append_singleton l x ih =>
    rw [List.length_append, List.length_singleton, List.range_succ, List.map_append, List.sum_append,
      List.foldl_append]
    have : (List.range l.length).map (fun n => c + Item.sizeL (kidItems (l ++ [x]) n))
        = (List.range l.length).map (fun n => c + Item.sizeL (kidItems l n)) := by
      apply List.map_congr_left
      intro n hn
      have hn := List.mem_range.1 hn
      simp [kidItems, List.getElem?_append_left hn]
    rw [this, ih]
    simp [kidItems, Nat.mul_add]
    omega

theorem cost_le (a : Arena) (c : Nat) (l : List Nat) (hnd : l.Nodup) (hlt : ∀ n ∈ l, n < a.length) :
    cost a c l ≤ c * a.length + a.foldl (fun n nd => n + Item.sizeL nd.children) 0 := by
  rw [← sum_range_arena]
  exact sum_le_of_nodup a.length _ l hnd hlt

end Fp.Tree
