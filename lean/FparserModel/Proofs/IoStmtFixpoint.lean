import FparserModel.Proofs.IoStmtLayoutWrite
import FparserModel.Proofs.CombiTok
/-!
# C01 at the leaf classes: `match_tostr_fixpoint`

What a class prints is matched again by the same class and gives the SAME items (hence prints the
same text again): for the items `is` of each shape that `match` can build,

    ∃ t, tostrX o is = .ok t ∧ ((planX t).bind (runSlots o)).map arrangeX = .ok is

under `OracleRT` for each child (the child re-matches from its own printed text) and decidable side
conditions on the children's printed texts: tight (`lstrip x = x`, `rstrip x = x`), non-empty where
the matcher tests for emptiness, free of the delimiter the matcher searches for.

Two layers for the classes that call `string_replace_map` (as `*_rt` / `*_rt_flat` in
Props/Combi.lean): the theorems are stated under `TokId line` ("the tokeniser leaves the line as it
is": every `Flat` line — `TokId.of_flat` — and also lines like `(u) x` whose parenthesised parts are
plain names; `Flat` itself excludes `(` and is therefore unsatisfiable for `WRITE(…)`, `READ(…)`,
`WHERE (…)`, `IF (…)`, `WHILE (…)`, `CALL s(…)`); `*_flat` corollaries are given where the tokenised
text can be flat.  The general bracketed case is co-simulated, not proved.

The last section has, for every class, a non-vacuity example and, for every side condition shown
necessary, a kernel-checked counter-example (toy oracle: nodes are texts).
-/
namespace Fp.IoStmt
open Fp Fp.Splitline
open Fp.Combi (lstrip_append_of_self rstrip_append_of_self lstrip_space_cons strip_self
  cutFirst_append cutLast_append lstrip_cons_nonspace)

variable {Node : Type}

/-! ## helpers -/

theorem isEmpty_false {s : Str} (h : s ≠ []) : s.isEmpty = false := by
  cases s with
  | nil => exact absurd rfl h
  | cons _ _ => rfl

theorem kwIs_append {kw : Str} (rest : Str) (h : upper kw = kw) : kwIs kw (kw ++ rest) = true := by
  simp [kwIs, List.take_left', h]

theorem drop_len_sub (P Q : Str) (n : Nat) (h : Q.length = n) :
    (P ++ Q).drop ((P ++ Q).length - n) = Q := by
  subst h; simp

theorem take_len_sub (P Q : Str) (n : Nat) (h : Q.length = n) :
    (P ++ Q).take ((P ++ Q).length - n) = P := by
  subst h; simp

theorem lstrip_cons (c : Char) (s : Str) :
    lstrip (c :: s) = if isSpace c = true then lstrip s else c :: s := by
  simp [lstrip, List.dropWhile_cons]

/-! `"(" + A + ")"` -/

theorem par_last (A : Str) : ('(' :: (A ++ [')'])).getLast? = some ')' := by
  rw [show '(' :: (A ++ [')']) = ('(' :: A) ++ [')'] from rfl, List.getLast?_concat]
theorem par_inner (A : Str) : inner ('(' :: (A ++ [')'])) = A := by simp [inner]
theorem par_rstrip (A : Str) : rstrip ('(' :: (A ++ [')'])) = '(' :: (A ++ [')']) := by
  have := rstrip_append_of_self ('(' :: A) (b := [')']) (by decide) (by decide)
  simpa using this
theorem par_endsC (A : Str) : endsC ')' ('(' :: (A ++ [')'])) = true := by simp [endsC, par_last]

theorem strip_pad {m : Str} (hl : lstrip m = m) (hr : rstrip m = m) (hne : m ≠ []) :
    strip (' ' :: (m ++ [' '])) = m := by
  rw [strip, ← List.cons_append, Combi.rstrip_append_space]
  have : rstrip (' ' :: m) = ' ' :: m := by
    simpa using rstrip_append_of_self [' '] hr hne
  rw [this, lstrip_space_cons, hl]

theorem strip_pad_par (A : Str) : strip (' ' :: '(' :: (A ++ [')', ' '])) = '(' :: (A ++ [')']) := by
  have := strip_pad (m := '(' :: (A ++ [')'])) (lstrip_cons_nonspace _ (by decide)) (par_rstrip A) (by simp)
  simpa using this

theorem cutLast_par (A rest : Str) (h : ')' ∉ rest) :
    Combi.cutLast ')' ('(' :: (A ++ ')' :: rest)) = some ('(' :: A, rest) :=
  cutLast_append ('(' :: A) rest h

theorem cutFirst_par (A rest : Str) (h : ')' ∉ A) :
    Combi.cutFirst ')' ('(' :: (A ++ ')' :: rest)) = some ('(' :: A, rest) :=
  cutFirst_append ('(' :: A) rest (by simp [h])

/-- `lstrip` of a left-tight text followed by a non-blank character -/
theorem lstrip_append_ns {A : Str} (c : Char) (r : Str) (hl : lstrip A = A) (hc : isSpace c = false) :
    lstrip (A ++ c :: r) = A ++ c :: r := by
  cases A with
  | nil => exact lstrip_cons_nonspace _ hc
  | cons d A' => exact lstrip_append_of_self _ hl (by simp)

theorem run_child (o : Oracle Node) {c : ClassId} {n : Node} (h : OracleRT o c n) :
    runSlot o (.child c (o.str n)) = .ok (.node n) := by
  unfold OracleRT at h
  simp [runSlot, h]

@[simp] theorem run_none (o : Oracle Node) : runSlot o .none = .ok .none := rfl
@[simp] theorem run_str (o : Oracle Node) (t : Str) : runSlot o (.str t) = .ok (.str t) := rfl

/-! ## If_Then_Stmt -/

theorem planIfThen_printed (A : Str) (hl : lstrip A = A) (hr : rstrip A = A) :
    planIfThen ("IF (".toList ++ A ++ ") THEN".toList) = .ok [.child C.Scalar_Logical_Expr A] := by
  have e : "IF (".toList ++ A ++ ") THEN".toList = ("IF (".toList ++ A ++ ") ".toList) ++ "THEN".toList := by
    simp
  unfold planIfThen
  rw [e, drop_len_sub _ _ 4 rfl, take_len_sub _ _ 4 rfl]
  simp +decide [kwIs, strip_pad_par, par_last, par_inner, strip_self hl hr]

/-- **If_Then_Stmt** -/
theorem ifThen_match_tostr_fixpoint (o : Oracle Node) (a : Node)
    (hrt : OracleRT o C.Scalar_Logical_Expr a)
    (hl : lstrip (o.str a) = o.str a) (hr : rstrip (o.str a) = o.str a) :
    ∃ t, tostrIfThen o [.node a] = .ok t ∧ (planIfThen t).bind (runSlots o) = .ok [.node a] := by
  refine ⟨_, rfl, ?_⟩
  simp only [Item.text]
  rw [planIfThen_printed _ hl hr]
  simp [runSlots, run_child o hrt]

/-! ## Select_Case_Stmt -/

theorem planSelectCase_printed (A : Str) (hl : lstrip A = A) (hr : rstrip A = A) :
    planSelectCase ("SELECT CASE (".toList ++ A ++ ")".toList) = .ok [.child C.Case_Expr A] := by
  simp +decide [planSelectCase, kwIs, lstrip_cons, par_last, par_inner, strip_self hl hr]

/-- **Select_Case_Stmt** -/
theorem selectCase_match_tostr_fixpoint (o : Oracle Node) (a : Node)
    (hrt : OracleRT o C.Case_Expr a)
    (hl : lstrip (o.str a) = o.str a) (hr : rstrip (o.str a) = o.str a) :
    ∃ t, tostrSelectCase o [.node a] = .ok t ∧ (planSelectCase t).bind (runSlots o) = .ok [.node a] := by
  refine ⟨_, rfl, ?_⟩
  simp only [Item.text]
  rw [planSelectCase_printed _ hl hr]
  simp [runSlots, run_child o hrt]

/-! ## Else_If_Stmt -/

theorem planElseIf_printed1 (A : Str) (hl : lstrip A = A) (hr : rstrip A = A) :
    planElseIf ("ELSE IF (".toList ++ A ++ ") THEN".toList) =
      .ok [.child C.Scalar_Logical_Expr A, .none] := by
  simp +decide [planElseIf, kwIs, startsC, lstrip_cons, cutLast_par, strip_self hl hr]

theorem planElseIf_printed2 (A B : Str) (hl : lstrip A = A) (hr : rstrip A = A)
    (hB : ')' ∉ B) (hBl : lstrip B = B) (hB0 : B ≠ []) :
    planElseIf ("ELSE IF (".toList ++ A ++ ") THEN ".toList ++ B) =
      .ok [.child C.Scalar_Logical_Expr A, .child C.If_Construct_Name B] := by
  simp +decide [planElseIf, kwIs, startsC, lstrip_cons, cutLast_par, strip_self hl hr, hB, hBl,
    isEmpty_false hB0]

/-- **Else_If_Stmt**, no construct name -/
theorem elseIf_match_tostr_fixpoint_1 (o : Oracle Node) (a : Node)
    (hrt : OracleRT o C.Scalar_Logical_Expr a)
    (hl : lstrip (o.str a) = o.str a) (hr : rstrip (o.str a) = o.str a) :
    ∃ t, tostrElseIf o [.node a, .none] = .ok t ∧
      (planElseIf t).bind (runSlots o) = .ok [.node a, .none] := by
  refine ⟨_, rfl, ?_⟩
  simp only [Item.text]
  rw [planElseIf_printed1 _ hl hr]
  simp [runSlots, run_child o hrt]

/-- **Else_If_Stmt**, with construct name -/
theorem elseIf_match_tostr_fixpoint_2 (o : Oracle Node) (a b : Node)
    (hrt : OracleRT o C.Scalar_Logical_Expr a) (hrtb : OracleRT o C.If_Construct_Name b)
    (hl : lstrip (o.str a) = o.str a) (hr : rstrip (o.str a) = o.str a)
    (hB : ')' ∉ o.str b) (hBl : lstrip (o.str b) = o.str b) (hB0 : o.str b ≠ []) :
    ∃ t, tostrElseIf o [.node a, .node b] = .ok t ∧
      (planElseIf t).bind (runSlots o) = .ok [.node a, .node b] := by
  refine ⟨_, rfl, ?_⟩
  simp only [Item.text]
  rw [planElseIf_printed2 _ _ hl hr hB hBl hB0]
  simp [runSlots, run_child o hrt, run_child o hrtb]

/-! ## Case_Selector -/

/-- **Case_Selector**, `DEFAULT` -/
theorem caseSelector_match_tostr_fixpoint_default (o : Oracle Node) :
    ∃ t, tostrCaseSelector o [.none] = .ok t ∧
      (planCaseSelector t).bind (runSlots o) = .ok [.none] :=
  ⟨_, rfl, by simp +decide [planCaseSelector, runSlots, runSlot]⟩

theorem planCaseSelector_printed (A : Str) (hl : lstrip A = A) (hr : rstrip A = A) :
    planCaseSelector ("(".toList ++ A ++ ")".toList) = .ok [.child C.Case_Value_Range_List A] := by
  have h1 : ¬ upper ('(' :: (A ++ [')'])) = ['D', 'E', 'F', 'A', 'U', 'L', 'T'] := by
    simp +decide [upper]
  simp +decide [planCaseSelector, h1, startsC, par_endsC, par_inner, strip_self hl hr]

/-- **Case_Selector**, `( case-value-range-list )` -/
theorem caseSelector_match_tostr_fixpoint (o : Oracle Node) (a : Node)
    (hrt : OracleRT o C.Case_Value_Range_List a)
    (hl : lstrip (o.str a) = o.str a) (hr : rstrip (o.str a) = o.str a) :
    ∃ t, tostrCaseSelector o [.node a] = .ok t ∧
      (planCaseSelector t).bind (runSlots o) = .ok [.node a] := by
  refine ⟨_, rfl, ?_⟩
  simp only [Item.text]
  rw [planCaseSelector_printed _ hl hr]
  simp [runSlots, run_child o hrt]

/-! ## Goto_Stmt -/

theorem planGoto_printed (A : Str) (hl : lstrip A = A) :
    planGoto ("GO TO ".toList ++ A) = .ok [.child C.Label A] := by
  simp +decide [planGoto, kwIs, lstrip_cons, hl]

/-- **Goto_Stmt** -/
theorem goto_match_tostr_fixpoint (o : Oracle Node) (a : Node)
    (hrt : OracleRT o C.Label a) (hl : lstrip (o.str a) = o.str a) :
    ∃ t, tostrGoto o [.node a] = .ok t ∧ (planGoto t).bind (runSlots o) = .ok [.node a] := by
  refine ⟨_, rfl, ?_⟩
  simp only [Item.text]
  rw [planGoto_printed _ hl]
  simp [runSlots, run_child o hrt]

/-! ## Computed_Goto_Stmt -/

theorem planComputedGoto_printed (A B : Str) (hl : lstrip A = A) (hr : rstrip A = A) (hA0 : A ≠ [])
    (hA : ')' ∉ A) (hBl : lstrip B = B) (hB0 : B ≠ []) :
    planComputedGoto ("GO TO (".toList ++ A ++ "), ".toList ++ B) =
      .ok [.child C.Label_List A, .child C.Scalar_Int_Expr B] := by
  simp +decide [planComputedGoto, kwIs, startsC, lstrip_cons, cutFirst_par, hA, strip_self hl hr,
    isEmpty_false hA0, isEmpty_false hB0, hBl]

/-- **Computed_Goto_Stmt** -/
theorem computedGoto_match_tostr_fixpoint (o : Oracle Node) (a b : Node)
    (hrta : OracleRT o C.Label_List a) (hrtb : OracleRT o C.Scalar_Int_Expr b)
    (hl : lstrip (o.str a) = o.str a) (hr : rstrip (o.str a) = o.str a) (hA0 : o.str a ≠ [])
    (hA : ')' ∉ o.str a) (hBl : lstrip (o.str b) = o.str b) (hB0 : o.str b ≠ []) :
    ∃ t, tostrComputedGoto o [.node a, .node b] = .ok t ∧
      (planComputedGoto t).bind (runSlots o) = .ok [.node a, .node b] := by
  refine ⟨_, rfl, ?_⟩
  simp only [Item.text]
  rw [planComputedGoto_printed _ _ hl hr hA0 hA hBl hB0]
  simp [runSlots, run_child o hrta, run_child o hrtb]

/-! ## Inquire_Stmt, first form -/

theorem planInquire_printed1 (A : Str) (hl : lstrip A = A) (hr : rstrip A = A) :
    planInquire ("INQUIRE(".toList ++ A ++ ")".toList) =
      .ok [.child C.Inquire_Spec_List A, .none, .none] := by
  simp +decide [planInquire, kwIs, startsC, lstrip_cons, par_endsC, par_inner, strip_self hl hr]

/-- **Inquire_Stmt**, `INQUIRE(inquire-spec-list)` -/
theorem inquire_match_tostr_fixpoint_1 (o : Oracle Node) (a : Node)
    (hrt : OracleRT o C.Inquire_Spec_List a)
    (hl : lstrip (o.str a) = o.str a) (hr : rstrip (o.str a) = o.str a) :
    ∃ t, tostrInquire o [.node a, .none, .none] = .ok t ∧
      (planInquire t).bind (runSlots o) = .ok [.node a, .none, .none] := by
  refine ⟨_, rfl, ?_⟩
  simp only [Item.text]
  rw [planInquire_printed1 _ hl hr]
  simp [runSlots, run_child o hrt]

/-! ## Arithmetic_If_Stmt -/

theorem splitC_three (A B C : Str) (hA : ',' ∉ A) (hB : ',' ∉ B) (hC : ',' ∉ C) :
    splitC ',' (A ++ ',' :: ' ' :: (B ++ ',' :: ' ' :: C)) = [A, ' ' :: B, ' ' :: C] := by
  unfold splitC
  rw [Combi.splitGo_char_append ',' A _ hA]
  have e : ' ' :: (B ++ ',' :: ' ' :: C) = (' ' :: B) ++ ',' :: (' ' :: C) := rfl
  rw [e, Combi.splitGo_char_append ',' (' ' :: B) _ (by simp [hB]),
    Combi.splitGo_char_last ',' (' ' :: C) (by simp [hC])]

theorem strip_sp {t : Str} (hl : lstrip t = t) (hr : rstrip t = t) : strip (' ' :: t) = t :=
  Combi.strip_space_left hl hr

theorem planArithmeticIf_printed (E X Y Z : Str)
    (hEl : lstrip E = E) (hEr : rstrip E = E)
    (hAl : lstrip X = X) (hAr : rstrip X = X) (hBl : lstrip Y = Y) (hBr : rstrip Y = Y)
    (hCl : lstrip Z = Z) (hCr : rstrip Z = Z)
    (hAp : ')' ∉ X) (hBp : ')' ∉ Y) (hCp : ')' ∉ Z)
    (hAc : ',' ∉ X) (hBc : ',' ∉ Y) (hCc : ',' ∉ Z) :
    planArithmeticIf ("IF (".toList ++ E ++ ") ".toList ++ X ++ ", ".toList ++ Y ++ ", ".toList ++ Z) =
      .ok [.child C.Label X, .child C.Label Y, .child C.Label Z, .child C.Scalar_Numeric_Expr E] := by
  have hc : isSpace ',' = false := by decide
  simp +decide [planArithmeticIf, kwIs, startsC, lstrip_cons, cutLast_par, hAp, hBp, hCp,
    lstrip_append_ns ',' _ hAl hc, splitC_three _ _ _ hAc hBc hCc, strip_self hAl hAr,
    strip_sp hBl hBr, strip_sp hCl hCr, strip_self hEl hEr]

/-- **Arithmetic_If_Stmt** (call order: the three labels, then the expression) -/
theorem arithmeticIf_match_tostr_fixpoint (o : Oracle Node) (e a b c : Node)
    (hrte : OracleRT o C.Scalar_Numeric_Expr e) (hrta : OracleRT o C.Label a)
    (hrtb : OracleRT o C.Label b) (hrtc : OracleRT o C.Label c)
    (hEl : lstrip (o.str e) = o.str e) (hEr : rstrip (o.str e) = o.str e)
    (hAl : lstrip (o.str a) = o.str a) (hAr : rstrip (o.str a) = o.str a)
    (hBl : lstrip (o.str b) = o.str b) (hBr : rstrip (o.str b) = o.str b)
    (hCl : lstrip (o.str c) = o.str c) (hCr : rstrip (o.str c) = o.str c)
    (hAp : ')' ∉ o.str a) (hBp : ')' ∉ o.str b) (hCp : ')' ∉ o.str c)
    (hAc : ',' ∉ o.str a) (hBc : ',' ∉ o.str b) (hCc : ',' ∉ o.str c) :
    ∃ t, tostrArithmeticIf o [.node e, .node a, .node b, .node c] = .ok t ∧
      ((planArithmeticIf t).bind (runSlots o)).map arrangeArithmeticIf =
        .ok [.node e, .node a, .node b, .node c] := by
  refine ⟨_, rfl, ?_⟩
  simp only [Item.text]
  rw [planArithmeticIf_printed _ _ _ _ hEl hEr hAl hAr hBl hBr hCl hCr hAp hBp hCp hAc hBc hCc]
  simp [runSlots, run_child o hrte, run_child o hrta, run_child o hrtb, run_child o hrtc,
    arrangeArithmeticIf]

/-! ## Label_Do_Stmt -/

/-- a statement label as `pattern.label` finds it: one to five digits -/
def IsLabel (l : Str) : Prop := l.all isDigit = true ∧ 1 ≤ l.length ∧ l.length ≤ 5

instance (l : Str) : Decidable (IsLabel l) := inferInstanceAs (Decidable (_ ∧ _))

theorem isSpace_of_isDigit {c : Char} (h : isDigit c = true) : isSpace c = false := by
  cases hs : isSpace c with
  | false => rfl
  | true =>
    exfalso
    simp only [isSpace, Bool.or_eq_true, beq_iff_eq] at hs
    rcases hs with ((((((((h1 | h1) | h1) | h1) | h1) | h1) | h1) | h1) | h1) | h1 <;>
      (subst h1; revert h; decide)

theorem takeWhile_digits_stop (l r : Str) (h : l.all isDigit = true) :
    (l ++ ' ' :: r).takeWhile isDigit = l := by
  induction l with
  | nil => simp +decide
  | cons c l ih =>
    simp only [List.all_cons, Bool.and_eq_true] at h
    simp [h.1, ih h.2]

theorem takeWhile_digits_all (l : Str) (h : l.all isDigit = true) : l.takeWhile isDigit = l := by
  induction l with
  | nil => rfl
  | cons c l ih =>
    simp only [List.all_cons, Bool.and_eq_true] at h
    simp [h.1, ih h.2]

theorem labelPrefix_self {l : Str} (h : IsLabel l) : labelPrefix l = l := by
  unfold labelPrefix
  rw [takeWhile_digits_all l h.1]
  exact List.take_of_length_le h.2.2

theorem labelPrefix_blank {l : Str} (r : Str) (h : IsLabel l) : labelPrefix (l ++ ' ' :: r) = l := by
  unfold labelPrefix
  rw [takeWhile_digits_stop l r h.1]
  exact List.take_of_length_le h.2.2

theorem IsLabel.ne {l : Str} (h : IsLabel l) : l ≠ [] := by
  intro e; subst e; exact absurd h.2.1 (by decide)

theorem IsLabel.lstrip {l : Str} (h : IsLabel l) : Fp.lstrip l = l := by
  cases l with
  | nil => rfl
  | cons c l =>
    have := h.1
    simp only [List.all_cons, Bool.and_eq_true] at this
    exact lstrip_cons_nonspace _ (isSpace_of_isDigit this.1)

theorem planLabelDo_printed1 (L : Str) (hL : IsLabel L) :
    planLabelDo ("DO ".toList ++ L) = .ok [.none, .child C.Label L, .none] := by
  simp +decide [planLabelDo, kwIs, lstrip_cons, hL.lstrip, labelPrefix_self hL, isEmpty_false hL.ne]

theorem planLabelDo_printed2 (L R : Str) (hL : IsLabel L) (hRl : lstrip R = R) (hR0 : R ≠ []) :
    planLabelDo ("DO ".toList ++ L ++ ' ' :: R) =
      .ok [.none, .child C.Label L, .child C.Loop_Control R] := by
  simp +decide [planLabelDo, kwIs, lstrip_cons, lstrip_append_of_self _ hL.lstrip hL.ne,
    labelPrefix_blank _ hL, isEmpty_false hL.ne, hRl, isEmpty_false hR0]

/-- **Label_Do_Stmt**, without loop control -/
theorem labelDo_match_tostr_fixpoint_1 (o : Oracle Node) (l : Node)
    (hrt : OracleRT o C.Label l) (hL : IsLabel (o.str l)) :
    ∃ t, tostrLabelDo o [.none, .node l, .none] = .ok t ∧
      (planLabelDo t).bind (runSlots o) = .ok [.none, .node l, .none] := by
  refine ⟨_, rfl, ?_⟩
  simp only [Item.text]
  rw [planLabelDo_printed1 _ hL]
  simp [runSlots, run_child o hrt]

/-- **Label_Do_Stmt**, with loop control -/
theorem labelDo_match_tostr_fixpoint_2 (o : Oracle Node) (l lc : Node)
    (hrt : OracleRT o C.Label l) (hrtc : OracleRT o C.Loop_Control lc) (hL : IsLabel (o.str l))
    (hRl : lstrip (o.str lc) = o.str lc) (hR0 : o.str lc ≠ []) :
    ∃ t, tostrLabelDo o [.none, .node l, .node lc] = .ok t ∧
      (planLabelDo t).bind (runSlots o) = .ok [.none, .node l, .node lc] := by
  refine ⟨_, rfl, ?_⟩
  simp only [Item.text]
  rw [planLabelDo_printed2 _ _ hL hRl hR0]
  simp [runSlots, run_child o hrt, run_child o hrtc]

/-! ## Control_Edit_Desc -/

theorem strip_append_char {a : Str} (c : Char) (hl : lstrip a = a) (hc : isSpace c = false) :
    strip (a ++ [c]) = a ++ [c] := by
  have h1 : rstrip (a ++ [c]) = a ++ [c] :=
    rstrip_append_of_self a (b := [c]) (by
      have : lstrip [c] = [c] := lstrip_cons_nonspace _ hc
      simpa [Combi.rstrip_eq] using this) (by simp)
  rw [strip, h1, lstrip_append_ns c [] hl hc]

/-- **Control_Edit_Desc**, `/`, `:` or `$` alone -/
theorem controlEditDesc_match_tostr_fixpoint_bare (o : Oracle Node) (d : Str)
    (hd : d = "/".toList ∨ d = ":".toList ∨ d = "$".toList) :
    ∃ t, tostrControlEditDesc o [.none, .str d] = .ok t ∧
      (planControlEditDesc t).bind (runSlots o) = .ok [.none, .str d] := by
  have h1 : planControlEditDesc "/".toList = .ok [.none, .str "/".toList] := by decide
  have h2 : planControlEditDesc ":".toList = .ok [.none, .str ":".toList] := by decide
  have h3 : planControlEditDesc "$".toList = .ok [.none, .str "$".toList] := by decide
  rcases hd with rfl | rfl | rfl
  · exact ⟨_, rfl, by show (planControlEditDesc "/".toList).bind _ = _; rw [h1]; rfl⟩
  · exact ⟨_, rfl, by show (planControlEditDesc ":".toList).bind _ = _; rw [h2]; rfl⟩
  · exact ⟨_, rfl, by show (planControlEditDesc "$".toList).bind _ = _; rw [h3]; rfl⟩

theorem planControlEditDesc_slash (R : Str) (hl : lstrip R = R) (hr : rstrip R = R) (h0 : R ≠ []) :
    planControlEditDesc (R ++ "/".toList) = .ok [.child C.R R, .str "/".toList] := by
  have hc : isSpace '/' = false := by decide
  simp +decide [planControlEditDesc, strip_append_char '/' hl hc, h0, hr]

theorem planControlEditDesc_P (K : Str) (hl : lstrip K = K) (hr : rstrip K = K) :
    planControlEditDesc (K ++ "P".toList) = .ok [.child C.K K, .str "P".toList] := by
  have hc : isSpace 'P' = false := by decide
  simp +decide [planControlEditDesc, strip_append_char 'P' hl hc, hr]

/-- **Control_Edit_Desc**, `r/` -/
theorem controlEditDesc_match_tostr_fixpoint_slash (o : Oracle Node) (r : Node)
    (hrt : OracleRT o C.R r)
    (hl : lstrip (o.str r) = o.str r) (hr : rstrip (o.str r) = o.str r) (h0 : o.str r ≠ []) :
    ∃ t, tostrControlEditDesc o [.node r, .str "/".toList] = .ok t ∧
      (planControlEditDesc t).bind (runSlots o) = .ok [.node r, .str "/".toList] := by
  refine ⟨_, rfl, ?_⟩
  simp only [Item.text]
  rw [planControlEditDesc_slash _ hl hr h0]
  simp [runSlots, run_child o hrt]

/-- **Control_Edit_Desc**, `kP` -/
theorem controlEditDesc_match_tostr_fixpoint_P (o : Oracle Node) (k : Node)
    (hrt : OracleRT o C.K k)
    (hl : lstrip (o.str k) = o.str k) (hr : rstrip (o.str k) = o.str k) :
    ∃ t, tostrControlEditDesc o [.node k, .str "P".toList] = .ok t ∧
      (planControlEditDesc t).bind (runSlots o) = .ok [.node k, .str "P".toList] := by
  refine ⟨_, rfl, ?_⟩
  simp only [Item.text]
  rw [planControlEditDesc_P _ hl hr]
  simp [runSlots, run_child o hrt]

/-! ## Format_Item (Fortran2003.py) -/

/-- the characters `skip_digits` skips -/
def isDB (c : Char) : Bool := isDigit c || c == ' '

/-- the text starts with a character `skip_digits` stops at -/
def StartsNonDB : Str → Bool
  | c :: _ => !isDB c
  | [] => false

/-- `s[0] == "(" and s[-1] == ")"` -/
def Parenthesised (s : Str) : Bool := s.head? == some '(' && s.getLast? == some ')'

theorem skipDigitsAux_run (R : Str) (c : Char) (rest : Str) (hc : isDB c = false) :
    ∀ (i : Nat), R.all isDB = true →
      skipDigitsAux i (R ++ c :: rest) = (decide (i + R.length > 0), i + R.length) := by
  induction R with
  | nil =>
    intro i _
    have : (isDigit c || c == ' ') = false := hc
    simp [skipDigitsAux, this]
  | cons d R ih =>
    intro i h
    simp only [List.all_cons, Bool.and_eq_true] at h
    have hd : (isDigit d || d == ' ') = true := h.1
    have := ih (i + 1) h.2
    simp only [List.cons_append, skipDigitsAux, hd, Bool.not_true, Bool.false_eq_true, if_false,
      this, List.length_cons]
    have e : i + 1 + R.length = i + (R.length + 1) := by omega
    rw [e]

theorem skipDigits_run (R : Str) (c : Char) (rest : Str) (hR : R.all isDB = true)
    (hc : isDB c = false) :
    skipDigits (R ++ c :: rest) = (decide (R.length > 0), R.length) := by
  have := skipDigitsAux_run R c rest hc 0 hR
  simpa [skipDigits] using this

theorem startsNonDB_cons {N : Str} (h : StartsNonDB N = true) :
    ∃ c N', N = c :: N' ∧ isDB c = false := by
  cases N with
  | nil => cases h
  | cons c N' => exact ⟨c, N', rfl, by simpa [StartsNonDB] using h⟩

theorem not_paren {N : Str} (hN : N ≠ []) (hnp : Parenthesised N = false) :
    ∃ h l, N.head? = some h ∧ N.getLast? = some l ∧ (h == '(' && l == ')') = false := by
  cases N with
  | nil => exact absurd rfl hN
  | cons c N' =>
    have h2 : (c :: N').getLast? = some ((c :: N').getLast (by simp)) := List.getLast?_eq_some_getLast _
    refine ⟨c, _, rfl, h2, ?_⟩
    simp only [Parenthesised, h2, List.head?_cons] at hnp
    simpa using hnp

theorem planFormatItem_data (N : Str) (hl : lstrip N = N) (hr : rstrip N = N)
    (hdb : StartsNonDB N = true) (hnp : Parenthesised N = false) :
    planFormatItem N = .ok [.none, .child C.Data_Edit_Desc N] := by
  obtain ⟨c, N', rfl, hc⟩ := startsNonDB_cons hdb
  have hsk : skipDigits (c :: N') = (false, 0) := by
    simpa using skipDigits_run [] c N' rfl hc
  obtain ⟨h, l, e1, e2, e3⟩ := not_paren (N := c :: N') (by simp) hnp
  unfold planFormatItem
  simp only [strip_self hl hr, hsk, Bool.false_eq_true, if_false]
  rw [e1, e2]
  simp [e3]

theorem planFormatItem_rdata (R N : Str) (hRl : lstrip R = R) (hR0 : R ≠ []) (hR : R.all isDB = true)
    (hl : lstrip N = N) (hr : rstrip N = N)
    (hdb : StartsNonDB N = true) (hnp : Parenthesised N = false) :
    planFormatItem (R ++ N) = .ok [.child C.R R, .child C.Data_Edit_Desc N] := by
  obtain ⟨c, N', rfl, hc⟩ := startsNonDB_cons hdb
  have hsk : skipDigits (R ++ c :: N') = (true, R.length) := by
    rw [skipDigits_run R c N' hR hc]
    have : R.length > 0 := List.length_pos_iff.mpr hR0
    simp [this]
  have hst : strip (R ++ c :: N') = R ++ c :: N' := by
    rw [strip, rstrip_append_of_self R hr (by simp), lstrip_append_of_self _ hRl hR0]
  obtain ⟨h, l, e1, e2, e3⟩ := not_paren (N := c :: N') (by simp) hnp
  unfold planFormatItem
  simp only [hst, hsk, if_true, List.drop_left, List.take_left, hl]
  rw [e1, e2]
  simp [e3, hR0]

theorem planFormatItem_paren (N : Str) (hl : lstrip N = N) :
    planFormatItem ("(".toList ++ N ++ ")".toList) = .ok [.none, .child C.Format_Item_List N] := by
  have hst : strip ('(' :: (N ++ [')'])) = '(' :: (N ++ [')']) :=
    strip_self (lstrip_cons_nonspace _ (by decide)) (par_rstrip N)
  have hsk : skipDigits ('(' :: (N ++ [')'])) = (false, 0) := by
    simpa using skipDigits_run [] '(' (N ++ [')']) rfl (by decide)
  simp +decide [planFormatItem, hst, hsk, par_last, par_inner, hl]

theorem planFormatItem_rparen (R N : Str) (hRl : lstrip R = R) (hR0 : R ≠ []) (hR : R.all isDB = true)
    (hl : lstrip N = N) :
    planFormatItem (R ++ "(".toList ++ N ++ ")".toList) =
      .ok [.child C.R R, .child C.Format_Item_List N] := by
  have e : R ++ "(".toList ++ N ++ ")".toList = R ++ '(' :: (N ++ [')']) := by simp
  have hst : strip (R ++ '(' :: (N ++ [')'])) = R ++ '(' :: (N ++ [')']) := by
    rw [strip, rstrip_append_of_self R (par_rstrip N) (by simp), lstrip_append_of_self _ hRl hR0]
  have hsk : skipDigits (R ++ '(' :: (N ++ [')'])) = (true, R.length) := by
    rw [skipDigits_run R '(' _ hR (by decide)]
    have : R.length > 0 := List.length_pos_iff.mpr hR0
    simp [this]
  rw [e]
  unfold planFormatItem
  simp only [hst, hsk]
  simp +decide [hR0, lstrip_cons, par_last, par_inner, hl]

/-- **Format_Item**, a data edit descriptor without repeat count -/
theorem formatItem_match_tostr_fixpoint_data (o : Oracle Node) (n : Node)
    (hrt : OracleRT o C.Data_Edit_Desc n) (hde : o.isDataEdit n = true)
    (hl : lstrip (o.str n) = o.str n) (hr : rstrip (o.str n) = o.str n)
    (hdb : StartsNonDB (o.str n) = true) (hnp : Parenthesised (o.str n) = false) :
    ∃ t, tostrFormatItem o [.none, .node n] = .ok t ∧
      (planFormatItem t).bind (runSlots o) = .ok [.none, .node n] := by
  refine ⟨o.str n, by simp [tostrFormatItem, hde], ?_⟩
  rw [planFormatItem_data _ hl hr hdb hnp]
  simp [runSlots, run_child o hrt]

/-- **Format_Item**, `r data-edit-desc` -/
theorem formatItem_match_tostr_fixpoint_rdata (o : Oracle Node) (r n : Node)
    (hrtr : OracleRT o C.R r) (hrt : OracleRT o C.Data_Edit_Desc n) (hde : o.isDataEdit n = true)
    (hRl : lstrip (o.str r) = o.str r) (hR0 : o.str r ≠ []) (hR : (o.str r).all isDB = true)
    (hl : lstrip (o.str n) = o.str n) (hr : rstrip (o.str n) = o.str n)
    (hdb : StartsNonDB (o.str n) = true) (hnp : Parenthesised (o.str n) = false) :
    ∃ t, tostrFormatItem o [.node r, .node n] = .ok t ∧
      (planFormatItem t).bind (runSlots o) = .ok [.node r, .node n] := by
  refine ⟨o.str r ++ o.str n, by simp [tostrFormatItem, hde, Item.text], ?_⟩
  rw [planFormatItem_rdata _ _ hRl hR0 hR hl hr hdb hnp]
  simp [runSlots, run_child o hrt, run_child o hrtr]

/-- **Format_Item**, `( format-item-list )` -/
theorem formatItem_match_tostr_fixpoint_paren (o : Oracle Node) (n : Node)
    (hrt : OracleRT o C.Format_Item_List n) (hde : o.isDataEdit n = false)
    (hl : lstrip (o.str n) = o.str n) :
    ∃ t, tostrFormatItem o [.none, .node n] = .ok t ∧
      (planFormatItem t).bind (runSlots o) = .ok [.none, .node n] := by
  refine ⟨"(".toList ++ o.str n ++ ")".toList, by simp [tostrFormatItem, hde], ?_⟩
  rw [planFormatItem_paren _ hl]
  simp [runSlots, run_child o hrt]

/-- **Format_Item**, `r ( format-item-list )` -/
theorem formatItem_match_tostr_fixpoint_rparen (o : Oracle Node) (r n : Node)
    (hrtr : OracleRT o C.R r) (hrt : OracleRT o C.Format_Item_List n) (hde : o.isDataEdit n = false)
    (hRl : lstrip (o.str r) = o.str r) (hR0 : o.str r ≠ []) (hR : (o.str r).all isDB = true)
    (hl : lstrip (o.str n) = o.str n) :
    ∃ t, tostrFormatItem o [.node r, .node n] = .ok t ∧
      (planFormatItem t).bind (runSlots o) = .ok [.node r, .node n] := by
  refine ⟨o.str r ++ "(".toList ++ o.str n ++ ")".toList, by simp [tostrFormatItem, hde, Item.text], ?_⟩
  rw [planFormatItem_rparen _ _ hRl hR0 hR hl]
  simp [runSlots, run_child o hrt, run_child o hrtr]

/-! ## Loop_Control, the CONCURRENT form (Fortran2008/loop_control_r818.py) -/

theorem planConcurrent_printed (H : Str) (hl : lstrip H = H) (hr : rstrip H = H) :
    planConcurrent ("CONCURRENT ".toList ++ H) =
      .ok [.none, .none, .none, .child C.Forall_Header H] := by
  simp +decide [planConcurrent, kwIs, startsC, lstrip_cons, delimSlot, hl, hr]

theorem planConcurrent_printed_comma (H : Str) (hl : lstrip H = H) (hr : rstrip H = H) :
    planConcurrent (", CONCURRENT ".toList ++ H) =
      .ok [.none, .none, .str ",".toList, .child C.Forall_Header H] := by
  simp +decide [planConcurrent, kwIs, startsC, lstrip_cons, delimSlot, hl, hr]

/-- **Loop_Control (F2008)**, `CONCURRENT forall-header`.  `h03`: the Fortran2003 matcher, which is
    tried first, returns `None` on the printed text (decidable for a given text; it tokenises the
    line, so it is stated as a hypothesis). -/
theorem concurrent_match_tostr_fixpoint (o : Oracle Node) (h : Node)
    (hrt : OracleRT o C.Forall_Header h)
    (hl : lstrip (o.str h) = o.str h) (hr : rstrip (o.str h) = o.str h)
    (h03 : planLoopControl03 ("CONCURRENT ".toList ++ o.str h) = .noMatch) :
    ∃ t, tostrLoopControl .f2008 o [.none, .none, .none, .node h] = .ok t ∧
      ((planLoopControl .f2008 t).bind (runSlots o)).map (groupLoop (loopTail .f2008)) =
        .ok [.none, .none, .none, .node h] := by
  refine ⟨_, rfl, ?_⟩
  simp only [Item.text, planLoopControl, h03]
  rw [planConcurrent_printed _ hl hr]
  simp [runSlots, run_child o hrt, groupLoop]

/-- **Loop_Control (F2008)**, `, CONCURRENT forall-header` -/
theorem concurrent_match_tostr_fixpoint_comma (o : Oracle Node) (h : Node)
    (hrt : OracleRT o C.Forall_Header h)
    (hl : lstrip (o.str h) = o.str h) (hr : rstrip (o.str h) = o.str h)
    (h03 : planLoopControl03 (", CONCURRENT ".toList ++ o.str h) = .noMatch) :
    ∃ t, tostrLoopControl .f2008 o [.none, .none, .str ",".toList, .node h] = .ok t ∧
      ((planLoopControl .f2008 t).bind (runSlots o)).map (groupLoop (loopTail .f2008)) =
        .ok [.none, .none, .str ",".toList, .node h] := by
  refine ⟨", CONCURRENT ".toList ++ o.str h, by simp [tostrLoopControl, Item.text], ?_⟩
  simp only [planLoopControl, h03]
  rw [planConcurrent_printed_comma _ hl hr]
  simp [runSlots, run_child o hrt, groupLoop]

/-! ## the classes that call `string_replace_map` -/

/-- `string_replace_map` leaves the line as it is (no replacement, empty map): every `Flat` line,
    and e.g. lines whose parenthesised parts are plain names -/
def TokId (l : Str) : Prop := Combi.tokenise l = some { text := l, map := [] }

instance (l : Str) : Decidable (TokId l) := by unfold TokId; exact inferInstance

theorem TokId.of_flat {l : Str} (h : Combi.Flat l) : TokId l := Combi.tokenise_flat l h

theorem tok_id {l : Str} (h : TokId l) : tok l = .ok { text := l, map := [] } := by
  unfold TokId at h
  simp [tok, h]

/-! ### Write_Stmt -/

theorem planWrite_printed1 (A : Str) (hl : lstrip A = A) (hr : rstrip A = A) (hA0 : A ≠ [])
    (hA : ')' ∉ A) (ht : TokId ('(' :: (A ++ [')']))) :
    planWrite ("WRITE(".toList ++ A ++ ")".toList) = .ok [.child C.Io_Control_Spec_List A, .none] := by
  simp +decide [planWrite, kwIs, startsC, lstrip_cons, tok_id ht, cutFirst_par, hA, strip_self hl hr,
    hA0, Combi.applyMap_nil]

theorem planWrite_printed2 (A B : Str) (hl : lstrip A = A) (hr : rstrip A = A) (hA0 : A ≠ [])
    (hA : ')' ∉ A) (hBl : lstrip B = B) (ht : TokId ('(' :: (A ++ ')' :: ' ' :: B))) :
    planWrite ("WRITE(".toList ++ A ++ ") ".toList ++ B) =
      .ok [.child C.Io_Control_Spec_List A, .child C.Output_Item_List B] := by
  simp +decide [planWrite, kwIs, startsC, lstrip_cons, tok_id ht, cutFirst_par, hA, strip_self hl hr,
    hA0, Combi.applyMap_nil, hBl]

/-- **Write_Stmt**, no output list -/
theorem write_match_tostr_fixpoint_1 (o : Oracle Node) (a : Node)
    (hrt : OracleRT o C.Io_Control_Spec_List a)
    (hl : lstrip (o.str a) = o.str a) (hr : rstrip (o.str a) = o.str a) (hA0 : o.str a ≠ [])
    (hA : ')' ∉ o.str a) (ht : TokId ("(".toList ++ o.str a ++ ")".toList)) :
    ∃ t, tostrWrite o [.node a, .none] = .ok t ∧
      (planWrite t).bind (runSlots o) = .ok [.node a, .none] := by
  refine ⟨_, rfl, ?_⟩
  simp only [Item.text]
  rw [planWrite_printed1 _ hl hr hA0 hA (by simpa using ht)]
  simp [runSlots, run_child o hrt]

/-- **Write_Stmt**, with output list -/
theorem write_match_tostr_fixpoint_2 (o : Oracle Node) (a b : Node)
    (hrt : OracleRT o C.Io_Control_Spec_List a) (hrtb : OracleRT o C.Output_Item_List b)
    (hl : lstrip (o.str a) = o.str a) (hr : rstrip (o.str a) = o.str a) (hA0 : o.str a ≠ [])
    (hA : ')' ∉ o.str a) (hBl : lstrip (o.str b) = o.str b)
    (ht : TokId ("(".toList ++ o.str a ++ ") ".toList ++ o.str b)) :
    ∃ t, tostrWrite o [.node a, .node b] = .ok t ∧
      (planWrite t).bind (runSlots o) = .ok [.node a, .node b] := by
  refine ⟨_, rfl, ?_⟩
  simp only [Item.text]
  rw [planWrite_printed2 _ _ hl hr hA0 hA hBl (by simpa using ht)]
  simp [runSlots, run_child o hrt, run_child o hrtb]

/-! ### Print_Stmt -/

theorem cutFirst_comma (A rest : Str) (h : ',' ∉ A) :
    Combi.cutFirst ',' (A ++ ',' :: rest) = some (A, rest) := cutFirst_append A rest h

theorem isSpace_comma : isSpace ',' = false := by decide

theorem planPrint_printed1 (A : Str) (hl : lstrip A = A) (hA : ',' ∉ A) (ht : TokId A) :
    planPrint ("PRINT ".toList ++ A) = .ok [.child C.Format A, .none] := by
  simp +decide [planPrint, kwIs, lstrip_cons, hl, tok_id ht, Combi.cutFirst_none A hA,
    Combi.applyMap_nil]

theorem planPrint_printed2 (A B : Str) (hl : lstrip A = A) (hr : rstrip A = A) (hA : ',' ∉ A)
    (hBl : lstrip B = B) (hB0 : B ≠ []) (ht : TokId (A ++ ',' :: ' ' :: B)) :
    planPrint ("PRINT ".toList ++ A ++ ", ".toList ++ B) =
      .ok [.child C.Format A, .child C.Output_Item_List B] := by
  simp +decide [planPrint, kwIs, lstrip_cons, lstrip_append_ns ',' _ hl isSpace_comma, tok_id ht,
    cutFirst_comma _ _ hA, Combi.applyMap_nil, hBl, hB0, hr]

/-- **Print_Stmt**, format only -/
theorem print_match_tostr_fixpoint_1 (o : Oracle Node) (a : Node)
    (hrt : OracleRT o C.Format a) (hl : lstrip (o.str a) = o.str a) (hA : ',' ∉ o.str a)
    (ht : TokId (o.str a)) :
    ∃ t, tostrPrint o [.node a, .none] = .ok t ∧
      (planPrint t).bind (runSlots o) = .ok [.node a, .none] := by
  refine ⟨_, rfl, ?_⟩
  simp only [Item.text]
  rw [planPrint_printed1 _ hl hA ht]
  simp [runSlots, run_child o hrt]

/-- **Print_Stmt**, with output list -/
theorem print_match_tostr_fixpoint_2 (o : Oracle Node) (a b : Node)
    (hrt : OracleRT o C.Format a) (hrtb : OracleRT o C.Output_Item_List b)
    (hl : lstrip (o.str a) = o.str a) (hr : rstrip (o.str a) = o.str a) (hA : ',' ∉ o.str a)
    (hBl : lstrip (o.str b) = o.str b) (hB0 : o.str b ≠ [])
    (ht : TokId (o.str a ++ ", ".toList ++ o.str b)) :
    ∃ t, tostrPrint o [.node a, .node b] = .ok t ∧
      (planPrint t).bind (runSlots o) = .ok [.node a, .node b] := by
  refine ⟨_, rfl, ?_⟩
  simp only [Item.text]
  rw [planPrint_printed2 _ _ hl hr hA hBl hB0 (by simpa using ht)]
  simp [runSlots, run_child o hrt, run_child o hrtb]

/-! ### Read_Stmt -/

theorem planRead_printed1 (A : Str) (hl : lstrip A = A) (hr : rstrip A = A) (hA0 : A ≠ [])
    (hA : ')' ∉ A) (ht : TokId ('(' :: (A ++ [')']))) :
    planRead ("READ(".toList ++ A ++ ")".toList) =
      .ok [.child C.Io_Control_Spec_List A, .none, .none] := by
  simp +decide [planRead, kwIs, startsC, lstrip_cons, tok_id ht, cutFirst_par, hA, strip_self hl hr,
    hA0, Combi.applyMap_nil]

theorem planRead_printed2 (A B : Str) (hl : lstrip A = A) (hr : rstrip A = A) (hA0 : A ≠ [])
    (hA : ')' ∉ A) (hBl : lstrip B = B) (ht : TokId ('(' :: (A ++ ')' :: ' ' :: B))) :
    planRead ("READ(".toList ++ A ++ ") ".toList ++ B) =
      .ok [.child C.Io_Control_Spec_List A, .none, .child C.Input_Item_List B] := by
  simp +decide [planRead, kwIs, startsC, lstrip_cons, tok_id ht, cutFirst_par, hA, strip_self hl hr,
    hA0, Combi.applyMap_nil, hBl]

/-- the second form `READ format, items`: the format starts with a character that is neither `(`
    nor a letter or `_` -/
theorem planRead_printed3 (c : Char) (F' B : Str) (hc1 : c ≠ '(') (hc2 : isNameStartU c = false)
    (hl : lstrip (c :: F') = c :: F') (hr : rstrip (c :: F') = c :: F') (hF : ',' ∉ c :: F')
    (hBl : lstrip B = B) (hB0 : B ≠ []) (ht : TokId (c :: F' ++ ',' :: ' ' :: B)) :
    planRead ("READ ".toList ++ c :: F' ++ ", ".toList ++ B) =
      .ok [.none, .child C.Format (c :: F'), .child C.Output_Item_List B] := by
  have hsp : isSpace c = false := Combi.lstrip_self_head hl
  have hcut := cutFirst_comma (c :: F') (' ' :: B) hF
  simp only [List.cons_append] at hcut ht
  simp +decide [planRead, kwIs, startsC, lstrip_cons, hsp, hc1, hc2, tok_id ht, hcut,
    Combi.applyMap_nil, hBl, hB0, hr]

/-- **Read_Stmt**, `READ(io-control-spec-list)` -/
theorem read_match_tostr_fixpoint_1 (o : Oracle Node) (a : Node)
    (hrt : OracleRT o C.Io_Control_Spec_List a)
    (hl : lstrip (o.str a) = o.str a) (hr : rstrip (o.str a) = o.str a) (hA0 : o.str a ≠ [])
    (hA : ')' ∉ o.str a) (ht : TokId ("(".toList ++ o.str a ++ ")".toList)) :
    ∃ t, tostrRead o [.node a, .none, .none] = .ok t ∧
      (planRead t).bind (runSlots o) = .ok [.node a, .none, .none] := by
  refine ⟨_, rfl, ?_⟩
  simp only [Item.text]
  rw [planRead_printed1 _ hl hr hA0 hA (by simpa using ht)]
  simp [runSlots, run_child o hrt]

/-- **Read_Stmt**, `READ(io-control-spec-list) input-item-list` -/
theorem read_match_tostr_fixpoint_2 (o : Oracle Node) (a b : Node)
    (hrt : OracleRT o C.Io_Control_Spec_List a) (hrtb : OracleRT o C.Input_Item_List b)
    (hl : lstrip (o.str a) = o.str a) (hr : rstrip (o.str a) = o.str a) (hA0 : o.str a ≠ [])
    (hA : ')' ∉ o.str a) (hBl : lstrip (o.str b) = o.str b)
    (ht : TokId ("(".toList ++ o.str a ++ ") ".toList ++ o.str b)) :
    ∃ t, tostrRead o [.node a, .none, .node b] = .ok t ∧
      (planRead t).bind (runSlots o) = .ok [.node a, .none, .node b] := by
  refine ⟨_, rfl, ?_⟩
  simp only [Item.text]
  rw [planRead_printed2 _ _ hl hr hA0 hA hBl (by simpa using ht)]
  simp [runSlots, run_child o hrt, run_child o hrtb]

/-- **Read_Stmt**, `READ format, items` -/
theorem read_match_tostr_fixpoint_3 (o : Oracle Node) (f b : Node) (c : Char) (F' : Str)
    (hrt : OracleRT o C.Format f) (hrtb : OracleRT o C.Output_Item_List b)
    (hF : o.str f = c :: F') (hc1 : c ≠ '(') (hc2 : isNameStartU c = false)
    (hl : lstrip (o.str f) = o.str f) (hr : rstrip (o.str f) = o.str f) (hFc : ',' ∉ o.str f)
    (hBl : lstrip (o.str b) = o.str b) (hB0 : o.str b ≠ [])
    (ht : TokId (o.str f ++ ", ".toList ++ o.str b)) :
    ∃ t, tostrRead o [.none, .node f, .node b] = .ok t ∧
      (planRead t).bind (runSlots o) = .ok [.none, .node f, .node b] := by
  refine ⟨_, rfl, ?_⟩
  simp only [Item.text]
  have hrt' := run_child o hrt
  rw [hF] at hl hr hFc ht hrt' ⊢
  rw [planRead_printed3 c F' _ hc1 hc2 hl hr hFc hBl hB0 (by simpa using ht)]
  simp [runSlots, hrt', run_child o hrtb]

/-! ### Where_Stmt -/

theorem planWhere_printed (A B : Str) (hl : lstrip A = A) (hr : rstrip A = A) (hA0 : A ≠ [])
    (hA : ')' ∉ A) (hBl : lstrip B = B) (hB0 : B ≠ []) (ht : TokId ('(' :: (A ++ ')' :: ' ' :: B))) :
    planWhere ("WHERE (".toList ++ A ++ ") ".toList ++ B) =
      .ok [.child C.Mask_Expr A, .child C.Where_Assignment_Stmt B] := by
  simp +decide [planWhere, kwIs, startsC, lstrip_cons, tok_id ht, cutFirst_par, hA, strip_self hl hr,
    hA0, hB0, Combi.applyMap_nil, hBl]

/-- **Where_Stmt** -/
theorem where_match_tostr_fixpoint (o : Oracle Node) (a b : Node)
    (hrt : OracleRT o C.Mask_Expr a) (hrtb : OracleRT o C.Where_Assignment_Stmt b)
    (hl : lstrip (o.str a) = o.str a) (hr : rstrip (o.str a) = o.str a) (hA0 : o.str a ≠ [])
    (hA : ')' ∉ o.str a) (hBl : lstrip (o.str b) = o.str b) (hB0 : o.str b ≠ [])
    (ht : TokId ("(".toList ++ o.str a ++ ") ".toList ++ o.str b)) :
    ∃ t, tostrWhere o [.node a, .node b] = .ok t ∧
      (planWhere t).bind (runSlots o) = .ok [.node a, .node b] := by
  refine ⟨_, rfl, ?_⟩
  simp only [Item.text]
  rw [planWhere_printed _ _ hl hr hA0 hA hBl hB0 (by simpa using ht)]
  simp [runSlots, run_child o hrt, run_child o hrtb]

/-! ### If_Stmt -/

theorem planIf_printed (std : Std) (A B : Str) (hl : lstrip A = A) (hr : rstrip A = A)
    (hA : ')' ∉ A) (hBl : lstrip B = B)
    (ht : TokId ('I' :: 'F' :: ' ' :: '(' :: (A ++ ')' :: ' ' :: B))) :
    planIf std ("IF (".toList ++ A ++ ") ".toList ++ B) =
      .ok [.child C.Scalar_Logical_Expr A, .child (actionStmtCls std) B] := by
  simp +decide [planIf, kwIs, startsC, lstrip_cons, tok_id ht, cutFirst_par, hA, strip_self hl hr,
    Combi.applyMap_nil, hBl]

/-- **If_Stmt** (the WHOLE printed statement is tokenised) -/
theorem if_match_tostr_fixpoint (std : Std) (o : Oracle Node) (a b : Node)
    (hrt : OracleRT o C.Scalar_Logical_Expr a) (hrtb : OracleRT o (actionStmtCls std) b)
    (hl : lstrip (o.str a) = o.str a) (hr : rstrip (o.str a) = o.str a)
    (hA : ')' ∉ o.str a) (hBl : lstrip (o.str b) = o.str b)
    (ht : TokId ("IF (".toList ++ o.str a ++ ") ".toList ++ o.str b)) :
    ∃ t, tostrIf o [.node a, .node b] = .ok t ∧
      (planIf std t).bind (runSlots o) = .ok [.node a, .node b] := by
  refine ⟨_, rfl, ?_⟩
  simp only [Item.text]
  rw [planIf_printed std _ _ hl hr hA hBl (by simpa using ht)]
  simp [runSlots, run_child o hrt, run_child o hrtb]

/-! ### Call_Stmt -/

theorem planCall_printed1 (A : Str) (hl : lstrip A = A) (hE : endsC ')' A = false) (ht : TokId A) :
    planCall ("CALL ".toList ++ A) = .ok [.child C.Procedure_Designator A, .none] := by
  simp +decide [planCall, kwIs, lstrip_cons, hl, tok_id ht, hE]

theorem endsC_append_one (X : Str) (c : Char) : endsC c (X ++ [c]) = true := by
  simp [endsC]

theorem planCall_printed2 (A B : Str) (hr : rstrip A = A) (hl : lstrip A = A)
    (hBl : lstrip B = B) (hBr : rstrip B = B) (hB0 : B ≠ []) (hB : '(' ∉ B)
    (ht : TokId (A ++ '(' :: (B ++ [')']))) :
    planCall ("CALL ".toList ++ A ++ "(".toList ++ B ++ ")".toList) =
      .ok [.child C.Procedure_Designator A, .child C.Actual_Arg_Spec_List B] := by
  have he : endsC ')' (A ++ '(' :: (B ++ [')'])) = true := by
    have := endsC_append_one (A ++ '(' :: B) ')'
    simpa using this
  have hcut : Combi.cutLast '(' (A ++ '(' :: (B ++ [')'])) = some (A, B ++ [')']) :=
    cutLast_append A _ (by simp [hB])
  have hls : lstrip (A ++ '(' :: (B ++ [')'])) = A ++ '(' :: (B ++ [')']) :=
    lstrip_append_ns '(' _ hl (by decide)
  simp +decide [planCall, kwIs, lstrip_cons, hls, tok_id ht, he, hcut, Combi.applyMap_nil,
    strip_self hBl hBr, hB0, hr]

/-- **Call_Stmt**, without argument list -/
theorem call_match_tostr_fixpoint_1 (o : Oracle Node) (a : Node)
    (hrt : OracleRT o C.Procedure_Designator a) (hl : lstrip (o.str a) = o.str a)
    (hE : endsC ')' (o.str a) = false) (ht : TokId (o.str a)) :
    ∃ t, tostrCall o [.node a, .none] = .ok t ∧
      (planCall t).bind (runSlots o) = .ok [.node a, .none] := by
  refine ⟨_, rfl, ?_⟩
  simp only [Item.text]
  rw [planCall_printed1 _ hl hE ht]
  simp [runSlots, run_child o hrt]

/-- **Call_Stmt**, with argument list -/
theorem call_match_tostr_fixpoint_2 (o : Oracle Node) (a b : Node)
    (hrt : OracleRT o C.Procedure_Designator a) (hrtb : OracleRT o C.Actual_Arg_Spec_List b)
    (hl : lstrip (o.str a) = o.str a) (hr : rstrip (o.str a) = o.str a)
    (hBl : lstrip (o.str b) = o.str b) (hBr : rstrip (o.str b) = o.str b) (hB0 : o.str b ≠ [])
    (hB : '(' ∉ o.str b) (ht : TokId (o.str a ++ "(".toList ++ o.str b ++ ")".toList)) :
    ∃ t, tostrCall o [.node a, .node b] = .ok t ∧
      (planCall t).bind (runSlots o) = .ok [.node a, .node b] := by
  refine ⟨_, rfl, ?_⟩
  simp only [Item.text]
  rw [planCall_printed2 _ _ hr hl hBl hBr hB0 hB (by simpa using ht)]
  simp [runSlots, run_child o hrt, run_child o hrtb]

/-! ### Deallocate_Stmt -/

theorem planDeallocate_inner_none (M : Str) (hl : lstrip M = M) (hr : rstrip M = M)
    (ht : TokId M) (hc : cutOpts M = none) :
    planDeallocate ("DEALLOCATE(".toList ++ M ++ ")".toList) =
      .ok [.none, .child C.Allocate_Object_List M] := by
  simp +decide [planDeallocate, kwIs, startsC, lstrip_cons, par_endsC, par_inner, strip_self hl hr,
    tok_id ht, hc, Combi.applyMap_nil]

theorem planDeallocate_inner_some (M objs opts : Str) (hl : lstrip M = M) (hr : rstrip M = M)
    (ht : TokId M) (hc : cutOpts M = some (some (objs, opts))) :
    planDeallocate ("DEALLOCATE(".toList ++ M ++ ")".toList) =
      .ok [.child C.Dealloc_Opt_List opts, .child C.Allocate_Object_List objs] := by
  simp +decide [planDeallocate, kwIs, startsC, lstrip_cons, par_endsC, par_inner, strip_self hl hr,
    tok_id ht, hc, Combi.applyMap_nil]

theorem cutOpts_none (A : Str) (hA : '=' ∉ A) : cutOpts A = none := by
  simp [cutOpts, Combi.cutFirst_none A hA]

theorem cutOpts_list (A B B1 B2 : Str) (hA : '=' ∉ A) (hr : rstrip A = A) (hBl : lstrip B = B)
    (hcut : Combi.cutFirst '=' B = some (B1, B2)) (hB1 : ',' ∉ B1) :
    cutOpts (A ++ ',' :: ' ' :: B) = some (some (A, B)) := by
  obtain ⟨hB, hB1e⟩ := Combi.cutFirst_spec _ _ _ hcut
  have e : A ++ ',' :: ' ' :: B = (A ++ ',' :: ' ' :: B1) ++ '=' :: B2 := by rw [hB]; simp
  have h1 : Combi.cutFirst '=' (A ++ ',' :: ' ' :: B) = some (A ++ ',' :: ' ' :: B1, B2) := by
    rw [e]; exact cutFirst_append _ _ (by simp +decide [hA, hB1e])
  have h2 : Combi.cutLast ',' (A ++ ',' :: ' ' :: B1) = some (A, ' ' :: B1) :=
    cutLast_append A _ (by simp +decide [hB1])
  have h3 : lstrip (' ' :: (B1 ++ '=' :: B2)) = B := by rw [lstrip_space_cons, ← hB, hBl]
  simp only [cutOpts, h1, h2, hr, List.cons_append, h3]

/-- **Deallocate_Stmt**, no option list (call order `[opts, objects]`, tuple order `(objects, opts)`) -/
theorem deallocate_match_tostr_fixpoint_1 (o : Oracle Node) (a : Node)
    (hrt : OracleRT o C.Allocate_Object_List a)
    (hl : lstrip (o.str a) = o.str a) (hr : rstrip (o.str a) = o.str a) (hA : '=' ∉ o.str a)
    (ht : TokId (o.str a)) :
    ∃ t, tostrDeallocate o [.node a, .none] = .ok t ∧
      ((planDeallocate t).bind (runSlots o)).map swap2 = .ok [.node a, .none] := by
  refine ⟨_, rfl, ?_⟩
  simp only [Item.text]
  rw [planDeallocate_inner_none _ hl hr ht (cutOpts_none _ hA)]
  simp [runSlots, run_child o hrt, swap2]

/-- **Deallocate_Stmt**, with option list: the option list's text has its first `=` after a
    comma-free prefix (`STAT = …`) -/
theorem deallocate_match_tostr_fixpoint_2 (o : Oracle Node) (a b : Node) (B1 B2 : Str)
    (hrt : OracleRT o C.Allocate_Object_List a) (hrtb : OracleRT o C.Dealloc_Opt_List b)
    (hl : lstrip (o.str a) = o.str a) (hr : rstrip (o.str a) = o.str a) (hA : '=' ∉ o.str a)
    (hBl : lstrip (o.str b) = o.str b) (hBr : rstrip (o.str b) = o.str b) (hB0 : o.str b ≠ [])
    (hcut : Combi.cutFirst '=' (o.str b) = some (B1, B2)) (hB1 : ',' ∉ B1)
    (ht : TokId (o.str a ++ ", ".toList ++ o.str b)) :
    ∃ t, tostrDeallocate o [.node a, .node b] = .ok t ∧
      ((planDeallocate t).bind (runSlots o)).map swap2 = .ok [.node a, .node b] := by
  refine ⟨_, rfl, ?_⟩
  simp only [Item.text]
  have e : "DEALLOCATE(".toList ++ o.str a ++ ", ".toList ++ o.str b ++ ")".toList =
      "DEALLOCATE(".toList ++ (o.str a ++ ',' :: ' ' :: o.str b) ++ ")".toList := by simp
  have hMl : lstrip (o.str a ++ ',' :: ' ' :: o.str b) = o.str a ++ ',' :: ' ' :: o.str b :=
    lstrip_append_ns ',' _ hl (by decide)
  have hMr : rstrip (o.str a ++ ',' :: ' ' :: o.str b) = o.str a ++ ',' :: ' ' :: o.str b := by
    have := rstrip_append_of_self (o.str a ++ [',', ' ']) hBr hB0
    simpa using this
  rw [e, planDeallocate_inner_some _ _ _ hMl hMr (by simpa using ht)
    (cutOpts_list _ _ B1 B2 hA hr hBl hcut hB1)]
  simp [runSlots, run_child o hrt, run_child o hrtb, swap2]

/-! ### Loop_Control, the WHILE form -/

theorem planLoopControl03_while (X : Str) (hl : lstrip X = X) (hr : rstrip X = X) (hX : ')' ∉ X)
    (ht : TokId ('W' :: 'H' :: 'I' :: 'L' :: 'E' :: ' ' :: '(' :: (X ++ [')']))) :
    planLoopControl03 ("WHILE (".toList ++ X ++ ")".toList) =
      .ok [.child C.Scalar_Logical_Expr X, .none, .none] := by
  have hR : rstrip ('W' :: 'H' :: 'I' :: 'L' :: 'E' :: ' ' :: '(' :: (X ++ [')'])) =
      'W' :: 'H' :: 'I' :: 'L' :: 'E' :: ' ' :: '(' :: (X ++ [')']) := by
    have := rstrip_append_of_self ('W' :: 'H' :: 'I' :: 'L' :: 'E' :: ' ' :: '(' :: X) (b := [')'])
      (by decide) (by decide)
    simpa using this
  simp +decide [planLoopControl03, lrstrip, lstrip_cons, hR, startsC, tok_id ht, kwIs, cutFirst_par,
    hX, strip_self hl hr, Combi.applyMap_nil, delimSlot]

theorem planLoopControl03_while_comma (X : Str) (hl : lstrip X = X) (hr : rstrip X = X) (hX : ')' ∉ X)
    (ht : TokId ('W' :: 'H' :: 'I' :: 'L' :: 'E' :: ' ' :: '(' :: (X ++ [')']))) :
    planLoopControl03 (", WHILE (".toList ++ X ++ ")".toList) =
      .ok [.child C.Scalar_Logical_Expr X, .none, .str ",".toList] := by
  have hR : rstrip (',' :: ' ' :: 'W' :: 'H' :: 'I' :: 'L' :: 'E' :: ' ' :: '(' :: (X ++ [')'])) =
      ',' :: ' ' :: 'W' :: 'H' :: 'I' :: 'L' :: 'E' :: ' ' :: '(' :: (X ++ [')']) := by
    have := rstrip_append_of_self (',' :: ' ' :: 'W' :: 'H' :: 'I' :: 'L' :: 'E' :: ' ' :: '(' :: X)
      (b := [')']) (by decide) (by decide)
    simpa using this
  simp +decide [planLoopControl03, lrstrip, lstrip_cons, hR, startsC, tok_id ht, kwIs, cutFirst_par,
    hX, strip_self hl hr, Combi.applyMap_nil, delimSlot]

/-- **Loop_Control (F2003)**, `WHILE (expr)` -/
theorem loopControlWhile_match_tostr_fixpoint (o : Oracle Node) (c : Node)
    (hrt : OracleRT o C.Scalar_Logical_Expr c)
    (hl : lstrip (o.str c) = o.str c) (hr : rstrip (o.str c) = o.str c) (hX : ')' ∉ o.str c)
    (ht : TokId ("WHILE (".toList ++ o.str c ++ ")".toList)) :
    ∃ t, tostrLoopControl .f2003 o [.node c, .none, .none] = .ok t ∧
      ((planLoopControl .f2003 t).bind (runSlots o)).map (groupLoop (loopTail .f2003)) =
        .ok [.node c, .none, .none] := by
  refine ⟨_, rfl, ?_⟩
  simp only [planLoopControl]
  rw [planLoopControl03_while _ hl hr hX (by simpa using ht)]
  simp [runSlots, run_child o hrt, groupLoop]

/-- **Loop_Control (F2003)**, `, WHILE (expr)` -/
theorem loopControlWhile_match_tostr_fixpoint_comma (o : Oracle Node) (c : Node)
    (hrt : OracleRT o C.Scalar_Logical_Expr c)
    (hl : lstrip (o.str c) = o.str c) (hr : rstrip (o.str c) = o.str c) (hX : ')' ∉ o.str c)
    (ht : TokId ("WHILE (".toList ++ o.str c ++ ")".toList)) :
    ∃ t, tostrLoopControl .f2003 o [.node c, .none, .str ",".toList] = .ok t ∧
      ((planLoopControl .f2003 t).bind (runSlots o)).map (groupLoop (loopTail .f2003)) =
        .ok [.node c, .none, .str ",".toList] := by
  refine ⟨", WHILE (".toList ++ o.str c ++ ")".toList, by simp [tostrLoopControl, tostrLoopControl03], ?_⟩
  simp only [planLoopControl]
  rw [planLoopControl03_while_comma _ hl hr hX (by simpa using ht)]
  simp [runSlots, run_child o hrt, groupLoop]

/-- **Loop_Control (F2008)**, `WHILE (expr)`: the Fortran2003 result with a trailing `None` -/
theorem loopControlWhile08_match_tostr_fixpoint (o : Oracle Node) (c : Node)
    (hrt : OracleRT o C.Scalar_Logical_Expr c)
    (hl : lstrip (o.str c) = o.str c) (hr : rstrip (o.str c) = o.str c) (hX : ')' ∉ o.str c)
    (ht : TokId ("WHILE (".toList ++ o.str c ++ ")".toList)) :
    ∃ t, tostrLoopControl .f2008 o [.node c, .none, .none, .none] = .ok t ∧
      ((planLoopControl .f2008 t).bind (runSlots o)).map (groupLoop (loopTail .f2008)) =
        .ok [.node c, .none, .none, .none] := by
  refine ⟨_, rfl, ?_⟩
  simp only [planLoopControl]
  rw [planLoopControl03_while _ hl hr hX (by simpa using ht)]
  simp [runSlots, run_child o hrt, groupLoop]

/-! ### the `Flat` layer (as `*_rt_flat` in Props/Combi.lean) for the classes whose tokenised text
can be flat (no parenthesis in it) -/

theorem print_match_tostr_fixpoint_1_flat (o : Oracle Node) (a : Node)
    (hrt : OracleRT o C.Format a) (hl : lstrip (o.str a) = o.str a) (hA : ',' ∉ o.str a)
    (hf : Combi.Flat (o.str a)) :
    ∃ t, tostrPrint o [.node a, .none] = .ok t ∧
      (planPrint t).bind (runSlots o) = .ok [.node a, .none] :=
  print_match_tostr_fixpoint_1 o a hrt hl hA (.of_flat hf)

theorem print_match_tostr_fixpoint_2_flat (o : Oracle Node) (a b : Node)
    (hrt : OracleRT o C.Format a) (hrtb : OracleRT o C.Output_Item_List b)
    (hl : lstrip (o.str a) = o.str a) (hr : rstrip (o.str a) = o.str a) (hA : ',' ∉ o.str a)
    (hBl : lstrip (o.str b) = o.str b) (hB0 : o.str b ≠ [])
    (hf : Combi.Flat (o.str a ++ ", ".toList ++ o.str b)) :
    ∃ t, tostrPrint o [.node a, .node b] = .ok t ∧
      (planPrint t).bind (runSlots o) = .ok [.node a, .node b] :=
  print_match_tostr_fixpoint_2 o a b hrt hrtb hl hr hA hBl hB0 (.of_flat hf)

theorem read_match_tostr_fixpoint_3_flat (o : Oracle Node) (f b : Node) (c : Char) (F' : Str)
    (hrt : OracleRT o C.Format f) (hrtb : OracleRT o C.Output_Item_List b)
    (hF : o.str f = c :: F') (hc1 : c ≠ '(') (hc2 : isNameStartU c = false)
    (hl : lstrip (o.str f) = o.str f) (hr : rstrip (o.str f) = o.str f) (hFc : ',' ∉ o.str f)
    (hBl : lstrip (o.str b) = o.str b) (hB0 : o.str b ≠ [])
    (hf : Combi.Flat (o.str f ++ ", ".toList ++ o.str b)) :
    ∃ t, tostrRead o [.none, .node f, .node b] = .ok t ∧
      (planRead t).bind (runSlots o) = .ok [.none, .node f, .node b] :=
  read_match_tostr_fixpoint_3 o f b c F' hrt hrtb hF hc1 hc2 hl hr hFc hBl hB0 (.of_flat hf)

theorem call_match_tostr_fixpoint_1_flat (o : Oracle Node) (a : Node)
    (hrt : OracleRT o C.Procedure_Designator a) (hl : lstrip (o.str a) = o.str a)
    (hE : endsC ')' (o.str a) = false) (hf : Combi.Flat (o.str a)) :
    ∃ t, tostrCall o [.node a, .none] = .ok t ∧
      (planCall t).bind (runSlots o) = .ok [.node a, .none] :=
  call_match_tostr_fixpoint_1 o a hrt hl hE (.of_flat hf)

theorem deallocate_match_tostr_fixpoint_1_flat (o : Oracle Node) (a : Node)
    (hrt : OracleRT o C.Allocate_Object_List a)
    (hl : lstrip (o.str a) = o.str a) (hr : rstrip (o.str a) = o.str a) (hA : '=' ∉ o.str a)
    (hf : Combi.Flat (o.str a)) :
    ∃ t, tostrDeallocate o [.node a, .none] = .ok t ∧
      ((planDeallocate t).bind (runSlots o)).map swap2 = .ok [.node a, .none] :=
  deallocate_match_tostr_fixpoint_1 o a hrt hl hr hA (.of_flat hf)

theorem deallocate_match_tostr_fixpoint_2_flat (o : Oracle Node) (a b : Node) (B1 B2 : Str)
    (hrt : OracleRT o C.Allocate_Object_List a) (hrtb : OracleRT o C.Dealloc_Opt_List b)
    (hl : lstrip (o.str a) = o.str a) (hr : rstrip (o.str a) = o.str a) (hA : '=' ∉ o.str a)
    (hBl : lstrip (o.str b) = o.str b) (hBr : rstrip (o.str b) = o.str b) (hB0 : o.str b ≠ [])
    (hcut : Combi.cutFirst '=' (o.str b) = some (B1, B2)) (hB1 : ',' ∉ B1)
    (hf : Combi.Flat (o.str a ++ ", ".toList ++ o.str b)) :
    ∃ t, tostrDeallocate o [.node a, .node b] = .ok t ∧
      ((planDeallocate t).bind (runSlots o)).map swap2 = .ok [.node a, .node b] :=
  deallocate_match_tostr_fixpoint_2 o a b B1 B2 hrt hrtb hl hr hA hBl hBr hB0 hcut hB1 (.of_flat hf)

/-! ## non-vacuity and NECESSITY of the side conditions, kernel-checked

The toy oracle: nodes are texts, every class accepts every non-empty text and prints it back.
`fixB (tostr items) rematch items` = "the printed text is matched again with the same items". -/

def toy : Oracle Str :=
  { call := fun _ s => if s.isEmpty then .noMatch else .ok s
    str := id
    head := fun _ => none
    rhsStr := id
    heads := fun _ => []
    isDataEdit := fun s => !s.contains ',' }

def fixB (ts : Res Str) (rematch : Str → Res (List (Item Str))) (items : List (Item Str)) : Bool :=
  match ts with
  | .ok t => rematch t == .ok items
  | _ => false

/-- a node of the toy oracle -/
def nd (s : String) : Item Str := .node s.toList

def rm (plan : Str → Res (List Slot)) (t : Str) : Res (List (Item Str)) := (plan t).bind (runSlots toy)

/-! ### non-vacuity -/
example : fixB (tostrIfThen toy [nd "a .AND. b"]) (rm planIfThen) [nd "a .AND. b"] = true := by decide +kernel
example : fixB (tostrElseIf toy [nd "x > (1)", nd "nm"]) (rm planElseIf) [nd "x > (1)", nd "nm"] = true := by
  decide +kernel
example : fixB (tostrSelectCase toy [nd "k"]) (rm planSelectCase) [nd "k"] = true := by decide +kernel
example : fixB (tostrCaseSelector toy [nd "1 : 2, 5"]) (rm planCaseSelector) [nd "1 : 2, 5"] = true := by
  decide +kernel
example : fixB (tostrGoto toy [nd "10"]) (rm planGoto) [nd "10"] = true := by decide +kernel
example : fixB (tostrComputedGoto toy [nd "10, 20", nd "i + (1)"]) (rm planComputedGoto)
    [nd "10, 20", nd "i + (1)"] = true := by decide +kernel
example : fixB (tostrArithmeticIf toy [nd "f(x)", nd "10", nd "20", nd "30"])
    (fun t => (rm planArithmeticIf t).map arrangeArithmeticIf) [nd "f(x)", nd "10", nd "20", nd "30"] = true := by
  decide +kernel
example : fixB (tostrLabelDo toy [.none, nd "10", nd "i = 1, n"]) (rm planLabelDo)
    [.none, nd "10", nd "i = 1, n"] = true := by decide +kernel
example : fixB (tostrInquire toy [nd "UNIT = 6", .none, .none]) (rm planInquire)
    [nd "UNIT = 6", .none, .none] = true := by decide +kernel
example : fixB (tostrControlEditDesc toy [nd "2", .str "/".toList]) (rm planControlEditDesc)
    [nd "2", .str "/".toList] = true := by decide +kernel
example : fixB (tostrFormatItem toy [nd "3", nd "I5"]) (rm planFormatItem) [nd "3", nd "I5"] = true := by
  decide +kernel
example : fixB (tostrFormatItem toy [nd "3", nd "I5, F8.2"]) (rm planFormatItem) [nd "3", nd "I5, F8.2"] = true := by
  decide +kernel
example : fixB (tostrLoopControl .f2008 toy [.none, .none, .none, nd "(i = 1 : n)"])
    (fun t => (rm (planLoopControl .f2008) t).map (groupLoop (loopTail .f2008)))
    [.none, .none, .none, nd "(i = 1 : n)"] = true := by decide +kernel
example : planLoopControl03 "CONCURRENT (i = 1 : n)".toList = .noMatch := by decide +kernel
example : TokId "(u) x".toList := by decide +kernel
example : fixB (tostrWrite toy [nd "u", nd "x, y"]) (rm planWrite) [nd "u", nd "x, y"] = true := by
  decide +kernel
example : fixB (tostrPrint toy [nd "*", nd "x, y"]) (rm planPrint) [nd "*", nd "x, y"] = true := by
  decide +kernel
example : fixB (tostrRead toy [.none, nd "*", nd "x, y"]) (rm planRead) [.none, nd "*", nd "x, y"] = true := by
  decide +kernel
example : fixB (tostrRead toy [nd "u", .none, nd "x"]) (rm planRead) [nd "u", .none, nd "x"] = true := by
  decide +kernel
example : fixB (tostrWhere toy [nd "m", nd "a = b"]) (rm planWhere) [nd "m", nd "a = b"] = true := by
  decide +kernel
example : fixB (tostrIf toy [nd "l", nd "a = b"]) (rm (planIf .f2003)) [nd "l", nd "a = b"] = true := by
  decide +kernel
example : fixB (tostrCall toy [nd "s", nd "x"]) (rm planCall) [nd "s", nd "x"] = true := by decide +kernel
example : fixB (tostrCall toy [nd "a % s", .none]) (rm planCall) [nd "a % s", .none] = true := by decide +kernel
example : fixB (tostrDeallocate toy [nd "a, b", nd "STAT = k"])
    (fun t => (rm planDeallocate t).map swap2) [nd "a, b", nd "STAT = k"] = true := by decide +kernel
example : fixB (tostrLoopControl .f2003 toy [nd "l", .none, .str ",".toList])
    (fun t => (rm (planLoopControl .f2003) t).map (groupLoop (loopTail .f2003)))
    [nd "l", .none, .str ",".toList] = true := by decide +kernel

/-! ### necessity: without the side condition the printed text is NOT matched with the same items
(each line: the items, the text they print, what the same class matches from that text) -/

/-- tight child text (`rstrip x = x`): `IF (x ) THEN` -/
example : tostrIfThen toy [nd "x "] = .ok "IF (x ) THEN".toList ∧
    rm planIfThen "IF (x ) THEN".toList = .ok [nd "x"] := by decide +kernel
/-- `)` in the construct name (the header is found with `rfind`): `ELSE IF (a) THEN n)` -/
example : tostrElseIf toy [nd "a", nd "n)"] = .ok "ELSE IF (a) THEN n)".toList ∧
    rm planElseIf "ELSE IF (a) THEN n)".toList = .noMatch := by decide +kernel
/-- `lstrip` of the construct name -/
example : tostrElseIf toy [nd "a", nd " n"] = .ok "ELSE IF (a) THEN  n".toList ∧
    rm planElseIf "ELSE IF (a) THEN  n".toList = .ok [nd "a", nd "n"] := by decide +kernel
/-- an empty construct name comes back as `None` -/
example : tostrElseIf toy [nd "a", nd ""] = .ok "ELSE IF (a) THEN ".toList ∧
    rm planElseIf "ELSE IF (a) THEN ".toList = .ok [nd "a", .none] := by decide +kernel
/-- tight case expression -/
example : tostrSelectCase toy [nd " k"] = .ok "SELECT CASE ( k)".toList ∧
    rm planSelectCase "SELECT CASE ( k)".toList = .ok [nd "k"] := by decide +kernel
/-- tight range list -/
example : tostrCaseSelector toy [nd "1 "] = .ok "(1 )".toList ∧
    rm planCaseSelector "(1 )".toList = .ok [nd "1"] := by decide +kernel
/-- `lstrip` of the label -/
example : tostrGoto toy [nd " 10"] = .ok "GO TO  10".toList ∧
    rm planGoto "GO TO  10".toList = .ok [nd "10"] := by decide +kernel
/-- `)` in the label list (the list is found with `find(")")`): `GO TO (1)), x` -/
example : tostrComputedGoto toy [nd "1)", nd "x"] = .ok "GO TO (1)), x".toList ∧
    rm planComputedGoto "GO TO (1)), x".toList = .ok [nd "1", nd "), x"] := by decide +kernel
/-- … also when the parentheses are balanced: `GO TO ((1)), x` -/
example : tostrComputedGoto toy [nd "(1)", nd "x"] = .ok "GO TO ((1)), x".toList ∧
    rm planComputedGoto "GO TO ((1)), x".toList = .ok [nd "(1", nd "), x"] := by decide +kernel
/-- empty label list -/
example : tostrComputedGoto toy [nd "", nd "x"] = .ok "GO TO (), x".toList ∧
    rm planComputedGoto "GO TO (), x".toList = .noMatch := by decide +kernel
/-- `lstrip` of the expression -/
example : tostrComputedGoto toy [nd "1", nd " x"] = .ok "GO TO (1),  x".toList ∧
    rm planComputedGoto "GO TO (1),  x".toList = .ok [nd "1", nd "x"] := by decide +kernel
/-- empty expression -/
example : tostrComputedGoto toy [nd "1", nd ""] = .ok "GO TO (1), ".toList ∧
    rm planComputedGoto "GO TO (1), ".toList = .noMatch := by decide +kernel
/-- `,` in a label: `IF (x) 1,2, 3, 4` -/
example : tostrArithmeticIf toy [nd "x", nd "1,2", nd "3", nd "4"] = .ok "IF (x) 1,2, 3, 4".toList ∧
    (rm planArithmeticIf "IF (x) 1,2, 3, 4".toList).map arrangeArithmeticIf = .noMatch := by decide +kernel
/-- `)` in a label (the expression is found with `rfind(")")`): `IF (x) 1), 3, 4` -/
example : tostrArithmeticIf toy [nd "x", nd "1)", nd "3", nd "4"] = .ok "IF (x) 1), 3, 4".toList ∧
    (rm planArithmeticIf "IF (x) 1), 3, 4".toList).map arrangeArithmeticIf = .noMatch := by decide +kernel
/-- tight labels -/
example : tostrArithmeticIf toy [nd "x", nd "1", nd "3 ", nd "4"] = .ok "IF (x) 1, 3 , 4".toList ∧
    (rm planArithmeticIf "IF (x) 1, 3 , 4".toList).map arrangeArithmeticIf =
      .ok [nd "x", nd "1", nd "3", nd "4"] := by decide +kernel
/-- tight expression -/
example : tostrArithmeticIf toy [nd " x", nd "1", nd "3", nd "4"] = .ok "IF ( x) 1, 3, 4".toList ∧
    (rm planArithmeticIf "IF ( x) 1, 3, 4".toList).map arrangeArithmeticIf =
      .ok [nd "x", nd "1", nd "3", nd "4"] := by decide +kernel
/-- a label of more than five digits is cut after the fifth: `DO 123456` -/
example : tostrLabelDo toy [.none, nd "123456", .none] = .ok "DO 123456".toList ∧
    rm planLabelDo "DO 123456".toList = .ok [.none, nd "12345", nd "6"] := by decide +kernel
/-- a label that is not a digit string -/
example : tostrLabelDo toy [.none, nd "x", .none] = .ok "DO x".toList ∧
    rm planLabelDo "DO x".toList = .noMatch := by decide +kernel
/-- `lstrip` of the loop control -/
example : tostrLabelDo toy [.none, nd "10", nd " i = 1, n"] = .ok "DO 10  i = 1, n".toList ∧
    rm planLabelDo "DO 10  i = 1, n".toList = .ok [.none, nd "10", nd "i = 1, n"] := by decide +kernel
/-- an empty loop control comes back as `None` -/
example : tostrLabelDo toy [.none, nd "10", nd ""] = .ok "DO 10 ".toList ∧
    rm planLabelDo "DO 10 ".toList = .ok [.none, nd "10", .none] := by decide +kernel
/-- tight spec list -/
example : tostrInquire toy [nd "UNIT = 6 ", .none, .none] = .ok "INQUIRE(UNIT = 6 )".toList ∧
    rm planInquire "INQUIRE(UNIT = 6 )".toList = .ok [nd "UNIT = 6", .none, .none] := by decide +kernel
/-- an empty repeat count before `/` comes back as `None` -/
example : tostrControlEditDesc toy [nd "", .str "/".toList] = .ok "/".toList ∧
    rm planControlEditDesc "/".toList = .ok [.none, .str "/".toList] := by decide +kernel
/-- tight repeat count / scale factor -/
example : tostrControlEditDesc toy [nd "2 ", .str "/".toList] = .ok "2 /".toList ∧
    rm planControlEditDesc "2 /".toList = .ok [nd "2", .str "/".toList] := by decide +kernel
example : tostrControlEditDesc toy [nd "2 ", .str "P".toList] = .ok "2 P".toList ∧
    rm planControlEditDesc "2 P".toList = .ok [nd "2", .str "P".toList] := by decide +kernel
/-- `StartsNonDB`: a descriptor text starting with a digit loses it to the repeat count: `2I5` -/
example : tostrFormatItem toy [.none, nd "2I5"] = .ok "2I5".toList ∧
    rm planFormatItem "2I5".toList = .ok [nd "2", nd "I5"] := by decide +kernel
example : tostrFormatItem toy [nd "2", nd "3I5"] = .ok "23I5".toList ∧
    rm planFormatItem "23I5".toList = .ok [nd "23", nd "I5"] := by decide +kernel
/-- `Parenthesised`: a data edit descriptor printed as `( … )` is matched as an item list -/
example : tostrFormatItem toy [.none, nd "(I5)"] = .ok "(I5)".toList ∧
    rm planFormatItem "(I5)".toList = .ok [.none, nd "I5"] := by decide +kernel
/-- a repeat count that is not digits/blanks is not split off -/
example : tostrFormatItem toy [nd "n", nd "I5"] = .ok "nI5".toList ∧
    rm planFormatItem "nI5".toList = .ok [.none, nd "nI5"] := by decide +kernel
/-- `lstrip` of the item list -/
example : tostrFormatItem toy [.none, nd " I5, I6"] = .ok "( I5, I6)".toList ∧
    rm planFormatItem "( I5, I6)".toList = .ok [.none, nd "I5, I6"] := by decide +kernel
/-- `h03`: a header the Fortran2003 matcher accepts first (toy header without parentheses) -/
example : tostrLoopControl .f2008 toy [.none, .none, .none, nd "i = 1, 2"] = .ok "CONCURRENT i = 1, 2".toList ∧
    (rm (planLoopControl .f2008) "CONCURRENT i = 1, 2".toList).map (groupLoop (loopTail .f2008)) =
      .ok [.none, nd "CONCURRENT i", .nodes ["1".toList, "2".toList], .none, .none] := by decide +kernel
/-- `)` in the control list, with `TokId` true: `WRITE(a)b) x` -/
example : TokId "(a)b) x".toList ∧ tostrWrite toy [nd "a)b", nd "x"] = .ok "WRITE(a)b) x".toList ∧
    rm planWrite "WRITE(a)b) x".toList = .ok [nd "a", nd "b) x"] := by decide +kernel
/-- empty control list -/
example : tostrWrite toy [nd "", .none] = .ok "WRITE()".toList ∧
    rm planWrite "WRITE()".toList = .noMatch := by decide +kernel
/-- `lstrip` of the output list -/
example : tostrWrite toy [nd "u", nd " x"] = .ok "WRITE(u)  x".toList ∧
    rm planWrite "WRITE(u)  x".toList = .ok [nd "u", nd "x"] := by decide +kernel
/-- `,` in the format: `PRINT a,b` -/
example : tostrPrint toy [nd "a,b", .none] = .ok "PRINT a,b".toList ∧
    rm planPrint "PRINT a,b".toList = .ok [nd "a", nd "b"] := by decide +kernel
/-- empty output list -/
example : tostrPrint toy [nd "*", nd ""] = .ok "PRINT *, ".toList ∧
    rm planPrint "PRINT *, ".toList = .noMatch := by decide +kernel
/-- `rstrip` of the format -/
example : tostrPrint toy [nd "* ", nd "x"] = .ok "PRINT * , x".toList ∧
    rm planPrint "PRINT * , x".toList = .ok [nd "*", nd "x"] := by decide +kernel
/-- `isNameStartU`: a format that starts with a letter is never matched: `READ fmt, x` -/
example : tostrRead toy [.none, nd "fmt", nd "x"] = .ok "READ fmt, x".toList ∧
    rm planRead "READ fmt, x".toList = .noMatch := by decide +kernel
/-- a format that starts with `(` is taken for a control list: `READ (a), x` -/
example : tostrRead toy [.none, nd "(a)", nd "x"] = .ok "READ (a), x".toList ∧
    rm planRead "READ (a), x".toList = .ok [nd "a", .none, nd ", x"] := by decide +kernel
/-- the tuple `(None, format, None)` (accepted by `tostr`) is never matched: `READ *` -/
example : tostrRead toy [.none, nd "*", .none] = .ok "READ *".toList ∧
    rm planRead "READ *".toList = .noMatch := by decide +kernel
/-- empty assignment -/
example : tostrWhere toy [nd "m", nd ""] = .ok "WHERE (m) ".toList ∧
    rm planWhere "WHERE (m) ".toList = .noMatch := by decide +kernel
/-- `)` in the mask / condition with `TokId` true -/
example : TokId "(a)b) x = y".toList ∧ tostrWhere toy [nd "a)b", nd "x = y"] = .ok "WHERE (a)b) x = y".toList ∧
    rm planWhere "WHERE (a)b) x = y".toList = .ok [nd "a", nd "b) x = y"] := by decide +kernel
example : TokId "IF (a)b) x = y".toList ∧ tostrIf toy [nd "a)b", nd "x = y"] = .ok "IF (a)b) x = y".toList ∧
    rm (planIf .f2003) "IF (a)b) x = y".toList = .ok [nd "a", nd "b) x = y"] := by decide +kernel
/-- a designator text ending in `)` is split into designator and arguments: `CALL s(x)` -/
example : tostrCall toy [nd "s(x)", .none] = .ok "CALL s(x)".toList ∧
    rm planCall "CALL s(x)".toList = .ok [nd "s", nd "x"] := by decide +kernel
/-- an empty argument list comes back as `None` -/
example : tostrCall toy [nd "s", nd ""] = .ok "CALL s()".toList ∧
    rm planCall "CALL s()".toList = .ok [nd "s", .none] := by decide +kernel
/-- `(` in the argument list with `TokId` true (the arguments are found with `rfind("(")`) -/
example : TokId "s(a(b)".toList ∧ tostrCall toy [nd "s", nd "a(b"] = .ok "CALL s(a(b)".toList ∧
    rm planCall "CALL s(a(b)".toList = .ok [nd "s(a", nd "b"] := by decide +kernel
/-- `=` in the object list -/
example : tostrDeallocate toy [nd "a=b", .none] = .ok "DEALLOCATE(a=b)".toList ∧
    (rm planDeallocate "DEALLOCATE(a=b)".toList).map swap2 = .noMatch := by decide +kernel
/-- an option list without `=` joins the object list -/
example : tostrDeallocate toy [nd "a", nd "k"] = .ok "DEALLOCATE(a, k)".toList ∧
    (rm planDeallocate "DEALLOCATE(a, k)".toList).map swap2 = .ok [nd "a, k", .none] := by decide +kernel
/-- a comma before the first `=` of the option list -/
example : tostrDeallocate toy [nd "a", nd "x, STAT = k"] = .ok "DEALLOCATE(a, x, STAT = k)".toList ∧
    (rm planDeallocate "DEALLOCATE(a, x, STAT = k)".toList).map swap2 =
      .ok [nd "a, x", nd "STAT = k"] := by decide +kernel
/-- `)` in the loop condition with `TokId` true -/
example : TokId "WHILE (a)b)".toList ∧
    tostrLoopControl .f2003 toy [nd "a)b", .none, .none] = .ok "WHILE (a)b)".toList ∧
    (rm (planLoopControl .f2003) "WHILE (a)b)".toList).map (groupLoop (loopTail .f2003)) = .noMatch := by
  decide +kernel

/-! ## axioms -/
#print axioms ifThen_match_tostr_fixpoint
#print axioms selectCase_match_tostr_fixpoint
#print axioms elseIf_match_tostr_fixpoint_1
#print axioms elseIf_match_tostr_fixpoint_2
#print axioms caseSelector_match_tostr_fixpoint_default
#print axioms caseSelector_match_tostr_fixpoint
#print axioms goto_match_tostr_fixpoint
#print axioms computedGoto_match_tostr_fixpoint
#print axioms inquire_match_tostr_fixpoint_1
#print axioms arithmeticIf_match_tostr_fixpoint
#print axioms labelDo_match_tostr_fixpoint_1
#print axioms labelDo_match_tostr_fixpoint_2
#print axioms controlEditDesc_match_tostr_fixpoint_bare
#print axioms controlEditDesc_match_tostr_fixpoint_slash
#print axioms controlEditDesc_match_tostr_fixpoint_P
#print axioms formatItem_match_tostr_fixpoint_data
#print axioms formatItem_match_tostr_fixpoint_rdata
#print axioms formatItem_match_tostr_fixpoint_paren
#print axioms formatItem_match_tostr_fixpoint_rparen
#print axioms concurrent_match_tostr_fixpoint
#print axioms concurrent_match_tostr_fixpoint_comma
#print axioms write_match_tostr_fixpoint_1
#print axioms write_match_tostr_fixpoint_2
#print axioms print_match_tostr_fixpoint_1
#print axioms print_match_tostr_fixpoint_2
#print axioms read_match_tostr_fixpoint_1
#print axioms read_match_tostr_fixpoint_2
#print axioms read_match_tostr_fixpoint_3
#print axioms where_match_tostr_fixpoint
#print axioms if_match_tostr_fixpoint
#print axioms call_match_tostr_fixpoint_1
#print axioms call_match_tostr_fixpoint_2
#print axioms deallocate_match_tostr_fixpoint_1
#print axioms deallocate_match_tostr_fixpoint_2
#print axioms loopControlWhile_match_tostr_fixpoint
#print axioms loopControlWhile_match_tostr_fixpoint_comma
#print axioms loopControlWhile08_match_tostr_fixpoint
#print axioms print_match_tostr_fixpoint_1_flat
#print axioms print_match_tostr_fixpoint_2_flat
#print axioms read_match_tostr_fixpoint_3_flat
#print axioms call_match_tostr_fixpoint_1_flat
#print axioms deallocate_match_tostr_fixpoint_1_flat
#print axioms deallocate_match_tostr_fixpoint_2_flat

end Fp.IoStmt
