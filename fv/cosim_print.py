"""Co-simulation of the Print slice: the Lean model `Fp.Print.printTree` / `tofortran` against the real
tree printers (`str(tree)`, `node.tofortran(tab, isfix)`).

    python -m fv.cosim_print --seed S --n N

Samples: programs of fv/gen.py (both standards) laid out by fv/layout.py in the modes
  keep        comments kept (full-line, trailing, inside continuations, blank lines -> Comment('')),
  drop        the same source with ignore_comments=True,
  directives  process_directives=True (Directive nodes),
  extras      cpp lines and unresolved INCLUDE lines at statement boundaries,
  fixed       fixed source form with C/c/*/! comments,
plus hand-written programs that reach every one of the seven block printers (labelled DO with shared
labels, non-block DO ending on an action statement, WHERE/ELSEWHERE, SELECT CASE, derived types, ...).
For every tree: the REAL tree is encoded (class ids of Generated/Classes2008, every leaf with its own
`str(node)`, `item.label`, `item.name`), the model prints it, and the result is compared
  * with `str(tree)` and `tree.tofortran(tab, isfix)` for several (tab, isfix) - the line list
    (`render (printTree …)`) AND the string-level mirror (`tofortran`, nested joins);
  * on sampled SUBTREES (every block class as a root, odd tabs, tabs shorter than a label);
  * on EDITED trees (content truncated to 0 / 1 / all-but-last elements, label 0, empty construct name,
    item = None): the IndexError of the special printers, the duplicated single element;
  * model-internal: sane tree => the printed lines are the frontier (item ids 0..n-1 in order).
Negative controls (every run): seven source-level edits of the real printers applied in-process, and a
deliberately wrong driver; each must be reported.  The kernel witnesses of Props/Print.lean are replayed
on the real code.
"""
import argparse
import contextlib
import inspect
import io
import os
import random
import sys
import textwrap
import time

from fv import repo
repo.activate()
from fv import real, gen, layout          # noqa: E402
from fv import model as _model            # noqa: E402
try:
    from fv import extract_print          # noqa: E402
except ImportError:                        # private development copy
    import extract_print                   # noqa: E402

U = real.U
F03 = real.F03

# --------------------------------------------------------------------------------------------- encoding


def _owner(cls, name):
    for k in cls.__mro__:
        if name in k.__dict__:
            return k
    return None


def xhex(s):
    return "x" + s.encode("utf-8", "surrogateescape").hex()


def encode(node, cids):
    """pre-order script of the real tree + the list of leaves"""
    out = []
    leaves = []

    def rec(x):
        if isinstance(x, U.BlockBase):
            out.append("B %d %d" % (cids[type(x)], len(x.content)))
            for k in x.content:
                rec(k)
            return
        own = _owner(type(x), "tofortran")
        is_stmt = own is U.StmtBase
        if not is_stmt and own is not U.Base:
            raise RuntimeError("leaf class %s prints through %s" % (type(x).__name__, own))
        label = name = None
        if is_stmt:
            it = getattr(x, "item", None)
            if it is not None:
                label, name = it.label, it.name
        out.append("L %d %d %s %s %s %d" % (
            cids[type(x)], 1 if is_stmt else 0, "-" if label is None else str(int(label)),
            "-" if name is None else xhex(name), xhex(str(x)), len(leaves)))
        leaves.append(x)

    rec(node)
    return "\n".join(out), leaves


def ask(m, node, cids, tab="", isfix=False, flip=False):
    script, leaves = encode(node, cids)
    args = ["1" if isfix else "0", tab, script] + (["flip"] if flip else [])
    rep = m.ask("print.tree", *args)
    return rep, leaves


def real_print(node, tab, isfix, via_str=False):
    try:
        if via_str:
            return "ok", str(node)
        return "ok", node.tofortran(tab=tab, isfix=isfix)
    except IndexError:
        return "raises", None


def compare(m, node, cids, tab, isfix, tag, stats, via_str=False, expect_sane=None):
    """-> list of problems"""
    probs = []
    try:
        rep, leaves = ask(m, node, cids, tab, bool(isfix))
    except RuntimeError as e:
        return ["%s: model error %s" % (tag, e)]
    status = rep[0]
    rk, rtext = real_print(node, tab, isfix, via_str)
    stats["compared"] = stats.get("compared", 0) + 1
    if status.startswith("err:"):
        return ["%s: %s" % (tag, status)]
    if status == "raises" or rk == "raises":
        stats["raises"] = stats.get("raises", 0) + 1
        if status != rk:
            probs.append("%s: model %s, real %s" % (tag, status, rk))
        return probs
    mtext, mirror, desc, sane, nleaf = rep[1], rep[2], rep[3], rep[4], int(rep[5])
    if mtext != rtext:
        ml, rl = mtext.split("\n"), rtext.split("\n")
        k = next((i for i in range(min(len(ml), len(rl))) if ml[i] != rl[i]), min(len(ml), len(rl)))
        probs.append("%s (tab=%r isfix=%s): line %d differs: model %r real %r (%d vs %d lines)" % (
            tag, tab, isfix, k, ml[k:k + 1], rl[k:k + 1], len(ml), len(rl)))
    if mirror != rtext:
        probs.append("%s (tab=%r isfix=%s): the string-level mirror differs from the real text" % (tag, tab, isfix))
    if nleaf != len(leaves):
        probs.append("%s: frontier of the model has %d leaves, the tree %d" % (tag, nleaf, len(leaves)))
    rows = [r.split() for r in desc.split("\n")] if desc else []
    if expect_sane is not None and (sane == "1") != expect_sane:
        probs.append("%s: sane=%s, expected %s" % (tag, sane, expect_sane))
    if sane == "1":
        ids = [int(r[3]) for r in rows if r[1] == "L"]
        if ids != list(range(len(leaves))) or any(r[1] != "L" for r in rows):
            probs.append("%s: sane tree but the printed lines are not the frontier once in order" % tag)
        if all("\n" not in str(x) for x in leaves) and len(rtext.split("\n")) != len(leaves):
            probs.append("%s: %d printed lines for %d leaves" % (tag, len(rtext.split("\n")), len(leaves)))
        stats["sane"] = stats.get("sane", 0) + 1
    # indentation = tab + 2*depth blanks (what print_indent_depth proves), seen on the REAL text
    if not probs and not isfix:
        rl = rtext.split("\n")
        if len(rl) == len(rows):
            for r, line, in zip(rows, rl):
                if r[1] != "L":
                    continue
                lf = leaves[int(r[3])]
                want = tab + "  " * int(r[4])
                if int(r[0]) != len(want):
                    probs.append("%s: model tab length %s but depth %s" % (tag, r[0], r[4]))
                    break
                is_stmt = _owner(type(lf), "tofortran") is U.StmtBase
                has_label = is_stmt and getattr(lf, "item", None) is not None and lf.item.label
                nm = (lf.item.name or "") if (is_stmt and getattr(lf, "item", None) is not None) else ""
                body = (nm + ":" if nm else "") + str(lf)
                if not has_label and str(lf).strip() and line != want + body:
                    probs.append("%s: real line %r is not indented by tab + 2*%s" % (tag, line, r[4]))
                    break
    return probs


# --------------------------------------------------------------------------------------------- samples

HAND = [
    ("labelled-do", "f2003", """program p
  integer :: i, j
  do 10 i = 1, 3
    ! c in labelled do
    x = 1
10 continue
  do 20 i = 1, 3
    do 20 j = 1, 3
      y = 2
20 continue
  do 30 i = 1, 3
  ! c
  do 30 j = 1, 3
    y = 1
    do 30 k = 1, 2
      z = 2
30 x = x + 1
  outer: do 40 i = 1, 2
    z = 3
40 end do outer
  do 50, i = 1, 2
50 call s(i)
end program p
"""),
    ("labelled-do-08", "f2008", """subroutine s
  do 100 i = 1, 3
    do 100 j = 1, 3
      ! inner comment

      y = 2
100 continue
  do 12345 k = 1, 2
    x = k
12345 continue
  do 7 i = 1, 2
7 x = i
  block
    integer :: q
    q = 1
  end block
  critical
    x = 2
  end critical
end subroutine s
"""),
    ("where-case-if", "f2008", """module m
  type :: t
    ! first component
    integer :: a
    real, pointer :: b(:)
  contains
    procedure :: f
  end type t
  interface
    subroutine ext(a)
      integer :: a
    end subroutine ext
  end interface
  enum, bind(c)
    enumerator :: red = 1
  end enum
contains
  subroutine f(this)
    class(t) :: this
    where (a > 0)
      ! in where
      a = 1
    elsewhere (a < 0)
      a = 2
    elsewhere
      a = 3
    end where
    sel: select case (n)
    ! before first case
    case (1) sel
      x = 1
    case (2:3)
      ! c
      x = 2
    case default
      x = 3
    end select sel
10  if (x > 0) then
      x = 1
20  else if (x < 0) then
      x = 2
    else
      !$omp barrier
      x = 3
30  end if
    nm: if (y) then
    end if nm
    select type (this)
    type is (t)
      x = 1
    class default
      x = 2
    end select
    forall (i = 1:3)
      a(i) = i
    end forall
    associate (q => x)
      q = 1
    end associate
    do while (x < 3)
      x = x + 1
    end do
  end subroutine f
end module m
"""),
    ("no-program-stmt", "f2003", """! leading

x = 1
! c
end
subroutine s
end
! after

"""),
    ("cpp-include", "f2008", """#define X 1
program p
#ifdef X
  include 'nofile.inc'
  x = 1
#else
  if (a) then
#include "y.h"
    x = 2
  end if
#endif
end program p
"""),
    ("blockdata-function", "f2003", """block data bd
  common /c/ x
  data x /1.0/
end block data bd
integer function g(a)
  integer :: a
  g = a
contains
  subroutine inner
  end subroutine inner
end function g
"""),
]

FIXED_HAND = [
    ("fixed-comments", "f2003", "C     a comment\n      program p\n* star\n      do 10 i = 1, 2\nc       inner\n      x = 1\n 10   continue\n      end\n"),
]


def decorate(p, seed, mode):
    rng = random.Random(seed ^ 0x9F1)
    if mode == "fixed":
        L = layout.render_fixed(p, random.Random(seed ^ 0xF1), layout.FixedOpts(p_comment=0.2, p_blank=0.1))
        return L.text()
    opts = layout.FreeOpts(p_cont=0.15, comments=True, p_comment=0.25, p_trailing=0.15, p_between=0.3,
                           p_blank=0.1, p_extra_blank=0.1)
    L = layout.render_free(p, seed ^ 0x9111, opts)
    lines = list(L.lines)
    if mode == "extras":
        from fv.props import c14
        firsts = sorted(f for f, _ in L.spans.values())
        for f in sorted(rng.sample(firsts, min(5, len(firsts))), reverse=True):
            if rng.random() < 0.4:
                lines.insert(f - 1, rng.choice(["include 'nofile.inc'", "  INCLUDE \"missing file.inc\"", "include 'it''s.inc'"]))
            else:
                d = c14.gen_directive(rng)
                if "\\\n" not in d:
                    lines.insert(f - 1, d)
    return "\n".join(lines) + "\n"


MODES = ["keep", "drop", "directives", "extras", "fixed"]


def parse(src, std, mode):
    return real.try_parse(src, std=std, ignore_comments=(mode == "drop"), process_directives=(mode in ("directives", "extras")),
                          free=(mode != "fixed"))


def blocks_of(tree):
    out = []

    def rec(x):
        if isinstance(x, U.BlockBase):
            out.append(x)
            for k in x.content:
                rec(k)
    rec(tree)
    return out


PRINTER_OF = {"BlockBase": "blockBase", "Component_Part": "componentPart", "Where_Construct": "where", "If_Construct": "if",
              "Case_Construct": "case", "Block_Label_Do_Construct": "labelDo", "Action_Term_Do_Construct": "actionTerm"}


def run_tree(m, tree, cids, tag, rng, stats, quick=False):
    probs = []
    probs += compare(m, tree, cids, "", None, tag + ":str", stats, via_str=True, expect_sane=True)
    if probs:
        return probs
    blks = blocks_of(tree)
    for b in blks:
        k = PRINTER_OF[_owner(type(b), "tofortran").__name__]
        stats["printer:" + k] = stats.get("printer:" + k, 0) + 1
    for x in (extract_leaves(tree) if not quick else []):
        n = type(x).__name__
        if n in ("Comment", "Directive", "Include_Stmt") or n.startswith("Cpp_"):
            key = "leaf:" + ("Cpp" if n.startswith("Cpp_") else n) + ("(blank)" if not str(x).strip() else "")
            stats[key] = stats.get(key, 0) + 1
    if quick:
        return probs
    probs += compare(m, tree, cids, "", True, tag + ":fix", stats)
    probs += compare(m, tree, cids, rng.choice([" ", "   ", "    "]), rng.random() < 0.3, tag + ":tab", stats)
    # subtrees as roots
    for b in rng.sample(blks, min(5, len(blks))):
        tab = rng.choice(["", " ", "  ", "   ", "      ", "\t"])
        probs += compare(m, b, cids, tab, rng.random() < 0.25, tag + ":sub:" + type(b).__name__, stats)
    # edited trees
    cand = [b for b in blks if len(b.content) >= 1]
    for b in rng.sample(cand, min(3, len(cand))):
        old = b.content
        cut = rng.choice([0, 1, len(old) - 1, len(old) - 1])
        try:
            b.content = old[:cut]
            stats["edited"] = stats.get("edited", 0) + 1
            probs += compare(m, b, cids, rng.choice(["", "  "]), False, tag + ":cut%d:%s" % (cut, type(b).__name__), stats)
            if rng.random() < 0.3:
                probs += compare(m, tree, cids, "", False, tag + ":cut-in-root", stats)
        finally:
            b.content = old
    stm = [x for x in extract_leaves(tree) if isinstance(x, U.StmtBase) and getattr(x, "item", None) is not None]
    for x in rng.sample(stm, min(3, len(stm))):
        it = x.item
        old = (it.label, it.name)
        try:
            it.label, it.name = rng.choice([(0, old[1]), (old[0], ""), (99999, "nm"), (7, None), (123456, old[1])])
            stats["relabelled"] = stats.get("relabelled", 0) + 1
            probs += compare(m, tree, cids, rng.choice(["", "   "]), rng.random() < 0.4, tag + ":relabel", stats)
        finally:
            it.label, it.name = old
    return probs


def extract_leaves(tree):
    out = []

    def rec(x):
        if isinstance(x, U.BlockBase):
            for k in x.content:
                rec(k)
        else:
            out.append(x)
    rec(tree)
    return out


# --------------------------------------------------------------------------------------------- negative controls

def _patched(cls, name, old, new, count=1):
    """source-level edit of method `name` of `cls`, applied in-process; returns an undo function or None"""
    raw = cls.__dict__[name]
    fn = raw.__func__ if isinstance(raw, (staticmethod, classmethod)) else raw
    src = textwrap.dedent(inspect.getsource(fn))
    if src.count(old) < 1:
        return None
    src2 = src.replace(old, new, count)
    ns = {}
    exec(compile(src2, "<mutated %s.%s>" % (cls.__name__, name), "exec"), sys.modules[cls.__module__].__dict__, ns)
    setattr(cls, name, ns[name])

    def undo():
        setattr(cls, name, raw)
    return undo


def _program_tostr_no_newline():
    def tostr(self):
        return "".join(x.tofortran() for x in self.content)
    F03.Program.tostr = tostr

    def undo():
        del F03.Program.tostr
    return undo


CONTROLS = [
    ("BlockBase.tofortran skips the last content element",
     lambda: _patched(U.BlockBase, "tofortran", "for item in self.content[1:-1]:", "for item in self.content[1:-2]:")),
    ("BlockBase.tofortran prints one content element twice",
     lambda: _patched(U.BlockBase, "tofortran", "for item in self.content[1:-1]:", "for item in self.content[1:-1] + self.content[1:2]:")),
    ("If_Construct.tofortran prints ELSE at body indentation",
     lambda: _patched(F03.If_Construct, "tofortran", "isinstance(item, (Else_If_Stmt, Else_Stmt))", "isinstance(item, (Else_If_Stmt,))")),
    ("BlockBase.tofortran drops empty Comment nodes",
     lambda: _patched(U.BlockBase, "tofortran", 'return "\\n".join(mylist)', 'return "\\n".join(x for x in mylist if x.strip())')),
    ("Block_Label_Do_Construct.tofortran prints the terminating statement twice",
     lambda: _patched(F03.Block_Label_Do_Construct, "tofortran", 'return "\\n".join(lblock)',
                      'lblock.append(end.tofortran(tab=tab, isfix=isfix))\n    return "\\n".join(lblock)')),
    ("Program.tostr joins the units without newline", _program_tostr_no_newline),
    ("StmtBase.tofortran: a label no longer eats the indentation",
     lambda: _patched(U.StmtBase, "tofortran", 'tab = tab[len(t) :] or " "', 'tab = " " + tab')),
    ("Base.tofortran indents blank comments",
     lambda: _patched(U.Base, "tofortran", "if this_str.strip():", "if True:")),
    ("Case_Construct.tofortran indents the END SELECT",
     lambda: _patched(F03.Case_Construct, "tofortran", "tmp.append(end.tofortran(tab=tab, isfix=isfix))",
                      'tmp.append(end.tofortran(tab=tab + "  ", isfix=isfix))')),
    ("StmtBase.tofortran prints a blank after the construct name",
     lambda: _patched(U.StmtBase, "tofortran", 'return t + tab + name + ":" + str(self)', 'return t + tab + name + ": " + str(self)')),
    ("BlockBase.tofortran loses a comment that directly follows a nested block (END ...)",
     lambda: _patched(U.BlockBase, "tofortran", "for item in self.content[1:-1]:",
                      'for item in [x for i, x in enumerate(self.content[1:-1]) if not (type(x).__name__ == "Comment" and isinstance(self.content[i], BlockBase))]:')),
    ("Action_Term_Do_Construct.tofortran forgets the extra indentation of shared-label loops",
     lambda: _patched(F03.Action_Term_Do_Construct, "tofortran", 'extra_tab += "  "', 'extra_tab += ""')),
]


def control_trees(cids):
    """trees used by the negative controls: the hand-written programs, comments kept"""
    out = []
    for name, std, src in HAND:
        o = real.try_parse(src, std=std, ignore_comments=False, process_directives=True, free=True)
        if o.kind == "tree":
            out.append((name, o.tree))
    return out


def negative_controls(m, cids):
    report, missed = [], []
    trees = control_trees(cids)
    for name, apply in CONTROLS:
        undo = apply()
        if undo is None:
            missed.append(name + " (NOT APPLICABLE: the anchor text is gone from the real printer)")
            continue
        try:
            hits = 0
            for tname, t in trees:
                st = {}
                pr = compare(m, t, cids, "", None, "ctl", st, via_str=True)
                pr += compare(m, t, cids, "    ", False, "ctl", st)
                hits += 1 if pr else 0
        finally:
            undo()
        report.append("%-90s detected on %d/%d trees" % (name, hits, len(trees)))
        if hits == 0:
            missed.append(name)
    # the wrong driver
    hits = 0
    for tname, t in trees:
        rep, _ = ask(m, t, cids, "", False, flip=True)
        if rep[0] == "ok" and rep[1] != str(t):
            hits += 1
    report.append("%-90s detected on %d/%d trees" % ("flipped driver (ELSE/CASE/ELSEWHERE at body indentation)", hits, len(trees)))
    if hits == 0:
        missed.append("flipped driver")
    return report, missed


# --------------------------------------------------------------------------------------------- witnesses

def replay_witnesses(m, cids):
    """the kernel witnesses of Props/Print.lean on the real code -> list of problems"""
    probs = []
    src = "program p\nif (a) then\nx = 1\nend if\nselect case (n)\ncase (1)\nend select\nwhere (a > 0)\na = 1\nend where\ndo 10 i = 1, 2\n10 continue\nend program p\n"
    t = real.parse(src, std="f2003", ignore_comments=False, free=True)
    blks = {type(b).__name__: b for b in blocks_of(t)}
    # 1. a one-element where/if/case content is printed TWICE
    for cn in ("If_Construct", "Case_Construct", "Where_Construct"):
        b = blks[cn]
        old = b.content
        try:
            b.content = old[:1]
            txt = b.tofortran()
            if txt.split("\n") != [str(old[0])] * 2:
                probs.append("witness single_element_printed_twice: %s prints %r" % (cn, txt))
            probs += compare(m, b, cids, "", False, "witness:twice:" + cn, {}, expect_sane=False)
            # 2. an empty content raises IndexError
            b.content = []
            try:
                b.tofortran()
                probs.append("witness empty_special_raises: %s did not raise" % cn)
            except IndexError:
                pass
            probs += compare(m, b, cids, "", False, "witness:empty:" + cn, {})
        finally:
            b.content = old
    # 3. an empty BlockBase content prints "" -> a blank line inside its parent
    ep = blks["Execution_Part"]
    old = ep.content
    try:
        ep.content = []
        if str(t).split("\n") != ["PROGRAM p", "", "END PROGRAM p"]:
            probs.append("witness empty_block_blank_line: %r" % str(t))
        probs += compare(m, t, cids, "", None, "witness:empty-block", {}, via_str=True, expect_sane=False)
    finally:
        ep.content = old
    # 4. a label eats the indentation; label 0 is dropped; fixed form pads to 6
    b = blks["Block_Label_Do_Construct"]
    txt = b.tofortran(tab="    ")
    if txt.split("\n") != ["    DO 10 i = 1, 2", "10  CONTINUE"]:
        probs.append("witness label_eats_tab: %r" % txt)
    txt = b.tofortran(tab="    ", isfix=True)
    if txt.split("\n") != ["    DO 10 i = 1, 2", " 10       CONTINUE"]:
        probs.append("witness fixed_label: %r" % txt)
    # 6. DEFECT trailing_blank_comment_lost: a blank line after the last statement is a Comment('') leaf;
    #    str(tree) then ends with "\n", which re-reads as the terminator of the END line
    t3 = real.parse("end\n\n", std="f2003", ignore_comments=False, free=True)
    t4 = real.parse(str(t3), std="f2003", ignore_comments=False, free=True)
    if not (str(t3) == "END\n" and len(extract_leaves(t3)) == 2 and len(extract_leaves(t4)) == 1):
        probs.append("witness trailing_blank_comment_lost does not reproduce: %r -> %r" % (str(t3), str(t4)))
    probs += compare(m, t3, cids, "", None, "witness:trailing-blank", {}, via_str=True, expect_sane=True)
    # 5. no blank line between units, no trailing newline, blank comment printed without tab
    t2 = real.parse("subroutine a\n\nend\n\nsubroutine b\nend\n", std="f2003", ignore_comments=False, free=True)
    if str(t2) != "SUBROUTINE a\n\nEND\n\nSUBROUTINE b\nEND":
        probs.append("witness program_join: %r" % str(t2))
    return probs


def findings_status():
    """defects of the real printers that are NOT statements about the model (they involve re-reading):
    reported, never a failure"""
    out = {}
    with contextlib.redirect_stderr(io.StringIO()):
        t = real.parse("C a comment\n      x = 1\n      end\n", std="f2003", ignore_comments=False, free=False)
        o = real.try_parse(str(t), std="f2003", ignore_comments=False, free=True)
        out["finding:fixed-comment-verbatim"] = "reproduces (str = %r, re-read: %s)" % (str(t), o.kind) if o.kind != "tree" else "gone"
        t = real.parse("subroutine s\nx = 1\nend\n", std="f2003", free=True)
        f = t.tofortran(isfix=True)
        o = real.try_parse(f, std="f2003", free=False)
        out["finding:isfix-not-fixed-form"] = "reproduces (tofortran(isfix=True) = %r, re-read as fixed form: %s)" % (f, o.kind) if o.kind != "tree" else "gone"
    return out


# --------------------------------------------------------------------------------------------- main

def main(argv=None):
    ap = argparse.ArgumentParser()
    ap.add_argument("--seed", type=int, default=0)
    ap.add_argument("--n", type=int, default=200)
    ap.add_argument("--exe", default=os.environ.get("FV_MODEL_EXE"))
    ap.add_argument("--max-seconds", type=float, default=50.0)
    ap.add_argument("--no-negative", action="store_true")
    ap.add_argument("--verbose", action="store_true")
    args = ap.parse_args(argv)
    rng = random.Random(args.seed)
    t0 = time.time()
    m = _model.Model(args.exe) if args.exe else _model.get_model()
    failures = []
    stats = {}
    cids = extract_print.class_ids()

    # ---- the generated tables are current
    lean_dir = os.path.dirname(os.path.dirname(os.path.dirname(os.path.dirname(os.path.abspath(m.exe)))))
    gen_path = os.path.join(lean_dir, "FparserModel", "Generated", "PrintTables.lean")
    pinned = [k for k, _ in extract_print.read_pins(os.path.join(lean_dir, "FparserModel", "PrintPins.lean"))]
    text = extract_print.render(extract_print.collect_fingerprints(), extract_print.collect(), pinned or None)
    if os.path.exists(gen_path):
        with open(gen_path, encoding="utf-8") as f:
            if f.read() != text:
                failures.append("Generated/PrintTables.lean is stale w.r.t. the live classes (regenerate and rebuild)")
    else:
        failures.append("Generated/PrintTables.lean not found next to the driver (%s)" % gen_path)

    # ---- samples
    samples = []
    for name, std, src in HAND:
        for mode in ("keep", "drop", "directives"):
            samples.append(("hand:%s/%s" % (name, mode), src, std, mode))
    for name, std, src in FIXED_HAND:
        samples.append(("hand:%s/fixed" % name, src, std, "fixed"))
    for i in range(args.n):
        seed = (args.seed * 100003 + i) & 0x7FFFFFFF
        std = "f2008" if i % 2 else "f2003"
        mode = MODES[(i // 2) % len(MODES)]
        try:
            p = gen.gen_program(seed, std=std, size=0.6)
            samples.append(("gen:%d/%s/%s" % (seed, std, mode), decorate(p, seed, mode), std, mode))
        except Exception as err:   # noqa: BLE001
            failures.append("generator failed for seed %d: %s" % (seed, err))
    done = 0
    for tag, src, std, mode in samples:
        if time.time() - t0 > args.max_seconds:
            stats["stopped_early_after"] = done
            break
        with contextlib.redirect_stderr(io.StringIO()):
            o = parse(src, std, mode)
        if o.kind != "tree":
            stats["rejected:" + mode] = stats.get("rejected:" + mode, 0) + 1
            if tag.startswith("hand:"):
                failures.append("%s: hand-written program rejected: %s" % (tag, o))
            continue
        stats["trees:" + mode] = stats.get("trees:" + mode, 0) + 1
        pr = run_tree(m, o.tree, cids, tag, rng, stats)
        if pr and args.verbose:
            print(src)
        failures += pr
        done += 1
    stats["samples"] = done
    for k in PRINTER_OF.values():
        if stats.get("printer:" + k, 0) == 0:
            failures.append("the sample set never reached the printer %s" % k)
    for k in ("leaf:Comment", "leaf:Comment(blank)", "leaf:Directive", "leaf:Include_Stmt", "leaf:Cpp"):
        if stats.get(k, 0) == 0:
            failures.append("the sample set has no %s" % k)

    # ---- witnesses
    try:
        failures += replay_witnesses(m, cids)
        stats["witnesses_replayed"] = 6
        stats.update(findings_status())
    except Exception as err:   # noqa: BLE001
        failures.append("witness replay crashed: %s: %s" % (type(err).__name__, err))

    # ---- negative controls
    if not args.no_negative:
        report, missed = negative_controls(m, cids)
        for r in report:
            print("  negative control " + r)
        for nme in missed:
            failures.append("negative control NOT detected: %s" % nme)
        post = []
        for name, t in control_trees(cids):
            post += compare(m, t, cids, "", None, "post-negative:" + name, {}, via_str=True)
        failures += post

    print("cosim_print: seed=%d n=%d  %.1fs" % (args.seed, args.n, time.time() - t0))
    for k in sorted(stats):
        print("  %-28s %s" % (k, stats[k]))
    if failures:
        print("FAILURES: %d" % len(failures))
        for f in failures[:40]:
            print("  - " + f)
        print("RESULT: FAIL")
        return 1
    print("RESULT: PASS")
    return 0


if __name__ == "__main__":
    sys.exit(main())
