import FparserModel.Proofs.SplitlineSrm2Free
/-!
Token-list view of a tokenised text: a concatenation of plain chunks and placeholder keys.
`StringReplaceDict.__call__` (`applyMap`) on such a text is the token-wise expansion, provided the
expanded text does not contain `F2PY` (every key contains it, so no key can start inside expanded
text: "first occurrence" = "the occurrence found by `findall`").
-/
namespace Fp.Splitline
open Fp

inductive Tok where
  | chunk (s : Str)
  | key (k v : Str)
deriving Repr, DecidableEq

def Tok.raw : Tok → Str
  | .chunk s => s
  | .key k _ => k
def Tok.val : Tok → Str
  | .chunk s => s
  | .key _ v => v

def rawJoin (ts : List Tok) : Str := (ts.map Tok.raw).flatten
def valJoin (ts : List Tok) : Str := (ts.map Tok.val).flatten

@[simp] theorem rawJoin_nil : rawJoin [] = [] := rfl
@[simp] theorem rawJoin_cons (t : Tok) (ts : List Tok) : rawJoin (t :: ts) = t.raw ++ rawJoin ts := by
  simp [rawJoin]
@[simp] theorem rawJoin_append (a b : List Tok) : rawJoin (a ++ b) = rawJoin a ++ rawJoin b := by
  simp [rawJoin]
@[simp] theorem valJoin_nil : valJoin [] = [] := rfl
@[simp] theorem valJoin_cons (t : Tok) (ts : List Tok) : valJoin (t :: ts) = t.val ++ valJoin ts := by
  simp [valJoin]
@[simp] theorem valJoin_append (a b : List Tok) : valJoin (a ++ b) = valJoin a ++ valJoin b := by
  simp [valJoin]

def tkeys : List Tok → List Str
  | [] => []
  | .chunk _ :: ts => tkeys ts
  | .key k _ :: ts => k :: tkeys ts

/-- a genuine key, whose match by the scanner ends where the key ends -/
def KeyOK (k rest : Str) : Prop :=
  (∃ n, k = strKey n) ∨ (∃ n, k = realKey n) ∨
  (∃ n, k = exprKey n ∧ ∀ c, rest.head? = some c → isDigit c = false)

theorem KeyOK.isKey {k rest : Str} (h : KeyOK k rest) : IsKey k := by
  rcases h with ⟨n, h⟩ | ⟨n, h⟩ | ⟨n, h, _⟩
  · exact ⟨n, .inl h⟩
  · exact ⟨n, .inr (.inl h)⟩
  · exact ⟨n, .inr (.inr h)⟩

theorem KeyOK.matchKey {k rest : Str} (h : KeyOK k rest) : matchKey (k ++ rest) = some (k, rest) := by
  rcases h with ⟨n, h⟩ | ⟨n, h⟩ | ⟨n, h, hr⟩
  · subst h; exact matchKey_strKey n rest
  · subst h; exact matchKey_realKey n rest
  · subst h; exact matchKey_exprKey n rest hr

/-- the keys of the token list are genuine and bound in `m` -/
def WFk (m : Map) : List Tok → Prop
  | [] => True
  | .chunk _ :: ts => WFk m ts
  | .key k v :: ts => KeyOK k (rawJoin ts) ∧ m.get? k = some v ∧ WFk m ts

/-- well-formed token list w.r.t. the map `m`: genuine bound keys, and the EXPANDED text is `Free` -/
def WF (m : Map) (ts : List Tok) : Prop := WFk m ts ∧ Free (valJoin ts)

theorem WFk_mono {m m' : Map} (h : ∀ k v, m.get? k = some v → m'.get? k = some v) :
    ∀ ts, WFk m ts → WFk m' ts
  | [], _ => trivial
  | .chunk _ :: ts, hw => WFk_mono h ts hw
  | .key _ _ :: ts, hw => ⟨hw.1, h _ _ hw.2.1, WFk_mono h ts hw.2.2⟩

theorem WF_mono {m m' : Map} (h : ∀ k v, m.get? k = some v → m'.get? k = some v)
    (ts : List Tok) (hw : WF m ts) : WF m' ts := ⟨WFk_mono h ts hw.1, hw.2⟩

theorem Free_valJoin {m : Map} (ts : List Tok) (hw : WF m ts) : Free (valJoin ts) := hw.2

/-- the leading run of plain text and what follows it -/
def lead : List Tok → Str
  | .chunk s :: ts => s ++ lead ts
  | _ => []
def afterLead : List Tok → Str
  | .chunk _ :: ts => afterLead ts
  | ts => rawJoin ts

theorem lead_afterLead : ∀ ts, rawJoin ts = lead ts ++ afterLead ts
  | [] => rfl
  | .chunk s :: ts => by simp [lead, afterLead, Tok.raw, lead_afterLead ts]
  | .key k v :: ts => by simp [lead, afterLead]

theorem lead_prefix : ∀ ts, ∃ w, valJoin ts = lead ts ++ w
  | [] => ⟨[], rfl⟩
  | .chunk s :: ts => by
    obtain ⟨w, hw⟩ := lead_prefix ts
    exact ⟨w, by simp [lead, Tok.val, hw]⟩
  | .key k v :: ts => ⟨valJoin (.key k v :: ts), by simp [lead]⟩

theorem afterLead_keyNext {m : Map} : ∀ ts, WFk m ts → KeyNext (afterLead ts)
  | [], _ => .inl rfl
  | .chunk _ :: ts, hw => afterLead_keyNext ts hw
  | .key k v :: ts, hw => .inr ⟨k, rawJoin ts, hw.1.isKey, by simp [afterLead, Tok.raw]⟩

theorem IsKey_ne_nil {k : Str} (h : IsKey k) : k ≠ [] := by
  rcases IsKey_head k h with ⟨t, rfl⟩ | ⟨t, rfl⟩ <;> simp

/-- scanning a stretch `s` of plain text that continues with the leading plain run of `ts` -/
theorem keyFindAllAux_chunk {m : Map} (ts : List Tok) (hw : WFk m ts) (K : List Str)
    (hK : ∀ fuel, (rawJoin ts).length < fuel → keyFindAllAux fuel (rawJoin ts) = K) :
    ∀ (s : Str), Free (s ++ lead ts) → ∀ fuel, (s ++ rawJoin ts).length < fuel →
      keyFindAllAux fuel (s ++ rawJoin ts) = K
  | [], _, fuel, hf => hK fuel (by simpa using hf)
  | c :: s, hs, fuel, hf => by
    cases fuel with
    | zero => omega
    | succ f =>
      have hm : matchKey (c :: (s ++ rawJoin ts)) = none := by
        have := matchKey_free c (s ++ lead ts) (afterLead ts) hs (afterLead_keyNext ts hw)
        rw [List.append_assoc, ← lead_afterLead] at this
        exact this
      show keyFindAllAux (f + 1) (c :: (s ++ rawJoin ts)) = K
      unfold keyFindAllAux
      rw [hm]
      exact keyFindAllAux_chunk ts hw K hK s (Free_tail hs) f (by simp at hf ⊢; omega)

/-- `_f2py_findall` on a well-formed token text returns exactly the keys, in order -/
theorem keyFindAllAux_toks {m : Map} :
    ∀ ts, WFk m ts → Free (lead ts) →
      ∀ fuel, (rawJoin ts).length < fuel → Free (valJoin ts) →
      keyFindAllAux fuel (rawJoin ts) = tkeys ts
  | [], _, _, fuel, _, _ => by cases fuel <;> rfl
  | .chunk s :: ts, hw, hl, fuel, hf, hv => by
    have hv' : Free (valJoin ts) := Free_append_right s _ (by simpa [Tok.val] using hv)
    have hl' : Free (lead ts) := Free_append_right s _ (by simpa [lead] using hl)
    have := keyFindAllAux_chunk ts hw (tkeys ts)
      (fun fuel hfuel => keyFindAllAux_toks ts hw hl' fuel hfuel hv') s
      (by simpa [lead] using hl) fuel (by simpa [Tok.raw] using hf)
    simpa [Tok.raw, tkeys] using this
  | .key k v :: ts, hw, _, fuel, hf, hv => by
    have hne := IsKey_ne_nil hw.1.isKey
    have hv' : Free (valJoin ts) := Free_append_right v _ (by simpa [Tok.val] using hv)
    have hl' : Free (lead ts) := by
      obtain ⟨w, hw'⟩ := lead_prefix ts
      rw [hw'] at hv'; exact Free_append_left _ _ hv'
    cases fuel with
    | zero => omega
    | succ f =>
      cases k with
      | nil => exact absurd rfl hne
      | cons a k =>
        have hm := hw.1.matchKey
        show keyFindAllAux (f + 1) (a :: (k ++ rawJoin ts)) = (a :: k) :: tkeys ts
        unfold keyFindAllAux
        simp only [List.cons_append] at hm
        rw [hm]
        simp only
        rw [keyFindAllAux_toks ts hw.2.2 hl' f
          (by simp [Tok.raw] at hf; omega) hv']

theorem keyFindAll_toks {m : Map} (ts : List Tok) (hw : WF m ts) :
    keyFindAll (rawJoin ts) = tkeys ts := by
  have hl : Free (lead ts) := by
    obtain ⟨w, hw'⟩ := lead_prefix ts
    have := hw.2; rw [hw'] at this; exact Free_append_left _ _ this
  exact keyFindAllAux_toks ts hw.1 hl _ (by omega) hw.2

theorem replaceFirst_past (k v : Str) (hk : IsKey k) (R : Str) :
    ∀ X, Free X → replaceFirst k v (X ++ (k ++ R)) = X ++ (v ++ R)
  | [], _ => by simpa using replaceFirst_here k v R (IsKey_ne_nil hk)
  | a :: X, hX => by
    have h := stripPrefix?_key_free k hk (a :: X) R hX (by simp)
    simp only [List.cons_append] at h ⊢
    rw [replaceFirst_skip k v a _ h, replaceFirst_past k v hk R X (Free_tail hX)]

/-- one step of `StringReplaceDict.__call__` -/
def applyStep (m : Map) (l key : Str) : Str :=
  match m.get? key with
  | some v => replaceFirst key v l
  | none => l

theorem applyMap_eq (m : Map) (line : Str) :
    applyMap m line = (keyFindAll line).foldl (applyStep m) line := rfl

theorem foldl_apply_toks {m : Map} :
    ∀ ts, WFk m ts → ∀ X, Free (X ++ valJoin ts) →
      (tkeys ts).foldl (applyStep m) (X ++ rawJoin ts) = X ++ valJoin ts
  | [], _, X, _ => by simp [tkeys]
  | .chunk s :: ts, hw, X, hX => by
    have := foldl_apply_toks ts hw (X ++ s) (by simpa [Tok.val] using hX)
    simpa [tkeys, Tok.raw, Tok.val] using this
  | .key k v :: ts, hw, X, hX => by
    have hX0 : Free X := Free_append_left _ _ hX
    have h1 : applyStep m (X ++ (k ++ rawJoin ts)) k = X ++ (v ++ rawJoin ts) := by
      unfold applyStep
      rw [hw.2.1]
      exact replaceFirst_past k v hw.1.isKey _ X hX0
    have := foldl_apply_toks ts hw.2.2 (X ++ v) (by simpa [Tok.val] using hX)
    simp only [tkeys, List.foldl_cons, rawJoin_cons, valJoin_cons, Tok.raw, Tok.val, h1]
    simpa using this

/-- **applyMap on a well-formed token text is the token-wise expansion** -/
theorem applyMap_toks {m : Map} (ts : List Tok) (hw : WF m ts) :
    applyMap m (rawJoin ts) = valJoin ts := by
  rw [applyMap_eq, keyFindAll_toks ts hw]
  simpa using foldl_apply_toks ts hw.1 [] (by simpa using hw.2)

end Fp.Splitline
