import FparserModel.Proofs.SplitlineSrm2Found
import FparserModel.Proofs.CombiBasic
/-!
# The tokeniser as the declaration matchers see it

`string_replace_map` returns a text `r.text` in which character literals, exponent constants and
parenthesised groups are replaced by placeholders, and `repmap = r.map`.  The hand-written matchers
cut `r.text` at punctuation (`,` `/` `=` `::` `(` `)` `*`), strip the pieces and hand
`repmap(piece)` to the child classes.  What they rely on is:

* `Piece m p` : `p` is a concatenation of plain chunks and placeholders bound in `m`, and the
  expanded text contains no `F2PY` (so that "first occurrence" in `repmap` is the right one);
* cutting a `Piece` next to a non-word character gives two `Piece`s and `repmap` distributes
  (`Piece.cut`), hence also `strip` etc.;
* `srm_view` : under the two decidable hypotheses of `srm_roundtrip_partial` the tokenised line
  is a `Piece` whose expansion is the line, up to blanks just inside brackets.

The token view of the RESULT of `string_replace_map` is the one built inside the proof of
`srm_core`; it is re-exported here (`srm_core_view` … `srm_view`) because the original lemmas
only state the consequence `squeeze (applyMap …) = squeeze …`.
-/
namespace Fp.Splitline
open Fp Fp.Combi

/-! ## cutting a well-formed token text (keys of all three families) -/

theorem KeyOK_word {k rest : Str} (h : KeyOK k rest) : ∀ c ∈ k, isWord c = true := by
  rcases h with ⟨n, rfl⟩ | ⟨n, rfl⟩ | ⟨n, rfl, _⟩
  · exact strKey_isWord n
  · exact realKey_isWord n
  · exact exprKey_isWord n

theorem KeyOK_prefix {k a b : Str} (h : KeyOK k (a ++ b)) (ha : a ≠ [] ∨ b = []) : KeyOK k a := by
  rcases h with h | h | ⟨n, hn, hd⟩
  · exact .inl h
  · exact .inr (.inl h)
  · refine .inr (.inr ⟨n, hn, ?_⟩)
    intro c hc
    apply hd c
    cases a with
    | nil => simp at hc
    | cons x a' => simpa using hc

theorem split_wfk {m : Map} :
    ∀ ts, WFk m ts → ∀ a b, rawJoin ts = a ++ b → CutOK a b →
      ∃ ta tb, rawJoin ta = a ∧ rawJoin tb = b ∧ valJoin ts = valJoin ta ++ valJoin tb ∧
        WFk m ta ∧ WFk m tb
  | [], _, a, b, h, _ => by
    simp at h
    obtain ⟨rfl, rfl⟩ := h
    exact ⟨[], [], rfl, rfl, rfl, trivial, trivial⟩
  | .chunk s :: ts, hw, a, b, h, hcut => by
    rw [rawJoin_cons] at h
    simp only [Tok.raw] at h
    rcases List.append_eq_append_iff.mp h with ⟨a', ha, hb⟩ | ⟨s', hs, hb⟩
    · subst ha
      obtain ⟨ta, tb, h1, h2, h3, h4, h5⟩ := split_wfk ts hw a' b hb (CutOK_tail hcut)
      exact ⟨.chunk s :: ta, tb, by simp [Tok.raw, h1], h2, by simp [Tok.val, h3], h4, h5⟩
    · subst hs
      exact ⟨[.chunk a], .chunk s' :: ts, by simp [Tok.raw], by simp [Tok.raw, hb],
        by simp [Tok.val], trivial, hw⟩
  | .key k v :: ts, hw, a, b, h, hcut => by
    rw [rawJoin_cons] at h
    simp only [Tok.raw] at h
    rcases List.append_eq_append_iff.mp h with ⟨a', ha, hb⟩ | ⟨k', hk, hb⟩
    · subst ha
      obtain ⟨ta, tb, h1, h2, h3, h4, h5⟩ := split_wfk ts hw.2.2 a' b hb (CutOK_tail hcut)
      refine ⟨.key k v :: ta, tb, by simp [Tok.raw, h1], h2, by simp [Tok.val, h3],
        ⟨?_, hw.2.1, h4⟩, h5⟩
      rw [h1]
      have hk := hw.1
      rw [hb] at hk
      by_cases ha' : a' = []
      · subst ha'
        rcases hk with hk | hk | ⟨n, hn, _⟩
        · exact .inl hk
        · exact .inr (.inl hk)
        · -- the cut falls right after an expression key: the next character is not a word
          -- character (or there is none), in particular not a digit
          refine .inr (.inr ⟨n, hn, ?_⟩)
          intro c hc; simp at hc
      · exact KeyOK_prefix hk (.inl ha')
    · by_cases ha : a = []
      · subst ha
        simp at hk; subst hk
        exact ⟨[], .key k v :: ts, rfl, by simp [Tok.raw, hb], by simp, trivial, hw⟩
      · by_cases hk' : k' = []
        · subst hk'
          simp at hk hb
          subst hk; subst hb
          refine ⟨[.key k v], ts, by simp [Tok.raw], rfl, by simp [Tok.val], ⟨?_, hw.2.1, trivial⟩, hw.2.2⟩
          rcases hw.1 with h1 | h1 | ⟨n, hn, _⟩
          · exact .inl h1
          · exact .inr (.inl h1)
          · exact .inr (.inr ⟨n, hn, by intro c hc; simp at hc⟩)
        · exfalso
          have hword := KeyOK_word hw.1
          rcases hcut with h0 | h0 | ⟨c, h1, h2⟩ | ⟨c, h1, h2⟩
          · exact ha h0
          · subst hb; simp at h0; exact hk' h0.1
          · have : c ∈ k := by rw [hk]; exact List.mem_append_left _ (List.mem_of_getLast? h1)
            rw [hword c this] at h2; cases h2
          · cases k' with
            | nil => exact hk' rfl
            | cons x k'' =>
              subst hb
              simp at h1; subst h1
              have : x ∈ k := by rw [hk]; simp
              rw [hword x this] at h2; cases h2

/-- `p` is a tokenised text that `repmap = applyMap m` expands token by token -/
def Piece (m : Map) (p : Str) : Prop := ∃ ts, rawJoin ts = p ∧ WF m ts

theorem Piece.nil (m : Map) : Piece m [] := ⟨[], rfl, trivial, Free_nil⟩

/-- **cutting next to a non-word character**: both halves are pieces and `repmap` distributes -/
theorem Piece.cut {m : Map} {a b : Str} (h : Piece m (a ++ b)) (hc : CutOK a b) :
    Piece m a ∧ Piece m b ∧ applyMap m (a ++ b) = applyMap m a ++ applyMap m b := by
  obtain ⟨ts, h1, hw⟩ := h
  obtain ⟨ta, tb, g1, g2, g3, g4, g5⟩ := split_wfk ts hw.1 a b h1 hc
  have hf := hw.2
  rw [g3] at hf
  have wa : WF m ta := ⟨g4, Free_append_left _ _ hf⟩
  have wb : WF m tb := ⟨g5, Free_append_right _ _ hf⟩
  refine ⟨⟨ta, g1, wa⟩, ⟨tb, g2, wb⟩, ?_⟩
  rw [← h1, applyMap_toks ts hw, g3, ← g1, ← g2, applyMap_toks ta wa, applyMap_toks tb wb]

theorem CutOK_left_nonword {a b : Str} {c : Char} (h : a.getLast? = some c) (hc : isWord c = false) :
    CutOK a b := .inr (.inr (.inl ⟨c, h, hc⟩))
theorem CutOK_right_nonword {a b : Str} {c : Char} (h : b.head? = some c) (hc : isWord c = false) :
    CutOK a b := .inr (.inr (.inr ⟨c, h, hc⟩))

theorem applyMap_nonword (m : Map) (c : Char) (hc : isWord c = false) : applyMap m [c] = [c] := by
  have h1 : c ≠ 'F' := by intro h; subst h; exact absurd hc (by decide)
  have h2 : c ≠ '_' := by intro h; subst h; exact absurd hc (by decide)
  have : keyFindAll [c] = [] := by
    simp [keyFindAll, keyFindAllAux, matchKey_other c [] h1 h2]
  simp [applyMap, this]

/-- a piece cut at a separator character -/
theorem Piece.sep {m : Map} {a b : Str} {c : Char} (h : Piece m (a ++ c :: b)) (hc : isWord c = false) :
    Piece m a ∧ Piece m b ∧ applyMap m (a ++ c :: b) = applyMap m a ++ c :: applyMap m b := by
  obtain ⟨pa, pcb, e1⟩ := h.cut (CutOK_right_nonword (b := c :: b) rfl hc)
  have h' : Piece m ([c] ++ b) := pcb
  obtain ⟨_, pb, e2⟩ := h'.cut (CutOK_left_nonword (a := [c]) rfl hc)
  refine ⟨pa, pb, ?_⟩
  rw [e1]
  have : c :: b = [c] ++ b := rfl
  rw [this, e2, applyMap_nonword m c hc]
  rfl

theorem Piece.cons {m : Map} {b : Str} {c : Char} (h : Piece m (c :: b)) (hc : isWord c = false) :
    Piece m b ∧ applyMap m (c :: b) = c :: applyMap m b := by
  have h' : Piece m ([] ++ c :: b) := h
  obtain ⟨_, pb, e⟩ := h'.sep hc
  refine ⟨pb, ?_⟩
  have e0 : applyMap m [] = [] := by simp [applyMap, keyFindAll, keyFindAllAux]
  simpa [e0] using e

theorem Piece.snoc {m : Map} {a : Str} {c : Char} (h : Piece m (a ++ [c])) (hc : isWord c = false) :
    Piece m a ∧ applyMap m (a ++ [c]) = applyMap m a ++ [c] := by
  obtain ⟨pa, _, e⟩ := h.sep hc
  refine ⟨pa, ?_⟩
  have e0 : applyMap m [] = [] := by simp [applyMap, keyFindAll, keyFindAllAux]
  simpa [e0] using e

theorem isSpace_not_word {c : Char} (h : isSpace c = true) : isWord c = false := by
  rcases isSpace_cases h with h | h | h | h | h | h | h | h | h | h <;> subst h <;> decide

/-- blanks expand to themselves -/
theorem Piece.blanks {m : Map} : ∀ {w : Str}, Piece m w → (∀ c ∈ w, isSpace c = true) →
    applyMap m w = w
  | [], _, _ => by simp [applyMap, keyFindAll, keyFindAllAux]
  | c :: w, h, hw => by
    have hc := isSpace_not_word (hw c (by simp))
    obtain ⟨pw, e⟩ := h.cons hc
    rw [e, Piece.blanks pw (fun x hx => hw x (by simp [hx]))]

theorem Piece.lstrip {m : Map} {p : Str} (h : Piece m p) :
    Piece m (lstrip p) ∧ noBlank (applyMap m (lstrip p)) = noBlank (applyMap m p) := by
  obtain ⟨w, hw, hb⟩ := lstrip_decomp p
  by_cases hw0 : w = []
  · subst hw0
    simp at hw
    rw [← hw]
    exact ⟨h, rfl⟩
  · have hcut : CutOK w (Fp.lstrip p) := by
      obtain ⟨c, hc⟩ : ∃ c, w.getLast? = some c := by
        cases hl : w.getLast? with
        | none => simp [List.getLast?_eq_none_iff] at hl; exact absurd hl hw0
        | some c => exact ⟨c, rfl⟩
      exact CutOK_left_nonword hc (isSpace_not_word (hb c (List.mem_of_getLast? hc)))
    have h' : Piece m (w ++ Fp.lstrip p) := by rw [← hw]; exact h
    obtain ⟨pw, pl, e⟩ := h'.cut hcut
    refine ⟨pl, ?_⟩
    have : applyMap m p = applyMap m w ++ applyMap m (Fp.lstrip p) := by
      conv => lhs; rw [hw]
      exact e
    rw [this, Piece.blanks pw hb, noBlank_append, noBlank_blanks hb]
    rfl

theorem rstrip_decomp (s : Str) : ∃ w, s = rstrip s ++ w ∧ ∀ c ∈ w, isSpace c = true := by
  obtain ⟨w, hw, hb⟩ := lstrip_decomp s.reverse
  refine ⟨w.reverse, ?_, fun c hc => hb c (by simpa using hc)⟩
  calc s = s.reverse.reverse := by simp
    _ = (w ++ Fp.lstrip s.reverse).reverse := by rw [← hw]
    _ = rstrip s ++ w.reverse := by simp [rstrip, Fp.lstrip]

theorem Piece.rstrip {m : Map} {p : Str} (h : Piece m p) :
    Piece m (rstrip p) ∧ noBlank (applyMap m (rstrip p)) = noBlank (applyMap m p) := by
  obtain ⟨w, hw, hb⟩ := rstrip_decomp p
  by_cases hw0 : w = []
  · subst hw0
    simp at hw
    rw [← hw]
    exact ⟨h, rfl⟩
  · have hcut : CutOK (Fp.rstrip p) w := by
      cases w with
      | nil => exact absurd rfl hw0
      | cons c w' => exact CutOK_right_nonword rfl (isSpace_not_word (hb c (by simp)))
    have h' : Piece m (Fp.rstrip p ++ w) := by rw [← hw]; exact h
    obtain ⟨pl, pw, e⟩ := h'.cut hcut
    refine ⟨pl, ?_⟩
    have : applyMap m p = applyMap m (Fp.rstrip p) ++ applyMap m w := by
      conv => lhs; rw [hw]
      exact e
    rw [this, Piece.blanks pw hb, noBlank_append, noBlank_blanks hb]
    simp

theorem Piece.strip {m : Map} {p : Str} (h : Piece m p) :
    Piece m (strip p) ∧ noBlank (applyMap m (strip p)) = noBlank (applyMap m p) := by
  obtain ⟨p1, e1⟩ := h.rstrip
  obtain ⟨p2, e2⟩ := p1.lstrip
  exact ⟨p2, by rw [show Fp.strip p = Fp.lstrip (Fp.rstrip p) from rfl, e2, e1]⟩

/-! ## the token view of the result of `string_replace_map` -/

theorem srm_core_view (d : Discipline) (hd : d.lookupTrimmed = true) (hs : d.separateParenMap = true)
    (hf : d.foreignKeyRaises = false) (st2 : SrmState) (ts2 : List Tok) (hM : M2OK st2)
    (hw : WF st2.map ts2) (hc : Closed ts2) :
    ∃ mF tsOut, unnest d (phase3 d st2 (splitparen (rawJoin ts2))).1.map
        ((phase3 d st2 (splitparen (rawJoin ts2))).1.exprKeys ++
          (phase3 d st2 (splitparen (rawJoin ts2))).1.constKeys) = some mF ∧
      (phase3 d st2 (splitparen (rawJoin ts2))).2 = rawJoin tsOut ∧ WF mF tsOut ∧
      squeeze (valJoin tsOut) = squeeze (valJoin ts2) := by
  have inv0 : P3Inv st2.map st2 := by
    refine ⟨MapExt.refl _, fun k v h => .inl h, ?_, ?_, ?_⟩
    · intro t k h; rw [hM.revParen] at h; simp [Map.get?] at h
    · intro j v h; exact absurd rfl (closed_ne_expr (hM.closedKeys _ v h) j)
    · intro k hk; rw [hM.exprKeys] at hk; simp at hk
  obtain ⟨tsOut, ps, h1, h2, h3, h4, h5, h6, h7, h8, h9⟩ :=
    phase3_toks d hd hs st2.map hM.closedKeys (splitparen (rawJoin ts2)) st2 [] ts2 inv0
      (by simp [splitparen_join']) hw hc (fun s hs' => splitparen_shape _ s hs')
  generalize phase3 d st2 (splitparen (rawJoin ts2)) = r3 at *
  have hent : ∀ k v, r3.1.map.get? k = some v →
      st2.map.get? k = some v ∨ (∃ j, k = exprKey j ∧ HasToks st2.map v) := by
    intro k v h
    rcases h5.entries k v h with h | ⟨j, _, hj, ht⟩
    · exact .inl h
    · exact .inr ⟨j, hj, ht⟩
  have hinv : UInv st2.map r3.1.map r3.1.map := ⟨h5.base, fun k v h => .inl h⟩
  have hkeys : ∀ k ∈ r3.1.exprKeys ++ r3.1.constKeys, ∃ v, r3.1.map.get? k = some v := by
    intro k hk
    rcases List.mem_append.mp hk with hk | hk
    · exact h5.inMap k hk
    · rw [h7] at hk
      obtain ⟨v, hv⟩ := hM.constKeys k hk
      exact ⟨v, h6 k v hv⟩
  obtain ⟨mF, g1, g2, g3⟩ := unnest_spec d hf st2.map r3.1.map hM.closedKeys hM.valsFree hent
    _ r3.1.map hinv hkeys
  have hgood : GoodFinal st2.map r3.1.map mF := by
    refine ⟨g2.1, ?_⟩
    intro j raw hraw
    exact g3 (exprKey j) (.inl (List.mem_append_left _ (h5.listed j raw hraw))) j raw rfl hraw
  have hwF : WF mF tsOut := ⟨h8 mF hgood, h9⟩
  simp only [List.nil_append] at h1
  refine ⟨mF, tsOut, g1, h1, hwF, ?_⟩
  rw [← h3, ← h2]
  exact squeeze_pieces_nil ps h4

theorem srm_from_phase2_view (d : Discipline) (hd : d.lookupTrimmed = true)
    (hs : d.separateParenMap = true) (hf : d.foreignKeyRaises = false) (l : Str) (lower : Bool)
    (ts2 : List Tok)
    (h2 : phase2 (phase1 d {} (splitquote l none lower).1).1 (phase1 d {} (splitquote l none lower).1).2
      = ((phase2 (phase1 d {} (splitquote l none lower).1).1
            (phase1 d {} (splitquote l none lower).1).2).1, rawJoin ts2))
    (hM : M2OK (phase2 (phase1 d {} (splitquote l none lower).1).1
            (phase1 d {} (splitquote l none lower).1).2).1)
    (hw : WF (phase2 (phase1 d {} (splitquote l none lower).1).1
            (phase1 d {} (splitquote l none lower).1).2).1.map ts2)
    (hc : Closed ts2) (hv : valJoin ts2 = foldOutsideLiterals lower l) :
    ∃ r ts, stringReplaceMapWith d l lower = some r ∧ r.text = rawJoin ts ∧ WF r.map ts ∧
      squeeze (valJoin ts) = squeeze (foldOutsideLiterals lower l) := by
  unfold stringReplaceMapWith
  simp only
  generalize phase2 (phase1 d {} (splitquote l none lower).1).1
    (phase1 d {} (splitquote l none lower).1).2 = r2 at *
  obtain ⟨st2, t2⟩ := r2
  simp only at h2 hM hw
  cases h2
  obtain ⟨mF, tsOut, g1, g2, g3, g4⟩ := srm_core_view d hd hs hf st2 ts2 hM hw hc
  simp only
  rw [g1]
  exact ⟨_, tsOut, rfl, g2, g3, by rw [← hv]; exact g4⟩

theorem srm_roundtrip_view (d : Discipline) (hd : d.lookupTrimmed = true)
    (hs : d.separateParenMap = true) (hf : d.foreignKeyRaises = false) (l : Str) (lower : Bool)
    (hF : Free (foldOutsideLiterals lower l))
    (hE : FoundsOK (expConsts (phase1Text d l lower))) :
    ∃ r ts, stringReplaceMapWith d l lower = some r ∧ r.text = rawJoin ts ∧ WF r.map ts ∧
      squeeze (valJoin ts) = squeeze (foldOutsideLiterals lower l) := by
  obtain ⟨ts, h1, h2, h3, h4, h5, _⟩ := phase1_M2OK d hd (splitquote l none lower).1 hF
  have hinv := P2Inv_of_phase1 d hd (splitquote l none lower).1 hF
  unfold phase1Text at hE
  rw [h1] at hE
  obtain ⟨ts', g1, g2, g3, g4, g5, _, g7, g8, _⟩ :=
    phase2_spec (phase1 d {} (splitquote l none lower).1).1 ts hinv h3 h4 hE
  rw [← h1] at g1 g3 g5 g7 g8
  apply srm_from_phase2_view d hd hs hf l lower ts'
  · rw [← g1]
  · exact phase2_M2OK _ g5 (by rw [g7]; exact h5.exprKeys) (by rw [g8]; exact h5.revParen)
  · exact g3
  · exact g4
  · rw [g2]; exact h2

/-! ## `squeeze` only removes blanks -/

theorem noBlank_dropAfter (p : Char → Bool) : ∀ (s : Str) (sk : Bool),
    noBlank (dropAfter p sk s) = noBlank s
  | [], sk => by simp
  | c :: cs, sk => by
    rw [dropAfter_cons]
    split
    · rename_i h
      have hc : isSpace c = true := by
        cases sk <;> simp_all
      rw [noBlank_dropAfter p cs true]
      simp [noBlank, List.filter_cons, hc]
    · simp only [noBlank, List.filter_cons]
      have := noBlank_dropAfter p cs (p c)
      simp only [noBlank] at this
      rw [this]

theorem noBlank_reverse (s : Str) : noBlank s.reverse = (noBlank s).reverse := by
  simp [noBlank, List.filter_reverse]

theorem noBlank_squeeze (s : Str) : noBlank (squeeze s) = noBlank s := by
  unfold squeeze
  rw [noBlank_reverse, noBlank_dropAfter, noBlank_reverse, noBlank_dropAfter]
  simp

theorem noBlank_of_squeeze_eq {a b : Str} (h : squeeze a = squeeze b) : noBlank a = noBlank b := by
  rw [← noBlank_squeeze a, ← noBlank_squeeze b, h]

/-! ## the view -/

/-- what a matcher may assume about `line, repmap = string_replace_map(s)` -/
structure View (s : Str) (r : SrmResult) : Prop where
  piece : Piece r.map r.text
  whole : noBlank (applyMap r.map r.text) = noBlank s

/-- **srm_view**: under the two decidable hypotheses of `srm_roundtrip_partial` (no `F2PY` in the
    line, no exponent constant ending in `_`/`F`/`F2`/`F2P`) the tokenised line is a `Piece` whose
    expansion is the line up to blanks -/
theorem srm_view (s : Str) (hF : Free s)
    (hE : FoundsEndOK (expConsts (phase1Text discipline s false))) :
    ∃ r, tokenise s = some r ∧ View s r := by
  have hF' : Free (foldOutsideLiterals false s) := by rw [show foldOutsideLiterals false s = s from splitquote_join' s none]; exact hF
  obtain ⟨r, ts, h1, h2, h3, h4⟩ := srm_roundtrip_view discipline rfl rfl rfl s false hF'
    (fun f hfm => ⟨founds_free discipline rfl s false hF' f hfm, hE f hfm⟩)
  rw [show foldOutsideLiterals false s = s from splitquote_join' s none] at h4
  refine ⟨r, h1, ⟨ts, h2.symm, h3⟩, ?_⟩
  rw [h2, applyMap_toks ts h3]
  exact noBlank_of_squeeze_eq h4

end Fp.Splitline
