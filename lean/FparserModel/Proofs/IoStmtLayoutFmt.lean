import FparserModel.Proofs.IoStmtLayoutWrite
import FparserModel.Proofs.IoStmtHollerith
/-!
The FORMAT classes: `Format_Item` (F2003 / F2008), `Control_Edit_Desc`, `Format_Item_List`.
-/
namespace Fp.IoStmt
open Fp Fp.Splitline
open Fp.Combi (noBlank)

variable {Node : Type}

/-! ## small string facts -/

/-- the last character exists and is not white space -/
def LastNB (x : Str) : Prop := ∃ c, x.getLast? = some c ∧ isSpace c = false

theorem getLast?_dropWhile (p : Char → Bool) : ∀ (x : Str), x.dropWhile p ≠ [] →
    (x.dropWhile p).getLast? = x.getLast?
  | [], h => by simp at h
  | c :: cs, h => by
    by_cases hc : p c = true
    · have e : (c :: cs).dropWhile p = cs.dropWhile p := by simp [hc]
      rw [e] at h ⊢
      rw [getLast?_dropWhile p cs h]
      have hne : cs ≠ [] := by intro e2; subst e2; simp at h
      obtain ⟨d, ds, rfl⟩ := List.exists_cons_of_ne_nil hne
      simp [List.getLast?_cons_cons]
    · have e : (c :: cs).dropWhile p = c :: cs := by simp [hc]
      rw [e]

theorem head?_dropWhile_not (p : Char → Bool) : ∀ (x : Str) (c : Char),
    (x.dropWhile p).head? = some c → p c = false
  | [], c, h => by simp at h
  | d :: ds, c, h => by
    by_cases hd : p d = true
    · have e : (d :: ds).dropWhile p = ds.dropWhile p := by simp [hd]
      rw [e] at h
      exact head?_dropWhile_not p ds c h
    · have e : (d :: ds).dropWhile p = d :: ds := by simp [hd]
      rw [e] at h
      simp at h; subst h; simpa using hd

theorem lastNB_rstrip {s : Str} (h : rstrip s ≠ []) : LastNB (rstrip s) := by
  unfold rstrip at h ⊢
  cases hx : (s.reverse.dropWhile isSpace) with
  | nil => rw [hx] at h; simp at h
  | cons c cs =>
    refine ⟨c, by simp, ?_⟩
    exact head?_dropWhile_not isSpace s.reverse c (by rw [hx]; rfl)

theorem lastNB_strip {s : Str} (h : strip s ≠ []) : LastNB (strip s) := by
  unfold strip lstrip at h ⊢
  have h1 : rstrip s ≠ [] := by intro e; rw [e] at h; simp at h
  obtain ⟨c, hc, hs⟩ := lastNB_rstrip h1
  exact ⟨c, by rw [getLast?_dropWhile _ _ h, hc], hs⟩

theorem lastNB_drop {x : Str} (h : LastNB x) {n : Nat} (hn : n < x.length) : LastNB (x.drop n) := by
  obtain ⟨c, hc, hs⟩ := h
  refine ⟨c, ?_, hs⟩
  rw [List.getLast?_drop]
  simp [hc]; omega

theorem lastNB_ne {x : Str} (h : LastNB x) : x ≠ [] := by
  obtain ⟨c, hc, _⟩ := h
  intro e; subst e; simp at hc

theorem dropWhile_nil_all (p : Char → Bool) : ∀ (x : Str), x.dropWhile p = [] → ∀ c ∈ x, p c = true
  | [], _, c, hc => by simp at hc
  | d :: ds, h, c, hc => by
    by_cases hd : p d = true
    · have e : (d :: ds).dropWhile p = ds.dropWhile p := by simp [hd]
      rw [e] at h
      rcases List.mem_cons.1 hc with rfl | hc
      · exact hd
      · exact dropWhile_nil_all p ds h c hc
    · have e : (d :: ds).dropWhile p = d :: ds := by simp [hd]
      rw [e] at h; cases h

theorem lastNB_lstrip {x : Str} (h : LastNB x) : LastNB (lstrip x) := by
  obtain ⟨c, hc, hs⟩ := h
  have hne : lstrip x ≠ [] := by
    intro e
    have := dropWhile_nil_all isSpace x e c (List.mem_of_getLast? hc)
    rw [hs] at this; cases this
  exact ⟨c, by unfold lstrip at hne ⊢; rw [getLast?_dropWhile _ _ hne, hc], hs⟩

theorem head_last_of_ne {x : Str} (h : x ≠ []) : ∃ a b, x.head? = some a ∧ x.getLast? = some b := by
  cases x with
  | nil => exact absurd rfl h
  | cons c cs =>
    cases hx : (c :: cs).getLast? with
    | none => simp at hx
    | some b => exact ⟨c, b, rfl, rfl⟩

/-! ## 1. `skip_digits` -/

theorem skipDigitsAux_spec : ∀ (s : Str) (k i : Nat), skipDigitsAux k s = (true, i) →
    k ≤ i ∧ i - k < s.length ∧ 0 < i ∧ (∀ c ∈ s.take (i - k), isDigit c = true ∨ c = ' ') ∧
      ∃ c, (s.drop (i - k)).head? = some c ∧ ¬ (isDigit c = true ∨ c = ' ')
  | [], k, i, h => by simp [skipDigitsAux] at h
  | c :: cs, k, i, h => by
    unfold skipDigitsAux at h
    split at h
    · rename_i hc
      simp only [Prod.mk.injEq, decide_eq_true_eq] at h
      obtain ⟨h1, rfl⟩ := h
      refine ⟨Nat.le_refl _, by simp, h1, by simp, c, by simp, ?_⟩
      simpa using hc
    · rename_i hc
      have hc' : isDigit c = true ∨ c = ' ' := by
        cases hd : isDigit c with
        | true => exact .inl rfl
        | false => right; simpa [hd] using hc
      obtain ⟨h1, h2, h3, h4, d, h5, h6⟩ := skipDigitsAux_spec cs (k + 1) i h
      have e : i - k = (i - (k + 1)) + 1 := by omega
      refine ⟨by omega, by simp only [List.length_cons]; omega, h3, ?_, d, ?_, h6⟩
      · rw [e, List.take_succ_cons]
        intro x hx
        rcases List.mem_cons.1 hx with rfl | hx
        · exact hc'
        · exact h4 x hx
      · rw [e, List.drop_succ_cons]; exact h5

/-- **skip_digits**, the `found` case: the index is inside the string and positive, everything
    before it is a digit or a blank, the character at it is neither -/
theorem skipDigits_spec {s : Str} {i : Nat} (h : skipDigits s = (true, i)) :
    i < s.length ∧ 0 < i ∧ (∀ c ∈ s.take i, isDigit c = true ∨ c = ' ') ∧
      ∃ c, (s.drop i).head? = some c ∧ ¬ (isDigit c = true ∨ c = ' ') := by
  obtain ⟨_, h2, h3, h4, h5⟩ := skipDigitsAux_spec s 0 i h
  rw [Nat.sub_zero] at h2 h4 h5
  exact ⟨h2, h3, h4, h5⟩

/-- **skip_digits**, a first character that is neither a digit nor a blank: `(False, 0)` -/
theorem skipDigits_nondigit {c : Char} {cs : Str} (h : ¬ (isDigit c = true ∨ c = ' ')) :
    skipDigits (c :: cs) = (false, 0) := by
  unfold skipDigits skipDigitsAux
  have : (!(isDigit c || c == ' ')) = true := by simpa using h
  simp [this]

theorem skipDigits_colon (cs : Str) : skipDigits (':' :: cs) = (false, 0) :=
  skipDigits_nondigit (by decide)
theorem skipDigits_slash (cs : Str) : skipDigits ('/' :: cs) = (false, 0) :=
  skipDigits_nondigit (by decide)

/-! ## 2. `Format_Item.match`: the `IndexError`s are unreachable -/

/-- **Format_Item (F2003)**: `my_string[0]` / `my_string[-1]` never index an empty string: the
    text after the repeat count is a non-empty suffix of the STRIPPED string, so that its
    `lstrip()` is not empty -/
theorem formatItem_index_safe {s : Str} {slots : List Slot} (h : planFormatItem s = .ok slots) :
    ∀ e, Slot.raise e ∉ slots := by
  intro e
  unfold planFormatItem at h
  split at h
  · cases h
  dsimp only at h
  split at h
  · cases h
  rename_i hne
  have hne' : strip s ≠ [] := by simpa using hne
  have hl := lastNB_strip hne'
  have hmy : (if (skipDigits (strip s)).1 = true then lstrip ((strip s).drop (skipDigits (strip s)).2)
      else strip s) ≠ [] := by
    split
    · rename_i hf
      have hsd : skipDigits (strip s) = (true, (skipDigits (strip s)).2) := by
        rw [← hf]
      exact lastNB_ne (lastNB_lstrip (lastNB_drop hl (skipDigits_spec hsd).1))
    · exact hne'
  obtain ⟨a, b, ha, hb⟩ := head_last_of_ne hmy
  split at h
  · split at h
    · cases h; split <;> simp
    · cases h; split <;> simp
  · rename_i hcon
    exact absurd hb (by intro hb'; exact hcon a b ha hb')

/-- **Format_Item (F2008)**: the tail `*( … )` never indexes an empty string — this is what the
    guard `len(strip_string) > 1` buys.  Counter-factual: WITHOUT the guard the input `"*"` gives
    `my_string = strip_string[1:].lstrip() = ""` and `my_string[0]` raises `IndexError`
    (`star_without_guard` below). -/
theorem formatItemStar_index_safe (s : Str) (e : Exc) : planFormatItemStar s ≠ .raises e := by
  intro h
  unfold planFormatItemStar at h
  dsimp only at h
  split at h
  · cases h
  rename_i hne
  have hne' : strip s ≠ [] := by simpa using hne
  have hl := lastNB_strip hne'
  split at h
  · rename_i hg
    simp only [Bool.and_eq_true, decide_eq_true_eq] at hg
    have hmy := lastNB_ne (lastNB_lstrip (lastNB_drop hl hg.2))
    obtain ⟨a, b, ha, hb⟩ := head_last_of_ne hmy
    split at h
    · split at h <;> cases h
    · rename_i hcon
      exact absurd hb (by intro hb'; exact hcon a b ha hb')
  · cases h

/-- the counter-factual of `formatItemStar_index_safe`: for `"*"` the text after the star is empty -/
theorem star_without_guard :
    startsC '*' (strip "*".toList) = true ∧ (lstrip ((strip "*".toList).drop 1)).head? = none := by
  decide

/-- **Format_Item.match (both standards) raises nothing of its own**: an escaping exception is
    one that a child call raised -/
theorem formatItem_raises (std : Std) (o : Oracle Node) (s : Str) (e : Exc)
    (h : matchFormatItem std o s = .raises e) : ∃ c t, o.call c t = .raises e := by
  have key : ∀ {slots : List Slot}, (∀ e, Slot.raise e ∉ slots) → runSlots o slots = .raises e →
      ∃ c t, o.call c t = .raises e := by
    intro slots hs hr
    rcases runSlots_raises hr with h1 | ⟨c, t, _, h2⟩
    · exact absurd h1 (hs e)
    · exact ⟨c, t, h2⟩
  have h03 : (planFormatItem s).bind (runSlots o) = .raises e → ∃ c t, o.call c t = .raises e := by
    intro h
    rcases Res.bind_eq_raises h with h1 | ⟨slots, h1, h2⟩
    · unfold planFormatItem at h1
      split at h1
      · cases h1
      dsimp only at h1
      split at h1
      · cases h1
      split at h1
      · split at h1 <;> cases h1
      · cases h1
    · exact key (formatItem_index_safe h1) h2
  unfold matchFormatItem at h
  cases std with
  | f2003 => exact h03 h
  | f2008 =>
    dsimp only at h
    split at h
    · cases h
    split at h
    · cases h
    · rename_i e' he'
      cases h
      exact h03 he'
    · rcases Res.bind_eq_raises h with h1 | ⟨slots, h1, h2⟩
      · exact absurd h1 (formatItemStar_index_safe s e)
      · refine key ?_ h2
        intro e2
        unfold planFormatItemStar at h1
        dsimp only at h1
        split at h1
        · cases h1
        split at h1
        · split at h1
          · split at h1
            · cases h1; simp
            · cases h1
          · cases h1
        · cases h1

/-! ## 5. `Format_Item_List.match`: the exceptions of its own -/

/-- **int()** of the Hollerith count: it fails exactly when the text (trailing blanks dropped) is
    empty or has a non-digit — for a text `[1-9][0-9 ]*` that is an INNER blank -/
theorem pyInt_none (m : Str) :
    pyInt m = none ↔ ¬ ((rstrip m).all isDigit = true ∧ rstrip m ≠ []) := by
  unfold pyInt
  dsimp only
  split
  · rename_i h
    simp only [Bool.and_eq_true, Bool.not_eq_true', List.isEmpty_eq_false_iff] at h
    simp [h.1, h.2]
  · rename_i h
    simp only [Bool.and_eq_true, Bool.not_eq_true', List.isEmpty_eq_false_iff] at h
    simp only [true_iff]
    exact h

theorem formatItemListLoop_raises : ∀ (fuel : Nat) (cur : Str) (e : Exc),
    Slot.raise e ∈ formatItemListLoop fuel cur → e = .keyError
  | 0, cur, e, h => by simp [formatItemListLoop] at h
  | fuel+1, cur, e, h => by
    unfold formatItemListLoop at h
    split at h
    · simp at h
    dsimp only at h
    split at h
    · rcases List.mem_cons.1 h with h | h
      · cases h
      · exact formatItemListLoop_raises fuel _ e h
    split at h
    · simp at h
    split at h
    · rcases List.mem_cons.1 h with h | h
      · cases h
      · exact formatItemListLoop_raises fuel _ e h
    split at h
    · rename_i m hm
      split at h
      · rename_i hn
        obtain ⟨n, hn'⟩ := hollerith_count_int hm
        rw [hn'] at hn; cases hn
      · split at h
        · simp at h
        rcases List.mem_cons.1 h with h | h
        · cases h
        split at h
        · simp at h
        split at h
        · exact formatItemListLoop_raises fuel _ e h
        split at h
        · exact formatItemListLoop_raises fuel _ e h
        · simp at h
    · split at h
      · simp only [List.mem_singleton, Slot.raise.injEq] at h
        exact h
      · split at h
        · rcases List.mem_cons.1 h with h | h
          · cases h
          · exact formatItemListLoop_raises fuel _ e h
        · simp at h

/-- **Format_Item_List.match** (after the repair fa6d1cf of /repo): the only exception of its own is
    the `KeyError` of `string_replace_map` — no `IndexError`, and the `ValueError` of
    `int(match_str[:-1].replace(" ", ""))` is unreachable (`hollerith_count_int`) -/
theorem formatItemList_raises {s : Str} {slots : List Slot} (h : planFormatItemList s = .ok slots) :
    ∀ e, Slot.raise e ∈ slots → e = .keyError := by
  unfold planFormatItemList at h
  split at h
  · cases h
  dsimp only at h
  split at h
  · cases h
  cases h
  exact fun e he => formatItemListLoop_raises _ _ e he

/-- REGRESSION (C06): the inputs on which `int("1 2")` raised `ValueError` before fa6d1cf are now
    an ordinary "no match" whatever the children do -/
theorem formatItemList_hollerith_blank_no_escape (o : Oracle Node) :
    (planFormatItemList "1 2habc".toList).bind (runSlots o) = .noMatch := by
  rw [formatItemList_hollerith_blank_no_raise.1]; rfl

/-! ## 4. `Control_Edit_Desc` -/

theorem dropLast_append_last {x : Str} {l : Char} (h : x.getLast? = some l) : x = x.dropLast ++ [l] := by
  obtain ⟨ys, rfl⟩ := List.getLast?_eq_some_iff.1 h
  simp

theorem toks_upperC_P {l : Char} (h : upperC l = 'P') : toks [l] = "P".toList := by
  have hs : isSpace l = false := by
    rw [← upperC_space, h]; decide
  simp [toks, noBlank, hs, upper, h]

/-- **Control_Edit_Desc**: `/`, `:`, `$`, `r /`, `k P` — what is matched is printed with the same
    tokens (the `P` in upper case: `toks` folds the case) -/
theorem controlEditDesc_tostr_match_tokens (o : Oracle Node) (ho : OracleTok o) (s : Str)
    (items : List (Item Node)) (hm : (planControlEditDesc s).bind (runSlots o) = .ok items) :
    ∃ t, tostrControlEditDesc o items = .ok t ∧ toks t = toks s ∧
      ((∀ i ∈ items, net (i.text o) = 0) → net t = 0) := by
  obtain ⟨slots, hp, hr⟩ := Res.bind_eq_ok hm
  unfold planControlEditDesc at hp
  split at hp
  · cases hp
  dsimp only at hp
  split at hp
  · cases hp
  rename_i l hl
  have hss := dropLast_append_last hl
  have hS : toks s = toks (strip s).dropLast ++ toks [l] := by
    rw [← toks_strip s]
    conv => lhs; rw [hss]
    rw [toks_append]
  split at hp
  · -- a single `/`, `:` or `$`
    rename_i h1
    split at hp
    · cases hp
    cases hp
    obtain ⟨i, is, rfl, hi, his⟩ := runSlots_cons_ok hr
    obtain ⟨j, js, rfl, hj, hjs⟩ := runSlots_cons_ok his
    have := runSlots_nil_ok hjs; subst this
    have := runSlot_none_ok hi; subst this
    have := runSlot_str_ok hj; subst this
    have hne : (strip s).isEmpty = false := by
      cases hx : strip s with
      | nil => rw [hx] at hl; simp at hl
      | cons c cs => rfl
    refine ⟨strip s, by simp [tostrControlEditDesc, Item.text, hne], toks_strip s, ?_⟩
    intro hb
    exact hb (.str (strip s)) (by simp)
  split at hp
  · -- `r /`
    rename_i h1 h2
    have h2' : l = '/' := by simpa using h2
    subst h2'
    cases hp
    obtain ⟨i, is, rfl, hi, his⟩ := runSlots_cons_ok hr
    obtain ⟨j, js, rfl, hj, hjs⟩ := runSlots_cons_ok his
    have := runSlots_nil_ok hjs; subst this
    have := runSlot_str_ok hj; subst this
    have hi' := toks_item_of_child ho hi
    obtain ⟨n, rfl, _⟩ := runSlot_child_ok hi
    refine ⟨o.str n ++ "/".toList, by simp [tostrControlEditDesc, Item.text], ?_, ?_⟩
    · simp only [Item.text] at hi'
      rw [hS, toks_append, hi', toks_rstrip]; rfl
    · intro hb
      have := hb (.node n) (by simp)
      simp only [Item.text] at this
      rw [net_append, this]; decide
  split at hp
  · -- `k P`
    rename_i h1 h2 h3
    have h3' : upperC l = 'P' := by simpa using h3
    cases hp
    obtain ⟨i, is, rfl, hi, his⟩ := runSlots_cons_ok hr
    obtain ⟨j, js, rfl, hj, hjs⟩ := runSlots_cons_ok his
    have := runSlots_nil_ok hjs; subst this
    have := runSlot_str_ok hj; subst this
    have hi' := toks_item_of_child ho hi
    obtain ⟨n, rfl, _⟩ := runSlot_child_ok hi
    refine ⟨o.str n ++ "P".toList, by simp [tostrControlEditDesc, Item.text], ?_, ?_⟩
    · simp only [Item.text] at hi'
      rw [hS, toks_append, hi', toks_rstrip, toks_upperC_P h3']; rfl
    · intro hb
      have := hb (.node n) (by simp)
      simp only [Item.text] at this
      rw [net_append, this]; decide
  · cases hp

/-! ## 3. `Format_Item` -/

/-- the repeat-count part of `Format_Item.tostr` -/
def rsText (o : Oracle Node) : Item Node → Str
  | .none => []
  | r => r.text o

/-- the token text a slot stands for -/
def slotToks : Slot → Str
  | .str x => toks x
  | .child _ p => toks p
  | _ => []

theorem tostrFormatItem_eq (o : Oracle Node) (r : Item Node) (n : Node) :
    tostrFormatItem o [r, .node n] =
      if o.isDataEdit n then .ok (rsText o r ++ o.str n)
      else .ok (rsText o r ++ "(".toList ++ o.str n ++ ")".toList) := by
  cases r <;> rfl

theorem rsText_toks {o : Oracle Node} (ho : OracleTok o) {sl : Slot} {r : Item Node}
    (h : runSlot o sl = .ok r) : toks (rsText o r) = slotToks sl := by
  cases sl with
  | none => cases h; rfl
  | str x => cases h; rfl
  | child c p =>
    have h' := toks_item_of_child ho h
    obtain ⟨n, rfl, _⟩ := runSlot_child_ok h
    exact h'
  | fail => cases h
  | raise e => cases h

theorem rsText_net {o : Oracle Node} {r : Item Node} (h : net (r.text o) = 0) : net (rsText o r) = 0 := by
  cases r <;> first | exact h | rfl

theorem inner_spec {my : Str} (hh : my.head? = some '(') (hl : my.getLast? = some ')') :
    my = "(".toList ++ inner my ++ ")".toList := by
  cases my with
  | nil => cases hh
  | cons c cs =>
    simp only [List.head?_cons, Option.some.injEq] at hh
    subst hh
    cases cs with
    | nil => simp at hl
    | cons d ds =>
      rw [List.getLast?_cons_cons] at hl
      obtain ⟨ys, hys⟩ := List.getLast?_eq_some_iff.1 hl
      simp [inner, hys]

/-- the branch `[r] ( format-item-list )` (also the F2008 `* ( … )`) -/
theorem fmt_list (o : Oracle Node) (ho : OracleTok o)
    (hl : ∀ t n, o.call C.Format_Item_List t = .ok n → o.isDataEdit n = false)
    (rslot : Slot) (my : Str) (items : List (Item Node))
    (hh : my.head? = some '(') (hlast : my.getLast? = some ')')
    (hr : runSlots o [rslot, .child C.Format_Item_List (lstrip (inner my))] = .ok items) :
    ∃ t, tostrFormatItem o items = .ok t ∧ toks t = slotToks rslot ++ toks my ∧
      ((∀ i ∈ items, net (i.text o) = 0) → net t = 0) := by
  obtain ⟨i, is, rfl, hi, his⟩ := runSlots_cons_ok hr
  obtain ⟨j, js, rfl, hj, hjs⟩ := runSlots_cons_ok his
  have := runSlots_nil_ok hjs; subst this
  have hj' := toks_item_of_child ho hj
  obtain ⟨n, rfl, hn⟩ := runSlot_child_ok hj
  simp only [Item.text] at hj'
  refine ⟨_, by rw [tostrFormatItem_eq, hl _ _ hn]; rfl, ?_, ?_⟩
  · conv => rhs; rw [inner_spec hh hlast]
    simp only [toks_append, rsText_toks ho hi, hj', toks_lstrip, List.append_assoc]
  · intro hb
    have h1 := rsText_net (hb i (by simp))
    have h2 := hb (.node n) (by simp)
    simp only [Item.text] at h2
    simp only [net_append, h1, h2]; decide

/-- the branch `[r] data-edit-desc` -/
theorem fmt_data (o : Oracle Node) (ho : OracleTok o)
    (hd : ∀ t n, o.call C.Data_Edit_Desc t = .ok n → o.isDataEdit n = true)
    (rslot : Slot) (my : Str) (items : List (Item Node))
    (hr : runSlots o [rslot, .child C.Data_Edit_Desc my] = .ok items) :
    ∃ t, tostrFormatItem o items = .ok t ∧ toks t = slotToks rslot ++ toks my ∧
      ((∀ i ∈ items, net (i.text o) = 0) → net t = 0) := by
  obtain ⟨i, is, rfl, hi, his⟩ := runSlots_cons_ok hr
  obtain ⟨j, js, rfl, hj, hjs⟩ := runSlots_cons_ok his
  have := runSlots_nil_ok hjs; subst this
  have hj' := toks_item_of_child ho hj
  obtain ⟨n, rfl, hn⟩ := runSlot_child_ok hj
  simp only [Item.text] at hj'
  refine ⟨_, by rw [tostrFormatItem_eq, hd _ _ hn]; rfl, ?_, ?_⟩
  · simp only [toks_append, rsText_toks ho hi, hj']
  · intro hb
    have h1 := rsText_net (hb i (by simp))
    have h2 := hb (.node n) (by simp)
    simp only [Item.text] at h2
    simp only [net_append, h1, h2]; decide

/-- the F2003 `Format_Item.match` -/
theorem formatItem03_tostr_match_tokens (o : Oracle Node) (ho : OracleTok o)
    (hd : ∀ t n, o.call C.Data_Edit_Desc t = .ok n → o.isDataEdit n = true)
    (hl : ∀ t n, o.call C.Format_Item_List t = .ok n → o.isDataEdit n = false)
    (s : Str) (items : List (Item Node))
    (hm : (planFormatItem s).bind (runSlots o) = .ok items) :
    ∃ t, tostrFormatItem o items = .ok t ∧ toks t = toks s ∧
      ((∀ i ∈ items, net (i.text o) = 0) → net t = 0) := by
  obtain ⟨slots, hp, hr⟩ := Res.bind_eq_ok hm
  unfold planFormatItem at hp
  split at hp
  · cases hp
  dsimp only at hp
  split at hp
  · cases hp
  -- the repeat count and the rest carry all the tokens
  have hS : slotToks (if (skipDigits (strip s)).1 = true
        then Slot.child C.R ((strip s).take (skipDigits (strip s)).2) else Slot.none) ++
      toks (if (skipDigits (strip s)).1 = true
        then lstrip ((strip s).drop (skipDigits (strip s)).2) else strip s) = toks s := by
    split
    · simp only [slotToks, toks_lstrip]
      rw [← toks_append, List.take_append_drop, toks_strip]
    · simp only [slotToks, List.nil_append, toks_strip]
  split at hp
  · rename_i h l hh hlast
    split at hp
    · rename_i hpar
      simp only [Bool.and_eq_true, beq_iff_eq] at hpar
      obtain ⟨rfl, rfl⟩ := hpar
      cases hp
      obtain ⟨t, h1, h2, h3⟩ := fmt_list o ho hl _ _ items hh hlast hr
      exact ⟨t, h1, by rw [h2, hS], h3⟩
    · cases hp
      obtain ⟨t, h1, h2, h3⟩ := fmt_data o ho hd _ _ items hr
      exact ⟨t, h1, by rw [h2, hS], h3⟩
  · cases hp
    obtain ⟨i, is, rfl, hi, his⟩ := runSlots_cons_ok hr
    obtain ⟨j, js, rfl, hj, hjs⟩ := runSlots_cons_ok his
    exact absurd hj (runSlot_raise o _ _)

/-- the F2008 tail `* ( format-item-list )` -/
theorem formatItemStar_tostr_match_tokens (o : Oracle Node) (ho : OracleTok o)
    (hl : ∀ t n, o.call C.Format_Item_List t = .ok n → o.isDataEdit n = false)
    (s : Str) (items : List (Item Node))
    (hm : (planFormatItemStar s).bind (runSlots o) = .ok items) :
    ∃ t, tostrFormatItem o items = .ok t ∧ toks t = toks s ∧
      ((∀ i ∈ items, net (i.text o) = 0) → net t = 0) := by
  obtain ⟨slots, hp, hr⟩ := Res.bind_eq_ok hm
  unfold planFormatItemStar at hp
  dsimp only at hp
  split at hp
  · cases hp
  split at hp
  · rename_i hg
    simp only [Bool.and_eq_true, decide_eq_true_eq] at hg
    obtain ⟨rest, hrest⟩ := startsC_cons hg.1
    have hS : toks s = toks "*".toList ++ toks (lstrip ((strip s).drop 1)) := by
      rw [← toks_strip s, hrest, toks_lstrip]
      exact toks_cons _ _
    split at hp
    · rename_i h l hh hlast
      split at hp
      · rename_i hpar
        simp only [Bool.and_eq_true, beq_iff_eq] at hpar
        obtain ⟨rfl, rfl⟩ := hpar
        cases hp
        obtain ⟨t, h1, h2, h3⟩ := fmt_list o ho hl _ _ items hh hlast hr
        exact ⟨t, h1, by rw [h2, hS]; rfl, h3⟩
      · cases hp
    · cases hp
  · cases hp

/-- **Format_Item (F2003 and F2008)**: `[r] data-edit-desc`, `[r] ( format-item-list )` and the
    F2008 `* ( format-item-list )` are printed with the tokens of the input, balanced when the
    children's texts are.  `hd`/`hl` say which branch of `tostr` (`isinstance(…, Data_Edit_Desc)`)
    a child built by which class takes. -/
theorem formatItem_tostr_match_tokens (std : Std) (o : Oracle Node) (ho : OracleTok o)
    (hd : ∀ t n, o.call C.Data_Edit_Desc t = .ok n → o.isDataEdit n = true)
    (hl : ∀ t n, o.call C.Format_Item_List t = .ok n → o.isDataEdit n = false)
    (s : Str) (items : List (Item Node)) (hm : matchFormatItem std o s = .ok items) :
    ∃ t, tostrFormatItem o items = .ok t ∧ toks t = toks s ∧
      ((∀ i ∈ items, net (i.text o) = 0) → net t = 0) := by
  unfold matchFormatItem at hm
  cases std with
  | f2003 => exact formatItem03_tostr_match_tokens o ho hd hl s items hm
  | f2008 =>
    dsimp only at hm
    split at hm
    · cases hm
    split at hm
    · rename_i items' h03
      cases hm
      exact formatItem03_tostr_match_tokens o ho hd hl s items h03
    · cases hm
    · exact formatItemStar_tostr_match_tokens o ho hl s items hm

/-! ## 6. `Format_Item_List`: commas are optional next to `/` and `:` and always printed -/

/-- the token text without its commas -/
def ck (x : Str) : Str := (toks x).filter (· != ',')

theorem ck_append (a b : Str) : ck (a ++ b) = ck a ++ ck b := by
  simp [ck, toks_append]

theorem ck_of_toks {a b : Str} (h : toks a = toks b) : ck a = ck b := by simp [ck, h]

theorem ck_lstrip (x : Str) : ck (lstrip x) = ck x := ck_of_toks (toks_lstrip x)

theorem ck_nil : ck [] = [] := rfl

theorem ck_comma_cons (x : Str) : ck (',' :: x) = ck x := by
  have e : ',' :: x = ",".toList ++ x := rfl
  rw [e, ck_append]
  have : ck ",".toList = [] := by decide
  rw [this]; rfl

theorem ck_skipComma (x : Str) : ck (skipComma x) = ck x := by
  unfold skipComma
  split
  · rw [ck_lstrip, ck_comma_cons]
  · rfl

theorem ck_joinStr_cons (a : Str) (rest : List Str) :
    ck (Combi.joinStr ", ".toList (a :: rest)) = ck a ++ ck (Combi.joinStr ", ".toList rest) := by
  cases rest with
  | nil => simp [Combi.joinStr, ck_nil]
  | cons b r =>
    simp only [Combi.joinStr, ck_append]
    have : ck ", ".toList = [] := by decide
    rw [this]; simp

theorem net_joinStr_fmt : ∀ (xs : List Str), (∀ x ∈ xs, net x = 0) → net (Combi.joinStr ", ".toList xs) = 0
  | [], _ => rfl
  | [a], h => by simpa [Combi.joinStr] using h a (by simp)
  | a :: b :: r, h => by
    simp only [Combi.joinStr, net_append]
    rw [h a (by simp), net_joinStr_fmt (b :: r) (fun x hx => h x (by simp [hx]))]
    decide

/-- one child slot of the loop: its printed text keeps the tokens, the rest follows -/
theorem ck_step {o : Oracle Node} (ho : OracleTok o) {c : ClassId} {t : Str} {rest : List Slot}
    {items : List (Item Node)} (h : runSlots o (.child c t :: rest) = .ok items) :
    ∃ is, runSlots o rest = .ok is ∧
      ck (Combi.joinStr ", ".toList (items.map (Item.text o))) =
        ck t ++ ck (Combi.joinStr ", ".toList (is.map (Item.text o))) := by
  obtain ⟨i, is, rfl, hi, his⟩ := runSlots_cons_ok h
  refine ⟨is, his, ?_⟩
  rw [List.map_cons, ck_joinStr_cons, ck_of_toks (toks_item_of_child ho hi)]

theorem cutSep_spec : ∀ (x a b : Str) (d : Char), cutSep x = some (a, d, b) →
    x = a ++ d :: b ∧ (d = ',' ∨ d = '/' ∨ d = ':')
  | [], a, b, d, h => by simp [cutSep] at h
  | c :: cs, a, b, d, h => by
    unfold cutSep at h
    split at h
    · rename_i hc
      simp only [Option.some.injEq, Prod.mk.injEq] at h
      obtain ⟨rfl, rfl, rfl⟩ := h
      refine ⟨rfl, ?_⟩
      rcases (by simpa using hc : (c = ',' ∨ c = '/') ∨ c = ':') with (h | h) | h
      · exact .inl h
      · exact .inr (.inl h)
      · exact .inr (.inr h)
    · split at h
      · rename_i a' d' b' hrec
        simp only [Option.some.injEq, Prod.mk.injEq] at h
        obtain ⟨rfl, rfl, rfl⟩ := h
        obtain ⟨h1, h2⟩ := cutSep_spec cs a' b' d' hrec
        exact ⟨by rw [h1]; rfl, h2⟩
      · cases h

/-- the hypothesis of `formatItemList_tostr_match_tokens`: `SrmOK` of the remaining text at every
    round of the loop that hands it to `string_replace_map` (the loop re-tokenises the remainder
    in every round); mirrors `formatItemListLoop` with the same fuel -/
def loopOK : Nat → Str → Bool
  | 0, _ => true
  | fuel+1, cur =>
    if cur.isEmpty then true else
    let fi := skipDigits cur
    if fi.1 && (cur.drop fi.2).head? == some '/' then
      loopOK fuel (skipComma (lstrip (cur.drop (fi.2 + 1))))
    else match cur with
    | [] => true
    | c0 :: _ =>
      if c0 == ':' || c0 == '/' then
        loopOK fuel (skipComma (lstrip (cur.drop (fi.2 + 1))))
      else match hollerithPrefix cur with
      | some m =>
        (match pyInt (Combi.noSpaces m.dropLast) with
          | none => true
          | some n =>
            let numChars := m.length + n
            if cur.length < numChars then true else
            let rest := lstrip (cur.drop numChars)
            (match rest with
              | [] => true
              | d :: _ =>
                if d == ',' then loopOK fuel (lstrip (rest.drop 1))
                else if d == '/' || d == ':' then loopOK fuel rest
                else true))
      | none =>
        decide (SrmOK cur) &&
        match Combi.tokenise cur with
        | none => true
        | some r =>
          match cutSep r.text with
          | some (_, d, b) =>
            let next := applyMap r.map (d :: b)
            loopOK fuel (if d == ',' then lstrip (next.drop 1) else next)
          | none => true

/-- ONE ROUND, the non-Hollerith `else` branch: the item text, the separator and the remainder
    add up to the current text modulo blanks -/
theorem round_tokenise {cur : Str} {r : SrmResult} (hs : SrmOK cur) (htk : Combi.tokenise cur = some r)
    {a b : Str} {d : Char} (hc : cutSep r.text = some (a, d, b)) :
    applyMap r.map (d :: b) = d :: applyMap r.map b ∧
    toks cur = toks (applyMap r.map a ++ d :: applyMap r.map b) := by
  obtain ⟨hseg, hexp⟩ := seg_of_tokenise hs htk
  obtain ⟨htext, hd⟩ := cutSep_spec _ _ _ _ hc
  have hw : isWord d = false := by
    rcases hd with rfl | rfl | rfl <;> decide
  rw [htext] at hseg hexp
  obtain ⟨_, sdb, _⟩ := Seg.split hseg (.inr (.inr (.inr ⟨d, rfl, hw⟩)))
  obtain ⟨_, e1⟩ := Seg.drop1 hw sdb
  obtain ⟨_, _, e2⟩ := Seg.sep hw hseg
  refine ⟨e1, ?_⟩
  rw [← toks_of_noBlank hexp, e2]

theorem loop_ck {o : Oracle Node} (ho : OracleTok o) : ∀ (fuel : Nat) (cur : Str)
    (items : List (Item Node)), runSlots o (formatItemListLoop fuel cur) = .ok items →
    loopOK fuel cur = true →
    ck (Combi.joinStr ", ".toList (items.map (Item.text o))) = ck cur
  | 0, cur, items, hr, _ => by
    simp only [formatItemListLoop] at hr
    obtain ⟨i, is, rfl, hi, _⟩ := runSlots_cons_ok hr
    exact absurd hi (runSlot_fail o i)
  | fuel+1, cur, items, hr, hok => by
    unfold formatItemListLoop at hr
    unfold loopOK at hok
    split at hr
    · rename_i he
      have : cur = [] := by simpa using he
      subst this
      have := runSlots_nil_ok hr; subst this
      rfl
    rename_i hne
    simp only [hne, Bool.false_eq_true, ↓reduceIte] at hok
    dsimp only at hr hok
    split at hr
    · -- `r /`
      rename_i h1
      simp only [h1, ↓reduceIte] at hok
      obtain ⟨is, his, e⟩ := ck_step ho hr
      rw [e, loop_ck ho fuel _ is his hok, ck_skipComma, ck_lstrip, ← ck_append, List.take_append_drop]
    rename_i h1
    simp only [h1, Bool.false_eq_true, ↓reduceIte] at hok
    split at hr
    · have := runSlots_nil_ok hr; subst this
      rfl
    rename_i c0 tl
    dsimp only at hok
    split at hr
    · -- `:` or `/`
      rename_i h2
      simp only [h2, ↓reduceIte] at hok
      have hnd : ¬ (isDigit c0 = true ∨ c0 = ' ') := by
        simp only [Bool.or_eq_true, beq_iff_eq] at h2
        rcases h2 with rfl | rfl <;> decide
      rw [skipDigits_nondigit hnd] at hr hok
      obtain ⟨is, his, e⟩ := ck_step ho hr
      rw [e, loop_ck ho fuel _ is his hok, ck_skipComma, ck_lstrip, ← ck_append]
      rfl
    rename_i h2
    simp only [h2, Bool.false_eq_true, ↓reduceIte] at hok
    split at hr
    · -- Hollerith
      rename_i m hm
      simp only [hm] at hok
      split at hr
      · obtain ⟨i, is, rfl, hi, _⟩ := runSlots_cons_ok hr
        exact absurd hi (runSlot_raise o _ i)
      rename_i n hn
      simp only [hn] at hok
      try dsimp only at hr
      try dsimp only at hok
      split at hr
      · obtain ⟨i, is, rfl, hi, _⟩ := runSlots_cons_ok hr
        exact absurd hi (runSlot_fail o i)
      rename_i h3
      simp only [h3, ↓reduceIte] at hok
      obtain ⟨is, his, e⟩ := ck_step ho hr
      have hcur : ck (c0 :: tl) = ck ((c0 :: tl).take (m.length + n)) ++
          ck (lstrip ((c0 :: tl).drop (m.length + n))) := by
        rw [ck_lstrip, ← ck_append, List.take_append_drop]
      rw [e, hcur]
      congr 1
      split at his
      · rename_i hrest
        have := runSlots_nil_ok his; subst this
        rw [hrest]; rfl
      · rename_i d dl hrest
        rw [hrest] at hok his ⊢
        dsimp only at hok
        split at his
        · rename_i h4
          have : d = ',' := by simpa using h4
          subst this
          simp only [beq_self_eq_true, ↓reduceIte] at hok
          rw [loop_ck ho fuel _ is his hok, ck_lstrip, ck_comma_cons]; rfl
        · rename_i h4
          simp only [h4, Bool.false_eq_true, ↓reduceIte] at hok
          split at his
          · rename_i h5
            simp only [h5, ↓reduceIte] at hok
            exact loop_ck ho fuel _ is his hok
          · obtain ⟨i, is', _, hi, _⟩ := runSlots_cons_ok his
            exact absurd hi (runSlot_fail o i)
    · -- the tokenised round
      rename_i hm
      simp only [hm, Bool.and_eq_true, decide_eq_true_eq] at hok
      obtain ⟨hs, hok⟩ := hok
      split at hr
      · obtain ⟨i, is, rfl, hi, _⟩ := runSlots_cons_ok hr
        exact absurd hi (runSlot_raise o _ i)
      rename_i r htk
      simp only [htk] at hok
      split at hr
      · rename_i a d b hc
        simp only [hc] at hok
        obtain ⟨e1, e2⟩ := round_tokenise hs htk hc
        obtain ⟨is, his, e⟩ := ck_step ho hr
        rw [e, loop_ck ho fuel _ is his hok, ck_of_toks e2, e1, ck_append]
        congr 1
        split
        · rename_i h4
          have : d = ',' := by simpa using h4
          subst this
          rw [ck_lstrip, ck_comma_cons]; rfl
        · rfl
      · obtain ⟨is, his, e⟩ := ck_step ho hr
        have := runSlots_nil_ok his; subst this
        rw [e]
        obtain ⟨_, hexp⟩ := seg_of_tokenise hs htk
        rw [ck_of_toks (toks_of_noBlank hexp)]
        simp [Combi.joinStr, ck_nil]

/-- **Format_Item_List**: commas between format items are optional next to `/` and `:` in the
    input and ALWAYS printed by `tostr` (`", ".join`), so the exact relation is: the token texts
    agree after deleting the commas; the printed text is balanced when the children's are.
    `loopOK` = `SrmOK` of the remaining text at every tokenising round. -/
theorem formatItemList_tostr_match_tokens (o : Oracle Node) (ho : OracleTok o) (s : Str)
    (items : List (Item Node)) (hm : (planFormatItemList s).bind (runSlots o) = .ok items)
    (hok : loopOK (2 * (lstrip s).length + 2) (lstrip s) = true) :
    ∃ t, tostrList o items = .ok t ∧
      (toks t).filter (· != ',') = (toks s).filter (· != ',') ∧
      ((∀ i ∈ items, net (i.text o) = 0) → net t = 0) := by
  obtain ⟨slots, hp, hr⟩ := Res.bind_eq_ok hm
  unfold planFormatItemList at hp
  split at hp
  · cases hp
  dsimp only at hp
  split at hp
  · cases hp
  cases hp
  refine ⟨_, rfl, ?_, ?_⟩
  · have := loop_ck ho _ _ items hr hok
    rw [ck_lstrip] at this
    exact this
  · intro hb
    apply net_joinStr_fmt
    intro x hx
    obtain ⟨i, hi, rfl⟩ := List.mem_map.1 hx
    exact hb i hi

/-- why the relation is "modulo commas" and not `toks t = toks s`: `i3/i4` is three items (no
    comma in the input), printed `I3, /, I4` by `", ".join` -/
theorem formatItemList_optional_comma_witness :
    planFormatItemList "i3/i4".toList =
      .ok [.child C.Format_Item "i3".toList, .child C.Control_Edit_Desc "/".toList,
           .child C.Format_Item "i4".toList] := by decide +kernel

/-- under the tokeniser hypothesis of every round the `KeyError` is out too:
    `Format_Item_List.match` raises NOTHING of its own (fa6d1cf removed the `ValueError`) -/
theorem formatItemListLoop_raises_ok : ∀ (fuel : Nat) (cur : Str) (e : Exc),
    loopOK fuel cur = true → Slot.raise e ∈ formatItemListLoop fuel cur → False
  | 0, cur, e, _, h => by simp [formatItemListLoop] at h
  | fuel+1, cur, e, hok, h => by
    unfold formatItemListLoop at h
    unfold loopOK at hok
    split at h
    · simp at h
    rename_i hne
    simp only [hne, Bool.false_eq_true, ↓reduceIte] at hok
    dsimp only at h hok
    split at h
    · rename_i h1
      simp only [h1, ↓reduceIte] at hok
      rcases List.mem_cons.1 h with h | h
      · cases h
      · exact formatItemListLoop_raises_ok fuel _ e hok h
    rename_i h1
    simp only [h1, Bool.false_eq_true, ↓reduceIte] at hok
    split at h
    · simp at h
    rename_i c0 tl
    dsimp only at hok
    split at h
    · rename_i h2
      simp only [h2, ↓reduceIte] at hok
      rcases List.mem_cons.1 h with h | h
      · cases h
      · exact formatItemListLoop_raises_ok fuel _ e hok h
    rename_i h2
    simp only [h2, Bool.false_eq_true, ↓reduceIte] at hok
    split at h
    · rename_i m hm
      simp only [hm] at hok
      split at h
      · rename_i hn0
        obtain ⟨n0, hn0'⟩ := hollerith_count_int hm
        rw [hn0'] at hn0; cases hn0
      rename_i n hn
      simp only [hn] at hok
      try dsimp only at h
      try dsimp only at hok
      split at h
      · simp at h
      rename_i h3
      simp only [h3, ↓reduceIte] at hok
      rcases List.mem_cons.1 h with h | h
      · cases h
      split at h
      · simp at h
      rename_i d dl hrest
      rw [hrest] at hok h
      dsimp only at hok
      split at h
      · rename_i h4
        simp only [h4, ↓reduceIte] at hok
        exact formatItemListLoop_raises_ok fuel _ e hok h
      rename_i h4
      simp only [h4, Bool.false_eq_true, ↓reduceIte] at hok
      split at h
      · rename_i h5
        simp only [h5, ↓reduceIte] at hok
        exact formatItemListLoop_raises_ok fuel _ e hok h
      · simp at h
    · rename_i hm
      simp only [hm, Bool.and_eq_true, decide_eq_true_eq] at hok
      obtain ⟨hs, hok⟩ := hok
      obtain ⟨r, htk⟩ := tokenise_some_of_srmOK hs
      simp only [htk] at h hok
      split at h
      · rename_i a d b hc
        simp only [hc] at hok
        rcases List.mem_cons.1 h with h | h
        · cases h
        · exact formatItemListLoop_raises_ok fuel _ e hok h
      · simp at h

theorem formatItemList_raises_ok {s : Str} {slots : List Slot} (h : planFormatItemList s = .ok slots)
    (hok : loopOK (2 * (lstrip s).length + 2) (lstrip s) = true) :
    ∀ e, Slot.raise e ∉ slots := by
  unfold planFormatItemList at h
  split at h
  · cases h
  dsimp only at h
  split at h
  · cases h
  cases h
  exact fun e he => formatItemListLoop_raises_ok _ _ e hok he

/-- the hypothesis is decidable and holds on an ordinary list (optional commas next to `/`) -/
example : loopOK 30 "i3/2(a4),1x:e10.3".toList = true := by decide +kernel

#print axioms skipDigits_spec
#print axioms skipDigits_nondigit
#print axioms formatItem_index_safe
#print axioms formatItemStar_index_safe
#print axioms star_without_guard
#print axioms formatItem_raises
#print axioms pyInt_none
#print axioms formatItemList_raises
#print axioms formatItemList_hollerith_blank_no_escape
#print axioms hollerith_count_int
#print axioms controlEditDesc_tostr_match_tokens
#print axioms formatItem_tostr_match_tokens
#print axioms formatItemList_raises_ok
#print axioms formatItemList_optional_comma_witness
#print axioms round_tokenise
#print axioms formatItemList_tostr_match_tokens

end Fp.IoStmt
