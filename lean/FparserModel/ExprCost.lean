import FparserModel.Expr

/-!
# M-C-cost — the expression chain instrumented with a call counter   (serves C20)

`parseC` is `parseF` (FparserModel/Expr.lean) returning, next to the result, the number of
`Base.__new__` invocations made for classes of the chain: every call of `parseF` counts 1
(successful, failed, or a fall-through to the subclass; a call with no fuel left counts 1
too).  `matchStepC` mirrors `matchStep` branch for branch and adds up the counts of the
nested constructor calls that are really made, with the same short-circuiting as the Python
code (`BinaryOpBase.match` with `right=True` builds `rhs_cls(rhs)` first and `lhs_cls(lhs)`
only if that did not raise; `right=False` the other way round).

`(parseC n k ts).1 = parseF n k ts` is proved in Proofs/ExprCost.lean (`parseC_fst`).

No Mathlib. Everything total and computable.
-/
namespace Fp.Expr

/-- `cls.match(string)` with the number of nested `Base.__new__` calls it caused -/
def matchStepC (rec : Lv → List T → Option Ex × Nat) (row : Row) (ts : List T) : Option Ex × Nat :=
  match row.kind, row.lhs, row.rhs with
  | .binL, some lhs, some rhs =>
    if gluedPair row.cls.test ts 0 then (none, 0)
    else match splitLast row.cls.test ts 0 with
      | some (l, o, r) =>
        if l = [] ∨ r = [] then (none, 0)
        else if row.excl ∧ o.excluded then (none, 0)
        else match rec rhs r with                    -- rhs first
          | (some R, c1) => match rec lhs l with
            | (some L, c2) => (some (.bin o L R), c1 + c2)
            | (none, c2) => (none, c1 + c2)
          | (none, c1) => (none, c1)                 -- lhs is never tried
      | none => (none, 0)
  | .binR, some lhs, some rhs =>
    match splitFirst row.cls.test ts 0 with
      | some (l, o, r) =>
        if l = [] ∨ r = [] then (none, 0)
        else if row.excl ∧ o.excluded then (none, 0)
        else match rec lhs l with                    -- lhs first
          | (some L, c1) => match rec rhs r with
            | (some R, c2) => (some (.bin o L R), c1 + c2)
            | (none, c2) => (none, c1 + c2)
          | (none, c1) => (none, c1)
      | none => (none, 0)
  | .unary, _, some rhs =>
    match ts with
    | o :: r =>
      if row.cls.test o ∧ r ≠ [] then
        match rec rhs r with
        | (some R, c) => (some (.un o R), c)
        | (none, c) => (none, c)
      else (none, 0)
    | [] => (none, 0)
  | .prim, _, some inner =>
    match ts with
    | [.atom i d g] => (some (.atom i d g), 0)
    | .lp :: rest =>
      match rest.getLast?, rest.dropLast with
      | some .rp, mid =>
        if mid = [] then (none, 0)
        else match rec inner mid with
          | (some e, c) => (some (.paren e), c)
          | (none, c) => (none, c)
      | _, _ => (none, 0)
    | _ => (none, 0)
  | _, _, _ => (none, 0)

/-- `Base.__new__(cls, string)` with its call count (this call included) -/
def parseC : Nat → Lv → List T → Option Ex × Nat
  | 0, _, _ => (none, 1)
  | fuel+1, k, ts =>
    match matchStepC (parseC fuel) (rowOf k) ts with
    | (some e, c) => (some e, c + 1)
    | (none, c) =>
      match (rowOf k).next with
      | some k' =>
        match parseC fuel k' ts with
        | (res, c') => (res, c + 1 + c')
      | none => (none, c + 1)

/-- number of `Base.__new__` calls (chain classes only) caused by `cls(string)` -/
def parseCalls (k : Lv) (ts : List T) : Nat := (parseC (need k ts) k ts).2

/-- the fuel-free twin (`parse` with its count) -/
def pc (k : Lv) (ts : List T) : Option Ex × Nat := parseC (need k ts) k ts

/-! ## the count the real class table produces

`Primary` has no `match`; fparser's `ParserFactory` splices the subclasses of such classes into
the subclass list of their parent, so in the real `Base.subclasses` table the entries of
`Level_1_Expr` are `Constant, Parenthesis, Designator, …` directly.  The fall-through
Level_1_Expr → Primary of the model is therefore not a `Base.__new__(Primary, …)` call in the
real code (it is the loop over the Primary alternatives, which are not chain classes), whereas
`Primary(rhs)` built by `Level_1_Expr.match` is one.  `parseR` is `parseC` without that one
count; `chainCalls` equals the number of `Base.__new__` calls whose `cls` is one of the 13
chain classes, as measured on the real parser (12, 69, 183, 411, 867, 1779 for `V 0..5`;
12, 24, 36, 48 for `N 0..3`; 12, 86, 212, 464, 968 for `BadE 0..4`). -/

def parseR : Nat → Lv → List T → Option Ex × Nat
  | 0, _, _ => (none, 1)
  | fuel+1, k, ts =>
    match matchStepC (parseR fuel) (rowOf k) ts with
    | (some e, c) => (some e, c + 1)
    | (none, c) =>
      match (rowOf k).next with
      | some k' =>
        match parseR fuel k' ts with
        | (res, c') => (res, c + 1 + c' - (if k' = .prim then 1 else 0))
      | none => (none, c + 1)

/-- number of `Base.__new__` calls with `cls` among the 13 chain classes (real table) -/
def chainCalls (k : Lv) (ts : List T) : Nat := (parseR (need k ts) k ts).2

/-! ## the two families of the cost finding -/

/-- one step of the exponential family: `( G ) ** c + .y. b` -/
def wrapV (G : Ex) : Ex :=
  .bin (.op .plus false)
    (.bin (.op .pow false) (.paren G) (.atom 3 false false))
    (.un (.op (.dot 25) false) (.atom 2 false false))

/-- `V 0 = a`, `V (d+1) = ( V d ) ** c + .y. b` : valid Fortran, inside the C03 boundary -/
def V : Nat → Ex
  | 0 => .atom 1 false false
  | d+1 => wrapV (V d)

/-- plain nesting `((…(a)…))` -/
def N : Nat → Ex
  | 0 => .atom 1 false false
  | d+1 => .paren (N d)

/-- INVALID input of the second exponential family: `* b .eqv. a .or. ( G )` as a token list -/
def wrapBad (g : List T) : List T :=
  [.op .mul false, .atom 2 false false, .op .eqv false, .atom 1 false false, .op .or false, .lp]
    ++ g ++ [.rp]

end Fp.Expr
