import FparserModel.Proofs.Reader4Chunks
import FparserModel.Proofs.Reader4Amp
import FparserModel.Proofs.Reader4Fixed
import FparserModel.Props.Reader

/-!
# Props/Reader4 — reader model M-B, fourth batch: continuation lines WITH character literals

Serves C04 ("splitting a statement over continuation lines at any token boundary or inside a
character literal, with or without a leading `&`, interleaving blank and comment lines, trailing
comments … all yield the same tree") and C05 ("character literals continued across lines keep
every character"). Lifts `join_continuation` (Props/Reader.lean, clean pieces only) to statement
texts containing quotes, `!` and `&`, cut at ARBITRARY positions.

A continuation line is `[pre &] body [& post] [! cmt]` (`QLine.cont`, Proofs/Reader4Loop.lean).
What the code does, exactly:
* the text contributed by a line is `body`, verbatim: blanks before the trailing `&` and blanks
  after a leading `&` are KEPT; without a leading `&` the indentation of the line is part of
  `body`; `pre`, `post` and the comment are dropped;
* the statement text is `strip (b₁ ++ body₂ ++ … ++ bodyₙ)`;
* the quote character handed from line to line is `quoteStateAfter` of the text read so far
  (`hic_quote_state`, via `Splitline.splitquote_state` and `quoteStateAfter_append_quote`);
  because that state composes over EVERY cut when reading starts outside a literal, a cut
  between the two characters of a doubled quote is read back correctly too (see the witness
  `doubled_quote_cut_witness` for what does differ there).
Contents: (1) `hic_quote_state`, `join_continuation_quotes`, `cut_layout`,
`join_continuation_cut`; (2) `squeeze_layout_facts`, `read_layout_invariant`; (3) witnesses for
the shapes excluded by `QLine.ok`; `last_amp_ok_of_amp_in_literals`; (4) fixed form:
`fixed_items_quotes`, `fixed_items_quotes_src`, `fixed_trailing_blank_lost_witness`.
All statements are for every reader state / source of the stated shape (no bounds).
-/
namespace Fp.Reader
open Fp
open Fp.Splitline (QState qstep qrun qinit qfinal quoteStateAfter CutsDoubled)

/-! ## (1) one continued statement -/

/-- the quote state threaded through `handle_inline_comment` is the state of the quote automaton
    after the statement text read so far: if the lines before contributed `acc` (read from
    outside a literal), the line `[pre &] body [& post] [! cmt]` is handled with
    `quoteStateAfter none acc` and hands on `quoteStateAfter none (acc ++ body)`; the comment
    (arbitrary text: quotes, `&`, `!`) is split off, the rest of the line is returned verbatim. -/
theorem hic_quote_state (acc : Str) (lead : Option Str) (body post : Str) (cmt : Option Str)
    (more : Bool) (n : Nat)
    (hok : (QLine.cont lead body post cmt more).ok (quoteStateAfter none acc)) :
    handleInlineComment (QLine.cont lead body post cmt more).text n (quoteStateAfter none acc) =
      ⟨qcode lead body post more, quoteStateAfter none (acc ++ body), cmt.isSome,
       qcmtItems n (quoteStateAfter none acc) (.cont lead body post cmt more)⟩ := by
  have hq := quoteStateAfter_isQuote none (fun _ h => by cases h) acc
  rw [hic_qcont lead body post cmt more n _ hq hok,
    Fp.Splitline.quoteStateAfter_append_quote none acc body (fun _ h => by cases h)]

/-- C04/C05 `join_continuation_quotes`: a continued free-form statement

      [label] [name:] b1 & post1 [! cmt1]
      ( comment line | blank line | [pre &] body & post [! cmt] )*
      [pre &] body [! cmt]

    whose lines satisfy `WFq` (the exact per-line conditions `QLine.ok`, threaded with the quote
    state) is read by `_next` as exactly ONE `Line`: text `strip (b1 ++ joinBodies lines)` — the
    bodies verbatim, nothing else —, label and name of the first line, span = (first, last
    physical line). Exactly its lines are consumed; the queued comments are exactly the trailing
    comments and the comment lines, in source order, each with its own line number. -/
theorem join_continuation_quotes (r0 : Rd) (l1 l2 : Str) (ls rest : List Str) (t1 b1 post1 : Str)
    (cmt1 : Option Str) (lab : Option Nat) (nam : Option Str) (c : QLine) (cs : List QLine)
    (hfifo : r0.fifo = []) (h1 : r0.filo = []) (h2 : r0.closed = false) (h3 : r0.isFree = true)
    (h4 : r0.omp = false) (hsrc : r0.src = l1 :: l2 :: (ls ++ rest))
    (hcpp : startsWith (lstrip (cook l1)) ['#'] = false)
    (hlab : extractLabel (cook l1) = (lab, t1))
    (hnam : extractName t1 = (nam, (firstLine b1 post1 cmt1).text))
    (hb1 : FirstOk b1 post1 cmt1) (hc2 : cook l2 = c.text) (hck : CookedQ ls cs)
    (hw : WFq (quoteStateAfter none b1) (c :: cs))
    (hne : strip (b1 ++ joinBodies (c :: cs)) ≠ [])
    (hsemi : (stringReplaceMap (strip (b1 ++ joinBodies (c :: cs))) true).1.contains ';' = false) :
    next1 r0 =
      (.ok (.line (strip (b1 ++ joinBodies (c :: cs))) lab nam (r0.linecount + 1)
              (r0.linecount + 2 + cs.length)),
       { r0 with src := rest, linecount := r0.linecount + 2 + cs.length,
                 linesRev := ((l1 :: l2 :: ls).map cook).reverse ++ r0.linesRev,
                 fifo := qcmtItems (r0.linecount + 1) none (firstLine b1 post1 cmt1) ++
                         joinCommentsQ (r0.linecount + 2) (quoteStateAfter none b1) (c :: cs) }) := by
  have hg := getSourceItem_joinQ r0 l1 l2 ls rest t1 b1 post1 cmt1 lab nam c cs hfifo h1 h2 h3 h4
    hsrc hcpp hlab hnam hb1 hc2 hck hw hne
  refine next1_of_getSourceItem r0 _ _ hfifo hg (by simp [Item.isComment]) ?_
  intro text l nm s e hv
  simp only [Item.lineView, Option.some.injEq, Prod.mk.injEq] at hv
  rw [← hv.1]; exact hsemi

/-- the statement text `T = b1 ++ p₁ ++ … ++ pₙ` cut at ARBITRARY positions (inside literals,
    between the two characters of a doubled quote, anywhere): the only global condition is
    "`!` occurs in `T` only inside character literals" (`bangFree`); `&` and quotes are free.
    The local conditions `CutsOk` are those of `QLine.okLoc` (none mentions `!` inside the
    pieces) plus "blanks are inserted in front of a piece only at a cut outside a literal".
    Then the layout satisfies `WFq`, the text read back has the squeeze of `T`, is balanced iff
    `T` is, and IS `T` when no blanks are inserted. -/
theorem cut_layout (b1 post1 : Str) (cmt1 : Option Str) (cuts : List CutLine) (T : Str)
    (hT : T = b1 ++ cutPieces cuts) (hbang : bangFree .outside T = true)
    (hpost1 : AllSpace post1) (hcmt1 : cmt1.isSome = true → quoteStateAfter none b1 = none)
    (hcuts : CutsOk (quoteStateAfter none b1) cuts) :
    FirstOk b1 post1 cmt1 ∧
    WFq (quoteStateAfter none b1) (cutLines cuts) ∧
    squeeze (b1 ++ joinBodies (cutLines cuts)) = squeeze T ∧
    quoteStateAfter none (b1 ++ joinBodies (cutLines cuts)) = quoteStateAfter none T ∧
    ((∀ x ∈ cuts, x.ind = []) → b1 ++ joinBodies (cutLines cuts) = T) := by
  have hq0 : ∀ c, (none : Option Char) = some c → isQuote c = true := fun _ h => by cases h
  have hq1 := quoteStateAfter_isQuote none hq0 b1
  have haux := cut_squeeze_aux cuts _ hq1 hcuts
  have hjb := cut_bodies cuts _ hcuts
  subst hT
  have hb := hbang
  rw [show QState.outside = qinit none from rfl, bangFree_thread none hq0, Bool.and_eq_true] at hb
  refine ⟨⟨hpost1, hb.1, hcmt1⟩, ?_, ?_, ?_, ?_⟩
  · refine wfq_of_loc _ _ hq1 (cut_wfloc cuts _ hq1 hcuts) ?_
    rw [hjb, haux.2.1]; exact hb.2
  · unfold squeeze
    rw [show QState.outside = qinit none from rfl, squeezeFrom_thread none hq0,
      squeezeFrom_thread none hq0, hjb, haux.1]
  · rw [Fp.Splitline.quoteStateAfter_append_quote none _ _ hq0,
      Fp.Splitline.quoteStateAfter_append_quote none b1 (cutPieces cuts) hq0, hjb, haux.2.2]
  · intro hind
    rw [cut_bodies_exact cuts _ hcuts hind]

/-- C04/C05 `join_continuation_cut`: `join_continuation_quotes` for a statement text `T` cut at
    arbitrary positions (hypotheses on `T`, not on the lines). When no blanks are inserted in
    front of the pieces the `Line` text is `strip T`: every character of `T`, in particular of
    every character literal crossing a line end, is kept. In general the text has the squeeze
    of `T`. -/
theorem join_continuation_cut (r0 : Rd) (l1 l2 : Str) (ls rest : List Str) (t1 b1 post1 : Str)
    (cmt1 : Option Str) (lab : Option Nat) (nam : Option Str) (cuts : List CutLine) (T : Str)
    (c : QLine) (cs : List QLine)
    (hfifo : r0.fifo = []) (h1 : r0.filo = []) (h2 : r0.closed = false) (h3 : r0.isFree = true)
    (h4 : r0.omp = false) (hsrc : r0.src = l1 :: l2 :: (ls ++ rest))
    (hcpp : startsWith (lstrip (cook l1)) ['#'] = false)
    (hlab : extractLabel (cook l1) = (lab, t1))
    (hnam : extractName t1 = (nam, (firstLine b1 post1 cmt1).text))
    (hT : T = b1 ++ cutPieces cuts) (hbang : bangFree .outside T = true)
    (hpost1 : AllSpace post1) (hcmt1 : cmt1.isSome = true → quoteStateAfter none b1 = none)
    (hcuts : CutsOk (quoteStateAfter none b1) cuts)
    (hlines : cutLines cuts = c :: cs) (hc2 : cook l2 = c.text) (hck : CookedQ ls cs)
    (hne : strip (b1 ++ joinBodies (c :: cs)) ≠ [])
    (hsemi : (stringReplaceMap (strip (b1 ++ joinBodies (c :: cs))) true).1.contains ';' = false) :
    next1 r0 =
      (.ok (.line (strip (b1 ++ joinBodies (c :: cs))) lab nam (r0.linecount + 1)
              (r0.linecount + 2 + cs.length)),
       { r0 with src := rest, linecount := r0.linecount + 2 + cs.length,
                 linesRev := ((l1 :: l2 :: ls).map cook).reverse ++ r0.linesRev,
                 fifo := qcmtItems (r0.linecount + 1) none (firstLine b1 post1 cmt1) ++
                         joinCommentsQ (r0.linecount + 2) (quoteStateAfter none b1) (c :: cs) }) ∧
    squeeze (b1 ++ joinBodies (c :: cs)) = squeeze T ∧
    ((∀ x ∈ cuts, x.ind = []) → strip (b1 ++ joinBodies (c :: cs)) = strip T) := by
  obtain ⟨k1, k2, k3, _, k5⟩ := cut_layout b1 post1 cmt1 cuts T hT hbang hpost1 hcmt1 hcuts
  rw [hlines] at k2 k3 k5
  exact ⟨join_continuation_quotes r0 l1 l2 ls rest t1 b1 post1 cmt1 lab nam c cs hfifo h1 h2 h3 h4
    hsrc hcpp hlab hnam k1 hc2 hck k2 hne hsemi, k3, fun h => by rw [k5 h]⟩

/-! ## (2) layout invariance -/

/-- `squeeze` is what a layout can change: `strip` (balanced text) and blanks inserted at a
    position outside a character literal leave it unchanged. -/
theorem squeeze_layout_facts :
    (∀ t, quoteStateAfter none t = none → squeeze (strip t) = squeeze t) ∧
    (∀ a w b, AllSpace w → quoteStateAfter none a = none → squeeze (a ++ (w ++ b)) = squeeze (a ++ b)) :=
  ⟨squeeze_strip, fun a w b hw ha => squeezeFrom_insert .outside trivial a w b hw ha⟩

/-- C04 `read_layout_invariant`: `stmts` is a list of statements `(T, label, name)`; `cs₁` and
    `cs₂` are two layouts of it (`LayoutOf`: chunk by chunk a statement item with the same label
    and name whose text has the squeeze of `T` — `qstmt_realizes`: `T` on one line with any
    trailing comment; `qcont_realizes` + `cut_layout`: `T` cut anywhere, any indentation,
    comments, blank lines). Whatever the two readers' `ignore_comments` flags, both drains
    succeed and their non-comment items have the SAME squeezed cores (kind, squeezed text, label,
    name, in order), namely those of `stmts`. -/
theorem read_layout_invariant (d d' : Nat) (fs fs' : Fs)
    (stmts : List (Str × Option Nat × Option Str)) (cs₁ cs₂ : List Chunk) (r₁ r₂ : Rd)
    (hl₁ : LayoutOf stmts cs₁) (hl₂ : LayoutOf stmts cs₂)
    (hok₁ : ∀ c ∈ cs₁, c.ok false) (hok₂ : ∀ c ∈ cs₂, c.ok false)
    (ho₁ : r₁.omp = false) (hfifo₁ : r₁.fifo = []) (hfilo₁ : r₁.filo = [])
    (hcl₁ : r₁.closed = false) (hfree₁ : r₁.isFree = true) (hsrc₁ : r₁.src = srcOf cs₁)
    (ho₂ : r₂.omp = false) (hfifo₂ : r₂.fifo = []) (hfilo₂ : r₂.filo = [])
    (hcl₂ : r₂.closed = false) (hfree₂ : r₂.isFree = true) (hsrc₂ : r₂.src = srcOf cs₂)
    (hni₁ : ∀ x ∈ chunkItems r₁.ignoreComments r₁.linecount cs₁, NoInc x)
    (hni₂ : ∀ x ∈ chunkItems r₂.ignoreComments r₂.linecount cs₂, NoInc x) :
    ∃ xs₁ xs₂ fin₁ fin₂,
      Drains (d + 1) fs [r₁] (evItems xs₁) fin₁ ∧ Drains (d' + 1) fs' [r₂] (evItems xs₂) fin₂ ∧
      (xs₁.filter (fun x => !x.isComment)).map sqCore = stmts.map stmtCore ∧
      (xs₂.filter (fun x => !x.isComment)).map sqCore = stmts.map stmtCore := by
  refine ⟨_, _, _, _,
    drains_chunks d fs false cs₁ r₁ hok₁ ho₁ hfifo₁ hfilo₁ hcl₁ hfree₁ hsrc₁ hni₁,
    drains_chunks d' fs' false cs₂ r₂ hok₂ ho₂ hfifo₂ hfilo₂ hcl₂ hfree₂ hsrc₂ hni₂, ?_, ?_⟩
  · rw [chunkItems_filter_true]; exact chunkItems_realizes stmts cs₁ _ false hl₁ hok₁
  · rw [chunkItems_filter_true]; exact chunkItems_realizes stmts cs₂ _ false hl₂ hok₂

/-! ## non-vacuity -/

/-- instance of `join_continuation_quotes`: label, construct name, a doubled quote, a `!` and a
    `&` inside a literal, a trailing comment with an unbalanced quote on the first line, a comment
    line, a blank line, a literal cut by the continuation, a trailing comment with an unbalanced
    quote on the last line -/

def q4src : List Str :=
  ["10 nm: x = 'it''s ! &' // & ! c 'q".toList, "  ! mid".toList, "".toList, "   & 'ab&".toList,
   "  &cd' ! trail \"".toList, "y=1".toList]

example :
    next1 (Rd.mk' q4src true false false false []) =
      (.ok (.line "x = 'it''s ! &' //  'abcd'".toList (some 10) (some "nm".toList) 1 5),
       { Rd.mk' q4src true false false false [] with
         src := ["y=1".toList], linecount := 5,
         linesRev := ["  &cd' ! trail \"".toList, "   & 'ab&".toList, [], "  ! mid".toList,
                      "10 nm: x = 'it''s ! &' // & ! c 'q".toList],
         fifo := [.comment "! c 'q".toList 1 1 false, .comment "! mid".toList 2 2 false,
                  .comment "! trail \"".toList 5 5 false] }) := by
  have h := join_continuation_quotes (Rd.mk' q4src true false false false [])
    "10 nm: x = 'it''s ! &' // & ! c 'q".toList "  ! mid".toList
    ["".toList, "   & 'ab&".toList, "  &cd' ! trail \"".toList] ["y=1".toList]
    "nm: x = 'it''s ! &' // & ! c 'q".toList "x = 'it''s ! &' // ".toList " ".toList (some " c 'q".toList)
    (some 10) (some "nm".toList)
    (.comment "  ! mid".toList)
    [.blank, .cont (some "   ".toList) " 'ab".toList [] none true,
     .cont (some "  ".toList) "cd' ".toList [] (some " trail \"".toList) false]
    rfl rfl rfl rfl rfl rfl (by decide) (by decide) (by decide)
    (by unfold FirstOk AllSpace; decide) (by decide)
    (CookedQ.cons (by decide) (CookedQ.cons (by decide) (CookedQ.cons (by decide) CookedQ.nil)))
    (by simp only [WFq, QLine.ok, QLine.isLast, QLine.next, AllSpace]; decide)
    (by decide) (by decide +kernel)
  rw [h]
  decide +kernel


/-- `T = x = 'a!b&c''d' // 'e'` cut inside the literal, between the two characters of the
    doubled quote, and at a token boundary -/
def cutSrc : List Str :=
  ["x = 'a!b&".toList, "   &&c'&".toList, "! between".toList, "  &'d' // & ! t".toList, "    'e'".toList,
   "y=1".toList]

def cutDemo : List CutLine :=
  [⟨[], some "   ".toList, [], "&c'".toList, [], none⟩,
   ⟨[.comment "! between".toList], some "  ".toList, [], "'d' // ".toList, " ".toList, some " t".toList⟩,
   ⟨[], none, "    ".toList, "'e'".toList, [], none⟩]

example : cutLines cutDemo =
    [.cont (some "   ".toList) "&c'".toList [] none true, .comment "! between".toList,
     .cont (some "  ".toList) "'d' // ".toList " ".toList (some " t".toList) true,
     .cont none "    'e'".toList [] none false] := by decide

example :
    (next1 (Rd.mk' cutSrc true false false false [])).1 =
      .ok (.line "x = 'a!b&c''d' //     'e'".toList none none 1 5) ∧
    (next1 (Rd.mk' cutSrc true false false false [])).2.fifo =
      [.comment "! between".toList 3 3 false, .comment "! t".toList 4 4 false] ∧
    squeeze "x = 'a!b&c''d' //     'e'".toList = squeeze "x = 'a!b&c''d' // 'e'".toList := by
  have h := join_continuation_cut (Rd.mk' cutSrc true false false false [])
    "x = 'a!b&".toList "   &&c'&".toList
    ["! between".toList, "  &'d' // & ! t".toList, "    'e'".toList] ["y=1".toList]
    "x = 'a!b&".toList "x = 'a!b".toList [] none none none cutDemo "x = 'a!b&c''d' // 'e'".toList
    (.cont (some "   ".toList) "&c'".toList [] none true)
    [.comment "! between".toList,
     .cont (some "  ".toList) "'d' // ".toList " ".toList (some " t".toList) true,
     .cont none "    'e'".toList [] none false]
    rfl rfl rfl rfl rfl rfl (by decide) (by decide) (by decide) (by decide) (by decide)
    (by unfold AllSpace; decide) (by decide)
    (by simp only [cutDemo, CutsOk, SkipOk, CutLine.line, QLine.okLoc, AllSpace]; repeat' apply And.intro
        all_goals decide)
    (by decide)
    (by decide)
    (CookedQ.cons (by decide) (CookedQ.cons (by decide) (CookedQ.cons (by decide) CookedQ.nil)))
    (by decide) (by decide +kernel)
  refine ⟨?_, ?_, ?_⟩
  · rw [h.1]; decide +kernel
  · rw [h.1]; decide +kernel
  · have := h.2.1; simpa [joinBodies] using this


/-- two layouts of the statement list `[x = 'a b' // c ; 20 y = "&!"]` -/
def layA : List Chunk :=
  [qstmtChunk "x = 'a b' // c ! k".toList "x = 'a b' // c ".toList (some " k".toList) none none,
   qstmtChunk "20 y = \"&!\"".toList "y = \"&!\"".toList none (some 20) none]

def layB : List Chunk :=
  [qcontChunk "x = 'a &".toList "  &b' // & ! k 'k".toList ["".toList, "  c".toList]
     "x = 'a ".toList [] none none none
     (.cont (some "  ".toList) "b' // ".toList " ".toList (some " k 'k".toList) true)
     [.blank, .cont none "  c".toList [] none false],
   qcontChunk "20 y = &".toList "\"&&".toList ["  &!\"".toList]
     "y = ".toList [] none (some 20) none
     (.cont none "\"&".toList [] none true)
     [.cont (some "  ".toList) "!\"".toList [] none false]]

def layStmts : List (Str × Option Nat × Option Str) :=
  [("x = 'a b' // c".toList, none, none), ("y = \"&!\"".toList, some 20, none)]

theorem layA_ok : ∀ c ∈ layA, c.ok false := by
  intro c hc
  simp only [layA, List.mem_cons, List.not_mem_nil, or_false] at hc
  rcases hc with rfl | rfl
  · exact qstmtChunk_ok false _ "x = 'a b' // c ! k".toList _ _ _ _ (by decide) (fun h => by cases h)
      (by decide) (by decide) (by unfold SingleOk; decide) (by decide) (by decide +kernel)
  · exact qstmtChunk_ok false _ "y = \"&!\"".toList _ _ _ _ (by decide) (fun h => by cases h)
      (by decide) (by decide) (by unfold SingleOk; decide) (by decide) (by decide +kernel)

theorem layB_ok : ∀ c ∈ layB, c.ok false := by
  intro c hc
  simp only [layB, List.mem_cons, List.not_mem_nil, or_false] at hc
  rcases hc with rfl | rfl
  · exact qcontChunk_ok _ _ _ "x = 'a &".toList _ _ _ _ _ _ _ (by decide) (by decide) (by decide)
      (by unfold FirstOk AllSpace; decide) (by decide)
      (CookedQ.cons (by decide) (CookedQ.cons (by decide) CookedQ.nil))
      (by simp only [WFq, QLine.ok, QLine.isLast, QLine.next, AllSpace]; repeat' apply And.intro
          all_goals decide)
      (by decide) (by decide +kernel)
  · exact qcontChunk_ok _ _ _ "y = &".toList _ _ _ _ _ _ _ (by decide) (by decide) (by decide)
      (by unfold FirstOk AllSpace; decide) (by decide)
      (CookedQ.cons (by decide) CookedQ.nil)
      (by simp only [WFq, QLine.ok, QLine.isLast, QLine.next, AllSpace]; repeat' apply And.intro
          all_goals decide)
      (by decide) (by decide +kernel)

theorem layA_of : LayoutOf layStmts layA :=
  .cons (fun lc => ⟨_, _, _, rfl, by decide +kernel⟩) (.cons (qstmt_realizes _ _ _ _ _ (by decide)) .nil)

theorem layB_of : LayoutOf layStmts layB :=
  .cons (qcont_realizes _ _ _ _ _ _ _ _ _ _ _ (by decide) (by decide +kernel))
    (.cons (qcont_realizes _ _ _ _ _ _ _ _ _ _ _ (by decide) (by decide +kernel)) .nil)

example : chunkItems false 0 layB =
    [.line "x = 'a b' //   c".toList none none 1 4, .comment "! k 'k".toList 2 2 false,
     .line "y = \"&!\"".toList (some 20) none 5 7] := by decide +kernel


/-- instance of `read_layout_invariant`: `layA` (one line per statement) read with
    `ignore_comments`, `layB` (cut inside the literals, trailing comment, blank line) read
    keeping the comments -/
example : ∃ xs₁ xs₂ fin₁ fin₂,
    Drains 1 [] [Rd.mk' (srcOf layA) true true false false []] (evItems xs₁) fin₁ ∧
    Drains 1 [] [Rd.mk' (srcOf layB) true false false false []] (evItems xs₂) fin₂ ∧
    (xs₁.filter (fun x => !x.isComment)).map sqCore = layStmts.map stmtCore ∧
    (xs₂.filter (fun x => !x.isComment)).map sqCore = layStmts.map stmtCore := by
  refine read_layout_invariant 0 0 [] [] layStmts layA layB _ _ layA_of layB_of layA_ok layB_ok
    rfl rfl rfl rfl rfl rfl rfl rfl rfl rfl rfl rfl ?_ ?_
  · intro x hx
    have : chunkItems true 0 layA =
        [.line "x = 'a b' // c".toList none none 1 1, .line "y = \"&!\"".toList (some 20) none 2 2] := by
      decide +kernel
    simp only [Rd.mk', Bool.false_eq_true, if_false] at hx
    rw [this] at hx
    simp only [List.mem_cons, List.not_mem_nil, or_false] at hx
    rcases hx with rfl | rfl <;>
      (intro text l n s e hv
       simp only [Item.lineView, Option.some.injEq, Prod.mk.injEq] at hv
       rw [← hv.1]; decide +kernel)
  · intro x hx
    have : chunkItems false 0 layB =
        [.line "x = 'a b' //   c".toList none none 1 4, .comment "! k 'k".toList 2 2 false,
         .line "y = \"&!\"".toList (some 20) none 5 7] := by decide +kernel
    simp only [Rd.mk', Bool.false_eq_true, if_false] at hx
    rw [this] at hx
    simp only [List.mem_cons, List.not_mem_nil, or_false] at hx
    rcases hx with rfl | rfl | rfl
    · intro text l n s e hv
      simp only [Item.lineView, Option.some.injEq, Prod.mk.injEq] at hv
      rw [← hv.1]; decide +kernel
    · exact NoInc.comment _ _ _ _
    · intro text l n s e hv
      simp only [Item.lineView, Option.some.injEq, Prod.mk.injEq] at hv
      rw [← hv.1]; decide +kernel

/-! ## (3) witnesses for the excluded shapes -/

/-- excluded by `QLine.ok` (2): a continuation line WITHOUT leading `&` inside a literal whose
    first non-blank character is `&`. Intended text `x = 'ab` ++ `   &cd'`; the `&` is taken for a
    leading `&` and the four characters `   &` of the literal are lost. -/
theorem literal_cont_amp_misread_witness :
    evTexts (drainEv 3 [] 10 (mkFree ["x = 'ab&", "   &cd'"])) = ["x = 'abcd'"] ∧
    ¬ (QLine.cont none "   &cd'".toList [] none false).ok (some '\'') ∧
    (QLine.cont (some "   ".toList) "cd'".toList [] none false).ok (some '\'') := by
  refine ⟨by decide +kernel, ?_, ?_⟩
  · simp only [QLine.ok]; decide
  · simp only [QLine.ok, AllSpace]; repeat' apply And.intro
    all_goals decide

/-- excluded by `QLine.ok` (2): a continuation line WITHOUT leading `&` inside a literal whose
    first non-blank character is `!`: the line is taken for a comment line (the rest of the
    literal becomes a Comment) and the statement goes on with the NEXT line. -/
theorem literal_cont_bang_misread_witness :
    evTexts (drainEv 3 [] 10 (mkFree ["x = 'ab&", "  !cd'", "y = 1"] false)) =
      ["x = 'aby = 1", "!!cd'"] ∧
    ¬ (QLine.cont none "  !cd'".toList [] none false).ok (some '\'') := by
  refine ⟨by decide +kernel, ?_⟩
  simp only [QLine.ok]; decide

/-- excluded by `QLine.ok` (6): a "trailing comment" after a cut inside a literal is text of the
    literal, and the `&` before it is no continuation mark: the statement ends on that line. -/
theorem literal_trailing_comment_witness :
    evTexts (drainEv 3 [] 10 (mkFree ["x = 'ab & ! no", "  &cd'"] false)) =
      ["x = 'ab & ! no", "&cd'"] ∧
    ¬ (QLine.cont none "x = 'ab ".toList " ".toList (some " no".toList) true).ok none := by
  refine ⟨by decide +kernel, ?_⟩
  simp only [QLine.ok]; decide

/-- a cut between the two characters of a doubled quote. With a leading `&` on the next line
    the text is read back EXACTLY (the quote state composes over every cut:
    `quoteStateAfter_append_quote`), so this cut need not be excluded from
    `join_continuation_cut`. What `¬ CutsDoubled` is needed for is INSERTED BLANKS: at that cut
    the code's quote state is `none`, so indentation without leading `&` is accepted and the ONE
    literal `'it''s'` becomes the TWO literals `'it'  's'` — which `squeeze` cannot tell apart. -/
theorem doubled_quote_cut_witness :
    CutsDoubled none "x = 'it'".toList "'s'".toList ∧
    evTexts (drainEv 3 [] 10 (mkFree ["x = 'it'&", "  &'s'"])) = ["x = 'it''s'"] ∧
    evTexts (drainEv 3 [] 10 (mkFree ["x = 'it'&", "  's'"])) = ["x = 'it'  's'"] ∧
    squeeze "x = 'it'  's'".toList = squeeze "x = 'it''s'".toList ∧
    (splitquote "x = 'it''s'".toList none).1 = [.plain "x = ".toList, .quoted "'it''s'".toList] ∧
    (splitquote "x = 'it'  's'".toList none).1 =
      [.plain "x = ".toList, .quoted "'it'".toList, .plain "  ".toList, .quoted "'s'".toList] := by
  refine ⟨⟨'\'', by decide, by decide⟩, by decide +kernel, by decide +kernel, by decide +kernel,
    by decide +kernel, by decide +kernel⟩

/-- `QLine.ok` (4) on the last line: a line that is only `&` is a continuation mark, the
    statement swallows the next line -/
theorem last_line_amp_witness :
    evTexts (drainEv 3 [] 10 (mkFree ["x = a &", "   &", "y = 1"])) = ["x = a    y = 1"] ∧
    ¬ (QLine.cont (some "   ".toList) [] [] none false).ok none := by
  refine ⟨by decide +kernel, ?_⟩
  simp only [QLine.ok]; decide

/-! ## `&` only inside character literals -/

/-- the last-line condition (4) of `QLine.ok` follows from the hypotheses of property C04: if
    `&` occurs in the body of the last line only inside character literals (`ampFree`) and the
    body ends outside a literal, then the last `&` of the line is followed by the closing
    delimiter of its literal, hence is no continuation mark. With a leading `&` the body must
    not be blank (`last_line_amp_witness`). -/
theorem last_amp_ok_of_amp_in_literals (q : Option Char) (hq : ∀ c, q = some c → isQuote c = true)
    (lead : Option Str) (body : Str) (hl : AllSpace (lead.getD []))
    (ha : ampFree (qinit q) body = true) (hbal : quoteStateAfter q body = none)
    (hlead : lead.isSome = true → rstrip body ≠ []) : lastAmpOk (leadTxt lead ++ body) :=
  lastAmpOk_of_ampFree q hq lead body hl ha hbal hlead

example : ampFree (qinit (some '\'')) "b&c' // 'd&'".toList = true ∧
    quoteStateAfter (some '\'') "b&c' // 'd&'".toList = none ∧
    lastAmpOk (leadTxt (some "  ".toList) ++ "b&c' // 'd&'".toList) := by decide

/-! ## (4) fixed form: character literals crossing the line wrap -/

/-- C05 `fixed_items_quotes` (generalises `fixed_items`: the statement fields may contain
    character literals, also literals that cross the wrap, and `!` inside them): ONE statement,
    ANY reader state. `FollowOkQ`: every follow line is a comment line or a continuation line
    whose columns 7… contain `!` only inside literals, the quote state being handed from line to
    line (`quoteStateAfter`). The `Line` text is `strip` of the columns 7… of the initial line
    followed by the columns 7… of the continuation lines, VERBATIM: every character of a
    literal that reaches `get_source_item` is kept. -/
theorem fixed_items_quotes (r0 r1 r_end r_fin : Rd) (line line' : Str) (lab : Option Nat)
    (nam : Option Str) (ls : List (Str × Nat)) (nxt : Option Str)
    (hg : getSingleLine r0 = (some line, r1)) (hfx : r1.isFree = false)
    (hcpp : startsWith (lstrip line) ['#'] = false) (hnc : isFixCommentS line = false)
    (hcol : colCheck line = .fine)
    (hlab : fixedLabel line = some lab) (hnam : fixedName line = (nam, line'))
    (hcl : bangFree .outside (line'.drop 6) = true) (hne : strip (line'.drop 6) ≠ [])
    (hr : ReadsAt r1 ls r_end) (hok : FollowOkQ (quoteStateAfter none (line'.drop 6)) ls)
    (hn : getSingleLine r_end = (nxt, r_fin))
    (hstop : (isFixCont nxt || isFixComment nxt) = false) :
    getSourceItem r0 =
      (.ok (.line (strip (line'.drop 6 ++ fixPieces ls)) lab nam r1.linecount (fixEnd r1.linecount ls)),
       unread { r_fin with fifo := r1.fifo ++ fixComments ls } nxt) ∧
    (r0.fifo = [] →
     (stringReplaceMap (strip (line'.drop 6 ++ fixPieces ls)) true).1.contains ';' = false →
     next1 r0 =
      (.ok (.line (strip (line'.drop 6 ++ fixPieces ls)) lab nam r1.linecount (fixEnd r1.linecount ls)),
       unread { r_fin with fifo := r1.fifo ++ fixComments ls } nxt)) := by
  have h := getSourceItem_fixedQ r0 r1 r_end r_fin line line' lab nam ls nxt hg hfx hcpp hnc hcol hlab
    hnam hcl hne hr hok hn hstop
  refine ⟨h, fun hfifo hsemi => ?_⟩
  refine next1_of_getSourceItem r0 _ _ hfifo h (by simp [Item.isComment]) ?_
  intro text l nm s e hv
  simp only [Item.lineView, Option.some.injEq, Prod.mk.injEq] at hv
  rw [← hv.1]; exact hsemi

/-- C05 `fixed_items_quotes` with the follow lines given as physical source lines (as
    `fixed_items_src`), and `fixed_literal_kept`: when the physical follow lines contain no tab,
    no `\xa0` and NO TRAILING WHITE SPACE (`Cooked1`), the text is `strip` of the columns 7… of
    the initial line followed by the columns 7… of the PHYSICAL continuation lines — a literal
    crossing the wrap keeps every character. (With trailing white space it does not:
    `fixed_trailing_blank_lost_witness`.) -/
theorem fixed_items_quotes_src (r0 r1 : Rd) (line line' : Str) (lab : Option Nat) (nam : Option Str)
    (ls rest : List Str)
    (hg : getSingleLine r0 = (some line, r1)) (hp : FixedPlain r1) (hsrc : r1.src = ls ++ rest)
    (hcpp : startsWith (lstrip line) ['#'] = false) (hnc : isFixCommentS line = false)
    (hcol : colCheck line = .fine)
    (hlab : fixedLabel line = some lab) (hnam : fixedName line = (nam, line'))
    (hcl : bangFree .outside (line'.drop 6) = true) (hne : strip (line'.drop 6) ≠ [])
    (hfol : FollowOkQ (quoteStateAfter none (line'.drop 6)) (surf r1.ignoreComments r1.linecount ls))
    (hnx : stopsAt rest = true) :
    getSourceItem r0 =
      (.ok (.line (strip (line'.drop 6 ++ srcPieces ls)) lab nam r1.linecount
              (srcEnd r1.linecount r1.linecount ls)),
       afterStmt r1 ls rest (r1.fifo ++ srcComments r1.ignoreComments r1.linecount ls)) ∧
    ((∀ l ∈ ls, Cooked1 l) →
      srcPieces ls = (ls.map fun l => if isFixCommentS l then [] else l.drop 6).flatten) :=
  ⟨getSourceItem_fixed_srcQ r0 r1 line line' lab nam ls rest hg hp hsrc hcpp hnc hcol hlab hnam hcl hne
    hfol hnx, srcPieces_cooked ls⟩

/-- instance of `fixed_items_quotes_src`: label, a literal with `!` crossing the wrap twice, a
    doubled quote at the wrap, a comment line between the continuation lines -/
def fxqSrc : List Str :=
  ["   10 x = 'a!b".toList, "c note".toList, "     +c''".toList, "     &d' // 'e'".toList,
   "      y = 1".toList]

example : getSourceItem (Rd.mk' fxqSrc false false false false []) =
    (.ok (.line "x = 'a!bc''d' // 'e'".toList (some 10) none 1 4),
     { Rd.mk' fxqSrc false false false false [] with
       src := [], filo := ["      y = 1".toList], linecount := 4, linesRev := fxqSrc.reverse,
       fifo := [.comment "c note".toList 2 2 false] }) := by
  have h := (fixed_items_quotes_src (Rd.mk' fxqSrc false false false false [])
    (adv (Rd.mk' fxqSrc false false false false []) ["   10 x = 'a!b".toList] (fxqSrc.drop 1))
    "   10 x = 'a!b".toList "   10 x = 'a!b".toList (some 10) none
    ((fxqSrc.drop 1).take 3) ["      y = 1".toList]
    (by decide +kernel) ⟨rfl, rfl, rfl, rfl⟩ (by decide +kernel) (by decide +kernel) (by decide +kernel)
    (by decide +kernel) (by decide +kernel) (by decide +kernel) (by decide +kernel) (by decide +kernel)
    (by decide +kernel)
    (by decide +kernel)).1
  rw [h]
  decide +kernel

/-- the excluded shape of `fixed_literal_kept`: every physical line is right-stripped by
    `get_single_line`, so a blank at the very END of a physical line inside a literal is lost
    (`'ab ` + `cd'` is read as `'abcd'`); the same blank at the START of the continuation line
    is kept. -/
theorem fixed_trailing_blank_lost_witness :
    evTexts (drainEv 3 [] 10 (mkFixed ["      x = 'ab ", "     +cd'"])) = ["x = 'abcd'"] ∧
    evTexts (drainEv 3 [] 10 (mkFixed ["      x = 'ab", "     + cd'"])) = ["x = 'ab cd'"] ∧
    ¬ Cooked1 "      x = 'ab ".toList := by
  refine ⟨by decide +kernel, by decide +kernel, fun h => ?_⟩
  have := h.last ' ' "ba' = x      ".toList (by decide)
  revert this; decide

/-- the same loss in free form: blanks after the trailing `&` are dropped by design, but a
    blank BEFORE the `&` is kept, so free form keeps every character of the literal -/
example : evTexts (drainEv 3 [] 10 (mkFree ["x = 'ab &   ", "  &cd'"])) = ["x = 'ab cd'"] := by
  decide +kernel

end Fp.Reader
