"""Translator for the C-preprocessor directive model (lean/FparserModel/Cpp.lean): read the LIVE
classes of `fparser.two.C99Preprocessor` (and the helpers they use) and write
lean/FparserModel/Generated/CppTables.lean:

  data         CPP_CLASS_NAMES; per class its base class, registered subclasses, use_names; every
               regular expression used (pattern text, flags, Pattern.value) - read from the imported
               objects (`Cpp_If_Stmt._if_pattern.pattern`, `Cpp_Include_Stmt._regex.pattern`,
               `pattern_tools.macro_name`, ...), never re-typed here; the normalised source
               (`ast.unparse` without docstrings) of every `match` / `tostr` of the module and of
               the helpers `WORDClsBase.match`, `StringBase.match`, `isalnum`,
               `Include_Filename.match`;
  obligations  (kernel-checked in the generated file, so an edit of the repo breaks the build)
               * each live pattern/flags/value = the constant of `Fp.Cpp.Spec` that the hand
                 scanner of the model is written for;   * class order = `Fp.Cpp.realOrder`;
               * no registered subclasses, expected base classes;
               * each normalised source = the text recorded in `Fp.Cpp.Spec.sources`;
               * regex tables: the live compiled regex against the hand scanner on every word of a
                 few pieces of a per-regex alphabet (`decide +kernel`);
               * class table: the live outcome (class, items, str()) of all twelve classes on a fixed
                 list of sample lines against `Fp.Cpp.matchCls` (`decide +kernel`).
"""
import ast
import inspect
import itertools
import os
import re
import sys
import textwrap

from fv import repo

SEP = "\x00"


def live():
    repo.activate()
    from fparser.two.parser import ParserFactory
    ParserFactory().create(std="f2008")
    from fparser.two import C99Preprocessor as C
    from fparser.two import Fortran2003 as F
    from fparser.two import pattern_tools as pt
    from fparser.two import utils
    return C, F, pt, utils


def lean_str(s):
    out = ['"']
    for ch in s:
        o = ord(ch)
        if ch == "\\":
            out.append("\\\\")
        elif ch == '"':
            out.append('\\"')
        elif ch == "\n":
            out.append("\\n")
        elif ch == "\t":
            out.append("\\t")
        elif 32 <= o < 127:
            out.append(ch)
        elif o < 256:
            out.append("\\x%02x" % o)
        else:
            out.append("\\u{%x}" % o)
    out.append('"')
    return "".join(out)


def lean_chars(s):
    return "[" + ",".join("Char.ofNat %d" % ord(c) for c in s) + "]"


def lean_opt(v):
    return "none" if v is None else "some " + lean_str(v)


# ------------------------------------------------------------------------------------------ patterns
def pattern_rows():
    """(Spec constant, description, pattern text, flags, value)"""
    C, F, pt, _ = live()

    def P(p):      # pattern_tools.Pattern
        return p.pattern, int(p._flags), p.value      # pylint: disable=protected-access

    def R(r):      # compiled re
        return r.pattern, int(r.flags & ~re.UNICODE), None
    rows = [
        ("ifP", "Cpp_If_Stmt._if_pattern", P(C.Cpp_If_Stmt._if_pattern)),
        ("ifdefP", "Cpp_If_Stmt._def_pattern[0]", P(C.Cpp_If_Stmt._def_pattern[0])),
        ("ifndefP", "Cpp_If_Stmt._def_pattern[1]", P(C.Cpp_If_Stmt._def_pattern[1])),
        ("ifRegexR", "Cpp_If_Stmt._regex", R(C.Cpp_If_Stmt._regex)),
        ("elifP", "Cpp_Elif_Stmt._pattern", P(C.Cpp_Elif_Stmt._pattern)),
        ("elseP", "Cpp_Else_Stmt._pattern", P(C.Cpp_Else_Stmt._pattern)),
        ("endifP", "Cpp_Endif_Stmt._pattern", P(C.Cpp_Endif_Stmt._pattern)),
        ("includeR", "Cpp_Include_Stmt._regex", R(C.Cpp_Include_Stmt._regex)),
        ("defineR", "Cpp_Macro_Stmt._regex", R(C.Cpp_Macro_Stmt._regex)),
        ("idListP", "Cpp_Macro_Identifier_List._pattern", P(C.Cpp_Macro_Identifier_List._pattern)),
        ("undefP", "Cpp_Undef_Stmt._pattern", P(C.Cpp_Undef_Stmt._pattern)),
        ("lineP", "Cpp_Line_Stmt._pattern", P(C.Cpp_Line_Stmt._pattern)),
        ("linemarkerP", "Cpp_Linemarker_Stmt._pattern", P(C.Cpp_Linemarker_Stmt._pattern)),
        ("errorP", "Cpp_Error_Stmt._pattern", P(C.Cpp_Error_Stmt._pattern)),
        ("warningP", "Cpp_Warning_Stmt._pattern", P(C.Cpp_Warning_Stmt._pattern)),
        ("macroNameP", "pattern_tools.macro_name", P(pt.macro_name)),
        ("absMacroNameP", "pattern_tools.abs_macro_name", P(pt.abs_macro_name)),
        ("fileNameP", "pattern_tools.file_name", P(pt.file_name)),
    ]
    extra = [("defPatternCount", len(C.Cpp_If_Stmt._def_pattern))]
    return rows, extra


# ------------------------------------------------------------------------------------------- sources
def norm_source(fn):
    """`ast.unparse` of the function without its docstring(s): comments, layout and docstrings do not
    matter, every other edit does"""
    fn = getattr(fn, "__func__", fn)
    fn = inspect.unwrap(fn)
    src = textwrap.dedent(inspect.getsource(fn))
    tree = ast.parse(src)
    for node in ast.walk(tree):
        if isinstance(node, (ast.FunctionDef, ast.AsyncFunctionDef)):
            body = node.body
            if body and isinstance(body[0], ast.Expr) and isinstance(getattr(body[0], "value", None), ast.Constant) \
                    and isinstance(body[0].value.value, str):
                node.body = body[1:] or [ast.Pass()]
            node.decorator_list = []
            node.returns = None
            for a in node.args.args + node.args.kwonlyargs:
                a.annotation = None
    return ast.unparse(tree)


def source_rows():
    C, F, _, utils = live()
    rows = [("match_cpp_directive", norm_source(C.match_cpp_directive))]
    names = ["Cpp_Pp_Tokens"] + list(C.CPP_CLASS_NAMES) + ["Cpp_Macro_Identifier", "Cpp_Macro_Identifier_List"]
    for name in names:
        cls = getattr(C, name)
        for meth in ("match", "tostr", "init", "__new__", "tofortran"):
            if meth in cls.__dict__:
                rows.append((name + "." + meth, norm_source(cls.__dict__[meth])))
    rows.append(("Include_Filename.match", norm_source(F.Include_Filename.__dict__["match"])))
    rows.append(("WORDClsBase.match", norm_source(utils.WORDClsBase.__dict__["match"])))
    rows.append(("StringBase.match", norm_source(utils.StringBase.__dict__["match"])))
    rows.append(("StringBase.init", norm_source(utils.StringBase.__dict__["init"])))
    rows.append(("StringBase.tostr", norm_source(utils.StringBase.__dict__["tostr"])))
    rows.append(("utils.isalnum", norm_source(utils.isalnum)))
    return rows


def class_rows():
    C, _, _, utils = live()
    rows = []
    for name in list(C.CPP_CLASS_NAMES) + ["Cpp_Pp_Tokens", "Cpp_Macro_Identifier", "Cpp_Macro_Identifier_List"]:
        cls = getattr(C, name)
        subs = [c.__name__ for c in utils.Base.subclasses.get(name, [])]
        rows.append((name, cls.__bases__[0].__name__, subs, list(getattr(cls, "use_names", []))))
    return rows


# -------------------------------------------------------------------------------------- regex tables
def regex_tables():
    """name -> (Lean scanner expression over `w`, oracle, alphabet pieces, max pieces)"""
    C, F, pt, _ = live()

    def grp(p):
        return lambda s: (lambda m: 0 if m is None else len(m.group()) + 1)(p.match(s))

    def yes(p):
        return lambda s: 1 if p.match(s) else 0
    t = {}

    def kw(name, kwd, pat, lean):
        t[name] = (lean, grp(pat), ["#", " ", kwd, kwd[:-1], "x", "_", "(", "\n"], 3)
    K = "code w (kwPrefix %s w)"
    kw("if", "if", C.Cpp_If_Stmt._if_pattern, K.replace("%s", "kIf"))
    kw("ifdef", "ifdef", C.Cpp_If_Stmt._def_pattern[0], K.replace("%s", "kIfdef"))
    kw("ifndef", "ifndef", C.Cpp_If_Stmt._def_pattern[1], K.replace("%s", "kIfndef"))
    kw("elif", "elif", C.Cpp_Elif_Stmt._pattern, K.replace("%s", "kElif"))
    kw("else", "else", C.Cpp_Else_Stmt._pattern, K.replace("%s", "kElse"))
    kw("endif", "endif", C.Cpp_Endif_Stmt._pattern, K.replace("%s", "kEndif"))
    kw("undef", "undef", C.Cpp_Undef_Stmt._pattern, K.replace("%s", "kUndef"))
    kw("line", "line", C.Cpp_Line_Stmt._pattern, K.replace("%s", "kLine"))
    kw("error", "error", C.Cpp_Error_Stmt._pattern, K.replace("%s", "kError"))
    kw("warning", "warning", C.Cpp_Warning_Stmt._pattern, K.replace("%s", "kWarning"))
    kw("include", "include", C.Cpp_Include_Stmt._regex, "code w (hashKw kInclude w)")
    kw("define", "define", C.Cpp_Macro_Stmt._regex, "code w (hashKw kDefine w)")
    t["ifmix"] = ("code w (kwPrefix kIf w)", grp(C.Cpp_If_Stmt._if_pattern), ["#", " ", "if", "def", "ndef", "\t", "!"], 4)
    IDL = "code w (idList w)"
    idl = grp(C.Cpp_Macro_Identifier_List._pattern)
    t["idlist_a"] = (IDL, idl, ["(", ")", " ", ",", "...", ".", "a", "_1"], 3)
    t["idlist_b"] = (IDL, idl, ["(", ")", " ", ",", "...", "a"], 4)
    t["idlist_c"] = (IDL, idl, ["(a", ")", " ", ",", "...", "b", ", "], 4)
    t["idlist_d"] = (IDL, idl, ["(a,", " ", "...", ".", ")", "b", ","], 4)
    LM = "codeG (linemarker w)"
    lm = grp(C.Cpp_Linemarker_Stmt._pattern)
    t["linemarker_a"] = (LM, lm, ["# ", "#", "1 ", "1", "\"", "a", "\n", " "], 3)
    t["linemarker_b"] = (LM, lm, ["# 1 ", "\"", "a", "\n", " ", "#", "1"], 4)
    t["linemarker_c"] = (LM, lm, ["# 1 \"", "\"", "a", "\n", " ", "\t", "x\""], 4)
    t["macroname"] = ("code w ((macroNamePrefix w).map (·.2))", grp(pt.macro_name), ["a", "Z", "_", "1", " ", "-"], 4)
    t["absmacroname"] = ("bit (absMacroName w)", yes(pt.abs_macro_name), ["a", "Z", "_", "1", " ", "\n"], 4)
    t["filename_a"] = ("bit (fileName w)", yes(pt.file_name), ["a", " ", "\n", "\"", "\t"], 4)
    t["filename_b"] = ("bit (fileName w)", yes(pt.file_name), ["ab", " ", "\n", "\"", "\t", "a"], 4)
    return t


def enum_words(alphabet, maxlen):
    for n in range(maxlen + 1):
        for tup in itertools.product(alphabet, repeat=n):
            yield "".join(tup)


# --------------------------------------------------------------------------------------- class table
SAMPLES = [
    "#if", "#ifdef", "#ifndef", "#elif", "#else", "#endif", "#include", "#define", "#undef", "#line", "#error", "#warning",
    "#", "# ", " #", "#\n", "##", "#foo", "# 12 \"file\"", "#12 \"file\"", "# 12 \"file\" 1 2", "#definex",
    "#ifdef X /* c */", "#ifdef X // c", "#undef X /* c */", "#include <f.h>", "#include \"f.h\"", "#include \"f.h\" // c",
    "#include FOO", "#define F( ...) x", "#define F(...) x", "#define F(a , b,...)x", "#define F (a)", "#if(x)", "#if!x",
    "#error\"x\"", "#include\"f\"", "#include<f>", "#define A(x)(x)", "#define A()", "#define A( )", "#IF x", "#Else",
    "#else foo", "  #  endif // X", "#pragma once", "#include_next <f>", "#ifdef X Y", "#define X\\n 1", "", " ", "\n",
    "x", "#if x\n", "#ifdef\tX", "#else_", "#else(", "#endif.", "#line 3 \"f\"", "# 1 \"a\"\n", "# 1 \"a\"\n\n", "#\t3\t\"a\"",
    "# 1 \"a\nb\"", "#\n1\n\"a\"", "#include \"a\n\"", "#include \"a\nb\"", "#define A(a\n)", "#error  a  b ", "#warning",
    "#if 1 /* c */", "#elif x // y", "#define EMPTY", "#define LONG 1 +    2 +    3", "#if A   && B",
    "#if defined(FOO) && BAR > 1", "#ifdef FOO", "#ifndef _OPENMP", "#elif BAR == 2", "#define FOO 1",
    "#define MAX(a,b) ((a)>(b)?(a):(b))", "#undef FOO", "#line 42 \"file.F90\"", "#error this is 'bad'",
    "#warning careful ! not a comment", "# 12 \"marker.f90\" 2", "#  define SPACED 2", "  #ifdef INDENTED", "#endif /* FOO */",
    " # if  X ", "#ifdef  _x1  ", "#ifdef 1x", "#undef\tA\t", "#undef", "#undef a b", "#line\t7", "#line x y", "#error ",
    "#warning\t", "#include \" a\"", "#include \"a \"", "#include \"\"", "#include <>", "#include \"a", "#include 'f'",
    "#include <a>b>", "#include  \"a b\"  ", "#define 1x", "#define a-b", "#define F(a b)", "#define F(a,)", "#define F(,a)",
    "#define F(a, ..)", "#define F(a...)", "#define F(a, ... , b)", "#define F(a,\t_b1 ) a+_b1", "#define F(a", "#define F(a)(b)",
    "#define  G  ( a )", "#define H()x", "#define H(...)", "#define H(... )", "#define é 1", "#  12  \"a\"  3", "# 1 \"", "# 1 a\"b\"",
    "# 1\"a\"", "#elif(x)", "#elif", "#elif ", "#else\n", "#endif\t", "#else//", "#endif/**/", "#if\tX\t", "#ifndef A.B",
    "#line\n3", "#error\n", "#ifdef\nX", "# define A 1", "#\tdefine\tA\t1\t", "#define A  1  2 ", "#DEFINE A", "#Include \"f\"",
    "#if_ x", "#if0", "#elif1", "#elsex", "#errors", "#warn x", "#lin 3", "#undefine X", "#includes \"f\"", "#define_ X",
]


def describe(o):
    """the live object as the text `encNode` of the generated file produces"""
    C, F, _, utils = live()
    if o is None:
        return "-"
    name = type(o).__name__
    text = str(o)

    def opt(v, f):
        return "-" if v is None else "+" + f(v)
    if isinstance(o, utils.WORDClsBase):
        kw, arg = o.items
        fields = ["word", kw, opt(arg, lambda a: a.tostr())]
    elif isinstance(o, utils.StringBase):
        fields = ["str", o.string]
    elif isinstance(o, C.Cpp_Include_Stmt):
        fields = ["include", o.items[0].string]
    elif isinstance(o, C.Cpp_Macro_Stmt):
        nm, pl, df = o.items
        fields = ["macro", nm.string, opt(pl, lambda a: a.string), opt(df, lambda a: a.items[0])]
    else:
        fields = ["null"]
    return SEP.join([name, text] + fields)


def class_table():
    C, _, _, utils = live()
    out = []
    for s in SAMPLES:
        row = []
        for name in C.CPP_CLASS_NAMES:
            try:
                o = getattr(C, name)(s)
            except utils.NoMatchError:
                o = None
            row.append(describe(o))
        out.append((s, row))
    return out


# --------------------------------------------------------------------------------------------- render
HEAD = '''import FparserModel.Cpp
/-!
GENERATED by fv/extract_cpp.py - do not edit.
Live facts of `fparser.two.C99Preprocessor` (class order, base classes, regular expressions, the
normalised source of every `match`/`tostr`), the kernel-checked obligations that they are the ones
the hand-written model `FparserModel/Cpp.lean` is written for (`Fp.Cpp.Spec`), tables of the live
compiled regexes replayed over the hand scanners, and a table of the live outcome of every class
on %(nsamples)d sample lines replayed over `Fp.Cpp.matchCls`.
The regular expressions:
%(regexes)s
-/
namespace Fp.CppTables
open Fp Fp.Cpp

/-! ## class order, base classes, subclasses -/
def classNames : List String := [%(classnames)s]

theorem classOrder_agrees : classNames = realOrder.map Cls.name := by decide

/-- (class, first base class, registered subclasses, use_names) -/
def classInfo : List (String × String × List String × List String) := [
%(classinfo)s]

theorem bases_agree : classInfo.map (fun i => (i.1, i.2.1)) = Spec.bases := by decide
theorem subclasses_empty : classInfo.all (fun i => i.2.2.1.isEmpty) = true := by decide
theorem use_names_agree : classInfo.map (fun i => (i.1, i.2.2.2)) = Spec.useNames := by decide

/-! ## regular expressions: (pattern, flags without re.UNICODE, Pattern.value) -/
%(patterns)s
/-! ## normalised sources -/
def sources : List (String × String) := [
%(sources)s]

theorem source_names_agree : sources.map (·.1) = Spec.sources.map (·.1) := by decide
%(sourcechecks)s
/-! ## regex tables -/
/-- words over an alphabet of pieces, by number of pieces, then lexicographic -/
def wordsL (alphabet : List Str) : Nat → List Str
  | 0 => [[]]
  | n+1 => alphabet.flatMap fun a => (wordsL alphabet n).map fun w => a ++ w
def enumL (alphabet : List Str) (maxLen : Nat) : List Str :=
  (List.range (maxLen + 1)).flatMap (wordsL alphabet)
/-- 0 = no match, k+1 = match of k characters; `r` is the text after the match -/
def code (w : Str) (r : Option Str) : Nat :=
  match r with
  | some rest => w.length - rest.length + 1
  | none => 0
/-- the same when the scanner returns the matched text -/
def codeG (r : Option Str) : Nat :=
  match r with
  | some g => g.length + 1
  | none => 0
def bit (b : Bool) : Nat := if b then 1 else 0
'''

TAIL = '''
end Fp.CppTables
'''


def render():
    rows, extra = pattern_rows()
    regexes = "\n".join("    %-36s %s   flags=%d value=%r" % (d, p, f, v) for _, d, (p, f, v) in rows)
    parts = []
    pats = []
    for const, desc, (p, f, v) in rows:
        pats.append("/-- `%s` -/\ndef %s : String × Nat × Option String := (%s, %d, %s)\n"
                    "theorem %s_agrees : %s = Spec.%s := by decide\n"
                    % (desc, const, lean_str(p), f, lean_opt(v), const, const, const))
    for name, val in extra:
        pats.append("def %s : Nat := %d\ntheorem %s_agrees : %s = Spec.%s := by decide\n" % (name, val, name, name, name))
    pats.append("/-- all of them -/\ntheorem patterns_agree :\n    [%s] = [%s] ∧ defPatternCount = Spec.defPatternCount := by\n  decide\n"
                % (", ".join(c for c, _, _ in rows), ", ".join("Spec." + c for c, _, _ in rows)))
    cinfo = ",\n".join("  (%s, %s, [%s], [%s])" % (lean_str(n), lean_str(b), ", ".join(lean_str(x) for x in subs),
                                                  ", ".join(lean_str(x) for x in use))
                       for n, b, subs, use in class_rows())
    srcs = source_rows()
    srctext = ",\n".join("  (%s,\n   %s)" % (lean_str(n), lean_str(t)) for n, t in srcs)
    srcchecks = "".join("theorem source_%d_agrees : sources[%d]? = Spec.sources[%d]? := rfl   -- %s\n" % (i, i, i, n)
                        for i, (n, _) in enumerate(srcs))
    srcchecks += "/-- all of them -/\ntheorem sources_agree : sources = Spec.sources := rfl\n"
    C = live()[0]
    stats = {"patterns": len(rows), "sources": len(srcs)}
    parts.append(HEAD % {
        "nsamples": len(SAMPLES), "regexes": regexes,
        "classnames": ", ".join(lean_str(n) for n in C.CPP_CLASS_NAMES),
        "classinfo": cinfo, "patterns": "\n".join(pats), "sources": srctext, "sourcechecks": srcchecks})
    for name, (lean, oracle, alphabet, maxlen) in regex_tables().items():
        vals = [oracle(w) for w in enum_words(alphabet, maxlen)]
        stats["tbl_" + name] = (len(vals), sum(1 for v in vals if v))
        parts.append(
            "\n/-- the live regex on all %d words of <= %d pieces of %r (%d matches) -/\n"
            "def %sAlphabet : List Str := [%s]\n"
            "def %sExpected : List Nat := [%s]\n"
            "theorem tbl_%s : (enumL %sAlphabet %d).map (fun w => %s) = %sExpected := by\n"
            "  decide +kernel\n"
            % (len(vals), maxlen, alphabet, stats["tbl_" + name][1], name,
               ", ".join(lean_chars(a) for a in alphabet), name, ",".join(str(v) for v in vals),
               name, name, maxlen, lean, name))
    tnames = list(regex_tables())
    parts.append("\n/-- all regex tables -/\ntheorem regex_tables_agree :\n    %s :=\n  ⟨%s⟩\n"
                 % (" ∧\n    ".join("(enumL %sAlphabet %d).map (fun w => %s) = %sExpected"
                                      % (n, regex_tables()[n][3], regex_tables()[n][0], n) for n in tnames),
                    ", ".join("tbl_" + n for n in tnames)))
    table = class_table()
    stats["samples"] = (len(table), sum(1 for _, row in table if any(r != "-" for r in row)))
    parts.append('''
/-! ## class table -/
def sep : Char := Char.ofNat 0
def encOpt : Option Str → Str
  | none => ['-']
  | some t => '+' :: t
/-- class name, str(), kind, fields - NUL separated; `-` for NoMatchError -/
def encNode : Option Node → Str
  | none => ['-']
  | some n =>
    let fields : List Str :=
      match n with
      | .word _ kw a => ["word".toList, kw, encOpt a]
      | .str _ s => ["str".toList, s]
      | .include f => ["include".toList, f]
      | .macro nm pl d => ["macro".toList, nm, encOpt pl, encOpt d]
      | .null => ["null".toList]
    [sep].intercalate (n.cls.name.toList :: render n :: fields)

/-- the sample lines -/
def samples : List Str := [
''')
    parts.append(",\n".join("  " + lean_chars(s) for s, _ in table))
    parts.append("]\n\n/-- per sample line: the live outcome of the twelve classes, in the order of CPP_CLASS_NAMES -/\n"
                 "def outcomes : List (List Str) := [\n")
    parts.append(",\n".join("  [" + ", ".join(lean_chars(r) for r in row) + "]" for _, row in table))
    parts.append("]\n\ntheorem classes_agree :\n"
                 "    samples.map (fun s => realOrder.map fun c => encNode (matchCls c s)) = outcomes := by\n"
                 "  decide +kernel\n")
    parts.append(TAIL)
    return "".join(parts), stats


def spec_text():
    """the `Spec.sources` block to paste into FparserModel/Cpp.lean when the model is (re)validated
    against a new version of the repo"""
    srcs = source_rows()
    return "def sources : List (String × String) := [\n" + ",\n".join(
        "  (%s,\n   %s)" % (lean_str(n), lean_str(t)) for n, t in srcs) + "]\n"


def generate(outdir=None):
    """Write CppTables.lean into `outdir` (default: lean/FparserModel/Generated of this tree)."""
    if outdir is None:
        outdir = os.path.join(os.path.dirname(os.path.dirname(os.path.abspath(__file__))),
                              "lean", "FparserModel", "Generated")
    os.makedirs(outdir, exist_ok=True)
    text, stats = render()
    path = os.path.join(outdir, "CppTables.lean")
    old = None
    if os.path.exists(path):
        with open(path, encoding="utf-8") as f:
            old = f.read()
    if old != text:
        with open(path, "w", encoding="utf-8") as f:
            f.write(text)
    return stats


if __name__ == "__main__":
    if len(sys.argv) > 1 and sys.argv[1] == "--spec":
        sys.stdout.write(spec_text())
    else:
        print(generate(sys.argv[1] if len(sys.argv) > 1 else None))
