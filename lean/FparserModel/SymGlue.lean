import FparserModel.SymTab
import FparserModel.Generated.Intrinsics
/-!
# SymGlue — the glue between Fortran statements and symbol-table operations (C16)

Mirror of the places of `fparser/two/Fortran2003.py`, `Fortran2008/*` and `utils.py` that
drive `fparser.two.symbol_table` (whose operations are `Fp.SymTab`):

* `Use_Stmt.match`                      → `useOp`  (`onlyLoop`, `renameLoop`)
* `Type_Declaration_Stmt.add_to_symbol_table` → `declOps`
* `Intrinsic_Function_Reference.match`  → `resolve` (= `Fp.SymTab.Tables.intrinsicAt` + what takes
                                          over in `Primary` when it returns `None`)
* `BlockBase.match` (`isinstance(obj, ScopingRegionMixin)` → `enter_scope` … `exit_scope`)
  and `Main_Program0.match`             → `run` on a `.scope` item

A program skeleton (`Sk`) is the tree of scoping units with, per unit, the statements that
matter here in source order.  `run` is the ONE-PASS interpretation the parser performs:
every reference is resolved against the tables *as they are when the reference is parsed*.

Python → model
* the entries of an `Only_List` are classified by the class of the node the parser built:
  `Name` → `.name`, `Rename` with `children[0] is None` → `.ren (.sym ..)`, `Rename` with
  `children[0] == 'OPERATOR'` → `.ren (.op ..)`, `Generic_Spec` instance
  (`OPERATOR(..)`, `ASSIGNMENT(=)`) → `.generic`, `Dtio_Generic_Spec` instance
  (`READ(FORMATTED)` …: NOT a Python subclass of `Generic_Spec`, named explicitly in the
  `isinstance` test since repo commit bf50e4e) → `.dtio`.
  `Only.subclass_names` admits nothing else, so the final `else: raise InternalError` of the
  loop is unreachable (kernel-checked against the generated `Generated/SymGlueSites.lean`:
  `only_alternatives_as_assumed`, `only_loop_branches_as_assumed`).
* `result[3]` of `Use_Stmt._match` is `""`, `","` or `", ONLY:"` → `UseTail`.

Not modelled: the parsing of the statement text itself (the combinator / expression slices),
interface bodies, derived-type definitions (they record nothing: `Silent.component`),
`SymbolTableError` checks (`_enable_checks` is never switched on by the parser: the model
carries the flag and the run starts with it off).
-/
namespace Fp.SymGlue
open Fp Fp.SymTab

inductive Std where
  | f2003 | f2008
deriving DecidableEq, Repr

def cvIntr (names : List String) (gen : List (String × Nat × Option Nat))
    (spec : List (String × String)) : IntrTable :=
  ⟨names.map String.toList, gen.map (fun e => (e.1.toList, e.2.1, e.2.2)),
   spec.map (fun e => (e.1.toList, e.2.toList))⟩

/-- the `Intrinsic_Name` class of the standard in use (generated from the live classes) -/
def itOf : Std → IntrTable
  | .f2003 => cvIntr Generated.intrNames2003 Generated.intrGeneric2003 Generated.intrSpecific2003
  | .f2008 => cvIntr Generated.intrNames2008 Generated.intrGeneric2008 Generated.intrSpecific2008

/-! ## statements -/

/-- a `Rename` node: `(children[0], children[1], children[2])` -/
inductive REntry where
  /-- `local => use` : `children[0] is None` -/
  | sym (loc use : Str)
  /-- `OPERATOR(.a.) => OPERATOR(.b.)` : `children[0] == 'OPERATOR'` -/
  | op (loc use : Str)
deriving DecidableEq, Repr

/-- one child of an `Only_List` -/
inductive OEntry where
  | name (n : Str)
  | ren (r : REntry)
  /-- an instance of `Generic_Spec`: `OPERATOR(+)`, `ASSIGNMENT(=)` -/
  | generic (text : Str)
  /-- an instance of `Dtio_Generic_Spec`: `READ(FORMATTED)`, `WRITE(UNFORMATTED)` … -/
  | dtio (text : Str)
deriving DecidableEq, Repr

/-- `(result[3], result[4])` of `Use_Stmt._match` -/
inductive UseTail where
  /-- `USE m`                → `("", None)` -/
  | plain
  /-- `USE m, ONLY:`         → `(", ONLY:", None)` -/
  | onlyNothing
  /-- `USE m, ONLY: …`       → `(", ONLY:", Only_List)` -/
  | only (es : List OEntry)
  /-- `USE m, a => b, …`     → `(",", Rename_List)` -/
  | renames (es : List REntry)
deriving DecidableEq, Repr

/-- syntactic shape of one actual argument, as far as it decides which `Primary` alternative
    takes a reference that is not an intrinsic: `sub` can be a section subscript (name,
    integer literal, expression, `a:b`), `nonsub` cannot (real / character / logical literal),
    `kw` is `name = value` -/
inductive Arg where
  | sub | nonsub | kw
deriving DecidableEq, Repr

/-- `name(args)` in an expression -/
structure Ref where
  name : Str
  args : List Arg
deriving DecidableEq, Repr

/-- one `Entity_Decl`: `items[0].string` and a reference inside its array bounds /
    initialisation (parsed while the statement is matched, i.e. BEFORE it is recorded) -/
structure Entity where
  name : Str
  inner : Option Ref := none
deriving DecidableEq, Repr

/-- `result[0]` of `Type_Declaration_StmtBase.match` -/
inductive TSpec where
  /-- `isinstance(result[0], Intrinsic_Type_Spec)`, `text = str(result[0])` -/
  | intrinsic (text : Str)
  /-- `TYPE(t)` / `CLASS(t)` : `Declaration_Type_Spec` -/
  | derived (text : Str)
deriving DecidableEq, Repr

/-- statement kinds that introduce a name and record NOTHING (no call site) -/
inductive Silent where
  /-- `Data_Component_Def_Stmt` inside a derived-type definition -/
  | component
  | parameterStmt | dimensionStmt | externalStmt
  /-- `f(x) = …` (`Stmt_Function_Stmt`) -/
  | stmtFunction
  /-- first use of an implicitly typed name (`n = 1`) -/
  | implicitName
deriving DecidableEq, Repr

inductive Stmt where
  | use (mod : Str) (tail : UseTail)
  | decl (ts : TSpec) (ents : List Entity)
  /-- `lhs = name(args)` -/
  | assign (r : Ref)
  | silent (k : Silent) (name : Str)
deriving DecidableEq, Repr

/-! ## skeletons -/

inductive ScopeKind where
  | program | module | submodule | function | subroutine | block
  /-- main program without PROGRAM statement (`Main_Program0`) -/
  | main0
deriving DecidableEq, Repr

/-- A program skeleton as a cons-list of items; an item is a statement or a scoping unit
    with its own item list.  (`name` of a scope = what `get_scope_name()` returns; dummy
    arguments of a subprogram are not part of the skeleton: nothing records them.) -/
inductive Sk where
  | nil
  | stmt (s : Stmt) (rest : Sk)
  | scope (k : ScopeKind) (name : Str) (body : Sk) (rest : Sk)
deriving Repr

def Sk.append : Sk → Sk → Sk
  | .nil, b => b
  | .stmt s r, b => .stmt s (r.append b)
  | .scope k n body r, b => .scope k n body (r.append b)

/-- `table_name` : `get_scope_name()` of the start statement / the fixed name of
    `Main_Program0.match` -/
def scopeName (k : ScopeKind) (name : Str) : Str :=
  match k with
  | .main0 => "fparser2:main_program".toList
  | _ => name

/-- the start statement class exists in the standard (`Block_Stmt`, `Submodule_Stmt` are
    Fortran2008 classes) -/
def scopeInStd (std : Std) (k : ScopeKind) : Bool :=
  match std, k with
  | .f2003, .block => false
  | .f2003, .submodule => false
  | _, _ => true

/-! ## `Use_Stmt.match` -/

inductive Abort where
  /-- `InternalSyntaxError` of `Intrinsic_Function_Reference.match` → `FortranSyntaxError` -/
  | syntaxError
  /-- `KeyError` out of `generic_function_names[...]` -/
  | keyError
  /-- the statement is not matched in this standard → `FortranSyntaxError` -/
  | noMatch
  /-- a `SymbolTableError` escaping -/
  | symtab
deriving DecidableEq, Repr

/-- `for child in result[4].children:` of `Use_Stmt.match`.  (The loop ends with
    `else: raise InternalError(...)`; no child of an `Only_List` reaches it — see the header.) -/
def onlyLoop : List OEntry → List (Str × Option Str)
  | [] => []
  | .name n :: r =>
    -- `only_list.append((child.string, None))`
    (n, none) :: onlyLoop r
  | .ren (.sym l u) :: r =>
    -- `if not child.children[0]: only_list.append((children[1].string, children[2].string))`
    (l, some u) :: onlyLoop r
  | .ren (.op _ _) :: r => onlyLoop r
  | .generic _ :: r =>
    -- `elif isinstance(child, (Generic_Spec, Dtio_Generic_Spec)): pass`
    onlyLoop r
  | .dtio _ :: r =>
    -- the same branch (second class of the tuple)
    onlyLoop r

/-- `for rename in walk(result[4], Rename): if rename.children[0] is None: …append(…)` -/
def renameLoop : List REntry → List (Str × Str)
  | [] => []
  | .sym l u :: r => (l, u) :: renameLoop r
  | .op _ _ :: r => renameLoop r

/-- arguments of `table.add_use_symbols(str(result[2]), only_list, rename_list)` -/
def useArgs : UseTail → Option (List (Str × Option Str)) × Option (List (Str × Str))
  | .plain => (none, none)
  -- `if "only" in result[3].lower(): only_list = []`
  | .onlyNothing => (some [], none)
  | .only es => (some (onlyLoop es), none)
  | .renames es => (none, some (renameLoop es))

/-! ## operations on the current scope -/

/-- apply `g` to the data of the current scope's table (`table = SYMBOL_TABLES.current_scope;
    if table: …`) -/
def onCurrent (s : Tables) (g : Local → Local) : Tables :=
  match s.cur with
  | none => s
  | some p => s.updTable p (fun t => .mk (g t.loc) t.children)

/-- `table.add_use_symbols(name, only_list, rename_list)` on the current scope -/
def addUse (s : Tables) (mod : Str) (only : Option (List (Str × Option Str)))
    (rename : Option (List (Str × Str))) : Tables :=
  onCurrent s (fun l => l.addUseSymbols mod only rename)

/-- `table.add_data_symbol(name, ptype)` on the current scope -/
def addSym (s : Tables) (name ptype : Str) : Except Abort Tables :=
  match s.cur with
  | none => .ok s
  | some p =>
    match s.tableAt p with
    | none => .ok s
    | some t =>
      match t.loc.addDataSymbol name ptype with
      | .ok l => .ok (s.updTable p (fun t => .mk l t.children))
      | .error _ => .error .symtab

/-- `for decl in walk(result, Entity_Decl): table.add_data_symbol(decl.items[0].string, str(result[0]))` -/
def addSyms (s : Tables) (ptype : Str) : List Entity → Except Abort Tables
  | [] => .ok s
  | e :: r =>
    match addSym s e.name ptype with
    | .ok s' => addSyms s' ptype r
    | .error a => .error a

/-! ## references -/

inductive RefKind where
  | intrinsic
  /-- `Designator` → `Part_Ref` -/
  | partRef
  /-- `Structure_Constructor` -/
  | structCons
deriving DecidableEq, Repr

/-- which later `Primary` alternative accepts `name(args)` once
    `Intrinsic_Function_Reference` has refused: `Part_Ref` needs a non-empty list of section
    subscripts; otherwise `Structure_Constructor` (before `Function_Reference`) takes it -/
def fallback (r : Ref) : RefKind :=
  if !r.args.isEmpty && r.args.all (· == .sub) then .partRef else .structCons

/-- what a reference becomes, given the result of `Intrinsic_Function_Reference.match` -/
def ofIntrRes (r : Ref) : IntrRes → Except Abort RefKind
  | .isIntrinsic => .ok .intrinsic
  | .noMatch => .ok (fallback r)
  | .syntaxError => .error .syntaxError
  | .keyErrorEscapes => .error .keyError

/-- **resolve**: how `name(args)` is represented when parsed with the tables `s` -/
def resolve (s : Tables) (std : Std) (r : Ref) : Except Abort RefKind :=
  ofIntrRes r (s.intrinsicAt (itOf std) r.name r.args.length)

/-! ## the one-pass run -/

structure St where
  tabs : Tables := {}
  /-- the references met so far, in source order -/
  log : List RefKind := []
deriving Repr

def logRef (std : Std) (st : St) (r : Ref) : Except Abort St :=
  match resolve st.tabs std r with
  | .ok k => .ok { st with log := st.log ++ [k] }
  | .error a => .error a

/-- references inside the entity declarations are parsed before anything is recorded -/
def logInner (std : Std) (st : St) : List Entity → Except Abort St
  | [] => .ok st
  | e :: r =>
    match e.inner with
    | none => logInner std st r
    | some rf =>
      match logRef std st rf with
      | .ok st' => logInner std st' r
      | .error a => .error a

def execStmt (std : Std) (st : St) : Stmt → Except Abort St
  | .use mod tail =>
    .ok { st with tabs := addUse st.tabs mod (useArgs tail).1 (useArgs tail).2 }
  | .decl ts ents =>
    match logInner std st ents with
    | .error a => .error a
    | .ok st1 =>
      match ts with
      -- `if table and isinstance(result[0], Intrinsic_Type_Spec):`
      | .intrinsic text =>
        match addSyms st1.tabs text ents with
        | .ok t => .ok { st1 with tabs := t }
        | .error a => .error a
      | .derived _ => .ok st1
  | .assign r => logRef std st r
  | .silent _ _ => .ok st

def run (std : Std) : Sk → St → Except Abort St
  | .nil, st => .ok st
  | .stmt s rest, st =>
    match execStmt std st s with
    | .ok st' => run std rest st'
    | .error a => .error a
  | .scope k name body rest, st =>
    if !scopeInStd std k then .error .noMatch
    else
      -- `SYMBOL_TABLES.enter_scope(table_name, obj)`
      let st1 : St := { st with tabs := st.tabs.enterScope (scopeName k name) (k == .submodule) }
      match run std body st1 with
      | .error a => .error a
      | .ok st2 =>
        -- `SYMBOL_TABLES.exit_scope()`
        match st2.tabs.exitScope with
        | .error _ => .error .symtab
        | .ok t3 => run std rest { st2 with tabs := t3 }

/-- **populate**: the symbol tables after a successful parse of the skeleton -/
def populate (std : Std) (sk : Sk) : Except Abort Tables :=
  (run std sk {}).map (·.tabs)

/-- the kinds of all references of the skeleton in source order -/
def refKinds (std : Std) (sk : Sk) : Except Abort (List RefKind) :=
  (run std sk {}).map (·.log)

/-! ## the call sites the model assumes (compared with `Generated/SymGlueSites.lean`) -/

/-- (module, class.method, callee) for every call of one of the four table operations outside
    `symbol_table.py` -/
def assumedSites : List (String × String × String) :=
  [("Fortran2003", "Type_Declaration_Stmt.add_to_symbol_table", "add_data_symbol"),
   ("Fortran2003", "Type_Declaration_Stmt.match", "add_to_symbol_table"),
   ("Fortran2003", "Main_Program0.match", "enter_scope"),
   ("Fortran2003", "Main_Program0.match", "exit_scope"),
   ("Fortran2003", "Use_Stmt.match", "add_use_symbols"),
   ("utils", "BlockBase.match", "enter_scope"),
   -- twice: the cleanup path (`except (FortranSyntaxError, InternalSyntaxError)`) and the normal one
   ("utils", "BlockBase.match", "exit_scope"),
   ("utils", "BlockBase.match", "exit_scope")]

/-- classes whose instances are `ScopingRegionMixin` (start statements that open a scope) -/
def assumedScoping : Std → List String
  | .f2003 => ["Function_Stmt", "Module_Stmt", "Program_Stmt", "Subroutine_Stmt"]
  | .f2008 => ["Block_Stmt", "Function_Stmt", "Module_Stmt", "Program_Stmt", "Submodule_Stmt",
               "Subroutine_Stmt"]

/-- `Only.subclass_names`: the classification `OEntry` is exhaustive -/
def assumedOnlyAlternatives : List String := ["Generic_Spec", "Only_Use_Name", "Rename"]

/-- the `if / elif / else` chain of the only-list loop of `Use_Stmt.match`: classes tested by
    `isinstance(child, …)` and what the branch does -/
def assumedOnlyLoopBranches : List (String × String) :=
  [("Name", "append"), ("Rename", "append"), ("Generic_Spec|Dtio_Generic_Spec", "pass"), ("else", "raise")]

/-- `Primary.subclass_names`: the intrinsic alternative is tried first, `Designator`
    (→ `Part_Ref`) before `Structure_Constructor` before `Function_Reference` -/
def assumedPrimaryAlternatives : List String :=
  ["Intrinsic_Function_Reference", "Constant", "Designator", "Array_Constructor",
   "Structure_Constructor", "Function_Reference", "Type_Param_Inquiry", "Type_Param_Name",
   "Parenthesis"]

end Fp.SymGlue
