import FparserModel.Tree
/-!
# Tree3 — HOW fparser2 builds its trees, and copies started anywhere

Additions to `Fp.Tree` (the arena, `_set_parent`, `walk`, the copy protocol); nothing there is
changed.

## 1. the construction discipline (`fparser/two/utils.py`, `Base.__new__`)

    result = cls.match(string)          # children are results of their own `SubCls(...)` call,
                                        # i.e. of `__new__` followed by `__init__` (parent = None)
    obj = object.__new__(cls)           # Ev.alloc
    _set_parent(obj, result)            # Ev.attach obj result   (the ONLY caller of _set_parent)
    obj.init(*result)                   # Ev.children obj …      (`items` / `content`)
    return obj                          # then `type.__call__` runs `__init__`: Ev.reset obj
                                        # (again for every class of the delegation chain
                                        #  `Expr(..) → Level_5_Expr(..) → … → Name(..)`)

Every combinator (`BlockBase.match` building `content` incrementally, `SequenceBase`,
`BinaryOpBase`, `KeywordValueBase`, `CallBase`, …) only *returns* the child objects; the
container object does not exist before its children are complete.  Three code paths deviate:

* **re-use** — `Line.parse_line` caches the statement object per `(item, cls)`
  (`readfortran.py`, `parse_cache`).  When a block attempt is abandoned after an INNER block
  had succeeded (`restore_reader`), the re-parse hands out the SAME statement object, still
  listed by the abandoned inner container: `Base.__new__` (reader branch) returns it, `__init__`
  resets its parent, a new container attaches it.  Modelled: a `reset` of a node that its
  container still lists kills that container and all its ancestors (`dead`); dead objects may
  never be attached again nor be the root.
* **steal** — `Equivalence_Set.match`: `tmp = Equivalence_Object_List(line); obj = tmp.items[0];
  tmp.items = tmp.items[1:]; return obj, tmp`: an attached node is attached to another
  container after its old container stopped listing it.  Modelled: `attach` accepts a node
  with a parent iff that parent no longer lists it.
* post-construction assignment to `items` (`Io_Control_Spec_List.match`: `io_spec.items =
  (None, io_spec.items[1])`) — a `children` event, accepted when every listed node already has
  the container as its parent.

`buOk`/`buStep` is the discipline as a checker over event histories; `BottomUp evs root` says
the whole history passes and `root` is a live, parentless object at the end.

## 2. copies with the reader item

`Info` is what C18 observes of `node.item` (`readfortran.Line`: `label`, `name`; a
`readfortran.Comment` has neither): `copy.deepcopy` / `pickle` copy the `Line` by value
(it is an ordinary object in the instance dict).
-/
namespace Fp.Tree3
open Fp.Tree

/-! ## the discipline -/

/-- `node.parent` (`none` also for an unallocated id) -/
def par (a : Arena) (n : Nat) : Option Nat := (a[n]?).bind (·.parent)

/-- the nodes `_set_parent` would see in `node.children` -/
def kids (a : Arena) (n : Nat) : List Nat :=
  match a[n]? with
  | some nd => spList nd.children
  | none => []

/-- `n.parent, n.parent.parent, …` (at most `fuel` of them) -/
def ancestors (a : Arena) : Nat → Nat → List Nat
  | 0, _ => []
  | fuel + 1, n =>
    match par a n with
    | none => []
    | some p => p :: ancestors a fuel p

structure BuState where
  a : Arena := []
  /-- objects of abandoned parse attempts: a container one of whose listed children was handed
      out again, and everything above it -/
  dead : List Nat := []
deriving Repr

/-- may `m` be listed in a `_set_parent` call now? -/
def freeNode (s : BuState) (m : Nat) : Bool :=
  !s.dead.contains m &&
  match par s.a m with
  | none => true                                   -- fresh from `__init__`
  | some c => !(kids s.a c).contains m             -- released by its former container

/-- is the event allowed by the construction discipline in state `s`? -/
def buOk (s : BuState) : Ev → Bool
  | .alloc _ => true
  | .attach p items =>
    -- the container is a brand-new object: allocated, no children yet, no parent, not dead;
    -- its children are distinct, OLDER, free objects
    decide (p < s.a.length) && (kids s.a p).isEmpty && (par s.a p).isNone && !s.dead.contains p
    && decide (spList items).Nodup
    && (spList items).all (fun m => decide (m < p) && freeNode s m)
  | .reset n => decide (n < s.a.length)
  | .children c items =>
    decide (c < s.a.length) &&
    (s.dead.contains c ||
      (decide (spList items).Nodup
       && (spList items).all (fun n => decide (n < c) && par s.a n == some c)))

def buStep (s : BuState) (ev : Ev) : BuState :=
  { a := step s.a ev
    dead :=
      match ev with
      | .reset n =>
        match par s.a n with
        | some c => if (kids s.a c).contains n then c :: (ancestors s.a s.a.length c ++ s.dead) else s.dead
        | none => s.dead
      | _ => s.dead }

/-- run the checker; `none` = some event violates the discipline -/
def buRun (s : BuState) : List Ev → Option BuState
  | [] => some s
  | ev :: rest => if buOk s ev then buRun (buStep s ev) rest else none

/-- index of the first violating event and the state before it -/
def buFirstBad (s : BuState) (i : Nat) : List Ev → Option (Nat × BuState)
  | [] => none
  | ev :: rest => if buOk s ev then buFirstBad (buStep s ev) (i + 1) rest else some (i, s)

/-- **the construction discipline**: every event of the history is allowed, and at the end
    `root` is an allocated, live object without parent -/
def BottomUp (evs : List Ev) (root : Nat) : Prop :=
  ∃ s, buRun {} evs = some s ∧ root < s.a.length ∧ par s.a root = none ∧ s.dead.contains root = false

def bottomUpB (evs : List Ev) (root : Nat) : Bool :=
  match buRun {} evs with
  | none => false
  | some s => decide (root < s.a.length) && (par s.a root).isNone && !s.dead.contains root

/-! ## a builder: the history of an ordinary (cache-free) construction of a term -/

inductive Term where
  | mk (cls : Nat) (kids : List Term)
deriving Repr, Inhabited

mutual
def Term.size : Term → Nat
  | .mk _ ks => 1 + Term.sizeL ks
def Term.sizeL : List Term → Nat
  | [] => 0
  | t :: ts => t.size + Term.sizeL ts
end

mutual
/-- `build base t` : the events of `Cls(string)` when the arena holds `base` objects; the new
    object gets the id `base + t.size - 1` (children first, left to right). -/
def build (base : Nat) : Term → List Ev
  | .mk cls ks =>
    let me := base + Term.sizeL ks
    buildL base ks ++
      [.alloc cls, .attach me (kidIds base ks), .children me (kidIds base ks), .reset me]
def buildL (base : Nat) : List Term → List Ev
  | [] => []
  | t :: ts => build base t ++ buildL (base + t.size) ts
/-- the `result` tuple: the children objects -/
def kidIds (base : Nat) : List Term → List Item
  | [] => []
  | t :: ts => .node (base + t.size - 1) :: kidIds (base + t.size) ts
end

/-! ## copies with the reader item -/

/-- what is observed of `node.item` -/
structure Info where
  label : Option Nat
  name : Option String
deriving DecidableEq, Repr

/-- `infos[n]` : `none` = `node.item is None` (or a Comment item, which has no label/name) -/
abbrev Infos := List (Option Info)

def infoOf (inf : Infos) (n : Nat) : Option Info := (inf[n]?).join

structure T3 where
  a : Arena
  inf : Infos
deriving Repr

/-- the copy protocol from ANY start node, with the memo (old id, new id) in allocation order
    and the items copied by value -/
def deepcopy3 (facts : Nat → CopyFacts) (T : T3) (n : Nat) :
    Except CopyErr (T3 × Nat × List (Nat × Nat)) :=
  match copyNode facts T.a T.a.length (2 * arenaFuel T.a + 2) n {} with
  | .error e => .error e
  | .ok (y, st) =>
    .ok ({ a := T.a ++ st.out
           inf := (List.range T.a.length).map (infoOf T.inf) ++ st.memo.map (fun p => infoOf T.inf p.1) },
         y, st.memo)

/-- `pickle.loads(pickle.dumps(node))`: `dumps` calls `__getnewargs__` on every object first -/
def pickle3 (facts : Nat → CopyFacts) (T : T3) (n : Nat) :
    Except CopyErr (T3 × Nat × List (Nat × Nat)) :=
  match deepcopy3 (fun c => { facts c with newAccepts := true }) T n with
  | .error e => .error e
  | .ok _ => deepcopy3 facts T n

/-- the labels / construct names met by `walk(root)` -/
def walkInfos (T : T3) (root : Nat) : List (Option Info) := (walkIds T.a root).map (infoOf T.inf)

/-! ## the copy protocol of a class, as the translator sees it (`extract_tree3.py`) -/

/-- facts about one rule class taken from the LIVE class object -/
structure ProtoFacts where
  name : String
  /-- none of `__reduce__`, `__reduce_ex__`, `__getstate__`, `__setstate__`, `__deepcopy__`,
      `__copy__`, `__getnewargs_ex__`, `__slots__` is defined by the class or a base other
      than `object` -/
  defaultReduce : Bool
  /-- length of the tuple `__getnewargs__` returns -/
  nargs : Nat
  /-- `inspect.signature(cls.__new__).bind(cls, *args)` succeeds and binds `_deepcopy=True` -/
  newBinds : Bool
  /-- the class that defines the `__init__` in effect is `Base` (`self.parent = None`) -/
  initIsBase : Bool
  /-- the class that defines `__getnewargs__` / `__new__` in effect -/
  argsFrom : String
  newFrom : String
deriving DecidableEq, Repr

def ProtoFacts.ok (f : ProtoFacts) : Bool := f.defaultReduce && f.newBinds && f.initIsBase

/-- shape of the construction code of `fparser/two/utils.py`, by AST (`extract_tree3.py`) -/
structure ConstructFacts where
  /-- `_set_parent`: `for item in items: if item: if isinstance(item, Base): item.parent = parent_node` -/
  setParentUnconditional : Bool
  /-- … `elif isinstance(item, (list, tuple)): _set_parent(parent_node, item)` -/
  setParentRecurses : Bool
  /-- `Base.__init__` is `self.parent = None` -/
  initResets : Bool
  /-- `Base.__new__`, tuple branch: `object.__new__`, `_set_parent(obj, result)`, `obj.init(*result)`, `return obj` -/
  newOrderOk : Bool
  /-- call sites of `_set_parent` in `fparser.two` (the recursive one and `Base.__new__`) -/
  setParentCalls : Nat
  /-- assignments to an attribute `parent` in `fparser.two` (`_set_parent`, `Base.__init__`) -/
  parentAssignments : Nat
  /-- `parent` is a class attribute of `Base` -/
  parentClassAttr : Bool
  /-- `Line.parse_line` caches per class (the source of re-used statement objects) -/
  lineCache : Bool
deriving DecidableEq, Repr

/-- the events `alloc / attach / children / reset` of the model are what the code does -/
def ConstructFacts.ok (c : ConstructFacts) : Bool :=
  c.setParentUnconditional && c.setParentRecurses && c.initResets && c.newOrderOk
  && c.setParentCalls == 2 && c.parentAssignments == 2 && !c.parentClassAttr

end Fp.Tree3
