import FparserModel.Proofs.BlockRel

/-!
# M-D proofs, part 2: instances of `eval_rel`

* `LogExt`   : the event log only grows;
* `ScopeR`   : unless a leak event is logged, the chain of open scopes is the same afterwards;
* `GuardR g post` : an item `g` that no class matches is never consumed, and nothing behind it
  is ever pulled from the source.
-/
namespace Fp.Block

/-- closure under the primitive state operations (enough for relations that do not look at
the oracle) -/
structure PrimOK0 (R : St → St → Prop) : Prop where
  refl : ∀ s, R s s
  trans : ∀ {a b c}, R a b → R b c → R a c
  get : ∀ s, R s s.get.2
  put : ∀ s x, R s (s.put x)
  /-- logging an oracle query -/
  ev : ∀ s i c, R s (s.ev (.query i c))

structure PrimOK (R : St → St → Prop) : Prop extends PrimOK0 R where
  seen : ∀ s x, R s { s with seen := x :: s.seen }

section prim
variable {env : Env} {R : St → St → Prop} (p : PrimOK R)
include p

theorem leafNew_prim (c : Cls) (pc : List Cls) (s : St) : R s (leafNew env c pc s).2.2 := by
  unfold leafNew
  have hg := p.get s
  split
  · rename_i s1 heq; rw [heq] at hg; exact hg
  · rename_i it s1 heq
    rw [heq] at hg
    simp only at hg
    split
    · exact p.trans hg (p.put _ _)
    · simp only
      have h2 := p.trans hg (p.ev s1 it.id c)
      split
      · split
        · exact h2
        · exact p.trans h2 (p.put _ _)
      · have h3 := p.trans h2 (p.seen (s1.ev (.query it.id c)) (it.id, c))
        split
        · exact h3
        · exact p.trans h3 (p.put _ _)
        · exact p.trans h3 (p.put _ _)
        · exact h3

end prim

section prim0
variable {env : Env} {R : St → St → Prop} (p : PrimOK0 R)
include p

theorem commentNew_prim (s : St) : R s (commentNew env s).2 := by
  unfold commentNew
  have hg := p.get s
  split
  · rename_i s1 heq; rw [heq] at hg; exact hg
  · rename_i it s1 heq
    rw [heq] at hg
    split
    · exact hg
    · exact p.trans hg (p.put _ _)

theorem directiveNew_prim (s : St) : R s (directiveNew env s).2 := by
  unfold directiveNew
  have hg := p.get s
  split
  · rename_i s1 heq; rw [heq] at hg; exact hg
  · rename_i it s1 heq
    rw [heq] at hg
    split
    · split
      · exact hg
      · exact p.trans hg (p.put _ _)
    · exact p.trans hg (p.put _ _)

theorem peek_prim (s : St) :
    R s (match s.get with | (some it, s1) => s1.put it | (none, s1) => s1) := by
  have hg := p.get s
  split
  · rename_i it s1 heq; rw [heq] at hg; exact p.trans hg (p.put _ _)
  · rename_i s1 heq; rw [heq] at hg; exact hg

end prim0

/-! ## the log only grows -/

def LogExt (s s' : St) : Prop := ∃ new, s'.log = new ++ s.log

theorem LogExt.refl (s : St) : LogExt s s := ⟨[], rfl⟩
theorem LogExt.trans {a b c : St} (h1 : LogExt a b) (h2 : LogExt b c) : LogExt a c := by
  obtain ⟨n1, e1⟩ := h1; obtain ⟨n2, e2⟩ := h2
  exact ⟨n2 ++ n1, by rw [e2, e1, List.append_assoc]⟩

@[simp] theorem St.ev_log (s : St) (e : Ev) : (s.ev e).log = e :: s.log := rfl
@[simp] theorem St.put_log (s : St) (x : Item) : (s.put x).log = Ev.put x.id :: s.log := rfl
@[simp] theorem St.get_log (s : St) : s.get.2.log = Ev.get (s.stream.get.1.map (·.id)) :: s.log := rfl
@[simp] theorem St.enter_log (s : St) (n : Name) : (s.enter n).log = Ev.enter n :: s.log := rfl
@[simp] theorem St.exit_log (s : St) : s.exit.2.log = Ev.exit :: s.log := by
  unfold St.exit; split <;> rfl
@[simp] theorem St.remove_log (s : St) (n : Name) : (s.remove n).2.log = Ev.remove n :: s.log := by
  unfold St.remove; split <;> rfl

@[simp] theorem St.rollback_log (s0 s : St) : (St.rollback s0 s).log = Ev.rollback :: s.log := rfl
@[simp] theorem St.rollback_stream (s0 s : St) : (St.rollback s0 s).stream = s.stream := rfl
@[simp] theorem St.rollback_seen (s0 s : St) : (St.rollback s0 s).seen = s.seen := rfl

theorem logExt_prim : PrimOK LogExt where
  refl := LogExt.refl
  trans := LogExt.trans
  get := fun s => ⟨[Ev.get (s.stream.get.1.map (·.id))], rfl⟩
  put := fun s x => ⟨[Ev.put x.id], rfl⟩
  ev := fun s i c => ⟨[Ev.query i c], rfl⟩
  seen := fun s x => ⟨[], rfl⟩

theorem logExt_ok (env : Env) : RelOK env LogExt where
  refl := LogExt.refl
  trans := LogExt.trans
  put := logExt_prim.put
  ev := fun s g _ => ⟨[Ev.ghost g], rfl⟩
  leaf := leafNew_prim logExt_prim
  comment := commentNew_prim logExt_prim.toPrimOK0
  directive := directiveNew_prim logExt_prim.toPrimOK0
  peek := peek_prim logExt_prim.toPrimOK0
  remove := fun s n => ⟨[Ev.remove n], by simp⟩
  exit := fun s n s' h => by
    obtain ⟨new, e⟩ := h
    exact ⟨Ev.exit :: new ++ [Ev.enter n], by simp [e]⟩
  leak := fun s n s' g _ h => by
    obtain ⟨new, e⟩ := h
    exact ⟨Ev.ghost g :: new ++ [Ev.enter n], by simp [e]⟩
  empty := fun s s' h => by
    obtain ⟨new, e⟩ := h
    exact ⟨new ++ [Ev.ghost .emptyScopeName, Ev.enter 0], by simp [e]⟩
  rollback := fun s s' h => by
    obtain ⟨new, e⟩ := h
    exact ⟨Ev.rollback :: new, by simp [e]⟩
  enter_exit_ok := trivial

/-! ## scope chain -/

def isLeak : Ev → Bool
  | .ghost .scopeLeak => true
  | .ghost .main0Leak => true
  | .ghost .emptyScopeName => true
  | _ => false

/-- number of leak events in a log -/
def leaks (l : List Ev) : Nat := (l.filter isLeak).length

theorem leaks_append (a b : List Ev) : leaks (a ++ b) = leaks a + leaks b := by
  simp [leaks, List.filter_append]

theorem leaks_cons_leak (e : Ev) (l : List Ev) (h : isLeak e = true) :
    leaks (e :: l) = leaks l + 1 := by
  simp [leaks, List.filter_cons, h]

theorem leaks_cons_nonleak (e : Ev) (l : List Ev) (h : isLeak e = false) :
    leaks (e :: l) = leaks l := by
  simp [leaks, List.filter_cons, h]

theorem SymTabs.enter_chain (t : SymTabs) (n : Name) : ∃ x, (t.enter n).chain = x :: t.chain := by
  unfold SymTabs.enter
  split
  · rename_i hst
    have ht : t.chain = [] := by simp [SymTabs.chain, hst]
    rw [ht]
    split
    · exact ⟨_, rfl⟩
    · exact ⟨_, rfl⟩
  · exact ⟨_, rfl⟩

theorem SymTabs.exit_chain (t : SymTabs) (x : Nat) (c : List Nat) (hc : t.chain = x :: c) :
    ∃ y, t.exit = some y ∧ y.chain = c := by
  unfold SymTabs.exit
  split
  · rename_i hst; simp [SymTabs.chain, hst] at hc
  · rename_i f hst
    simp [SymTabs.chain, hst] at hc
    exact ⟨_, rfl, by simp [SymTabs.chain, hc.2]⟩
  · rename_i g f fs hst
    simp [SymTabs.chain, hst] at hc
    exact ⟨_, rfl, by simp [SymTabs.chain, hc.2]⟩

theorem SymTabs.remove_chain (t y : SymTabs) (n : Name) (hr : t.remove n = some y) :
    y.chain = t.chain := by
  unfold SymTabs.remove at hr
  have htop : ∀ y, (match findNamed n t.tops with
      | some _ => some { t with tops := eraseFirstNamed n t.tops }
      | none => none) = some y → y.chain = t.chain := by
    intro y hy
    split at hy
    · injection hy with hy; subst hy; rfl
    · cases hy
  simp only at hr
  split at hr
  · rename_i f fs hst
    split at hr
    · injection hr with hr; subst hr; simp [SymTabs.chain, hst]
    · exact htop y hr
  · exact htop y hr

@[simp] theorem St.enter_sym (s : St) (n : Name) : (s.enter n).sym = s.sym.enter n := rfl
@[simp] theorem St.ev_sym (s : St) (e : Ev) : (s.ev e).sym = s.sym := rfl
@[simp] theorem St.put_sym (s : St) (x : Item) : (s.put x).sym = s.sym := rfl
@[simp] theorem St.get_sym (s : St) : s.get.2.sym = s.sym := rfl

theorem St.remove_chain (s : St) (n : Name) : (s.remove n).2.sym.chain = s.sym.chain := by
  unfold St.remove
  split
  · rename_i y hy; exact SymTabs.remove_chain _ _ _ hy
  · rfl

/-- rolling back to a depth that is the current depth keeps the chain -/
theorem SymTabs.rollback_chain_same (t : SymTabs) (names : List Name) :
    (t.rollback names t.stack.length).chain = t.chain := by
  unfold SymTabs.rollback
  simp only [Nat.sub_self, List.take_zero, List.drop_zero]
  cases hst : t.stack with
  | nil => simp [SymTabs.chain, hst]
  | cons f fs => simp [SymTabs.chain, hst, plug]

/-- rolling back drops exactly the frames above the entry depth -/
theorem SymTabs.rollback_chain (t : SymTabs) (names : List Name) (extra base : List Nat)
    (hc : t.chain = extra ++ base) :
    (t.rollback names base.length).chain = base := by
  unfold SymTabs.rollback
  have hl : t.stack.length = extra.length + base.length := by
    have := congrArg List.length hc; simpa [SymTabs.chain] using this
  have hd : (t.stack.drop (t.stack.length - base.length)).map (·.id) = base := by
    have : t.stack.length - base.length = extra.length := by omega
    rw [this, List.map_drop]
    have h2 : t.stack.map (·.id) = extra ++ base := hc
    rw [h2]
    simp
  generalize t.stack.drop (t.stack.length - base.length) = b at hd
  cases b with
  | nil => simp at hd; simp [SymTabs.chain, ← hd]
  | cons f fs => simp [SymTabs.chain] at hd ⊢; exact hd

/-- no leak event since `s` ⇒ same open chain (same `current_scope`, same ancestors) -/
def ScopeR (s s' : St) : Prop :=
  LogExt s s' ∧ (leaks s'.log = leaks s.log → s'.sym.chain = s.sym.chain)

theorem LogExt.leaks_le {s s' : St} (h : LogExt s s') : leaks s.log ≤ leaks s'.log := by
  obtain ⟨new, e⟩ := h; rw [e, leaks_append]; omega

theorem ScopeR.refl (s : St) : ScopeR s s := ⟨LogExt.refl s, fun _ => rfl⟩
theorem ScopeR.trans {a b c : St} (h1 : ScopeR a b) (h2 : ScopeR b c) : ScopeR a c := by
  refine ⟨h1.1.trans h2.1, fun hl => ?_⟩
  have l1 := h1.1.leaks_le
  have l2 := h2.1.leaks_le
  rw [h2.2 (by omega), h1.2 (by omega)]

theorem scopeR_prim : PrimOK ScopeR where
  refl := ScopeR.refl
  trans := ScopeR.trans
  get := fun s => ⟨logExt_prim.get s, fun _ => rfl⟩
  put := fun s x => ⟨logExt_prim.put s x, fun _ => rfl⟩
  ev := fun s i c => ⟨logExt_prim.ev s i c, fun _ => rfl⟩
  seen := fun s x => ⟨logExt_prim.seen s x, fun _ => rfl⟩

theorem scopeR_ok (env : Env) : RelOK env ScopeR where
  refl := ScopeR.refl
  trans := ScopeR.trans
  put := scopeR_prim.put
  ev := fun s g _ => ⟨⟨[Ev.ghost g], rfl⟩, fun _ => rfl⟩
  leaf := leafNew_prim scopeR_prim
  comment := commentNew_prim scopeR_prim.toPrimOK0
  directive := directiveNew_prim scopeR_prim.toPrimOK0
  peek := peek_prim scopeR_prim.toPrimOK0
  remove := fun s n => ⟨(logExt_ok env).remove s n, fun _ => St.remove_chain s n⟩
  exit := fun s n s' h => by
    refine ⟨(logExt_ok env).exit s n s' h.1, fun hl => ?_⟩
    obtain ⟨new, e⟩ := h.1
    have hl' : leaks s'.log = leaks (s.enter n).log := by
      rw [St.exit_log, leaks_cons_nonleak _ _ rfl] at hl
      rw [St.enter_log, leaks_cons_nonleak _ _ rfl]
      exact hl
    have hc := h.2 hl'
    obtain ⟨x, hx⟩ := SymTabs.enter_chain s.sym n
    simp only [St.enter_sym] at hc
    rw [hx] at hc
    obtain ⟨y, hy, hyc⟩ := SymTabs.exit_chain _ _ _ hc
    unfold St.exit
    rw [hy]
    exact hyc
  leak := fun s n s' g hg h => by
    refine ⟨(logExt_ok env).leak s n s' g hg h.1, fun hl => ?_⟩
    exfalso
    have := h.1.leaks_le
    have hgl : isLeak (.ghost g) = true := by rcases hg with rfl | rfl <;> rfl
    rw [St.ev_log, leaks_cons_leak _ _ hgl] at hl
    rw [St.enter_log, leaks_cons_nonleak _ _ rfl] at this
    omega
  empty := fun s s' h => by
    refine ⟨(logExt_ok env).empty s s' h.1, fun hl => ?_⟩
    exfalso
    have := h.1.leaks_le
    rw [St.ev_log, leaks_cons_leak _ _ rfl, St.enter_log, leaks_cons_nonleak _ _ rfl] at this
    omega
  rollback := fun s s' h => by
    refine ⟨(logExt_ok env).rollback s s' h.1, fun hl => ?_⟩
    rw [St.rollback_log, leaks_cons_nonleak _ _ rfl] at hl
    have hc := h.2 hl
    have hlen : s.sym.stack.length = s'.sym.stack.length := by
      have := congrArg List.length hc; simpa [SymTabs.chain] using this.symm
    show (s'.sym.rollback s.sym.topNames s.sym.stack.length).chain = s.sym.chain
    rw [hlen, SymTabs.rollback_chain_same, hc]
  enter_exit_ok := trivial

/-! ## an unmatched item is never passed -/

theorem Stream.get_none {s : Stream} {s1 : Stream} (h : s.get = (none, s1)) :
    s.all = [] ∧ s1.all = [] ∧ s1.rest = s.rest ∧ s1.pulled = s.pulled := by
  unfold Stream.get at h
  cases hb : s.buf with
  | cons y b => simp [hb] at h
  | nil =>
    cases hr : s.rest with
    | cons y r => simp [hb, hr] at h
    | nil =>
      simp [hb, hr] at h
      subst h
      simp [Stream.all, hb, hr]

theorem Stream.get_some {s : Stream} {x : Item} {s1 : Stream} (h : s.get = (some x, s1)) :
    s.all = x :: s1.all ∧ s1.pulled + s1.rest.length = s.pulled + s.rest.length ∧
    ((s.buf ≠ [] ∧ s1.rest = s.rest) ∨ (s.buf = [] ∧ s.rest = x :: s1.rest)) := by
  unfold Stream.get at h
  cases hb : s.buf with
  | cons y b =>
    simp [hb] at h
    obtain ⟨rfl, rfl⟩ := h
    simp [Stream.all, hb]
  | nil =>
    cases hr : s.rest with
    | nil => simp [hb, hr] at h
    | cons y r =>
      simp [hb, hr] at h
      obtain ⟨rfl, rfl⟩ := h
      simp [Stream.all, hb, hr]; omega

/-- the guard property of a stream: `g` is still ahead, followed by exactly `post`, and nothing
of `post` has been pulled from the source -/
def Guarded (g : Item) (post : List Item) (s : Stream) : Prop :=
  (∃ pre, s.all = pre ++ g :: post) ∧ post.length ≤ s.rest.length

def GuardS (g : Item) (post : List Item) (a b : Stream) : Prop :=
  (Guarded g post a → Guarded g post b) ∧ b.pulled + b.rest.length = a.pulled + a.rest.length

def GuardR (g : Item) (post : List Item) (s s' : St) : Prop := GuardS g post s.stream s'.stream

theorem GuardS.refl (g post a) : GuardS g post a a := ⟨id, rfl⟩
theorem GuardS.trans {g post a b c} (h1 : GuardS g post a b) (h2 : GuardS g post b c) :
    GuardS g post a c := ⟨fun h => h2.1 (h1.1 h), by rw [h2.2, h1.2]⟩

theorem GuardS.put (g post) (a : Stream) (x : Item) : GuardS g post a (a.put x) := by
  refine ⟨fun h => ?_, rfl⟩
  obtain ⟨⟨pre, hp⟩, hl⟩ := h
  exact ⟨⟨x :: pre, by simp [Stream.put, Stream.all] at hp ⊢; exact hp⟩, hl⟩

/-- `get` of an item in front of `g` keeps the guard -/
theorem Guarded.get_pre {g post} {s s1 : Stream} {x : Item} (hg : s.get = (some x, s1))
    (h : Guarded g post s) :
    (x = g ∧ s1.all = post ∧ post.length ≤ s1.rest.length) ∨ Guarded g post s1 := by
  obtain ⟨hall, _, hcase⟩ := Stream.get_some hg
  obtain ⟨⟨pre, hp⟩, hl⟩ := h
  rw [hall] at hp
  cases pre with
  | nil =>
    left
    simp at hp
    refine ⟨hp.1, hp.2, ?_⟩
    rcases hcase with ⟨_, hr⟩ | ⟨hb, hr⟩
    · rw [hr]; exact hl
    · have : s1.all = s1.rest := by
        have := hall; simp [Stream.all, hb, hr] at this; simp [Stream.all, this]
      rw [← this, hp.2]; exact Nat.le_refl _
  | cons p pre =>
    right
    simp at hp
    refine ⟨⟨pre, hp.2⟩, ?_⟩
    rcases hcase with ⟨_, hr⟩ | ⟨hb, hr⟩
    · rw [hr]; exact hl
    · have : s1.all = s1.rest := by
        have := hall; simp [Stream.all, hb, hr] at this; simp [Stream.all, this]
      rw [← this, hp.2]; simp; omega

/-- `g` is not a comment and every class answers "no match" on it -/
def Unmatched (env : Env) (g : Item) : Prop :=
  g.kind ≠ .comment ∧ ∀ c, (env.orc g.id c).res = .none ∨ (env.orc g.id c).res = .raise .noMatch

@[simp] theorem St.put_stream (s : St) (x : Item) : (s.put x).stream = s.stream.put x := rfl
@[simp] theorem St.ev_stream (s : St) (e : Ev) : (s.ev e).stream = s.stream := rfl
@[simp] theorem St.get_stream (s : St) : s.get.2.stream = s.stream.get.2 := rfl
@[simp] theorem St.get_fst (s : St) : s.get.1 = s.stream.get.1 := rfl
@[simp] theorem St.enter_stream (s : St) (n : Name) : (s.enter n).stream = s.stream := rfl
@[simp] theorem St.exit_stream (s : St) : s.exit.2.stream = s.stream := by
  unfold St.exit; split <;> rfl
@[simp] theorem St.remove_stream (s : St) (n : Name) : (s.remove n).2.stream = s.stream := by
  unfold St.remove; split <;> rfl

theorem St.get_eq {s : St} {o : Option Item} {s1 : St} (h : s.get = (o, s1)) :
    s.stream.get = (o, s1.stream) := by
  unfold St.get at h
  injection h with h1 h2
  subst h1 h2
  rfl

/-- after reading `x`, putting `x` back re-establishes whatever held before -/
theorem GuardS.get_put {g post} {s s1 : Stream} {x : Item} (hg : s.get = (some x, s1)) :
    GuardS g post s (s1.put x) := by
  obtain ⟨hall, hsum, hcase⟩ := Stream.get_some hg
  refine ⟨fun h => ?_, by simpa [Stream.put] using hsum⟩
  rcases Guarded.get_pre hg h with ⟨rfl, hp, hl⟩ | h1
  · exact ⟨⟨[], by simp [Stream.put, Stream.all] at hp ⊢; exact hp⟩, by simpa [Stream.put] using hl⟩
  · exact (GuardS.put g post s1 x).1 h1

/-- reading an item that is consumed: impossible for `g` itself -/
theorem GuardS.get_consume {g post} {s s1 : Stream} {x : Item} (hg : s.get = (some x, s1))
    (hx : x ≠ g) : GuardS g post s s1 := by
  obtain ⟨_, hsum, _⟩ := Stream.get_some hg
  refine ⟨fun h => ?_, hsum⟩
  rcases Guarded.get_pre hg h with ⟨rfl, _, _⟩ | h1
  · exact absurd rfl hx
  · exact h1

theorem GuardS.get_none {g post} {s s1 : Stream} (hg : s.get = (none, s1)) :
    GuardS g post s s1 := by
  obtain ⟨h0, _, hr, hp⟩ := Stream.get_none hg
  refine ⟨fun h => ?_, by rw [hr, hp]⟩
  obtain ⟨⟨pre, hpre⟩, _⟩ := h
  rw [h0] at hpre
  simp at hpre

theorem guardR_ok (env : Env) (g : Item) (post : List Item) (hu : Unmatched env g) :
    RelOK env (GuardR g post) where
  refl := fun s => GuardS.refl g post s.stream
  trans := fun h1 h2 => GuardS.trans h1 h2
  put := fun s x => GuardS.put g post s.stream x
  ev := fun s e _ => GuardS.refl g post s.stream
  leaf := fun c pc s => by
    unfold GuardR leafNew
    split
    · rename_i s1 heq; exact GuardS.get_none (St.get_eq heq)
    · rename_i it s1 heq
      have hge := St.get_eq heq
      have hback : GuardS g post s.stream (s1.stream.put it) := GuardS.get_put hge
      split
      · exact hback
      · rename_i hk
        simp only
        by_cases hig : it = g
        · -- the unmatched item: always put back
          subst hig
          rcases hu.2 c with hr | hr
          · split
            · rw [hr]; exact hback
            · rw [hr]; exact hback
          · split
            · rw [hr]; exact hback
            · rw [hr]; exact hback
        · have hcons : GuardS g post s.stream s1.stream := GuardS.get_consume hge hig
          split
          · split
            · exact hcons
            · exact hback
          · split
            · exact hcons
            · exact hback
            · exact hback
            · exact hcons
  comment := fun s => by
    unfold GuardR commentNew
    split
    · rename_i s1 heq; exact GuardS.get_none (St.get_eq heq)
    · rename_i it s1 heq
      have hge := St.get_eq heq
      split
      · rename_i hk
        have : it ≠ g := fun e => hu.1 (e ▸ hk)
        exact GuardS.get_consume hge this
      · exact GuardS.get_put hge
  directive := fun s => by
    unfold GuardR directiveNew
    split
    · rename_i s1 heq; exact GuardS.get_none (St.get_eq heq)
    · rename_i it s1 heq
      have hge := St.get_eq heq
      split
      · rename_i hk
        have : it ≠ g := fun e => hu.1 (e ▸ hk)
        split
        · exact GuardS.get_consume hge this
        · exact GuardS.get_put hge
      · exact GuardS.get_put hge
  peek := fun s => by
    unfold GuardR
    split
    · rename_i it s1 heq; exact GuardS.get_put (St.get_eq heq)
    · rename_i s1 heq; exact GuardS.get_none (St.get_eq heq)
  remove := fun s n => by unfold GuardR; rw [St.remove_stream]; exact GuardS.refl _ _ _
  exit := fun s n s' h => by unfold GuardR at *; rw [St.exit_stream]; exact h
  leak := fun s n s' g' _ h => h
  empty := fun s s' h => h
  rollback := fun s s' h => h
  enter_exit_ok := trivial

/-! ## the per-line parse cache: every `(item, class)` pair is parsed at most once -/

/-- `seen` (the keys of all `parse_cache`s) stays duplicate-free -/
def CacheR (s s' : St) : Prop := s.seen.Nodup → s'.seen.Nodup

/-- operations that do not touch the cache keys -/
def SameSeen (s s' : St) : Prop := s'.seen = s.seen

theorem sameSeen_prim : PrimOK0 SameSeen where
  refl := fun _ => rfl
  trans := fun h1 h2 => by unfold SameSeen at *; rw [h2, h1]
  get := fun _ => rfl
  put := fun _ _ => rfl
  ev := fun _ _ _ => rfl

theorem SameSeen.cache {s s' : St} (h : SameSeen s s') : CacheR s s' := by
  intro hn; unfold SameSeen at h; rw [h]; exact hn

theorem cacheR_ok (env : Env) : RelOK env CacheR where
  refl := fun _ h => h
  trans := fun h1 h2 h => h2 (h1 h)
  put := fun _ _ h => h
  ev := fun _ _ _ h => h
  leaf := fun c pc s => by
    unfold CacheR leafNew
    intro h
    split
    · rename_i s1 hg
      have : s1.seen = s.seen := by unfold St.get at hg; injection hg with _ h2; rw [← h2]
      simpa [this] using h
    · rename_i it s1 hg
      have hs : s1.seen = s.seen := by unfold St.get at hg; injection hg with _ h2; rw [← h2]
      split
      · simpa [St.put, hs] using h
      · simp only
        split
        · split
          · simpa [St.ev, hs] using h
          · simpa [St.ev, St.put, hs] using h
        · rename_i hc
          have hn : ((it.id, c) :: s.seen).Nodup := by
            refine List.nodup_cons.2 ⟨?_, h⟩
            intro hm
            apply hc
            simp only [St.ev, hs]
            exact List.elem_eq_true_of_mem hm
          split
          · simpa [St.ev, hs] using hn
          · simpa [St.ev, St.put, hs] using hn
          · simpa [St.ev, St.put, hs] using hn
          · simpa [St.ev, hs] using hn
  comment := fun s => (commentNew_prim sameSeen_prim s).cache
  directive := fun s => (directiveNew_prim sameSeen_prim s).cache
  peek := fun s => (peek_prim sameSeen_prim s).cache
  remove := fun s n => by
    unfold CacheR St.remove; intro h; split <;> exact h
  exit := fun s n s' h => by
    unfold CacheR St.exit at *; intro h0; split <;> exact h h0
  leak := fun s n s' g _ h => h
  empty := fun s s' h => h
  rollback := fun s s' h => h
  enter_exit_ok := trivial

theorem ghostIf_log (b : Bool) (g : Ghost) (s : St) : LogExt s (ghostIf b g s) := by
  unfold ghostIf; split
  · exact ⟨[_], rfl⟩
  · exact LogExt.refl _

theorem seqNR_log (env : Env) {f : F} (hf : FRel LogExt f) (q : Quirks) (cs : List Cls) (rc : List Tree)
    (s : St) : LogExt s (seqNR q f cs rc s).2 := by
  induction cs generalizing rc s with
  | nil => simp only [seqNR]; exact LogExt.refl _
  | cons c cs ih =>
    simp only [seqNR]
    split
    · have h1 := callCatch_rel hf c s
      split
      · rename_i e s1 heq; rw [heq] at h1; exact h1
      · rename_i s1 heq; rw [heq] at h1
        exact h1.trans (restoreRc_rel (logExt_ok env) _ _)
      · rename_i t s1 heq; rw [heq] at h1; exact h1.trans (ih _ _)
    · have h1 := hf c s
      split
      · rename_i e s1 heq; rw [heq] at h1; exact h1.trans (ghostIf_log _ _ _)
      · rename_i s1 heq; rw [heq] at h1; exact h1.trans (ghostIf_log _ _ _)
      · rename_i t s1 heq; rw [heq] at h1; exact h1.trans (ih _ _)

/-! ## the repaired shared-DO `match` never drops -/

def isSeqDrop : Ev → Bool
  | .ghost .seqDrop => true
  | _ => false

/-- number of `seqDrop` events -/
def SD (s : St) : Nat := (s.log.filter isSeqDrop).length

def SeqR (s s' : St) : Prop := SD s' = SD s

theorem SD_ev_other (s : St) (e : Ev) (h : isSeqDrop e = false) : SD (s.ev e) = SD s := by
  simp [SD, St.ev, List.filter_cons, h]

theorem seqR_prim : PrimOK SeqR where
  refl := fun _ => rfl
  trans := fun h1 h2 => by unfold SeqR at *; rw [h2, h1]
  get := fun s => by simp [SeqR, SD, St.get, List.filter_cons, isSeqDrop]
  put := fun s x => by simp [SeqR, SD, St.put, List.filter_cons, isSeqDrop]
  ev := fun s i c => SD_ev_other s _ rfl
  seen := fun _ _ => rfl

/-- for a table whose shared-DO `match` restores (`seqRestores`), no `seqDrop` is ever logged -/
theorem seqR_ok (env : Env) (hq : env.tbl.quirks.seqRestores = true) : RelOK env SeqR where
  refl := fun _ => rfl
  trans := fun h1 h2 => by unfold SeqR at *; rw [h2, h1]
  put := seqR_prim.put
  ev := fun s g he => by
    apply SD_ev_other
    cases g with
    | seqDrop => have := he rfl; rw [hq] at this; cases this
    | _ => rfl
  leaf := leafNew_prim seqR_prim
  comment := commentNew_prim seqR_prim.toPrimOK0
  directive := directiveNew_prim seqR_prim.toPrimOK0
  peek := peek_prim seqR_prim.toPrimOK0
  remove := fun s n => by simp [SeqR, SD, List.filter_cons, isSeqDrop]
  exit := fun s n s' h => by
    unfold SeqR at *
    have : SD s'.exit.2 = SD s' := by simp [SD, List.filter_cons, isSeqDrop]
    rw [this, h]; simp [SD, St.enter, List.filter_cons, isSeqDrop]
  leak := fun s n s' g hg h => by
    unfold SeqR at *
    rw [SD_ev_other _ _ (by rcases hg with rfl | rfl <;> rfl), h]
    simp [SD, St.enter, List.filter_cons, isSeqDrop]
  empty := fun s s' h => by
    unfold SeqR at *
    rw [h]; simp [SD, St.enter, St.ev, List.filter_cons, isSeqDrop]
  rollback := fun s s' h => by
    unfold SeqR at *
    rw [← h]; simp [SD, List.filter_cons, isSeqDrop]
  enter_exit_ok := trivial

/-! ## the frames that were open at entry stay at the bottom of the chain -/

/-- the chain after is the chain before with further frames on top -/
def SufR (s s' : St) : Prop := ∃ extra, s'.sym.chain = extra ++ s.sym.chain

theorem sufR_prim : PrimOK SufR where
  refl := fun _ => ⟨[], rfl⟩
  trans := fun h1 h2 => by
    obtain ⟨e1, h1⟩ := h1; obtain ⟨e2, h2⟩ := h2
    exact ⟨e2 ++ e1, by rw [h2, h1, List.append_assoc]⟩
  get := fun _ => ⟨[], rfl⟩
  put := fun _ _ => ⟨[], rfl⟩
  ev := fun _ _ _ => ⟨[], rfl⟩
  seen := fun _ _ => ⟨[], rfl⟩

theorem sufR_ok (env : Env) : RelOK env SufR where
  refl := sufR_prim.refl
  trans := sufR_prim.trans
  put := sufR_prim.put
  ev := fun _ _ _ => ⟨[], rfl⟩
  leaf := leafNew_prim sufR_prim
  comment := commentNew_prim sufR_prim.toPrimOK0
  directive := directiveNew_prim sufR_prim.toPrimOK0
  peek := peek_prim sufR_prim.toPrimOK0
  remove := fun s n => ⟨[], by simpa using St.remove_chain s n⟩
  exit := fun s n s' h => by
    obtain ⟨extra, he⟩ := h
    obtain ⟨x, hx⟩ := SymTabs.enter_chain s.sym n
    simp only [St.enter_sym] at he
    rw [hx] at he
    cases extra with
    | nil =>
      obtain ⟨y, hy, hyc⟩ := SymTabs.exit_chain _ _ _ he
      refine ⟨[], ?_⟩
      unfold St.exit; rw [hy]; simpa using hyc
    | cons e es =>
      obtain ⟨y, hy, hyc⟩ := SymTabs.exit_chain _ e (es ++ x :: s.sym.chain) (by simpa using he)
      refine ⟨es ++ [x], ?_⟩
      unfold St.exit; rw [hy]; simp [hyc]
  leak := fun s n s' g _ h => by
    obtain ⟨extra, he⟩ := h
    obtain ⟨x, hx⟩ := SymTabs.enter_chain s.sym n
    simp only [St.enter_sym] at he
    rw [hx] at he
    exact ⟨extra ++ [x], by simp [he]⟩
  empty := fun s s' h => by
    obtain ⟨extra, he⟩ := h
    obtain ⟨x, hx⟩ := SymTabs.enter_chain s.sym 0
    simp only [St.ev_sym, St.enter_sym] at he
    rw [hx] at he
    exact ⟨extra ++ [x], by simp [he]⟩
  rollback := fun s s' h => by
    obtain ⟨extra, he⟩ := h
    refine ⟨[], ?_⟩
    have hl : s.sym.stack.length = s.sym.chain.length := by simp [SymTabs.chain]
    show (s'.sym.rollback s.sym.topNames s.sym.stack.length).chain = [] ++ s.sym.chain
    rw [hl, SymTabs.rollback_chain _ _ extra _ he]; rfl
  enter_exit_ok := trivial

/-! ## cost: string-level parses are bounded by item reads -/

def isQuery : Ev → Bool
  | .query .. => true
  | _ => false
def isGet : Ev → Bool
  | .get _ => true
  | _ => false

/-- number of `item.parse_line` calls (cache hits included) -/
def NQ (s : St) : Nat := (s.log.filter isQuery).length
/-- number of `reader.get_item()` / `reader.next()` calls -/
def NG (s : St) : Nat := (s.log.filter isGet).length

/-- every `parse_line` is preceded by its own `get_item` -/
def CostR (s s' : St) : Prop := NQ s' + NG s ≤ NG s' + NQ s

theorem NQ_ev (s : St) (e : Ev) : NQ (s.ev e) = NQ s + (if isQuery e then 1 else 0) := by
  simp only [NQ, St.ev, List.filter_cons]; split <;> simp
theorem NG_ev (s : St) (e : Ev) : NG (s.ev e) = NG s + (if isGet e then 1 else 0) := by
  simp only [NG, St.ev, List.filter_cons]; split <;> simp

theorem costR_refl (s : St) : CostR s s := by unfold CostR; omega
theorem costR_trans {a b c : St} (h1 : CostR a b) (h2 : CostR b c) : CostR a c := by
  unfold CostR at *; omega

/-- steps that log neither a query nor a get -/
theorem costR_quiet {s s' : St} (hq : NQ s' = NQ s) (hg : NG s' = NG s) : CostR s s' := by
  unfold CostR; omega

theorem NQ_put (s : St) (x : Item) : NQ (s.put x) = NQ s := by
  simp [NQ, St.put, List.filter_cons, isQuery]
theorem NG_put (s : St) (x : Item) : NG (s.put x) = NG s := by
  simp [NG, St.put, List.filter_cons, isGet]
theorem NQ_get (s : St) : NQ s.get.2 = NQ s := by
  simp [NQ, St.get, List.filter_cons, isQuery]
theorem NG_get (s : St) : NG s.get.2 = NG s + 1 := by
  simp [NG, St.get, List.filter_cons, isGet]

theorem costR_get_then {s s1 s' : St} {o : Option Item} (hg : s.get = (o, s1))
    (hq : NQ s' ≤ NQ s1 + 1) (hgg : NG s' = NG s1) : CostR s s' := by
  have e1 : s1 = s.get.2 := by rw [hg]
  have h1 := NQ_get s; have h2 := NG_get s
  rw [← e1] at h1 h2
  unfold CostR; omega

theorem costR_ok (env : Env) : RelOK env CostR where
  refl := costR_refl
  trans := costR_trans
  put := fun s x => costR_quiet (NQ_put s x) (NG_put s x)
  ev := fun s g _ => costR_quiet (by simp [NQ_ev, isQuery]) (by simp [NG_ev, isGet])
  leaf := fun c pc s => by
    unfold leafNew
    split
    · rename_i s1 hg
      exact costR_get_then hg (by dsimp only; omega) rfl
    · rename_i it s1 hg
      split
      · exact costR_get_then hg (by dsimp only; rw [NQ_put]; omega) (NG_put _ _)
      · simp only
        have hq : NQ (s1.ev (.query it.id c)) = NQ s1 + 1 := by simp [NQ_ev, isQuery]
        have hgq : NG (s1.ev (.query it.id c)) = NG s1 := by simp [NG_ev, isGet]
        split
        · split
          · exact costR_get_then hg (by dsimp only; omega) hgq
          · exact costR_get_then hg (by dsimp only; rw [NQ_put]; omega) (by rw [NG_put]; exact hgq)
        · split
          · exact costR_get_then hg (Nat.le_of_eq hq) hgq
          · exact costR_get_then hg (by rw [NQ_put]; exact Nat.le_of_eq hq)
              (by rw [NG_put]; exact hgq)
          · exact costR_get_then hg (by rw [NQ_put]; exact Nat.le_of_eq hq)
              (by rw [NG_put]; exact hgq)
          · exact costR_get_then hg (Nat.le_of_eq hq) hgq
  comment := fun s => by
    unfold commentNew
    split
    · rename_i s1 hg; exact costR_get_then hg (by dsimp only; omega) rfl
    · rename_i it s1 hg
      split
      · exact costR_get_then hg (by dsimp only; omega) rfl
      · exact costR_get_then hg (by dsimp only; rw [NQ_put]; omega) (NG_put _ _)
  directive := fun s => by
    unfold directiveNew
    split
    · rename_i s1 hg; exact costR_get_then hg (by dsimp only; omega) rfl
    · rename_i it s1 hg
      split
      · split
        · exact costR_get_then hg (by dsimp only; omega) rfl
        · exact costR_get_then hg (by dsimp only; rw [NQ_put]; omega) (NG_put _ _)
      · exact costR_get_then hg (by dsimp only; rw [NQ_put]; omega) (NG_put _ _)
  peek := fun s => by
    split
    · rename_i it s1 hg; exact costR_get_then hg (by rw [NQ_put]; omega) (NG_put _ _)
    · rename_i s1 hg; exact costR_get_then hg (by omega) rfl
  remove := fun s n => costR_quiet (by simp [NQ, List.filter_cons, isQuery])
    (by simp [NG, List.filter_cons, isGet])
  exit := fun s n s' h => by
    have a : NQ s'.exit.2 = NQ s' := by simp [NQ, List.filter_cons, isQuery]
    have b : NG s'.exit.2 = NG s' := by simp [NG, List.filter_cons, isGet]
    have c : NQ (s.enter n) = NQ s := by simp [NQ, St.enter, List.filter_cons, isQuery]
    have d : NG (s.enter n) = NG s := by simp [NG, St.enter, List.filter_cons, isGet]
    unfold CostR at *; omega
  leak := fun s n s' g _ h => by
    have a : NQ (s'.ev (.ghost g)) = NQ s' := by simp [NQ_ev, isQuery]
    have b : NG (s'.ev (.ghost g)) = NG s' := by simp [NG_ev, isGet]
    have c : NQ (s.enter n) = NQ s := by simp [NQ, St.enter, List.filter_cons, isQuery]
    have d : NG (s.enter n) = NG s := by simp [NG, St.enter, List.filter_cons, isGet]
    unfold CostR at *; omega
  empty := fun s s' h => by
    have c : NQ ((s.enter 0).ev (.ghost .emptyScopeName)) = NQ s := by
      simp [NQ, St.enter, St.ev, List.filter_cons, isQuery]
    have d : NG ((s.enter 0).ev (.ghost .emptyScopeName)) = NG s := by
      simp [NG, St.enter, St.ev, List.filter_cons, isGet]
    unfold CostR at *; omega
  rollback := fun s s' h => by
    have a : NQ (St.rollback s s') = NQ s' := by simp [NQ, List.filter_cons, isQuery]
    have b : NG (St.rollback s s') = NG s' := by simp [NG, List.filter_cons, isGet]
    unfold CostR at *; omega
  enter_exit_ok := trivial

end Fp.Block
